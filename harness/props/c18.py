"""C18 — scalar XML value conversions are exact over the wire value space.

Tie: correspondence. The converter classes of `xml_types/dataconverters.py` and `isoduration.duration_string /
parse_duration` are called directly and compared with the Lean model (`SdcModel/Scalars.lean` on the bit-exact
binary64 model `SdcModel/Fp64.lean`); floats are compared bit by bit through `float.hex()`. The enum literal tables
are regenerated into `Generated/ScalarsEnums.lean` by introspection on every run. Date/time: `SdcModel/ScalarsDt.lean`.
End to end: every scalar attribute / text element property of pm_types, msg_types and the container classes (and a probe class
with truthy implied values) is read through an instance for zero / false / empty and ordinary literals and compared with the
converter and with the model.
"""
from __future__ import annotations

import datetime
import enum
import fractions
import inspect
import multiprocessing
import re
import subprocess
from decimal import Decimal

import core

READY = True
MANIFEST = dict(
    technique='Lean 4 theorems over a bit-exact integer model of the binary64 operations (correctly rounded n/1000, x*1000, round-half-even) with a proved half-ulp error bound, and over transcribed string level models of the decimal / integer / boolean / enum / duration converters; correspondence with the real converters (floats via float.hex()), dense millisecond window exhaustively',
    text='Properties/C18.lean proves: to_xml(to_py(n)) = n for EVERY millisecond count n < 2^53/1000 (no sampling: error analysis of the two roundings proved about the executable rnRat/rnMul), |to_py(to_xml(x)) - x| < 1 ms for every float 0 <= x <= 2^41 s, value preservation and absence of exponent notation for every Decimal with <= 18 digits and exponent in [-18, 18] (both directions, negative and zero included), the duration round trip for every integer microsecond count up to timedelta.max (including the float steps of the parser), parse_date_time(str(info)) == info for every well-formed date/time information, and rejection of every string outside the lexical space of xsd:integer / xsd:decimal (after white space collapse), of the SDPi duration pattern, of the date/time pattern, and of every non-literal for enums. For xsd:boolean the statement is refuted (to_py never rejects) - known finding.',
    note='Model describes the code after fix commits 02af939, 4314acb, f03f008, 95e2f64. The float steps of parse_duration (float(str), modf, frac*1e6, round-half-even) are proved exact on the binary64 model for what duration_string writes. Trusted: CPython int/int true division, float*float, float(str), round(float) being the IEEE-754 correctly rounded operations (compared bit-exactly on every run, dense window 0..2e7 ms exhaustively in the thorough tier); decimal.Decimal constructor / format(d, "f") (transcribed, under correspondence); C implementation of datetime.timedelta(seconds=float) (transcribed from _datetimemodule.c accum/delta_new, under correspondence). The seconds of XsdDateInformation are decimal text in the model (float(text) is compared through the Fp64 model, format(Decimal(repr(x)), "f") is a trusted boundary step). Not modelled: DecimalConverter with USE_DECIMAL_TYPE=False and float py values (_float_to_xml), subnormal / overflowing floats;.',
    ref='5 C18')
DRIVERS = ['drv_c18']
RULE = ('one case = one converter call (class, direction, input); distinct by input; non-trivial = the input is not a fixed '
        'point of both conversions for trivial reasons: timestamps n >= 1, decimals with a fraction or exponent or sign, '
        'strings that need parsing work (sloppy forms count as non-trivial rejections), durations with a non-zero value')
TRUSTED = ['CPython binary64 arithmetic = IEEE-754 round-to-nearest-even (int/int, float*float, float(str), round(float)); compared bit-exactly with the model on every run',
           'decimal.Decimal(str) and format(Decimal, "f") (transcribed from the General Decimal Arithmetic specification, under correspondence)',
           'datetime.timedelta(seconds=float) conversion (C accum/delta_new transcribed onto the Fp64 model, under correspondence)',
           're.fullmatch of the two lexical patterns (transcribed as recognisers, under correspondence incl. non-ASCII digits, signs, underscores, exponents)',
           'repr(float) shortest round trip and Decimal(repr(x)) (XsdDateInformation.__str__): the model starts from the decimal text',
           're module matching of __DATETIME_PATTERN__ / __SDPI_REGEX_DURATION__ (transcribed as recognisers with the same alternative priorities, under correspondence)']
ASSUMPTIONS = ['the end-to-end tie reads one attribute / element at a time through prop.update_from_node + instance attribute access (object.__new__, no constructor)',
               'floats stay in the normal binary64 range (no subnormal result, no overflow); timestamps are non-negative',
               'DecimalConverter.USE_DECIMAL_TYPE is True (library default) and py values handed to DecimalConverter.to_xml are Decimal or int']

TS_LIMIT = (1 << 53) // 1000            # every n with n * 1000 < 2^53
XML_WS = ' \t\n\r'
RE_INT = re.compile(r'[+-]?[0-9]+\Z')
RE_DEC = re.compile(r'[+-]?([0-9]+(\.[0-9]*)?|\.[0-9]+)\Z')
BOOL_LEX = ('true', 'false', '1', '0')


# ---------------------------------------------------------------------------------------------------------------
# helpers
def _mods():
    from sdc11073.xml_types import dataconverters as dc
    from sdc11073.xml_types import isoduration as iso
    return dc, iso


def fp(x: float):
    """canonical (neg, m, e) of a finite float with x == (-1)^neg * m * 2^e and 2^52 <= m < 2^53, from float.hex()"""
    h = x.hex()
    neg = 0
    if h[0] == '-':
        neg, h = 1, h[1:]
    mant, ex = h[2:].split('p')
    lead, _, frac = mant.partition('.')
    frac = (frac + '0' * 13)[:13]
    m = (int(lead) << 52) | int(frac, 16)
    if m == 0:
        return (neg, 0, 0)
    e = int(ex) - 52
    while m < (1 << 52):        # subnormal: normalise (the model has an unbounded exponent)
        m <<= 1
        e -= 1
    return (neg, m, e)


def fp_str(x: float) -> str:
    return '%d %d %d' % fp(x)


def hx(s: str) -> str:
    return 'x' + s.encode('utf-8', 'surrogatepass').hex()


def call(f, *a):
    """('ok', value) or ('err', class)"""
    try:
        return ('ok', f(*a))
    except ValueError as ex:      # decimal.InvalidOperation is not a ValueError: reported as its own class
        return ('err', 'value' if type(ex) is ValueError else type(ex).__name__)
    except OverflowError:
        return ('err', 'overflow')
    except Exception as ex:  # noqa: BLE001
        return ('err', type(ex).__name__)


class Batch:
    """collects driver lines with the implementation's canonical answer and a callback for the comparison"""

    def __init__(self, ctx):
        self.ctx = ctx
        self.lines, self.expect, self.what, self.cases = [], [], [], []

    def add(self, line, impl_out, what, case):
        self.lines.append(line)
        self.expect.append(impl_out)
        self.what.append(what)
        self.cases.append(case)

    def flush(self):
        if not self.ctx.driver_ok or not self.lines:
            return
        out = self.ctx.driver('drv_c18', self.lines)
        for o, e, w, c in zip(out, self.expect, self.what, self.cases):
            if o != e:
                self.ctx.disagree(w, c, o, e)
        self.lines, self.expect, self.what, self.cases = [], [], [], []


# ---------------------------------------------------------------------------------------------------------------
# translator: enum literal tables
def _enum_classes():
    from sdc11073.xml_types import msg_types, pm_types
    res = []
    for mod in (pm_types, msg_types):
        for name, cls in sorted(vars(mod).items()):
            if inspect.isclass(cls) and issubclass(cls, enum.Enum) and cls.__module__ == mod.__name__ and len(cls) > 0 \
                    and all(isinstance(m.value, str) for m in cls):
                res.append((f'{mod.__name__.split(".")[-1]}.{name}', cls))
    return res


def translate(ctx):
    rows = []
    for name, cls in _enum_classes():
        lits = ', '.join('[' + ', '.join(str(ord(c)) for c in m.value) + ']' for m in cls)
        rows.append(f'  ("{name}", [{lits}])')
    src = ('import SdcModel.Scalars\n/-! generated by harness/props/c18.py from the enum classes of pm_types / msg_types '
           '(values of the members, in definition order) -/\nnamespace Sdc.Generated\nopen Sdc.Scalars\n'
           'def enumTables : List (String × List Str) := [\n' + ',\n'.join(rows) + ']\nend Sdc.Generated\n')
    core.write_if_changed(core.GENERATED + '/ScalarsEnums.lean', src)


# ---------------------------------------------------------------------------------------------------------------
# timestamps
def ts_oracle_n(ctx, dc, n):
    s = str(n)
    back = dc.TimestampConverter.to_xml(dc.TimestampConverter.to_py(s))
    if back != s:
        ctx.fail('timestamp:xml-py-xml', f'to_xml(to_py({s!r})) == {back!r}', {'kind': 'ts-n', 'n': n})
        return False
    return True


def ts_oracle_x(ctx, dc, x):
    """|to_py(to_xml(x)) - x| < 1 ms, evaluated exactly"""
    back = dc.TimestampConverter.to_py(dc.TimestampConverter.to_xml(x))
    if abs(fractions.Fraction(back) - fractions.Fraction(x)) >= fractions.Fraction(1, 1000):
        ctx.fail('timestamp:py-xml-py', f'to_py(to_xml({x!r})) == {back!r}', {'kind': 'ts-x', 'x': x.hex() if isinstance(x, float) else str(x)})


def _ts_window_impl(args):
    """(bad, checksum) of the implementation over [a, b); same definition as Driver/C18.lean tsWindow"""
    a, b = args
    from sdc11073.xml_types.dataconverters import TimestampConverter as T
    bad, cs, mask = [], 0, (1 << 64) - 1
    to_py, to_xml = T.to_py, T.to_xml
    for n in range(a, b):
        s = str(n)
        x = to_py(s)
        k = to_xml(x)
        if k != s:
            bad.append(n)
        if n == 0:
            m, e = 0, 0
        else:
            h = x.hex()               # '0x1.<13 hex>p<exp>'
            m = (1 << 52) | int(h[4:17], 16)
            e = int(h[18:]) - 52
        cs = (cs + m * (n % 65521 + 1) + (e + 1100) * 31 + int(k) * 17) & mask
    return a, b, bad[:5], len(bad), cs


def run_timestamps(ctx, dc):
    T = dc.TimestampConverter
    b = Batch(ctx)
    # -- dense window: line by line over [0, 2e4) (diagnosable), by checksum over [0, 2e5) (quick) / [0, 2e7) (thorough)
    dense = 20_000
    for n in range(dense):
        s = str(n)
        r = call(T.to_py, s)
        b.add('tspy ' + hx(s), 'ok ' + fp_str(r[1]) if r[0] == 'ok' else 'err ' + r[1], 'TimestampConverter.to_py', {'s': s})
        if r[0] == 'ok':
            b.add('tsxml ' + fp_str(r[1]), 'ok ' + T.to_xml(r[1]), 'TimestampConverter.to_xml', {'x': r[1].hex()})
        ts_oracle_n(ctx, dc, n)
        ctx.case(('ts', n), nontrivial=n > 0, sample={'to_py': s, 'float': r[1].hex(), 'to_xml': T.to_xml(r[1])} if n == 1001 else None)
    ctx.count('ts:dense-window', dense)
    # -- random n over the whole range, biased to the top and to powers of two
    rng = ctx.subrng('ts')
    for i in range(ctx.n(100_000, 1_000_000)):
        k = i % 4
        if k == 0:
            n = rng.randrange(TS_LIMIT)
        elif k == 1:
            n = rng.randrange(1 << rng.randrange(1, 53)) % TS_LIMIT
        elif k == 2:
            n = TS_LIMIT - 1 - rng.randrange(1 << 20)
        else:
            p = 1 << rng.randrange(1, 53)
            n = max(0, min(TS_LIMIT - 1, (p + rng.randrange(-3, 4)) * rng.choice([1, 1000]) // rng.choice([1, 1000])))
        s = str(n)
        x = T.to_py(s)
        b.add('tspy ' + hx(s), 'ok ' + fp_str(x), 'TimestampConverter.to_py', {'s': s})
        b.add('tsxml ' + fp_str(x), 'ok ' + T.to_xml(x), 'TimestampConverter.to_xml', {'x': x.hex()})
        ts_oracle_n(ctx, dc, n)
        ctx.case(('ts', n))
    ctx.count('ts:random-n', ctx.n(100_000, 1_000_000))
    # -- random floats (py -> xml -> py), all magnitudes up to 2^41 s, plus neighbours of half-millisecond points
    for i in range(ctx.n(50_000, 500_000)):
        k = i % 5
        if k == 0:
            x = rng.random() * 2.0 ** rng.randrange(-30, 42)
        elif k == 1:
            x = rng.uniform(1.5e9, 2.0e9)      # plausible epoch seconds
        elif k == 2:
            x = (rng.randrange(1 << 44) + 0.5) / 1000     # near ties of round()
            x = [x, float.fromhex(x.hex()), x * (1 + 2 ** -52), x * (1 - 2 ** -53)][rng.randrange(4)]
        elif k == 3:
            x = float(rng.randrange(1 << 41))
        else:
            x = rng.choice([0.0, -0.0, 0.0004999, 0.0005, 0.0015, 0.0025, 2.0 ** 41, 1e-300, 5e-324, 2.5, 1e-5])
        x = min(x, 2.0 ** 41)
        b.add('tsxml ' + fp_str(x), 'ok ' + T.to_xml(x), 'TimestampConverter.to_xml', {'x': x.hex()})
        ts_oracle_x(ctx, dc, x)
        ctx.case(('tsx', x.hex()), nontrivial=x != 0)
    ctx.count('ts:random-float', ctx.n(50_000, 500_000))
    # -- other py types accepted by check_valid (oracle only)
    for v in (10, 0, 1700000000, Decimal('1.0005'), Decimal('1700000000.123'), Decimal('0.0014999')):
        ts_oracle_x(ctx, dc, v)
        ctx.case(('tsv', str(v)))
    # -- negative / signed forms through to_py (model has the sign)
    for s in ('-0', '+17', '-1001', '-5', ' 12\n', '007'):
        r = call(T.to_py, s)
        b.add('tspy ' + hx(s), 'ok ' + fp_str(r[1]) if r[0] == 'ok' else 'err ' + r[1], 'TimestampConverter.to_py', {'s': s})
        ctx.case(('ts-s', s))
    b.flush()
    if ctx.tier == 'thorough':
        run_ts_dense(ctx, 20_000_000, 500_000, 8)
    else:
        run_ts_dense(ctx, 200_000, 50_000, 1)


def run_ts_dense(ctx, hi, step, procs):
    chunks = [(a, min(a + step, hi)) for a in range(0, hi, step)]
    if procs > 1:
        with multiprocessing.Pool(procs) as pool:
            impl = pool.map(_ts_window_impl, chunks)
    else:
        impl = [_ts_window_impl(c) for c in chunks]
    out = ctx.driver('drv_c18', [f'tswin {a} {b}' for a, b in chunks]) if ctx.driver_ok else None
    for i, (a, b, bad, nbad, cs) in enumerate(impl):
        for n in bad:
            ctx.fail('timestamp:xml-py-xml', f'to_xml(to_py({n})) != {n}', {'kind': 'ts-n', 'n': n})
        if out is not None and out[i] != f'ok {nbad} {cs}':
            ctx.disagree('dense timestamp window (checksum over mantissa, exponent, to_xml)', {'window': [a, b]}, out[i], f'ok {nbad} {cs}')
    ctx.evaluations += hi
    ctx.count('ts:dense-window-checksum', hi)
    ctx.notes['dense_window'] = f'0 .. {hi} ms exhaustively through model and implementation (checksum per {step})'


# ---------------------------------------------------------------------------------------------------------------
# integers / booleans / enums / lexical junk
SLOPPY = ['', ' ', '1_000', '1__0', '_1', '٣', '１２', '१२', '1e3', '1E3', '0x10', '0b1', '0o7', '1.0', '1.', '.', '+', '-', '+-1', '--1',
          '1 2', '1 2', ' 12', '12 ', '\x0c12', '12\x0b', ' 12', '﻿12', '12\x00', 'NaN', 'nan', 'sNaN', 'Infinity', '-Infinity',
          'inf', 'Inf', '1E5', '1e-5', '1.5E+3', '1,5', '1.5.5', '..5', '1_0.5', '1.5_0', 'TRUE', 'True', 'yes', 'no', 'FALSE', 'on', 'off',
          't', 'f', 'true ', ' true', 'true\n', '01', '00', '1 ', ' 0', '10', '2', '-1', '+1', 'truefalse', 'None', 'null', 'abc', '1a', 'a1',
          '１', '+١', '−5', '＋5', '5-', '5+', '+ 5', '- 5', '1\n2', '\t7\r\n', ' +7 ', ' -0 ', '+0', '-0', '+.5', '-.5', '-5.', '5.0', '0.0', '.0',
          '00012', '000.1000', '-000', '9' * 25, '-' + '9' * 25, '0.' + '9' * 25, '9' * 20 + '.' + '9' * 20]


def _mutate(rng, s):
    ops = rng.randrange(8)
    if not s:
        return rng.choice(SLOPPY)
    i = rng.randrange(len(s) + 1)
    if ops == 0:
        return s[:i] + rng.choice('_eE+-., \t\n\xa0٣１') + s[i:]
    if ops == 1:
        return s[:i] + s[i + 1:]
    if ops == 2:
        return rng.choice(XML_WS) + s + rng.choice(XML_WS)
    if ops == 3:
        return s.upper() if s.upper() != s else s.title()
    if ops == 4:
        return s[:i] + chr(rng.choice([0x660, 0xff10, 0x966]) + rng.randrange(10)) + s[i:]
    if ops == 5:
        return s + rng.choice(['E5', 'e-3', '_0', '.', '..', 'f', 'L', 'j'])
    if ops == 6:
        return rng.choice(['+', '-', '+-', ' ']) + s
    return s[:i] + rng.choice('0123456789') + s[i:]


def lexical_oracle(ctx, kind, s, res):
    """lexical forms outside the schema type must be rejected (ValueError), not coerced to a value"""
    t = s.strip(XML_WS)
    inside = {'integer': bool(RE_INT.match(t)), 'decimal': bool(RE_DEC.match(t)), 'timestamp': bool(RE_INT.match(t)),
              'boolean': t in BOOL_LEX}[kind]
    ctx.count(f'lexical:{kind}:' + ('inside' if inside else 'outside') + ':' + res[0])
    if not inside and res[0] == 'ok':
        ctx.fail(f'lexical:{kind}-coerced', f'{kind} to_py({s!r}) returned {res[1]!r} instead of raising ValueError',
                 {'kind': 'lex', 'type': kind, 's': s})
    if not inside and res[0] == 'err' and res[1] != 'value':
        ctx.fail(f'lexical:{kind}-wrong-exception', f'{kind} to_py({s!r}) raised {res[1]}', {'kind': 'lex', 'type': kind, 's': s})
    if inside and res[0] == 'err' and s == t:
        ctx.fail(f'lexical:{kind}-valid-rejected', f'{kind} to_py({s!r}) raised {res[1]}', {'kind': 'lex', 'type': kind, 's': s})


def dec_tuple(d: Decimal):
    sign, digits, exp = d.as_tuple()
    if not isinstance(exp, int):
        return f'special {d}'
    return f'{sign} {int("".join(map(str, digits)) or "0")} {exp}'


def run_lexical(ctx, dc):
    rng = ctx.subrng('lex')
    b = Batch(ctx)
    forms = ['TRUE'] + list(SLOPPY)      # 'TRUE' is the witness of Properties/C18.lean lexical_reject_boolean_refuted
    for _ in range(ctx.n(4000, 40000)):
        base = rng.choice([str(rng.randrange(10 ** rng.randrange(1, 22))), '-%d' % rng.randrange(1000),
                           '%d.%d' % (rng.randrange(1000), rng.randrange(1000)), '.%d' % rng.randrange(100),
                           'true', 'false', '1', '0', rng.choice(SLOPPY)])
        forms.append(_mutate(rng, base) if rng.random() < 0.8 else base)
    for s in forms:
        r = call(dc.IntegerConverter.to_py, s)
        b.add('int ' + hx(s), f'ok {r[1]}' if r[0] == 'ok' else 'err ' + r[1], 'IntegerConverter.to_py', {'s': s})
        lexical_oracle(ctx, 'integer', s, r)
        if r[0] == 'ok':
            if dc.IntegerConverter.to_py(dc.IntegerConverter.to_xml(r[1])) != r[1]:
                ctx.fail('integer:roundtrip', f'{s!r}', {'kind': 'lex', 'type': 'integer', 's': s})
            b.add(f'intxml {r[1]}', 'ok ' + dc.IntegerConverter.to_xml(r[1]), 'IntegerConverter.to_xml', {'i': r[1]})
        r = call(dc.TimestampConverter.to_py, s)
        b.add('tspy ' + hx(s), 'ok ' + fp_str(r[1]) if r[0] == 'ok' else 'err ' + r[1], 'TimestampConverter.to_py', {'s': s})
        lexical_oracle(ctx, 'timestamp', s, r)
        r = call(dc.DecimalConverter.to_py, s)
        b.add('decpy ' + hx(s), 'ok ' + dec_tuple(r[1]) if r[0] == 'ok' else 'err ' + r[1], 'DecimalConverter.to_py', {'s': s})
        lexical_oracle(ctx, 'decimal', s, r)
        r = call(dc.BooleanConverter.to_py, s)
        b.add('bool ' + hx(s), ('ok true' if r[1] else 'ok false') if r[0] == 'ok' else 'err ' + r[1], 'BooleanConverter.to_py', {'s': s})
        lexical_oracle(ctx, 'boolean', s, r)
        if s in BOOL_LEX and r != ('ok', s in ('true', '1')):
            ctx.fail('boolean:value', f'to_py({s!r}) == {r}', {'kind': 'lex', 'type': 'boolean', 's': s})
        ctx.case(('lex', s))
    for v in (True, False):
        b.add(f'boolxml {int(v)}', 'ok ' + dc.BooleanConverter.to_xml(v), 'BooleanConverter.to_xml', {'b': v})
        if dc.BooleanConverter.to_py(dc.BooleanConverter.to_xml(v)) is not v:
            ctx.fail('boolean:roundtrip', str(v), {'kind': 'bool', 'v': v})
    # enums: every literal of every enum class + sloppy variants
    for name, cls in _enum_classes():
        conv = dc.EnumConverter(cls)
        lits = [m.value for m in cls]
        cand = set(lits)
        for lit in lits:
            cand.update({lit.lower(), lit.upper(), lit + ' ', ' ' + lit, lit[:-1], lit + 'x', lit.title(), lit.swapcase()})
        cand.update({'', 'None', '0'})
        for s in sorted(cand):
            r = call(conv.to_py, s)
            if r[0] == 'ok':
                exp = f'ok {list(cls).index(r[1])}'
                if s not in lits:
                    ctx.fail('lexical:enum-coerced', f'{name}({s!r}) -> {r[1]!r}', {'kind': 'enum', 'cls': name, 's': s})
                elif conv.to_xml(r[1]) != s:
                    ctx.fail('enum:roundtrip', f'{name}: to_xml(to_py({s!r})) == {conv.to_xml(r[1])!r}', {'kind': 'enum', 'cls': name, 's': s})
            else:
                exp = 'err ' + r[1]
                if s in lits:
                    ctx.fail('enum:literal-rejected', f'{name}({s!r})', {'kind': 'enum', 'cls': name, 's': s})
            b.add('enum ' + hx(s) + ' ' + ' '.join(hx(x) for x in lits), exp, 'EnumConverter.to_py', {'cls': name, 's': s})
            ctx.case(('enum', name, s), nontrivial=s in lits or s.strip().lower() in [x.lower() for x in lits])
        ctx.count('enum-classes')
    b.flush()


# ---------------------------------------------------------------------------------------------------------------
# decimals
def dec_oracle(ctx, dc, d: Decimal, in_range: bool):
    s = dc.DecimalConverter.to_xml(d)
    if 'E' in s or 'e' in s:
        ctx.fail('decimal:exponent-written', f'to_xml({d!r}) == {s!r}', {'kind': 'dec', 'd': str(d)})
        return s
    if in_range:
        r = call(dc.DecimalConverter.to_py, s)
        if r[0] != 'ok' or r[1] != d:
            ctx.fail('decimal:py-xml-py', f'to_py(to_xml({d!r})) == {r[1]!r} (xml {s!r})', {'kind': 'dec', 'd': str(d)})
    return s


def mk_dec(sign, coeff, exp):
    return Decimal((sign, tuple(int(c) for c in str(coeff)), exp))


def run_decimals(ctx, dc):
    rng = ctx.subrng('dec')
    b = Batch(ctx)
    D = dc.DecimalConverter

    def one(sign, coeff, exp):
        d = mk_dec(sign, coeff, exp)
        in_range = len(str(coeff)) <= 18 and -18 <= exp <= 18
        s = dec_oracle(ctx, dc, d, in_range)
        b.add(f'decxml {sign} {coeff} {exp}', 'ok ' + s, 'DecimalConverter.to_xml', {'d': [sign, coeff, exp]})
        ctx.count('dec:' + ('in-range' if in_range else 'out-of-range'))
        ctx.case(('dec', sign, coeff, exp), nontrivial=not (sign == 0 and exp == 0))

    # every class sign x digit count x exponent, with structured and random coefficients
    for sign in (0, 1):
        for nd in range(1, 23):
            for exp in range(-25, 26):
                coeffs = {10 ** (nd - 1), 10 ** nd - 1, int('1234567890123456789012'[:nd]), int(('5' + '0' * 30)[:nd])}
                for _ in range(ctx.n(1, 6)):
                    coeffs.add(rng.randrange(10 ** (nd - 1), 10 ** nd))
                    c = rng.randrange(10 ** (nd - 1), 10 ** nd)
                    z = rng.randrange(nd)
                    coeffs.add(max(c - c % 10 ** z, 10 ** (nd - 1)))     # trailing zeros
                for c in sorted(coeffs):
                    one(sign, c, exp)
        for exp in range(-30, 31):
            one(sign, 0, exp)
    # xml -> py -> xml on lexical decimals with up to 18 digits
    for _ in range(ctx.n(20000, 200000)):
        nd = rng.randrange(1, 19)
        digits = ''.join(rng.choice('0123456789') for _ in range(nd))
        if rng.random() < 0.3:
            z = rng.randrange(nd + 1)
            digits = rng.choice([digits[:nd - z] + '0' * z, '0' * z + digits[z:]])
        p = rng.randrange(nd + 1)
        s = rng.choice(['', '', '-', '+']) + digits[:p] + rng.choice(['.', '.', '']) + digits[p:]
        if not RE_DEC.match(s):
            s = s + '0'
        if '.' not in s and p < nd:
            pass
        s2 = rng.choice(['', '', '', ' ', '\n']) + s + rng.choice(['', '', '', ' ', '\t'])
        r = call(D.to_py, s2)
        b.add('decpy ' + hx(s2), 'ok ' + dec_tuple(r[1]) if r[0] == 'ok' else 'err ' + r[1], 'DecimalConverter.to_py', {'s': s2})
        if r[0] != 'ok':
            ctx.fail('lexical:decimal-valid-rejected', f'to_py({s2!r}) raised {r[1]}', {'kind': 'lex', 'type': 'decimal', 's': s2})
            continue
        if r[1] != Decimal(s):
            ctx.fail('decimal:xml-py', f'to_py({s2!r}) == {r[1]!r}', {'kind': 'decs', 's': s2})
        x = D.to_xml(r[1])
        sign, digs, exp = r[1].as_tuple()
        b.add('decxml ' + dec_tuple(r[1]), 'ok ' + x, 'DecimalConverter.to_xml', {'d': dec_tuple(r[1])})
        r2 = call(D.to_py, x)
        if 'E' in x.upper() or r2[0] != 'ok' or r2[1] != r[1]:
            ctx.fail('decimal:xml-py-xml', f'to_xml(to_py({s2!r})) == {x!r}', {'kind': 'decs', 's': s2})
        ctx.case(('decs', s2))
    ctx.count('dec:lexical-strings', ctx.n(20000, 200000))
    # ints handed to to_xml
    for i in (0, 42, -7, 10 ** 20):
        if D.to_xml(i) != str(i):
            ctx.fail('decimal:int', str(i), {'kind': 'dec', 'd': str(i)})
    b.flush()


# ---------------------------------------------------------------------------------------------------------------
# the conversions must not depend on the decimal context of the calling thread (precision, rounding mode, traps)
def decimal_contexts():
    import decimal
    return [('prec6', decimal.Context(prec=6)),
            ('prec9-down', decimal.Context(prec=9, rounding=decimal.ROUND_DOWN)),
            ('prec50-up', decimal.Context(prec=50, rounding=decimal.ROUND_UP)),
            ('prec3-ceiling-smallE', decimal.Context(prec=3, rounding=decimal.ROUND_CEILING, Emax=5, Emin=-5)),
            ('prec6-traps', decimal.Context(prec=6, traps=[decimal.Inexact, decimal.Rounded, decimal.Subnormal, decimal.InvalidOperation,
                                                            decimal.Overflow, decimal.Underflow, decimal.DivisionByZero]))]


def run_decimal_contexts(ctx, dc, b):
    import decimal
    rng = ctx.subrng('dec-ctx')
    decs = [Decimal('1234567.891'), Decimal('-1234567.891'), Decimal('0.123456789012345678'), Decimal('123456789012345678'), Decimal('1E-7'),
            Decimal('123456789012345678E+3'), Decimal('0E-15'), Decimal('-0'), Decimal('1.50'), Decimal('1000000'), Decimal('9999999'), Decimal('0.000001234567')]
    for _ in range(ctx.n(1500, 15000)):
        nd = rng.randrange(1, 19)
        decs.append(mk_dec(rng.randrange(2), rng.randrange(10 ** (nd - 1), 10 ** nd), rng.randrange(-18, 19)))
    lits = ['1234567.891', '-0.123456789012345678', '123456789012345678', '+0.50', '.5', '5.', ' 1234567.891 ']
    stamps = [Decimal('1700000000.123'), Decimal('1.0005'), Decimal('0.0014999'), Decimal('1234567.891'), Decimal('1700000000.1234567'), Decimal('0')]
    for _ in range(ctx.n(300, 3000)):
        stamps.append(mk_dec(0, rng.randrange(10 ** 15), -rng.randrange(0, 9)))
    durs = [Decimal('3723.000001'), Decimal('1234567.891'), Decimal('0.000001'), Decimal('86399.999999')]
    specials = _special_props()
    for cname, c in decimal_contexts():
        with decimal.localcontext(c):
            for d in decs:
                r = call(dc.DecimalConverter.to_xml, d)
                case = {'kind': 'dec-ctx', 'context': cname, 'd': str(d)}
                if r[0] != 'ok':
                    ctx.fail('decimal:context-dependent', f'[{cname}] to_xml({d!r}) raised {r[1]}', case)
                    continue
                back = call(dc.DecimalConverter.to_py, r[1])
                if 'E' in r[1].upper() or back[0] != 'ok' or back[1] != d:
                    ctx.fail('decimal:context-dependent', f'[{cname}] to_py(to_xml({d!r})) == {back[1]!r} (xml {r[1]!r})', case)
                if b is not None:
                    b.add('decxml ' + dec_tuple(d), 'ok ' + r[1], f'DecimalConverter.to_xml under decimal context {cname}', case)
                ctx.case(('dec-ctx', cname, str(d)))
            for s in lits:
                r = call(dc.DecimalConverter.to_py, s)
                if r[0] != 'ok' or r[1].as_tuple() != Decimal(s.strip()).as_tuple():
                    ctx.fail('decimal:context-dependent', f'[{cname}] to_py({s!r}) == {r[1]!r}', {'kind': 'dec-ctx', 'context': cname, 's': s})
                if b is not None:
                    b.add('decpy ' + hx(s), 'ok ' + dec_tuple(r[1]) if r[0] == 'ok' else 'err ' + r[1], f'DecimalConverter.to_py under decimal context {cname}', {'s': s})
            for x in stamps:
                r = call(dc.TimestampConverter.to_xml, x)
                want = round(fractions.Fraction(x) * 1000)
                if r[0] != 'ok' or abs(int(r[1]) - fractions.Fraction(x) * 1000) > fractions.Fraction(1, 2):
                    ctx.fail('timestamp:context-dependent', f'[{cname}] to_xml({x!r}) == {r[1]!r}, the value is {float(fractions.Fraction(x) * 1000)!r} ms',
                             {'kind': 'ts-ctx', 'context': cname, 'x': str(x)})
                ctx.case(('ts-ctx', cname, str(x)))
                del want
            for v in durs:
                r = call(dc.DurationConverter.to_xml, v)
                p = call(dc.DurationConverter.to_py, r[1]) if r[0] == 'ok' else r
                if p[0] != 'ok' or p[1] != float(v):
                    ctx.fail('duration:context-dependent', f'[{cname}] {v!r} -> {r[1]!r} -> {p[1]!r}', {'kind': 'dur-ctx', 'context': cname, 'v': str(v)})
                ctx.case(('dur-ctx', cname, str(v)))
            for klass, name, prop, kind in specials:
                if kind == 'declist':
                    for lst in ([Decimal('1234567.891'), Decimal('5E-7')], [Decimal('0.123456789012345678'), Decimal('1E+2'), Decimal('0E-15')]):
                        list_property_oracle(ctx, dc, klass, name, prop, kind, lst, None)
        ctx.count('decimal-context:' + cname)
    if b is not None:
        b.flush()


def replay_context_case(ctx, case):
    import decimal
    dc, _ = _mods()
    c = dict(decimal_contexts())[case['context']]
    with decimal.localcontext(c):
        if case['kind'] == 'dec-ctx' and 'd' in case:
            d = Decimal(case['d'])
            r = call(dc.DecimalConverter.to_xml, d)
            back = call(dc.DecimalConverter.to_py, r[1]) if r[0] == 'ok' else r
            if r[0] != 'ok' or back[0] != 'ok' or back[1] != d:
                ctx.fail('decimal:context-dependent', f'{case}: {r} {back}', case)
        elif case['kind'] == 'dec-ctx':
            r = call(dc.DecimalConverter.to_py, case['s'])
            if r[0] != 'ok' or r[1].as_tuple() != Decimal(case['s'].strip()).as_tuple():
                ctx.fail('decimal:context-dependent', f'{case}: {r}', case)
        elif case['kind'] == 'ts-ctx':
            x = Decimal(case['x'])
            r = call(dc.TimestampConverter.to_xml, x)
            if r[0] != 'ok' or abs(int(r[1]) - fractions.Fraction(x) * 1000) > fractions.Fraction(1, 2):
                ctx.fail('timestamp:context-dependent', f'{case}: {r}', case)
        elif case['kind'] == 'dur-ctx':
            v = Decimal(case['v'])
            r = call(dc.DurationConverter.to_xml, v)
            p = call(dc.DurationConverter.to_py, r[1]) if r[0] == 'ok' else r
            if p[0] != 'ok' or p[1] != float(v):
                ctx.fail('duration:context-dependent', f'{case}: {r} {p}', case)


# ---------------------------------------------------------------------------------------------------------------
# durations
TD_MAX_US = (999999999 * 86400 + 86399) * 10 ** 6 + 999999


def td_us(x: float) -> int:
    tdt = datetime.timedelta(seconds=x)
    return tdt.days * 86_400_000_000 + tdt.seconds * 1_000_000 + tdt.microseconds


RE_DUR = re.compile(r'PT(?=.)([0-9]+H)?([0-9]+M)?([0-9]+(\.[0-9]+)?S)?\Z')


def duration_lexical_oracle(ctx, s, res):
    t = s.strip(XML_WS)
    inside = bool(RE_DUR.match(t))
    if not inside and res[0] == 'ok':
        ctx.fail('lexical:duration-coerced', f'parse_duration({s!r}) returned {res[1]!r} instead of raising ValueError', {'kind': 'durs', 's': s})
    if inside and s == t and res[0] == 'err' and res[1] != 'overflow':
        ctx.fail('lexical:duration-valid-rejected', f'parse_duration({s!r}) raised {res[1]}', {'kind': 'durs', 's': s})


def gen_duration_strings(rng, n):
    """legal duration literals: every combination of H / M / S parts, fractions of 0..12 digits (foreign producers write
    nanoseconds or 100 ns ticks), a quarter of them mutated"""
    res = []
    for i in range(n):
        parts = ['PT']
        if rng.random() < 0.5:
            parts.append(f'{rng.randrange(10 ** rng.randrange(1, 8))}H')
        if rng.random() < 0.5:
            parts.append(f'{rng.randrange(10 ** rng.randrange(1, 5))}M')
        if rng.random() < 0.8 or len(parts) == 1:
            sec = str(rng.randrange(10 ** rng.randrange(1, 6)))
            nd = rng.randrange(0, 13)
            if nd:
                frac = ''.join(rng.choice('0123456789') for _ in range(nd))
                if rng.random() < 0.3:
                    z = rng.randrange(nd + 1)
                    frac = frac[:nd - z] + '0' * z          # trailing zeros: 'PT1.5000000S'
                sec += '.' + frac
            parts.append(sec + 'S')
        s = ''.join(parts)
        if rng.random() < 0.25:
            s = _mutate(rng, s)
        res.append(s)
    return res


RE_DUR_G = re.compile(r'PT(?=.)(?:([0-9]+)H)?(?:([0-9]+)M)?(?:([0-9]+(?:\.[0-9]+)?)S)?\Z')


def duration_value_oracle(ctx, s, res):
    """XML -> Python: the value of a legal duration literal is delivered within the microsecond resolution"""
    m = RE_DUR_G.match(s.strip(XML_WS))
    if m is None or res[0] != 'ok':
        return
    want = int(m.group(1) or 0) * 3600 + int(m.group(2) or 0) * 60 + fractions.Fraction(m.group(3) or '0')
    got = fractions.Fraction(res[1])
    if abs(got - want) > fractions.Fraction(1, 10 ** 6) + want / 2 ** 52:
        ctx.fail('duration:xml-py', f'parse_duration({s!r}) == {res[1]!r}, the literal says {float(want)!r} s', {'kind': 'durs', 's': s})


def run_durations(ctx, dc, iso):
    rng = ctx.subrng('dur')
    b = Batch(ctx)
    C = dc.DurationConverter

    def from_float(x: float):
        r = call(C.to_xml, x)
        b.add('durstr ' + fp_str(x), 'ok ' + r[1] if r[0] == 'ok' else 'err ' + r[1], 'duration_string', {'x': x.hex()})
        ctx.count('dur:to_xml:' + r[0])
        if r[0] == 'ok':
            s = r[1]
            p = call(C.to_py, s)
            b.add('durpy ' + hx(s), 'ok ' + fp_str(p[1]) if p[0] == 'ok' else 'err ' + p[1], 'parse_duration', {'s': s})
            # oracle: the string re-parses to exactly the microsecond count that was written
            want = td_us(x)
            if p[0] != 'ok' or p[1] != want / 10 ** 6:
                ctx.fail('duration:roundtrip', f'parse_duration(duration_string({x!r}) = {s!r}) == {p[1]!r}, expected {want} us',
                         {'kind': 'dur', 'x': x.hex()})
            if not re.fullmatch(r'PT(\d+H)?(\d+M)?(\d+(\.\d{1,6})?S)?', s, re.ASCII) or s == 'PT':
                ctx.fail('duration:format', f'duration_string({x!r}) == {s!r}', {'kind': 'dur', 'x': x.hex()})
        ctx.case(('dur', x.hex()), nontrivial=x != 0)

    for x in (0.0, 1e-6, 1e-7, 4e-7, 5e-7, 6e-7, 1.5e-6, 2.5e-6, 0.5, 1.0, 59.9999996, 59.9999994, 59.999999, 60.0, 61.5, 3599.999999, 3600.0,
              3723.000001, 86400.0, 90061.001, 1e9, 2.0 ** 33 + 0.5, 1e15, 86399999999999.0, 8.64e13, 8.63e13, 8.64e13 * (1 - 2 ** -52), 1e14, 1e300):
        from_float(x)
    for i in range(ctx.n(30000, 300000)):
        k = i % 6
        if k == 0:
            x = rng.randrange(10 ** rng.randrange(1, 14)) / 10 ** 6        # microsecond multiples
        elif k == 1:
            x = rng.random() * 10.0 ** rng.randrange(-7, 14)
        elif k == 2:
            x = rng.randrange(100) * 3600 + rng.randrange(60) * 60 + rng.randrange(60) + rng.choice([0, 0, rng.randrange(10 ** 6) / 10 ** 6])
        elif k == 3:
            x = (rng.randrange(10 ** 9) + 0.5) / 10 ** 6                  # ties of the microsecond rounding
            x = rng.choice([x, x * (1 + 2 ** -52), x * (1 - 2 ** -53)])
        elif k == 4:
            x = float(rng.randrange(10 ** rng.randrange(1, 14)))
        else:
            x = rng.randrange(60 * 10 ** 6) / 10 ** 6                     # < 60 s: every microsecond count reachable
        from_float(float(x))
    # Decimal / int py values
    for v in (5, 0, Decimal('1.5'), Decimal('0.000001'), Decimal('3723.000001')):
        s = C.to_xml(v)
        if C.to_py(s) != float(v):
            ctx.fail('duration:roundtrip', f'{v!r} -> {s!r} -> {C.to_py(s)!r}', {'kind': 'durv', 'v': str(v)})
        ctx.case(('durv', str(v)))
    # strings: valid, invalid, structured mutations
    strs = ['PT', 'P', '', 'PT0S', 'PT1S', 'PT1.S', 'PT.5S', 'PT1.5S', 'PT1H', 'PT1M', 'PT1H1M', 'PT1H1S', 'PT1M1H', 'PT1S1M', 'PT1H2M3S', 'PT1H2M3.000001S',
            'PT1H2M3.0000001S', 'PT1H2M3.0000005S', 'PT0.0000005S', 'PT0.0000015S', 'PT0.0000025S', 'P1D', 'P1DT1S', 'PT-1S', '-PT1S', 'PT1S\n', 'PT1S\n\n', 'PT\n', ' PT1S', 'PT1S ',
            'PT 1S', 'pt1s', 'PT1s', 'PT1,5S', 'PT1.5.5S', 'PT1H1H', 'PT1.5H', 'PT1.5M', 'PT٣S', 'PT１S', 'PT1_0S', 'PT1e3S', 'PT+1S', 'PT999999999999H', 'PT23999999999H',
            'PT24000000000H', 'PT1439999999999M', 'PT1440000000000M59.999999S', 'PT86399999999999S', 'PT86400000000000S', 'PT86399999999999.999999S',
            'PT0.999999S', 'PT0.9999995S', 'PT0.9999994S', 'PT59.9999995S', 'PT00001S', 'PT0H0M0S', 'PT0.0S', 'PT1' + '0' * 400 + 'S', 'PT0.' + '0' * 400 + '1S', 'PT1.' + '9' * 30 + 'S',
            'PT9007199254740993S', 'PT9007199254.740993S', 'PT4503599627370497.5S']
    strs += gen_duration_strings(rng, ctx.n(20000, 200000))
    for s in strs:
        r = call(C.to_py, s)
        b.add('durpy ' + hx(s), 'ok ' + fp_str(r[1]) if r[0] == 'ok' else 'err ' + r[1], 'parse_duration', {'s': s})
        duration_lexical_oracle(ctx, s, r)
        duration_value_oracle(ctx, s, r)
        ctx.count('dur:to_py:' + (r[0] if r[0] == 'ok' else r[1]))
        ctx.case(('durs', s))
    b.flush()


# ---------------------------------------------------------------------------------------------------------------
# end to end through the declarative properties (xml_structure): what an instance delivers for a PRESENT attribute /
# element is the converter's result for that literal (also zero / false / empty); only an absent one is implied
PROP_LITERALS = {
    'decimal': ['0', '0.0', '0.000', '-0', '+0.00', '1', '0.5', '0.25', '0.001', '-1.5', '123456789012345678', '0.123456789012345678', ' 0 '],
    'duration': ['PT0S', 'PT0.0S', 'PT0H0M0S', 'PT0M', 'PT1S', 'PT0.5S', 'PT0.000001S', 'PT2M', 'PT1H2M3.25S'],
    'boolean': ['true', '1', 'false', '0'],
    'integer': ['0', '-0', '+0', '00', '7', '-3', '4294967295'],
    'timestamp': ['0', '1', '1001', '1700000000123'],
    'string': ['', 'abc', '0'],
}


def _conv_kind(conv, dc):
    if isinstance(conv, dc.EnumConverter):
        return 'enum'
    if not inspect.isclass(conv):
        return None
    for k, c in (('timestamp', dc.TimestampConverter), ('decimal', dc.DecimalConverter), ('duration', dc.DurationConverter),
                 ('boolean', dc.BooleanConverter), ('integer', dc.IntegerConverter), ('string', dc.StringConverter)):
        if issubclass(conv, c):
            return k
    return None


def _canon_value(kind, v):
    """canonical text of a python value, same format as the model driver answers"""
    if kind == 'decimal':
        return 'ok ' + dec_tuple(v)
    if kind in ('duration', 'timestamp'):
        return 'ok ' + fp_str(float(v))
    if kind == 'boolean':
        return 'ok true' if v is True else 'ok false' if v is False else f'ok {v!r}'
    if kind == 'integer':
        return f'ok {v}'
    return None


def _same(a, b):
    if type(a) is not type(b):
        return False
    if isinstance(a, Decimal):
        return a.as_tuple() == b.as_tuple()
    if isinstance(a, float):
        return a.hex() == b.hex()
    return a == b


def _scalar_props(dc):
    """(class, attribute name of the class, property object, kind, is attribute) for every scalar attribute / text element
    property of the data type and container classes, plus a probe class in which every property has a truthy implied value"""
    from lxml import etree
    from sdc11073.mdib import descriptorcontainers, statecontainers
    from sdc11073.xml_types import msg_types, pm_types
    from sdc11073.xml_types import xml_structure as xs
    from sdc11073.xml_types.basetypes import XMLTypeBase
    ns = 'urn:verif:c18'

    class Probe(XMLTypeBase):
        Dec = xs.DecimalAttributeProperty('Dec', implied_py_value=Decimal(1))
        Dur = xs.DurationAttributeProperty('Dur', implied_py_value=1.0)
        Boo = xs.BooleanAttributeProperty('Boo', implied_py_value=True)
        Int = xs.IntegerAttributeProperty('Int', implied_py_value=7)
        Ts = xs.TimestampAttributeProperty('Ts', implied_py_value=5.0)
        Str = xs.StringAttributeProperty('Str', implied_py_value='x')
        En = xs.EnumAttributeProperty('En', enum_cls=pm_types.MetricAvailability, implied_py_value=pm_types.MetricAvailability.CONTINUOUS)
        EDec = xs.NodeDecimalProperty(etree.QName(ns, 'EDec'), implied_py_value=Decimal(1), is_optional=True)
        EInt = xs.NodeIntProperty(etree.QName(ns, 'EInt'), implied_py_value=7, is_optional=True)
        EDur = xs.NodeDurationProperty(etree.QName(ns, 'EDur'), implied_py_value=1.0, is_optional=True)
        EStr = xs.NodeStringProperty(etree.QName(ns, 'EStr'), implied_py_value='x', is_optional=True)
        _props = ('Dec', 'Dur', 'Boo', 'Int', 'Ts', 'Str', 'En', 'EDec', 'EInt', 'EDur', 'EStr')
    res, seen = [], set()
    classes = [Probe]
    for mod in (pm_types, msg_types, descriptorcontainers, statecontainers):
        classes += [c for _, c in sorted(vars(mod).items()) if inspect.isclass(c) and c.__module__ == mod.__name__]
    for cls in classes:
        for klass in cls.__mro__:
            for name, prop in vars(klass).items():
                if id(prop) in seen or not isinstance(prop, (xs._AttributeBase, xs.NodeTextProperty)) or isinstance(prop, xs._AttributeListBase):
                    continue
                kind = _conv_kind(prop._converter, dc)
                if kind is None:
                    continue
                seen.add(id(prop))
                res.append((klass, name, prop, kind, isinstance(prop, xs._AttributeBase)))
    return res


def _read_through_property(klass, name, prop, is_attr, literal):
    """the value an instance of klass delivers for the property when the node carries `literal` (None = absent)"""
    from lxml import etree
    inst = object.__new__(klass)
    node = etree.Element('x')
    if literal is not None:
        if is_attr:
            node.set(prop._attribute_name, literal)
        elif prop._sub_element_name is None:
            node.text = literal
        else:
            etree.SubElement(node, prop._sub_element_name).text = literal
    node = etree.fromstring(etree.tostring(node))        # what a parser delivers (empty text is None)
    prop.update_from_node(inst, node)
    return getattr(inst, name)


def property_oracle(ctx, klass, name, prop, kind, is_attr, literal):
    where = f'{klass.__module__.split(".")[-1]}.{klass.__name__}.{name}'
    case = {'kind': 'prop', 'cls': f'{klass.__module__}.{klass.__name__}', 'name': name, 'literal': literal}
    exp = call(prop._converter.to_py, literal if (is_attr or literal != '') else None)
    got = call(_read_through_property, klass, name, prop, is_attr, literal)
    if exp[0] != got[0] or (exp[0] == 'ok' and not _same(got[1], exp[1])):
        ctx.fail('property:present-value-replaced', f'{where} = "{literal}": instance delivers {got[1]!r}, the converter says {exp[1]!r}', case)
    return got


def run_properties(ctx, dc, b):
    props = _scalar_props(dc)
    for klass, name, prop, kind, is_attr in props:
        implied = prop._implied_py_value
        lits = [m.value for m in prop._converter._klass] if kind == 'enum' else PROP_LITERALS[kind]
        ctx.count('prop:' + kind + (':implied' if implied is not None else ''))
        for lit in lits:
            got = property_oracle(ctx, klass, name, prop, kind, is_attr, lit)
            canon = _canon_value(kind, got[1]) if got[0] == 'ok' else 'err ' + got[1]
            op = {'decimal': 'decpy', 'duration': 'durpy', 'boolean': 'bool', 'integer': 'int', 'timestamp': 'tspy'}.get(kind)
            if b is not None and op is not None and canon is not None:
                b.add(f'{op} ' + hx(lit), canon, 'literal read through ' + type(prop).__name__, {'cls': klass.__name__, 'name': name, 'literal': lit})
            ctx.case(('prop', klass.__name__, name, lit), nontrivial=implied is not None or not lit.strip('+-0. PTSHM'))
        # absent: the implied value (or None); the text of the node itself cannot be absent
        if not is_attr and prop._sub_element_name is None:
            continue
        got = call(_read_through_property, klass, name, prop, is_attr, None)
        if got[0] != 'ok' or not (got[1] is implied or (implied is not None and _same(got[1], implied))):
            ctx.fail('property:absent-value', f'{klass.__name__}.{name} absent: instance delivers {got[1]!r}, implied value is {implied!r}',
                     {'kind': 'prop', 'cls': f'{klass.__module__}.{klass.__name__}', 'name': name, 'literal': None})
    ctx.notes['properties'] = f'{len(props)} scalar attribute / text element properties read through instances, {sum(1 for p in props if p[2]._implied_py_value is not None)} with an implied value'
    if b is not None:
        b.flush()


def _special_props():
    """DateOfBirthProperty and list valued attribute properties of the real classes and of a probe class"""
    from lxml import etree
    from sdc11073.mdib import descriptorcontainers, statecontainers
    from sdc11073.xml_types import msg_types, pm_types
    from sdc11073.xml_types import xml_structure as xs
    from sdc11073.xml_types.basetypes import XMLTypeBase
    ns = 'urn:verif:c18'

    class Probe2(XMLTypeBase):
        Dob = xs.DateOfBirthProperty(etree.QName(ns, 'Dob'))
        DecL = xs.DecimalListAttributeProperty('DecL')
        RefL = xs.HandleRefListAttributeProperty('RefL')
        _props = ('Dob', 'DecL', 'RefL')
    res, seen = [], set()
    classes = [Probe2]
    for mod in (pm_types, msg_types, descriptorcontainers, statecontainers):
        classes += [c for _, c in sorted(vars(mod).items()) if inspect.isclass(c) and c.__module__ == mod.__name__]
    for cls in classes:
        for klass in cls.__mro__:
            for name, prop in vars(klass).items():
                if id(prop) in seen:
                    continue
                if isinstance(prop, xs.DateOfBirthProperty):
                    kind = 'dob'
                elif isinstance(prop, xs._AttributeListBase):
                    from sdc11073.xml_types import dataconverters as dcm
                    kind = 'declist' if prop._converter._element_converter is dcm.DecimalConverter else 'strlist'
                else:
                    continue
                seen.add(id(prop))
                res.append((klass, name, prop, kind))
    return res


def _write_through_property(klass, name, prop, value):
    """the node an instance of klass writes for the property"""
    from lxml import etree
    inst = object.__new__(klass)
    setattr(inst, name, value)
    node = etree.Element('x')
    prop.update_xml_value(inst, node)
    return etree.fromstring(etree.tostring(node))


def _dob_text(klass, name, prop, info):
    node = _write_through_property(klass, name, prop, info)
    sub = node.find(prop._sub_element_name) if prop._sub_element_name is not None else node
    return None if sub is None else sub.text


def dob_oracle(ctx, iso, klass, name, prop, s):
    """date / dateTime / gYearMonth / gYear union read and written THROUGH the node property"""
    where = f'{klass.__name__}.{name}'
    case = {'kind': 'dob', 'cls': f'{klass.__module__}.{klass.__name__}', 'name': name, 's': s}
    r = call(_read_through_property, klass, name, prop, False, s)
    dt_oracle(ctx, iso, s, r, parse=lambda t: _read_through_property(klass, name, prop, False, t),
              write=lambda info: _dob_text(klass, name, prop, info), what=where + ' <- ', sig='property:date', case=case)
    conv = call(iso.parse_date_time, s)
    if conv[0] != r[0] or (r[0] == 'ok' and conv[1] != r[1]):
        ctx.fail('property:date:differs-from-parser', f'{where} <- {s!r}: property gives {r}, parse_date_time gives {conv}', case)
    return r


def gen_decimal_lists(rng, n):
    """lists of Decimals incl. the values whose str() is exponent notation (tiny, positive exponent, zero with exponent)"""
    res = [[Decimal('5E-7'), Decimal('1E+2'), Decimal('0E-15')], [Decimal('0E+3')], [Decimal('-0')], [], [Decimal('1.50'), Decimal('-2')]]
    for _ in range(n):
        lst = []
        for _ in range(rng.randrange(1, 7)):
            k = rng.randrange(6)
            nd = rng.randrange(1, 19)
            c = rng.randrange(10 ** (nd - 1), 10 ** nd)
            if k == 0:
                d = mk_dec(rng.randrange(2), rng.randrange(1, 1000), rng.randrange(-18, -6))      # tiny: str() is 'xE-n'
            elif k == 1:
                d = mk_dec(rng.randrange(2), c, rng.randrange(1, 19))                             # positive exponent: 'xE+n'
            elif k == 2:
                d = mk_dec(rng.randrange(2), 0, rng.randrange(-18, 19))                           # zero with an exponent
            elif k == 3:
                d = mk_dec(rng.randrange(2), c, -rng.randrange(0, min(nd, 18) + 1))               # ordinary
            elif k == 4:
                d = mk_dec(rng.randrange(2), c, rng.randrange(-18, 1))
            else:
                d = Decimal(rng.randrange(-1000, 1000))
            lst.append(d)
        res.append(lst)
    return res


def list_property_oracle(ctx, dc, klass, name, prop, kind, values, b=None):
    """Python -> XML -> Python through a list valued attribute property: every token is a literal of the item type with the
    value of the item, the list is read back unchanged"""
    where = f'{klass.__name__}.{name}'
    case = {'kind': 'proplist', 'cls': f'{klass.__module__}.{klass.__name__}', 'name': name, 'values': [str(v) for v in values], 'item': kind}
    w = call(_write_through_property, klass, name, prop, list(values))
    if w[0] != 'ok':
        ctx.fail('property:list-write', f'{where} = {values!r} raised {w[1]}', case)
        return
    xml = w[1].get(prop._attribute_name)
    tokens = [] if xml is None else [t for t in xml.split(' ') if t]
    if len(tokens) != len(values):
        ctx.fail('property:list-token-count', f'{where} = {values!r} written as {xml!r}', case)
        return
    for tok, v in zip(tokens, values):
        if kind == 'declist':
            if not RE_DEC.match(tok):
                ctx.fail('property:list-token-not-lexical', f'{where} = {values!r} written as {xml!r}: {tok!r} is not an xsd:decimal', case)
                return
            if Decimal(tok) != v:
                ctx.fail('property:list-value', f'{where}: item {v!r} written as {tok!r}', case)
                return
            if b is not None:
                b.add('decxml ' + dec_tuple(v), 'ok ' + tok, 'item written through ' + type(prop).__name__, {'cls': klass.__name__, 'name': name, 'v': str(v)})
        elif tok != v:
            ctx.fail('property:list-value', f'{where}: item {v!r} written as {tok!r}', case)
            return
    inst = object.__new__(klass)
    back = call(lambda: (prop.update_from_node(inst, w[1]), getattr(inst, name))[1])
    if back[0] != 'ok' or list(back[1]) != list(values):
        ctx.fail('property:list-roundtrip', f'{where} = {values!r} -> {xml!r} -> {back[1]!r}', case)


LIST_SEPARATORS = [' ', ' ', ' ', '  ', '\t', '\n', '\r', '\r\n', ' \t ', '\xa0', '\u2003', '\u3000', '\x85', '\x0b', '\x0c', '\u2028', '\u200b', '\u2009', ',', ';']


def gen_list_literals(rng, n):
    """attribute values of a decimal list: legal tokens (sometimes an illegal one) joined by blanks, by tab / LF / CR (reach the
    application through character references) and by non-XML white space (NBSP, EM SPACE, IDEOGRAPHIC SPACE, NEL, VT, FF ...)"""
    res = ['', ' ', '1.5', '1.5 2.5', '1.5  2.5', ' 1.5 2.5 ', '1.5\xa02.5', '1.5 2.5\xa0', '\xa01.5', '1.5\u20032.5', '1.5\u30002.5', '1.5\x852.5',
           '1.5\t2.5', '1.5\n2.5', '1.5\r2.5', '1.5\t', '\n1.5', '1.5 \t 2.5', '1.5\x0b2.5', '1.5\x0c2.5', '1.5 NaN', '1E5 2', '1.5,2.5', '1_0 2']
    for i in range(n):
        toks = [D_lit(rng) if rng.random() < 0.95 else rng.choice(['NaN', '1E5', '1_0', '١', '1.5.5', '-']) for _ in range(rng.randrange(0, 6))]
        k = i % 3
        out = rng.choice(['', '', ' ', '\xa0', '\t']) if k == 2 else ''
        for j, t in enumerate(toks):
            out += t
            if j + 1 < len(toks):
                out += rng.choice([' ', ' ', '  ']) if k == 0 else rng.choice(LIST_SEPARATORS)
        out += rng.choice(['', '', ' ', '\xa0', '\n', '\u3000']) if k == 2 else ''
        res.append(out)
    return res


def declist_read_oracle(ctx, dc, klass, name, prop, xml, b):
    """XML -> Python of a decimal list attribute. xs:list of xs:decimal: items separated by XML white space (space, tab, LF, CR);
    everything else (NBSP, other Unicode white space, any other character) belongs to a token. An attribute value that is not a
    legal list must be rejected; a legal one is delivered item by item - never some other list"""
    from lxml import etree
    where = f'{klass.__name__}.{name}'
    case = {'kind': 'proplist-read', 'cls': f'{klass.__module__}.{klass.__name__}', 'name': name, 'xml': xml}
    node = etree.Element('x')
    try:
        node.set(prop._attribute_name, xml)
        node = etree.fromstring(etree.tostring(node))        # tab / LF / CR travel as character references
    except ValueError:
        return                                               # not representable in XML (control characters)
    delivered = node.get(prop._attribute_name)
    inst = object.__new__(klass)
    got = call(lambda: (prop.update_from_node(inst, node), getattr(inst, name))[1])
    items = [t for t in re.split('[ \t\n\r]+', delivered.strip(XML_WS)) if t]
    legal = all(RE_DEC.match(t) for t in items)
    blanks_only = not any(c in delivered for c in '\t\n\r')
    ctx.count('declist-read:' + ('legal' if legal else 'illegal') + (':blanks' if blanks_only else ':tab-lf-cr') + ':' + got[0])
    if not legal:
        if got[0] == 'ok':
            ctx.fail('property:list-coerced', f'{where} <- {xml!r} is not a list of xsd:decimal but is read as {got[1]!r}', case)
        elif got[1] != 'value':
            ctx.fail('property:list-wrong-exception', f'{where} <- {xml!r} raised {got[1]}', case)
    elif got[0] == 'ok':
        want = [dc.DecimalConverter.to_py(t) for t in items]
        if [x.as_tuple() for x in got[1]] != [x.as_tuple() for x in want]:
            ctx.fail('property:list-read', f'{where} <- {xml!r}: {got[1]!r}, the items say {want!r}', case)
    elif blanks_only:
        ctx.fail('property:list-valid-rejected', f'{where} <- {xml!r} raised {got[1]}', case)
    if b is not None:
        b.add('declistpy ' + hx(delivered), 'ok' + ''.join(' ' + dec_tuple(v).replace(' ', ':') for v in got[1]) if got[0] == 'ok' else 'err ' + got[1],
              'list read through ' + type(prop).__name__, {'xml': xml})


def run_special_properties(ctx, dc, iso, b):
    from lxml import etree
    rng = ctx.subrng('special-props')
    props = _special_props()
    dob_strs = DT_EXPLICIT + ['2004-13-01', '2004-06-32', '2004-06-03T25:00:00', '2004-06-03T10:15', '2004-06-03T10:15:00+15:00', '03/06/2004',
                              '2004-06-03', '2004-06', '2004', '2004-06-03T10:15:00', '2004-06-03Z', '2004-06-03-06:00', '2004-06-03T10:15:00.5+05:30']
    dob_strs += gen_datetime_strings(rng, ctx.n(1500, 15000))
    for off in range(-840, 841, 1 if ctx.tier == 'thorough' else 7):
        for base in ('1972-01-07T03:15:30', '1972-01-07', '1972-01', '1972'):
            dob_strs.append(base + tz_text(off))
    dob_strs += ['1972-01-07T03:15:30-00:44', '1972-01-07-00:01', '1972-01-00:59', '1972-00:30']
    lists = gen_decimal_lists(rng, ctx.n(400, 4000))
    for klass, name, prop, kind in props:
        ctx.count('prop:' + kind)
        if kind == 'dob':
            for s in dob_strs:
                r = dob_oracle(ctx, iso, klass, name, prop, s)
                if b is not None and s != '':      # an empty element delivers text None, not '' (TypeError of re, no model input)
                    b.add('dtpy ' + hx(s), dt_dump(r[1]) if r[0] == 'ok' and r[1] is not None else ('err ' + r[1] if r[0] != 'ok' else 'ok None'),
                          'date read through DateOfBirthProperty', {'cls': klass.__name__, 's': s})
                ctx.case(('dob', klass.__name__, s))
            # absent element: None
            r = call(_read_through_property, klass, name, prop, False, None)
            if r != ('ok', None):
                ctx.fail('property:absent-value', f'{klass.__name__}.{name} absent: {r}', {'kind': 'prop', 'cls': f'{klass.__module__}.{klass.__name__}', 'name': name, 'literal': None})
        elif kind == 'declist':
            for lst in lists:
                list_property_oracle(ctx, dc, klass, name, prop, kind, lst, b)
                ctx.case(('declist', klass.__name__, [str(v) for v in lst]), nontrivial=bool(lst))
            # XML -> Python: tokens separated / glued by blanks, XML white space from character references and other white space
            for xml in gen_list_literals(rng, ctx.n(1500, 15000)):
                declist_read_oracle(ctx, dc, klass, name, prop, xml, b)
                ctx.case(('declist-read', klass.__name__, xml), nontrivial=bool(xml.strip()))
        else:
            for lst in ([], ['h1'], ['h1', 'h2', 'h.3'], ['0', 'a-b', 'x_y']):
                list_property_oracle(ctx, dc, klass, name, prop, kind, lst, b)
                ctx.case(('strlist', klass.__name__, lst), nontrivial=bool(lst))
    ctx.notes['special_properties'] = f'{sum(1 for p in props if p[3] == "dob")} DateOfBirth, {sum(1 for p in props if p[3] == "declist")} decimal list, {sum(1 for p in props if p[3] == "strlist")} string list properties'
    if b is not None:
        b.flush()


def D_lit(rng):
    """a legal xsd:decimal literal"""
    nd = rng.randrange(1, 19)
    digits = ''.join(rng.choice('0123456789') for _ in range(nd))
    p = rng.randrange(nd + 1)
    s = rng.choice(['', '', '-', '+']) + digits[:p] + ('.' + digits[p:] if p < nd or rng.random() < 0.2 else '')
    return s if RE_DEC.match(s) else s + '0'


def replay_special_case(ctx, case):
    dc, iso = _mods()
    for klass, name, prop, kind in _special_props():
        if name == case['name'] and (f'{klass.__module__}.{klass.__name__}' == case['cls'] or klass.__name__ == case['cls'].split('.')[-1] == 'Probe2'):
            if case['kind'] == 'dob':
                dob_oracle(ctx, iso, klass, name, prop, case['s'])
            elif case['kind'] == 'proplist':
                vals = [Decimal(v) for v in case['values']] if case.get('item') == 'declist' else list(case['values'])
                list_property_oracle(ctx, dc, klass, name, prop, kind, vals)
            elif case['kind'] == 'proplist-read':
                declist_read_oracle(ctx, dc, klass, name, prop, case['xml'], None)
            return


def replay_property_case(ctx, case):
    dc, _ = _mods()
    for klass, name, prop, kind, is_attr in _scalar_props(dc):
        if name == case['name'] and (f'{klass.__module__}.{klass.__name__}' == case['cls'] or klass.__name__ == 'Probe' and case['cls'].endswith('.Probe')):
            if case['literal'] is None:
                got = call(_read_through_property, klass, name, prop, is_attr, None)
                if got[0] != 'ok' or got[1] != prop._implied_py_value:
                    ctx.fail('property:absent-value', f'{case}', case)
            else:
                property_oracle(ctx, klass, name, prop, kind, is_attr, case['literal'])
            return


# ---------------------------------------------------------------------------------------------------------------
# date / time
def dt_dump(info) -> str:
    """canonical dump of an XsdDateInformation, same format as Driver/C18.lean showDateInfo"""
    def o(v):
        return '-' if v is None else str(v)
    if info.second is None:
        t = '- - -'
    else:
        t = f'{info.hour} {info.minute} ' + '%d:%d:%d' % fp(float(info.second))
    tz = '-'
    if info.tz_info is not None:
        tz = str(round(info.tz_info.utcoffset(None).total_seconds()) // 60)
    return f'ok {info.year} {o(info.month)} {o(info.day)} {t} {int(info.end_of_day)} {tz}'


def dt_fields(info) -> str:
    """arguments of the driver op `dtstr`; the seconds as the decimal text format(Decimal(repr(x)), 'f') (trusted step)"""
    def o(v):
        return '-' if v is None else str(v)
    ss, frac = '-', ''
    if info.second is not None:
        txt = format(Decimal(repr(info.second)), 'f')
        ss, _, frac = txt.partition('.')
    tz = '-'
    if info.tz_info is not None:
        tz = str(round(info.tz_info.utcoffset(None).total_seconds()) // 60)
    return f'{info.year} {o(info.month)} {o(info.day)} {o(info.hour)} {o(info.minute)} {ss} {hx(frac)} {int(info.end_of_day)} {tz}'


RE_DT = re.compile(r'(?P<y>-?([1-9][0-9]{3,}|0[0-9]{3}))(-(?P<mo>0[1-9]|1[0-2])(-(?P<d>0[1-9]|[12][0-9]|3[01])'
                   r'(T((?P<h>[01][0-9]|2[0-3]):(?P<mi>[0-5][0-9]):(?P<sec>[0-5][0-9](\.[0-9]+)?)|(?P<eod>24:00:00(\.0+)?)))?)?)?'
                   r'(?P<tz>Z|[+-]((0[0-9]|1[0-3]):[0-5][0-9]|14:00))?\Z')


def dt_lexical(t):
    """independent reading of a legal literal: (fields the parser must deliver, canonical literal __str__ must write)"""
    m = RE_DT.match(t)
    if m is None:
        return None
    g = m.groupdict()
    year = int(g['y'])
    off = None
    if g['tz'] is not None:
        off = 0 if g['tz'] == 'Z' else (1 if g['tz'][0] == '+' else -1) * (int(g['tz'][1:3]) * 60 + int(g['tz'][4:6]))
    fields = {'year': year, 'month': None if g['mo'] is None else int(g['mo']), 'day': None if g['d'] is None else int(g['d']),
              'hour': None if g['h'] is None else int(g['h']), 'minute': None if g['mi'] is None else int(g['mi']),
              'second': None if g['sec'] is None else fractions.Fraction(g['sec']), 'eod': g['eod'] is not None, 'offset': off}
    canon = ('-' if year < 0 else '') + f'{abs(year):04d}'
    if g['mo'] is not None:
        canon += '-' + g['mo']
    if g['d'] is not None:
        canon += '-' + g['d']
    if g['eod'] is not None:
        canon += 'T24:00:00'
    elif g['sec'] is not None:
        sec = g['sec'].rstrip('0').rstrip('.') if '.' in g['sec'] else g['sec']
        canon += f"T{g['h']}:{g['mi']}:{sec}"
    if off is not None:
        canon += 'Z' if off == 0 else ('+' if off > 0 else '-') + f'{abs(off) // 60:02d}:{abs(off) % 60:02d}'
    return fields, canon


def dt_offset(info):
    return None if info.tz_info is None else round(info.tz_info.utcoffset(None).total_seconds() / 60)


def dt_oracle(ctx, iso, s, r, parse=None, write=None, what='parse_date_time', sig='datetime', case=None):
    """XML -> Python -> XML for one date/time literal: rejection outside the lexical space, fields and utc offset as written,
    the re-written literal is the canonical form of the input and parses to the same value"""
    parse = parse or iso.parse_date_time
    write = write or str
    case = case or {'kind': 'dt', 's': s}
    t = s.strip(XML_WS)
    lex = dt_lexical(t)
    if lex is None:
        if r[0] == 'ok':
            ctx.fail(sig + ':lexical', f'{what}({s!r}) -> {r[1]!r}', case)
        return
    if r[0] != 'ok':
        if s == t:
            ctx.fail(sig + ':valid-rejected', f'{what}({s!r}) raised {r[1]}', case)
        return
    fields, canon = lex
    info = r[1]
    got = {'year': info.year, 'month': info.month, 'day': info.day, 'hour': info.hour, 'minute': info.minute,
           'second': info.second, 'eod': info.end_of_day, 'offset': dt_offset(info)}
    for k, want in fields.items():
        have = got[k]
        if k == 'second' and want is not None and have is not None:
            bad = abs(fractions.Fraction(have) - want) >= fractions.Fraction(1, 10 ** 6)
        else:
            bad = have != want
        if bad:
            ctx.fail(sig + ':xml-py', f'{what}({s!r}): {k} is {have!r}, the literal says {want!r}', case)
            return
    out = write(info)
    sec_txt = RE_DT.match(t).group('sec')
    short = sec_txt is None or '.' not in sec_txt or len(sec_txt.split('.')[1]) <= 6
    if out != canon and short:
        ctx.fail(sig + ':xml-py-xml', f'str({what}({s!r})) == {out!r}, canonical form of the input is {canon!r}', case)
        return
    r2 = call(parse, out)
    if r2[0] != 'ok' or r2[1] != info or write(r2[1]) != out:
        ctx.fail(sig + ':roundtrip', f'{s!r} -> {out!r} -> {r2[1]!r}', case)


def tz_text(off, zero='Z'):
    return zero if off == 0 else ('+' if off > 0 else '-') + f'{abs(off) // 60:02d}:{abs(off) % 60:02d}'


def dt_object_oracle(ctx, iso, kw):
    """Python -> XML -> Python for a constructed XsdDateInformation (seconds may be int)"""
    case = {'kind': 'dt-obj', 'kw': dict(kw)}
    kw = dict(kw)
    if kw.get('tz_info') is not None:
        kw['tz_info'] = datetime.timezone(datetime.timedelta(minutes=kw['tz_info']))
    info = iso.XsdDateInformation(**kw)
    out = str(info)
    if dt_lexical(out) is None:
        ctx.fail('datetime:py-xml', f'str({info!r}) == {out!r} is not a legal literal', case)
        return info, out
    r = call(iso.parse_date_time, out)
    if r[0] != 'ok' or r[1] != info:
        ctx.fail('datetime:py-xml-py', f'{info!r} -> {out!r} -> {r[1]!r}', case)
    return info, out


DT_EXPLICIT = ['2020', '2020-13', '2020-00', '2020-01-32', '2020-01-01T24:00:01', '2020-01-01T25:00:00', '2020-01-01T00:60:00', '2020-01-01T00:00:60',
               '20', '02020', '2020-1-1', '2020-01-01T00:00:00+14:01', '2020-01-01T00:00:00+15:00', '2020-01-01 00:00:00', '２０２０', '2020-01-01T00:00:0٣',
               '2020-01-01T00:00:00z', '', 'abc', '2020-05:00', '2020-13:00', '2020-05-05:00', '2020-12-14:00', '2020-12-15:00', '2020-05', '2020-05-05', '2020Z',
               '2020-05Z', '2020\n', '2020\n\n', '-0000', '0000', '+2020', '2020-01-01T', '2020-01-01T00:00', '2020-01-01T00:00:00.', '2020-01-01T00:00:00.5.5',
               '2020-01-01T24:00:00.05', '2020-01-01T24:00:00.0Z', '2020-01T00:00:00', '2020T00:00:00', '2020-01-01T00:00:00.0000001', '2020-01-01T00:00:09.999999',
               '2020-01-01T23:59:59.999999-14:00', '99999999999999999999-12-31', '1972-01-07T03:15:30-00:44', '1972-01-07-00:01', '1972-01-00:59', '1972-00:30']


def gen_datetime_strings(rng, n):
    strs = []
    for i in range(n):
        y = rng.choice([rng.randrange(1, 9999), rng.randrange(-9999, 0), rng.randrange(10000, 200000), 0])
        s = ('-' if y < 0 or rng.random() < 0.02 else '') + f'{abs(y):04d}'
        lvl = rng.randrange(4)
        if lvl >= 1:
            s += f'-{rng.randrange(1, 13):02d}'
        if lvl >= 2:
            s += f'-{rng.randrange(1, 32):02d}'
        if lvl >= 3:
            sec_txt = f'{rng.randrange(60):02d}' + rng.choice(['', '', '.' + ''.join(rng.choice('0123456789') for _ in range(rng.randrange(1, 7))), '.000', '.50'])
            s += f'T{rng.randrange(24):02d}:{rng.randrange(60):02d}:{sec_txt}' if rng.random() < 0.9 else 'T24:00:00' + rng.choice(['', '.0', '.000'])
        s += rng.choice(['', '', 'Z', f'{rng.choice("+-")}{rng.randrange(14):02d}:{rng.randrange(60):02d}', f'-00:{rng.randrange(1, 60):02d}',
                         f'+00:{rng.randrange(1, 60):02d}', '+14:00', '-14:00', '-05:00', '+00:00', '-00:00'])
        if rng.random() < 0.2:
            s = _mutate(rng, s)
        strs.append(s)
    return strs


def run_datetime(ctx, iso):
    rng = ctx.subrng('dt')
    b = Batch(ctx)
    strs = gen_datetime_strings(rng, ctx.n(5000, 50000))
    strs += DT_EXPLICIT
    # every legal utc offset on every kind of literal (dateTime, date, gYearMonth, gYear)
    bases = ['1972-01-07T03:15:30', '1972-01-07T03:15:30.25', '1972-01-07T24:00:00', '1972-01-07', '1972-01', '1972', '-0044-03-15T23:59:59.999999']
    for off in range(-840, 841):
        forms = [tz_text(off)] if off else ['Z', '+00:00', '-00:00']
        for base in bases:
            for f in forms:
                strs.append(base + f)
        ctx.count('dt:offsets')
    for s in strs:
        r = call(iso.parse_date_time, s)
        b.add('dtpy ' + hx(s), dt_dump(r[1]) if r[0] == 'ok' else 'err ' + r[1], 'parse_date_time', {'s': s})
        ctx.count('dt:' + ('inside' if dt_lexical(s.strip(XML_WS)) else 'outside') + ':' + r[0])
        ctx.case(('dt', s))
        dt_oracle(ctx, iso, s, r)
        if r[0] == 'ok':
            b.add('dtstr ' + dt_fields(r[1]), 'ok ' + str(r[1]), 'XsdDateInformation.__str__', {'s': s})
    # constructed objects: integer and float seconds, every shape
    tzs = [None, 0, -44, 330]
    for sec in list(range(60)) + [0.0, 5.0, 9.999999, 10.0, 30.0, 59.999999, 0.000001, 1e-05, 30.5]:
        for tz in tzs[: 2 if isinstance(sec, int) and sec % 7 else 4]:
            kw = dict(year=2020, month=2, day=29, hour=23, minute=0, second=sec, tz_info=tz)
            info, out = dt_object_oracle(ctx, iso, kw)
            b.add('dtstr ' + dt_fields(info), 'ok ' + out, 'XsdDateInformation.__str__', {'kw': str(kw)})
            ctx.case(('dt-obj', repr(sec), str(tz)))
    for kw in (dict(year=-1), dict(year=0), dict(year=12345, month=12), dict(year=5, month=1, day=31), dict(year=2020, month=1, day=1, end_of_day=True, tz_info=-840)):
        info, out = dt_object_oracle(ctx, iso, kw)
        b.add('dtstr ' + dt_fields(info), 'ok ' + out, 'XsdDateInformation.__str__', {'kw': str(kw)})
        ctx.case(('dt-obj', str(kw)))
    b.flush()


# ---------------------------------------------------------------------------------------------------------------
def run(ctx):
    dc, iso = _mods()
    run_corpus(ctx, dc, iso)
    run_timestamps(ctx, dc)
    run_lexical(ctx, dc)
    run_decimals(ctx, dc)
    run_decimal_contexts(ctx, dc, Batch(ctx))
    run_durations(ctx, dc, iso)
    run_properties(ctx, dc, Batch(ctx))
    run_special_properties(ctx, dc, iso, Batch(ctx))
    run_datetime(ctx, iso)
    T, D, C = dc.TimestampConverter, dc.DecimalConverter, dc.DurationConverter
    ctx.samples[:] = [
        {'TimestampConverter': "to_py('1001')", 'float.hex': T.to_py('1001').hex(), 'to_xml': T.to_xml(T.to_py('1001'))},
        {'TimestampConverter': f"to_py('{TS_LIMIT - 1}')", 'float.hex': T.to_py(str(TS_LIMIT - 1)).hex(), 'to_xml': T.to_xml(T.to_py(str(TS_LIMIT - 1)))},
        {'DecimalConverter': "to_xml(Decimal('-0.123456789012345678'))", 'xml': D.to_xml(Decimal('-0.123456789012345678')),
         'to_xml(Decimal("1E-7"))': D.to_xml(Decimal('1E-7')), 'to_xml(Decimal("123456789012345678E+3"))': D.to_xml(Decimal('123456789012345678E+3'))},
        {'lexical': {s: call(dc.IntegerConverter.to_py, s)[0] + '/' + call(D.to_py, s)[0] + '/' + str(call(dc.BooleanConverter.to_py, s)[1])
                     for s in ('1_000', 'NaN', '1E5', ' 12 ', 'TRUE', '+5', '.5')}, 'columns': 'integer/decimal/boolean'},
        {'DurationConverter': 'to_xml(3723.000001)', 'xml': C.to_xml(3723.000001), 'to_py': C.to_py(C.to_xml(3723.000001)).hex()},
        {'parse_date_time': '2020-02-03T04:05:06.125+01:30', 'str': str(iso.parse_date_time('2020-02-03T04:05:06.125+01:30'))},
    ]
    ctx.notes['explanation'] = ('dense window 0..2e4 ms line by line, 0..2e5 by checksum (thorough: 0..2e7), random n < 2^53/1000, random floats <= 2^41 s; '
                                'decimals: every sign x digit count 1..22 x exponent -25..25 class; sloppy lexical forms for every converter; '
                                'durations from floats incl. ties of the microsecond rounding and from strings')


def run_corpus(ctx, dc, iso):
    import glob
    import json
    import os
    for f in sorted(glob.glob(os.path.join(core.VERIF, 'corpus', 'C18', '*.json'))):
        obj = json.load(open(f))
        if _replay_case(ctx, dc, iso, obj['case'], report=True):
            ctx.count('corpus-still-failing')


def search(ctx):
    """deeper failing-input search: every oracle on more inputs, cheap ones first"""
    dc, iso = _mods()
    rng = ctx.subrng('search')
    for s in gen_duration_strings(rng, 200_000):
        r = call(dc.DurationConverter.to_py, s)
        duration_lexical_oracle(ctx, s, r)
        duration_value_oracle(ctx, s, r)
    if ctx.failures:
        return
    run_decimal_contexts(ctx, dc, None)
    run_properties(ctx, dc, None)
    run_special_properties(ctx, dc, iso, None)
    if ctx.failures:
        return
    for _ in range(300_000):
        nd = rng.randrange(1, 19)
        d = mk_dec(rng.randrange(2), rng.randrange(10 ** (nd - 1), 10 ** nd), rng.randrange(-18, 19))
        dec_oracle(ctx, dc, d, True)
    if ctx.failures:
        return
    for n in range(200_000, 3_000_000):
        if not ts_oracle_n(ctx, dc, n):
            return
    for _ in range(2_000_000):
        if not ts_oracle_n(ctx, dc, rng.randrange(TS_LIMIT)):
            return


def _replay_case(ctx, dc, iso, case, report=False):
    """True iff the property still fails on the case"""
    before = len(ctx.failures)
    k = case.get('kind')
    if k == 'ts-n':
        ts_oracle_n(ctx, dc, int(case['n']))
    elif k == 'ts-x':
        x = case['x']
        ts_oracle_x(ctx, dc, float.fromhex(x) if x.startswith(('0x', '-0x')) else Decimal(x))
    elif k == 'lex':
        conv = {'integer': dc.IntegerConverter, 'decimal': dc.DecimalConverter, 'timestamp': dc.TimestampConverter,
                'boolean': dc.BooleanConverter}[case['type']]
        lexical_oracle(ctx, case['type'], case['s'], call(conv.to_py, case['s']))
    elif k == 'dec':
        dec_oracle(ctx, dc, Decimal(case['d']), True)
    elif k == 'decs':
        r = call(dc.DecimalConverter.to_py, case['s'])
        if r[0] == 'ok':
            x = dc.DecimalConverter.to_xml(r[1])
            r2 = call(dc.DecimalConverter.to_py, x)
            if 'E' in x.upper() or r2[0] != 'ok' or r2[1] != r[1] or r[1] != Decimal(case['s'].strip(XML_WS)):
                ctx.fail('decimal:xml-py-xml', f'{case["s"]!r} -> {r[1]!r} -> {x!r}', case)
        else:
            ctx.fail('lexical:decimal-valid-rejected', case['s'], case)
    elif k == 'dur':
        x = float.fromhex(case['x'])
        s = dc.DurationConverter.to_xml(x)
        p = dc.DurationConverter.to_py(s)
        if p != td_us(x) / 10 ** 6:
            ctx.fail('duration:roundtrip', f'{x!r} -> {s!r} -> {p!r}', case)
    elif k == 'durs':
        r = call(dc.DurationConverter.to_py, case['s'])
        duration_lexical_oracle(ctx, case['s'], r)
        duration_value_oracle(ctx, case['s'], r)
    elif k == 'prop':
        replay_property_case(ctx, case)
    elif k in ('dec-ctx', 'ts-ctx', 'dur-ctx'):
        replay_context_case(ctx, case)
    elif k in ('dob', 'proplist', 'proplist-read'):
        replay_special_case(ctx, case)
    elif k == 'enum':
        cls = dict(_enum_classes())[case['cls']]
        r = call(dc.EnumConverter(cls).to_py, case['s'])
        if (r[0] == 'ok') != (case['s'] in [m.value for m in cls]):
            ctx.fail('lexical:enum-coerced', case['s'], case)
    elif k in ('dt', 'dt-bad'):
        dt_oracle(ctx, iso, case['s'], call(iso.parse_date_time, case['s']))
    elif k == 'dt-obj':
        dt_object_oracle(ctx, iso, case['kw'])
    return len(ctx.failures) > before


def replay(ctx, obj):
    dc, iso = _mods()
    still = _replay_case(ctx, dc, iso, obj['case'])
    for f in ctx.failures:
        print(f['signature'], '-', f['detail'])
    return still
