"""C16 — location scopes round-trip; location filtering tolerates foreign scopes.

Tie: correspondence. The Lean model (lean/SdcModel/Location.lean + Basic/{Percent,Utf8,Url}.lean) re-implements, at the
level of UTF-8 bytes, `SdcLocation.scope_string`, `from_scope_string` (incl. `urlsplit`, `parse_qsl`, `unquote`),
`__contains__`, `_scope_string_matches`, `filter_services_inside` and the scope a provider publishes
(`LocationContextStateContainer.update_from_sdc_location` + `scopesfactory.mk_scopes`). Every generated case is executed on
the real code and on the compiled model driver; results are compared byte for byte / error class for error class.
Oracle: the three sentences of the property evaluated directly on the real code, expected answers known by construction.
"""
from __future__ import annotations

import glob
import json
import os
import warnings
from unittest import mock
from urllib.parse import parse_qsl, quote, quote_plus, unquote, urlsplit

import sdc11073.definitions_sdc  # noqa: F401  (protocol registry)
from sdc11073.location import SdcLocation
from sdc11073.mdib import ProviderMdib, statecontainers
from sdc11073.provider import scopesfactory
from sdc11073.wsdiscovery import wsdimpl
from sdc11073.wsdiscovery.service import Service
from sdc11073.xml_types import pm_types
from sdc11073.definitions_sdc import SdcV1Definitions
from sdc11073.xml_types.wsd_types import ScopesType

import core

READY = True
MANIFEST = dict(
    technique='Lean 4 theorems over a byte-level model of the scope codec (percent-encoding, UTF-8 decoding with replacement, urlsplit, parse_qsl transcribed and proved to round-trip); differential correspondence of every model function against the real code',
    text='Theorems (Properties/C16.lean): scope_roundtrip (from_scope_string(scope_string(loc)) = loc for every non-empty root and every present/absent pattern of arbitrary UTF-8 values, empty string included), published_roundtrip / published_inside (the scope mk_scopes publishes is inside exactly the locations with the default root that agree on all their specified elements; corollaries: inside itself (published_inside_self_partial: for the default root; published_inside_self_full_fails is the witness of the known finding with a non-default, deprecated root), inside every enclosing location, outside every location differing in a specified element), filter_total / filter_services_total (for every scope string and service list filter_services_inside returns exactly the services with ANY scope inside, no exception class escapes), published_after_update / published_after_history / inside_after_history (after any history of location updates of one provider the published scope is that of the last accepted location), search_in_location_exact / search_finds_published / search_excludes_elsewhere (WSDiscovery.search_sdc_device_services_in_location = SDC-typed discovered services filtered by location containment, so a device is found by exactly the searches for enclosing locations). The model is compared with the implementation on generated locations (all 64 presence patterns, reserved/non-ASCII/long values) and on foreign scope strings (any scheme, netloc, 0-6 segments, malformed queries).',
    note='Trusted: Lean kernel; harness and generators; the ipaddress/NFKC checks inside urlsplit are a parameter of the model (all theorems hold for every outcome), CPython str.encode/UTF-8 decoder is modelled and under correspondence. Domain: strings are sequences of Unicode scalar values (lone surrogates cannot be encoded, quote raises); root must be non-empty (root is deprecated; an empty root cannot be expressed in the URL path); the published scope always carries the fixed root sdc.ctxt.loc.detail.',
    ref='5 C16')
DRIVERS = ['drv_c16']
RULE = ('one case = one operation (scope / published / parse / match / filter / search / location history step / split / qsl / utf8 / quote) with its arguments; '
        'distinct by canonical argument tuple; non-trivial = at least one element or scope carries a reserved, '
        'percent, plus, space or non-ASCII character, or the scope is foreign / malformed')
TRUSTED = ['ipaddress.ip_address and unicodedata.normalize inside urlsplit (parameter chk of the model; the harness passes whether the real urlsplit accepted the URL)',
           'CPython UTF-8 codec (str.encode, bytes.decode(errors="replace")): modelled in Basic/Utf8.lean and compared on random byte strings',
           'mock MDIB around mk_scopes (entities.by_node_type returns one entity holding the real LocationContextStateContainer)']
ASSUMPTIONS = ['strings are sequences of Unicode scalar values (no lone surrogates)',
               'SdcLocation.root is non-empty (deprecated attribute; "" yields a path starting with // which urlsplit reads as netloc)',
               'the provider publishes through update_from_sdc_location + mk_scopes, which always use the root sdc.ctxt.loc.detail']

ELEMS = ('fac', 'bldng', 'flr', 'poc', 'rm', 'bed')
DEFAULT_ROOT = 'sdc.ctxt.loc.detail'

warnings.simplefilter('ignore', DeprecationWarning)


# ---------------------------------------------------------------------------------------------- encoding helpers
def hx(s: str) -> str:
    return 'x' + s.encode('utf-8').hex()


def hopt(s) -> str:
    return '-' if s is None else hx(s)


def unhx(t: str):
    if t == '-':
        return None
    assert t[0] == 'x'
    return bytes.fromhex(t[1:]).decode('utf-8')


def encodable(*strings) -> bool:
    try:
        for s in strings:
            if s is not None:
                s.encode('utf-8')
    except UnicodeEncodeError:
        return False
    return True


def split_flag(url: str) -> str:
    """'1' when the real urlsplit accepts the url, '0' when it raises ValueError (ipaddress / NFKC / bracket checks)."""
    try:
        urlsplit(url)
    except ValueError:
        return '0'
    return '1'


# ---------------------------------------------------------------------------------------------- implementation adapters
def mk_loc(t) -> SdcLocation:
    root, fac, bldng, flr, poc, rm, bed = t
    return SdcLocation(fac=fac, bldng=bldng, flr=flr, poc=poc, rm=rm, bed=bed, root=root)


def loc_tuple(loc: SdcLocation):
    return (loc._root, loc.fac, loc.bldng, loc.flr, loc.poc, loc.rm, loc.bed)


def show_loc(t) -> str:
    return ' '.join([hx(t[0])] + [hopt(v) for v in t[1:]])


def _exc(ex: Exception) -> str:
    return 'err ' + type(ex).__name__


def impl_scope(t) -> str:
    try:
        return 'ok ' + hx(mk_loc(t).scope_string)
    except Exception as ex:  # noqa: BLE001
        return _exc(ex)


def _mock_mdib(loc_state):
    mdib = mock.MagicMock()
    mdib.data_model.pm_types.ContextAssociation.ASSOCIATED = pm_types.ContextAssociation.ASSOCIATED
    for n in ('Location', 'Operator', 'Ensemble', 'Workflow', 'Means'):
        setattr(mdib.data_model.pm_names, n + 'ContextDescriptor', n + 'ContextDescriptor')
    mdib.data_model.pm_names.MdsDescriptor = 'MdsDescriptor'
    mdib.entities.by_node_type.side_effect = lambda nodetype: (
        [mock.MagicMock(states={'s': loc_state})] if nodetype == 'LocationContextDescriptor' else [])
    return mdib


def published_scope(t) -> str:
    """The location scope a provider publishes: update_from_sdc_location + mk_scopes. Raises what the code raises."""
    state = statecontainers.LocationContextStateContainer.from_sdc_location(
        mock.MagicMock(Handle='d', DescriptorVersion=0), 'h', mk_loc(t))
    scopes = scopesfactory.mk_scopes(_mock_mdib(state)).text
    loc_scopes = [s for s in scopes if s.startswith('sdc.ctxt.loc:')]
    assert len(loc_scopes) == 1, scopes
    return loc_scopes[0]


def published_scope_list(t, extra_idents=(), extra_first=True):
    """All scopes mk_scopes publishes for a provider at location t whose LocationContextState carries further
    instance identifiers (root, extension) in front of / behind the GLUE fallback identifier."""
    state = statecontainers.LocationContextStateContainer.from_sdc_location(
        mock.MagicMock(Handle='d', DescriptorVersion=0), 'h', mk_loc(t))
    extra = [pm_types.InstanceIdentifier(root=r, extension_string=e) for r, e in extra_idents]
    state.Identification = (extra + list(state.Identification)) if extra_first else (list(state.Identification) + extra)
    return list(scopesfactory.mk_scopes(_mock_mdib(state)).text)


def impl_pub(t) -> str:
    try:
        return 'ok ' + hx(published_scope(t))
    except Exception as ex:  # noqa: BLE001
        return _exc(ex)


def impl_parse(s: str) -> str:
    try:
        return 'ok ' + show_loc(loc_tuple(SdcLocation.from_scope_string(s)))
    except Exception as ex:  # noqa: BLE001
        return _exc(ex)


def impl_match(t, s: str) -> str:
    try:
        return 'ok ' + str(mk_loc(t)._scope_string_matches(s))
    except Exception as ex:  # noqa: BLE001
        return _exc(ex)


def mk_services(svcs):
    out = []
    for i, scopes in enumerate(svcs):
        st = None
        if scopes is not None:
            st = ScopesType()
            st.text.extend(scopes)
        out.append(Service(types=None, scopes=st, x_addrs=None, epr=str(i), instance_id='1'))
    return out


def impl_filter(t, svcs) -> str:
    try:
        res = mk_loc(t).filter_services_inside(mk_services(svcs))
        return 'ok ' + ' '.join(s.epr for s in res)
    except Exception as ex:  # noqa: BLE001
        return _exc(ex)


# ---------------------------------------------------------------------------------------------- location histories
def _loc_for(backend, kind, t):
    """`…-same`: the application keeps ONE SdcLocation object, logs it (str() reads scope_string) and edits it in place"""
    if not kind.endswith('-same'):
        return mk_loc(t)
    if getattr(backend, 'shared', None) is None:
        backend.shared = mk_loc(t)
    str(backend.shared)
    set_to(backend.shared, t)
    str(backend.shared)
    return backend.shared


class ContainerBackend:
    """one LocationContextStateContainer object that is updated again and again (no MDIB, no transaction)"""
    name = 'container'

    def __init__(self):
        self.state = statecontainers.LocationContextStateContainer(mock.MagicMock(Handle='d', DescriptorVersion=0), 'h')

    def step(self, kind, t) -> str:
        try:
            self.state.update_from_sdc_location(_loc_for(self, kind, t))
        except Exception as ex:  # noqa: BLE001
            return _exc(ex)
        return 'ok'

    def scopes(self):
        return list(scopesfactory.mk_scopes(_mock_mdib(self.state)).text)


class MdibBackend:
    """a real ProviderMdib: `set` = xtra.set_location (new associated state), `tx` = update of the associated state
    inside a context state transaction"""
    name = 'mdib'
    MDIB_FILE = os.path.join(os.environ.get('VERIF_REPO', '/repo'), 'tests', '70041_MDIB_Final.xml')

    def __init__(self):
        self.mdib = ProviderMdib.from_mdib_file(self.MDIB_FILE)
        self.handles = []   # handles of the location states created by successful set_location calls, in order

    def _associated(self):
        pm = self.mdib.data_model.pm_names
        assoc = self.mdib.data_model.pm_types.ContextAssociation.ASSOCIATED
        return [s for e in self.mdib.entities.by_node_type(pm.LocationContextDescriptor) for s in e.states.values()
                if s.ContextAssociation == assoc]

    def step(self, kind, t) -> str:
        try:
            if kind.startswith('reassoc:'):
                # back to an earlier location: re-activate its state, everything else gets disassociated
                handle = self.handles[int(kind.split(':')[1])]
                pm = self.mdib.data_model.pm_names
                descriptor = self.mdib.descriptions.NODETYPE.get_one(pm.LocationContextDescriptor)
                with self.mdib.context_state_transaction() as mgr:
                    mgr.disassociate_all(descriptor.Handle, ignored_handle=handle)
                    mgr.get_context_state(handle).ContextAssociation = self.mdib.data_model.pm_types.ContextAssociation.ASSOCIATED
                return 'ok'
            loc = _loc_for(self, kind, t)
            if kind.startswith('set') or not self._associated():
                self.mdib.xtra.set_location(loc)
                self.handles.append(self._associated()[0].Handle)
            else:
                handle = self._associated()[0].Handle
                with self.mdib.context_state_transaction() as mgr:
                    mgr.get_context_state(handle).update_from_sdc_location(loc)
        except Exception as ex:  # noqa: BLE001
            return _exc(ex)
        return 'ok'

    def scopes(self):
        return list(scopesfactory.mk_scopes(self.mdib).text)


def encloses(probe, loc) -> bool:
    """the statement: `probe` is the location itself or a less specific one (root fixed by the provider)"""
    return probe[0] == DEFAULT_ROOT and all(p is None or p == v for p, v in zip(probe[1:], loc[1:]))


def run_history(ctx, backend_cls, steps, rng, emit=None):
    """steps = [(kind, location)]; after every step: the published scopes must place the provider in exactly the
    locations that enclose the location it was last (successfully) given. emit(line, impl, case) feeds the model."""
    backend = backend_cls()
    case = {'op': 'history', 'backend': backend.name, 'steps': [[k, list(t)] for k, t in steps]}
    if emit:
        emit('lsreset', 'ok', case)
    current, seen, half_updated = None, [], False
    for i, (kind, t) in enumerate(steps):
        res = backend.step(kind, t)
        seen.append(t)
        if res == 'ok':
            current, half_updated = t, False
        elif backend.name == 'container':
            half_updated = True     # no transaction around it: the object is left half updated, nothing is demanded
        ctx.count(f'history:{backend.name}:{kind}:{res}')
        if emit:
            emit(('lsupdate ' if backend.name == 'container' else 'lstx ') + show_loc(t), res, {**case, 'at': i})
        try:
            scopes = backend.scopes()
            loc_scopes = [x for x in scopes if x.startswith('sdc.ctxt.loc:')]
            pub = 'ok ' + hx(loc_scopes[0]) if len(loc_scopes) == 1 else f'err {len(loc_scopes)}-location-scopes'
        except Exception as ex:  # noqa: BLE001
            scopes, pub = None, _exc(ex)
        if emit:
            emit('lspub', pub, {**case, 'at': i})
        if kind.endswith('-same') and res == 'ok':
            shared_scope, fresh_scope = backend.shared.scope_string, mk_loc(t).scope_string
            if shared_scope != fresh_scope:
                ctx.fail('scope-string:stale-after-change', f'the application\'s location object now is {t!r} but its scope_string is {shared_scope!r}; '
                         f'a new object with these values gives {fresh_scope!r}', {**case, 'at': i})
                return
        if current is None or half_updated:
            continue
        if scopes is None:
            ctx.fail('published-after-update:raises', f'mk_scopes raised {pub} after step {i}', {**case, 'at': i})
            continue
        # probes: around the current location, and around every earlier one (stale elements must not count)
        probes = [enclosing_of(current, m, DEFAULT_ROOT) for m in (0, 63, rng.randrange(64), rng.randrange(64))]
        for old in seen:
            probes += [enclosing_of(old, m, DEFAULT_ROOT) for m in (63, rng.randrange(64), rng.randrange(64))]
            mixed = tuple([DEFAULT_ROOT] + [rng.choice([a, b, None]) for a, b in zip(old[1:], current[1:])])
            probes.append(mixed)
        svc = mk_services([scopes])
        for probe in probes:
            expected = encloses(probe, current)
            try:
                found = len(mk_loc(probe).filter_services_inside(svc)) == 1
            except Exception as ex:  # noqa: BLE001
                ctx.fail('filter-raises:' + type(ex).__name__, f'{ex!r}', {**case, 'at': i, 'probe': list(probe)})
                break
            if found != expected:
                ctx.fail('published-after-update:' + ('stale-or-wrong-location-inside' if found else 'not-inside-enclosing'),
                         f'after {[k for k, _ in steps[:i + 1]]} the provider is at {current!r}, publishes {[x for x in scopes if x.startswith("sdc.ctxt.loc:")]}; '
                         f'inside {probe!r}: expected {expected}, filter_services_inside says {found}', {**case, 'at': i, 'probe': list(probe)})
                return
    ctx.case(case, nontrivial=len(steps) > 1)


def rand_history(rng, backend_name):
    """A -> (less specific | more specific | other values | nothing set) ..."""
    cur = list(rand_loc(rng, mask=rng.choice([63, 63, rng.randrange(1, 64)]), root=DEFAULT_ROOT))
    if not any(cur[1:]):
        cur[1] = 'HOSP1'
    same = rng.random() < 0.4   # the application reuses one SdcLocation object and edits it in place
    steps = [(('set' if backend_name == 'mdib' else 'update') + ('-same' if same else ''), tuple(cur))]
    states, cur_idx = [tuple(cur)], 0    # mdib back end: the location states created so far and the associated one
    for _ in range(rng.randrange(1, 7 if backend_name == 'mdib' else 6)):
        k = rng.random()
        if backend_name == 'mdib' and len(states) > 1 and rng.random() < 0.25:
            # the device returns to an earlier place: the application re-associates the state it has for it
            idx = rng.choice([i for i in range(len(states)) if i != cur_idx])
            steps.append((f'reassoc:{idx}', states[idx]))
            cur_idx, cur = idx, list(states[idx])
            continue
        nxt = list(cur)
        if k < 0.4:       # less specific: some elements are not known any more
            for j in range(1, 7):
                if rng.random() < 0.5:
                    nxt[j] = None
        elif k < 0.6:     # somewhere else
            nxt = list(rand_loc(rng, root=DEFAULT_ROOT))
        elif k < 0.8:     # some elements change, some appear
            for j in range(1, 7):
                if rng.random() < 0.4:
                    nxt[j] = rand_string(rng)
        elif k < 0.9:     # present but empty / nothing at all
            nxt = [DEFAULT_ROOT] + [rng.choice([None, '']) for _ in range(6)]
        else:             # same again
            pass
        kind = rng.choice(['set', 'tx', 'tx']) if backend_name == 'mdib' else 'update'
        steps.append((kind + ('-same' if same else ''), tuple(nxt)))
        if any(nxt[1:]):
            cur = nxt
            if kind == 'set':
                states.append(tuple(nxt))
                cur_idx = len(states) - 1
            else:
                states[cur_idx] = tuple(nxt)
    return steps


# ---------------------------------------------------------------------------------------------- call sequences on the same input
ATTRS = ('_root',) + ELEMS


def apply_mutation(loc_obj, mutation):
    for attr, value in mutation:
        setattr(loc_obj, attr, value)


def rand_mutation(rng, parsed, towards=None):
    """what a caller may do with a location object it got back: clear elements (to filter a whole ward), overwrite
    elements / the root; `towards`: make it agree with that location"""
    if towards is not None:
        return [[a, v] for a, v in zip(ATTRS, towards)]
    k = rng.random()
    if k < 0.4:
        return [[a, None] for a in rng.sample(ELEMS, rng.randrange(1, 4))]
    if k < 0.8:
        return [[a, (getattr(parsed, a) or '') + 'x'] for a in rng.sample(ELEMS, rng.randrange(1, 4))]
    return [['_root', parsed._root + 'x'], [rng.choice(ELEMS), rand_string(rng)]]


def stateful_parse(ctx, s, mutation_of, emit=None, origin=None):
    """from_scope_string(s), mutate the returned object, from_scope_string(s) again: the second result is a fresh object
    that equals the first one as it was returned (and the location `origin` the string was made from)"""
    case = {'op': 'reparse', 'scope': s}
    try:
        r1 = SdcLocation.from_scope_string(s)
    except Exception as ex:  # noqa: BLE001
        first, r1 = _exc(ex), None
    else:
        first = 'ok ' + show_loc(loc_tuple(r1))
        mutation = mutation_of(r1)
        case['mutation'] = mutation
        apply_mutation(r1, mutation)
    try:
        r2 = SdcLocation.from_scope_string(s)
        second = 'ok ' + show_loc(loc_tuple(r2))
    except Exception as ex:  # noqa: BLE001
        second, r2 = _exc(ex), None
    if r1 is not None and r2 is r1:
        ctx.fail('from-scope-string:returns-shared-object', f'two calls of from_scope_string({s!r}) return the same mutable object', case)
    elif second != first:
        ctx.fail('from-scope-string:depends-on-earlier-results',
                 f'from_scope_string({s!r}) returned {first!r}; after the caller changed that object ({case.get("mutation")}) the same call returns {second!r}', case)
    elif origin is not None and origin[0] != '' and second != 'ok ' + show_loc(origin):
        ctx.fail('roundtrip:other', f'{origin!r} -> {s!r} -> {second}', case)
    if emit and encodable(s):
        emit(f'parse {split_flag(s)} {hx(s)}', second, case)
    ctx.count('reparse:' + second.split(' ')[0] + (' ' + second.split(' ')[1] if second.startswith('err') else ''))


def set_to(loc_obj, t):
    """change an existing SdcLocation object in place so that it describes location t (root through its setter)"""
    if loc_obj._root != t[0]:
        loc_obj.root = t[0]
    for a, v in zip(ELEMS, t[1:]):
        setattr(loc_obj, a, v)


def stateful_scope_string(ctx, t_first, t_then, emit=None):
    """ONE SdcLocation object: read scope_string (also via str()), change the object, read again: the second string is the
    scope of the CURRENT values (what a fresh object with these values gives, what the model gives) and parses back to them"""
    case = {'op': 'rescope', 'first': list(t_first), 'then': list(t_then)}
    try:
        loc = mk_loc(t_first)
        s1 = loc.scope_string
        str(loc)
        set_to(loc, t_then)
        s2 = loc.scope_string
        fresh = mk_loc(t_then).scope_string
        back = loc_tuple(SdcLocation.from_scope_string(s2)) if t_then[0] != '' else None
    except Exception as ex:  # noqa: BLE001
        ctx.fail('scope-string:raises', f'{ex!r}', case)
        return
    if s2 != fresh:
        ctx.fail('scope-string:stale-after-change', f'location object changed from {t_first!r} to {t_then!r}: scope_string still {s2!r} '
                 f'(first read {s1!r}), a new object with the same values gives {fresh!r}', case)
    elif back is not None and back != tuple(t_then):
        ctx.fail('roundtrip:' + classify_roundtrip(t_then, back), f'{t_then!r} -> {s2!r} -> {back!r}', case)
    if emit:
        emit('scope ' + show_loc(t_then), 'ok ' + hx(s2), case)
    ctx.count('rescope:' + ('changed' if tuple(t_first) != tuple(t_then) else 'same'))


def stateful_filter(ctx, probe, scopes, expected, mutation_towards, rng, emit=None):
    """filter, let a caller change location objects parsed from the same scope strings, filter again (same probe): the
    selection is the same and is the one known by construction"""
    case = {'op': 'refilter', 'self': list(probe), 'scopes': scopes, 'expected': expected, 'towards': list(mutation_towards) if mutation_towards else None}
    svc = mk_services([scopes])
    try:
        first = len(mk_loc(probe).filter_services_inside(svc)) == 1
        for sc in scopes:
            try:
                obj = SdcLocation.from_scope_string(sc)
            except Exception:  # noqa: BLE001, S112
                continue
            apply_mutation(obj, rand_mutation(rng, obj, mutation_towards))
        second = len(mk_loc(probe).filter_services_inside(mk_services([scopes]))) == 1
    except Exception as ex:  # noqa: BLE001
        ctx.fail('filter-raises:' + type(ex).__name__, f'{ex!r}', case)
        return
    if first != expected:
        ctx.fail('filter-multi-scope:' + ('outside-service-kept' if first else 'inside-service-dropped'),
                 f'probe {probe!r}, scopes {scopes}: selected={first}, by construction {expected}', case)
    elif second != first:
        ctx.fail('filter:depends-on-earlier-results',
                 f'filter_services_inside of {probe!r} on scopes {scopes} selected={first}; after a caller changed location objects parsed from '
                 f'these scope strings the same call gives selected={second}', case)
    if emit and encodable(*scopes):
        emit(_filter_line(probe, [scopes]), 'ok ' + ('0' if second else ''), case)
    ctx.count(f'refilter:{expected}')


DEVICE_TYPES = [(q.namespace, q.localname) for q in SdcV1Definitions.MedicalDeviceTypesFilter]
OTHER_TYPE = ('http://example.org/verif', 'Other')


def enc_types(types) -> str:
    return '-' if types is None else 't' + ','.join(hx(ns) + ':' + hx(n) for ns, n in types)


WS_SEPARATORS = [' ', '  ', '\n', '\n        ', '\t', '\r\n', ' \n\t ', '\n\n']


def parsed_service(ws, epr, types, scopes, xaddrs, via):
    """The Service object a consumer builds from a received Hello / ProbeMatch: the message node is serialised by the
    library, then the xs:list elements (Types, Scopes, XAddrs) are re-formatted by hand with other XML white space (one item
    per line, tabs, CR LF, leading / trailing blanks - all legal for xs:list), and parsed with from_node."""
    from lxml import etree
    from sdc11073.namespaces import default_ns_helper as nsh
    from sdc11073.xml_types import wsd_types

    def fill(p):
        p.EndpointReference.Address = epr
        p.Types = [etree.QName(ns, n) for ns, n in types]
        if scopes is not None:
            p.Scopes = ScopesType()
            p.Scopes.text.extend(scopes)
        p.XAddrs.extend(xaddrs)
        p.MetadataVersion = 1
    if via == 'hello':
        payload = wsd_types.HelloType()
        fill(payload)
    else:
        payload = wsd_types.ProbeMatchesType()
        m = wsd_types.ProbeMatchType()
        fill(m)
        payload.ProbeMatch.append(m)
    node = payload.as_etree_node(payload.NODETYPE, nsh.partial_map(nsh.WSD, nsh.WSA))
    lead, sep, trail = ws
    for el in node.iter():
        if etree.QName(el).localname in ('Types', 'Scopes', 'XAddrs') and el.text:
            el.text = lead + sep.join(el.text.split(' ')) + trail
    node = etree.fromstring(etree.tostring(node))   # what arrives is text
    parsed = type(payload).from_node(node)
    if via != 'hello':
        parsed = parsed.ProbeMatch[0]
    return Service(parsed.Types, parsed.Scopes, parsed.XAddrs, parsed.EndpointReference.Address, '1',
                   metadata_version=parsed.MetadataVersion)


def rand_ws(rng):
    return [rng.choice(['', '', '\n    ', ' ', '\t']), rng.choice(WS_SEPARATORS), rng.choice(['', '', '\n  ', ' ', '\r\n'])]


def search_parsed(ctx, t, remote, expected, emit=None):
    """remote = [[types, scopes, xaddrs, via, white space]]: parse each message, check the lists, search by location"""
    case = {'op': 'search-parsed', 'self': list(t), 'remote': remote, 'expected': expected}
    services = [parsed_service(ws, str(i), [tuple(x) for x in types], scopes, xaddrs, via) for i, (types, scopes, xaddrs, via, ws) in enumerate(remote)]
    for (types, scopes, xaddrs, via, ws), svc in zip(remote, services):
        got = (None if svc.scopes is None else list(svc.scopes.text), list(svc.x_addrs), [(q.namespace, q.localname) for q in svc.types or []])
        if got != (scopes, xaddrs, [tuple(x) for x in types]):
            ctx.fail('parsed-service:list-items-differ', f'the device sent scopes {scopes}, x_addrs {xaddrs} in a {via} (list white space {ws!r}); '
                     f'the parsed service has scopes {got[0]}, x_addrs {got[1]}, types {got[2]}', case)
            break
    impl = impl_search_services(t, services)
    plain = [([tuple(x) for x in ty], sc) for ty, sc, _, _, _ in remote]
    oracle_search(ctx, t, plain, expected, impl)
    if emit:
        emit(_search_line(t, plain), impl, case)


def impl_search_services(t, services) -> str:
    wsd = wsdimpl.WSDiscovery('127.0.0.1')
    wsd._networking_thread = mock.MagicMock()
    wsd._server_started = True
    for svc in services:
        wsd._remote_services[svc.epr] = svc
    try:
        with mock.patch.object(wsdimpl.time, 'sleep', lambda *_: None):
            res = wsd.search_sdc_device_services_in_location(mk_loc(t), timeout=0)
        return 'ok ' + ' '.join(s.epr for s in res)
    except Exception as ex:  # noqa: BLE001
        return _exc(ex)


def impl_search(t, remote) -> str:
    """WSDiscovery.search_sdc_device_services_in_location on a node without network whose table of discovered services
    holds `remote` = [(types, scopes)]; the probe that would be sent is captured and dropped."""
    from lxml import etree
    wsd = wsdimpl.WSDiscovery('127.0.0.1')
    wsd._networking_thread = mock.MagicMock()
    wsd._server_started = True
    for i, (types, scopes) in enumerate(remote):
        st = None
        if scopes is not None:
            st = ScopesType()
            st.text.extend(scopes)
        wsd._remote_services[str(i)] = Service(None if types is None else [etree.QName(ns, n) for ns, n in types], st, ['http://x'], str(i), '1')
    try:
        with mock.patch.object(wsdimpl.time, 'sleep', lambda *_: None):
            res = wsd.search_sdc_device_services_in_location(mk_loc(t), timeout=0)
        return 'ok ' + ' '.join(s.epr for s in res)
    except Exception as ex:  # noqa: BLE001
        return _exc(ex)


def _search_line(t, remote) -> str:
    toks = []
    for types, scopes in remote:
        toks.append(enc_types(types) + '|' + ('N' if scopes is None else 'S' + ','.join(split_flag(x) + hx(x) for x in scopes)))
    return ('search ' + show_loc(t) + ' ' + enc_types(DEVICE_TYPES) + ' ' + ' '.join(toks)).rstrip()


# ---------------------------------------------------------------------------------------------- generators
RESERVED = ":/?#[]@!$&'()*+,;="
NONASCII = ['é', 'ß', '€', '𝄞', '�', 'é', '中文', '℀', ' ', '​', 'İ', 'Ω', '\U0010ffff', '\x7f', '\x80']
PCT = ['%', '%41', '%2F', '%2f', '%zz', '%C3%A9', '%C3', '%E2%82', '%FF', '%%', '%4', '%25']
WS = [' ', '  ', '\t', '\n', '\r', '\x00', '\x1f', '+', '++', ' +']
PLAIN = ['a', 'Z', '0', 'HOSP1', 'CU1', 'Bed42', 'x-y_z.~', 'fac', 'poc', 'sdc.ctxt.loc.detail']


def rand_string(rng, long_ok=False):
    r = rng.random()
    if r < 0.07:
        return ''
    if r < 0.25:
        return rng.choice(PLAIN)
    n = rng.choice([1, 1, 2, 3, 5, 8])
    if long_ok and rng.random() < 0.03:
        n = rng.choice([200, 3000])
    parts = []
    for _ in range(n):
        k = rng.random()
        if k < 0.25:
            parts.append(rng.choice(PLAIN))
        elif k < 0.5:
            parts.append(rng.choice(RESERVED))
        elif k < 0.65:
            parts.append(rng.choice(NONASCII))
        elif k < 0.8:
            parts.append(rng.choice(PCT))
        elif k < 0.92:
            parts.append(rng.choice(WS))
        else:
            cp = rng.choice([rng.randrange(0x20, 0x7f), rng.randrange(0x80, 0x800), rng.randrange(0x800, 0xd800),
                             rng.randrange(0xe000, 0x10000), rng.randrange(0x10000, 0x110000)])
            parts.append(chr(cp))
    return ''.join(parts)


def rand_loc(rng, mask=None, long_ok=False, root=None):
    if mask is None:
        mask = rng.randrange(64)
    vals = [rand_string(rng, long_ok) if mask >> i & 1 else None for i in range(6)]
    if root is None:
        r = rng.random()
        root = DEFAULT_ROOT if r < 0.5 else (rand_string(rng) or 'r')
    return (root, *vals)


SCHEMES = ['sdc.ctxt.loc', 'SDC.CTXT.LOC', 'Sdc.Ctxt.Loc', 'sdc.ctxt.loc.detail', 'sdc.ctxt.opr', 'sdc.mds.pkp', 'http', 'urn',
           'sdc.cdc.type', '', '1abc', 'a b', 'sdc_ctxt', 'é', 's+d-c.', 'sdc.ctxt.loc ', ' sdc.ctxt.loc', 'sdc.ctxt\tloc', 'ſdc.ctxt.loc',
           'sdc.ctxt.loK']
NETLOCS = ['', '', '', 'host', 'Host:80', 'user@host', '[::1]', '[::1', '::1]', '[v1.x]', '[1.2.3.4]', '[zz]', 'h℀st', 'é.example',
           'a%2Fb', '[', ']', '[]', 'x[y]z', 'ﬁ.com', '／']
QUERIES = ['', 'fac=a', 'fac=a&poc=b&bed=c', 'fac=a&fac=b', 'fac', 'fac=', '=a', '=', '&', '&&fac=a&&', 'fac=a;poc=b', 'fac=%zz', 'fac=%C3',
           'fac=%C3%A9', 'fac=a+b', 'fac=a%2Bb', 'fac=a%20b', 'FAC=a', 'fac=a=b', 'fac==', 'x=1&bed=%F0%9F%98%80', 'fac=é', 'fac=%E9',
           'bldng=1&flr=2&rm=3', 'fac=a?b', 'fac=a#frag', 'fac=%', 'fac=%4', 'fa%63=a', 'f+ac=a', 'fac=\t1', 'rm=%00', 'fac=a&']


def rand_foreign_scope(rng):
    r = rng.random()
    if r < 0.25:
        # a valid scope (either construction path) with a random mutation
        t = rand_loc(rng)
        try:
            s = mk_loc(t).scope_string if rng.random() < 0.5 else published_scope(t)
        except Exception:  # noqa: BLE001
            s = 'sdc.ctxt.loc:/r/x'
        k = rng.random()
        if k < 0.3 or not s:
            return s
        i = rng.randrange(len(s))
        if k < 0.5:
            return s[:i] + s[i + 1:]
        if k < 0.7:
            return s[:i] + rng.choice('/?#&=%+: [') + s[i:]
        if k < 0.85:
            return s[:i]
        return s.upper() if rng.random() < 0.5 else s.replace('%2F', '/')
    scheme = rng.choice(SCHEMES) if rng.random() < 0.6 else 'sdc.ctxt.loc'
    nseg = rng.choice([0, 1, 1, 2, 2, 2, 3, 4, 6])
    segs = []
    for _ in range(nseg):
        s = rand_string(rng)
        k = rng.random()
        segs.append(quote(s, safe='') if k < 0.5 else (s if k < 0.8 else quote(s)))
    path = ''.join('/' + s for s in segs)
    if rng.random() < 0.15:
        path = path[1:]  # relative path
    if rng.random() < 0.1:
        path += '/'
    netloc = rng.choice(NETLOCS)
    url = (scheme + ':' if scheme or rng.random() < 0.5 else '') + ('//' + netloc if netloc or rng.random() < 0.1 else '') + path
    q = rng.choice(QUERIES) if rng.random() < 0.7 else '&'.join(
        (rng.choice(ELEMS + ('x', '')) + rng.choice(['=', '=', '', '=='])
         + (quote_plus(rand_string(rng)) if rng.random() < 0.6 else rand_string(rng))) for _ in range(rng.randrange(4)))
    if q or rng.random() < 0.1:
        url += '?' + q
    if rng.random() < 0.1:
        url += '#' + rand_string(rng)
    if rng.random() < 0.08:
        url = rng.choice([' ', '\t', '\n ', '\x00', '\x1f ']) + url
    return url


MALFORMED_LOC_SCOPES = ['sdc.ctxt.loc:/root', 'sdc.ctxt.loc://[bad/x', 'sdc.ctxt.loc:/a/b/c?fac=x', 'sdc.ctxt.loc:', 'sdc.ctxt.loc:x',
                        'SDC.CTXT.LOC:/only', 'sdc.ctxt.loc:/%/%?%']
NON_LOC_SCOPES = [scopesfactory.KEY_PURPOSE_SERVICE_PROVIDER, 'sdc.cdc.type:/a/b/c', 'sdc.ctxt.opr:/r/e', 'http://example.org/x', 'urn:uuid:1']


def scope_for(rng, t, inside: bool):
    """a location scope (scope_string or the published one) of a location that is / is not inside `t`, known by
    construction; None when that is not possible for this t"""
    if t[0] == '':
        return None
    inner = list(t)
    for j in range(1, 7):   # more specific than t
        if inner[j] is None and rng.random() < 0.5:
            inner[j] = rand_string(rng)
    use_pub = t[0] == DEFAULT_ROOT and any(inner[1:]) and rng.random() < 0.6
    if not inside:
        spec = [j for j in range(1, 7) if t[j] is not None]
        if spec and rng.random() < 0.8:
            j = rng.choice(spec)
            inner[j] = (t[j] + 'x') if rng.random() < 0.7 else None     # differs in / lacks a specified element
            use_pub = use_pub and any(inner[1:])
        elif use_pub:
            return None   # the published root is fixed; cannot differ in the root
        else:
            inner[0] = t[0] + 'x'
    try:
        return published_scope(inner) if use_pub else mk_loc(inner).scope_string
    except Exception:  # noqa: BLE001
        return None


def multi_scope_service(rng, t):
    """scopes of one service with 2-4 entries, several of them location scopes; -> (scopes, inside?) by construction"""
    want_inside = rng.random() < 0.6
    good = scope_for(rng, t, True) if want_inside else None
    others = []
    for _ in range(rng.choice([1, 2, 2, 3])):
        k = rng.random()
        if k < 0.4:
            o = scope_for(rng, t, False)
        elif k < 0.75:
            o = rng.choice(MALFORMED_LOC_SCOPES)
        else:
            o = rng.choice(NON_LOC_SCOPES)
        if o is not None:
            others.append(o)
    if good is None:
        return others, False
    pos = rng.choice([0, len(others), rng.randrange(len(others) + 1)])   # first / last / somewhere
    return others[:pos] + [good] + others[pos:], True


def nontrivial_str(*strings) -> bool:
    return any(s is not None and any((not c.isalnum()) or ord(c) > 127 for c in s) for s in strings)


# ---------------------------------------------------------------------------------------------- oracle
def classify_roundtrip(t, back) -> str:
    if any(v == '' for v in t[1:]) and all((a or None) == (b or None) for a, b in zip(t[1:], back[1:])) and t[0] == back[0]:
        return 'empty-element'
    if '/' in t[0]:
        return 'root-slash'
    return 'other'


def oracle_roundtrip(ctx, t):
    """Sentence 1: from_scope_string(scope_string(loc)) == loc (all seven attributes, None distinguished from '')."""
    if t[0] == '':
        try:
            back = loc_tuple(SdcLocation.from_scope_string(mk_loc(t).scope_string))
            ctx.count('outside-domain:root-empty->' + ('same' if back == tuple(t) else 'different'))
        except Exception as ex:  # noqa: BLE001
            ctx.count('outside-domain:root-empty->' + type(ex).__name__)
        return
    try:
        s = mk_loc(t).scope_string
        back = loc_tuple(SdcLocation.from_scope_string(s))
    except Exception as ex:  # noqa: BLE001
        cls = 'root-slash' if '/' in t[0] else 'other'
        ctx.fail(f'roundtrip:{cls}', f'scope_string / from_scope_string raised {ex!r}', {'op': 'roundtrip', 'loc': list(t)})
        return
    if back != tuple(t):
        ctx.fail('roundtrip:' + classify_roundtrip(t, back), f'location {t!r} -> {s!r} -> {back!r}',
                 {'op': 'roundtrip', 'loc': list(t)})


def enclosing_of(t, mask, root):
    """the less specific location that keeps the elements selected by mask"""
    return (root, *[v if mask >> i & 1 else None for i, v in enumerate(t[1:])])


def oracle_published(ctx, t, rng, all_masks):
    """Sentence 2 on the scope the provider really publishes (and on scope_string)."""
    case = {'op': 'published', 'loc': list(t)}
    try:
        pub = published_scope(t)
    except ValueError:
        if any(t[1:]):
            ctx.fail('published:raises', 'update_from_sdc_location / mk_scopes raised ValueError although an element is set', case)
        else:
            ctx.count('published:rejected-all-elements-empty')
        pub = None
    except Exception as ex:  # noqa: BLE001
        ctx.fail('published:raises', f'{ex!r}', case)
        return
    sources = []
    if pub is not None:
        sources.append(('published', pub, DEFAULT_ROOT))
    if t[0] != '':
        sources.append(('scope_string', mk_loc(t).scope_string, t[0]))
    if pub is not None:
        # the statement, literally: the location itself (with the root it has) recognises the scope published for it
        try:
            own = mk_loc(t)._scope_string_matches(pub)
        except Exception as ex:  # noqa: BLE001
            own = None
            ctx.fail('published-inside-raises', f'{ex!r}', case)
        if own is False:
            ctx.fail('published-not-inside-own-location:' + ('non-default-root' if t[0] != DEFAULT_ROOT else 'default-root'),
                     f'SdcLocation {t!r} publishes {pub!r}, which {t!r} does not recognise as inside itself', case)
    masks = range(64) if all_masks else sorted({0, 63, rng.randrange(64), rng.randrange(64)})
    for name, scope, root in sources:
        for mask in masks:
            enc = enclosing_of(t, mask, root)
            try:
                if not mk_loc(enc)._scope_string_matches(scope):
                    cls = 'empty-element' if any(v == '' for v in enc[1:]) else 'other'
                    ctx.fail(f'{name}-not-inside-enclosing:{cls}', f'{scope!r} not inside {enc!r}', {**case, 'mask': mask, 'via': name})
                    break
            except Exception as ex:  # noqa: BLE001
                ctx.fail(f'{name}-inside-raises', f'{ex!r}', {**case, 'mask': mask, 'via': name})
                break
        # a location that differs in one specified element
        i = rng.randrange(6)
        other = rand_string(rng)
        if other == t[1 + i]:
            other += 'x'
        for mask in (1 << i, 63, (1 << i) | rng.randrange(64)):
            enc = list(enclosing_of(t, mask, root))
            enc[1 + i] = other
            try:
                if mk_loc(enc)._scope_string_matches(scope):
                    ctx.fail(f'{name}-inside-differing', f'{scope!r} inside {enc!r} which differs in {ELEMS[i]}',
                             {**case, 'mask': mask, 'via': name, 'differ': [i, other]})
            except Exception as ex:  # noqa: BLE001
                ctx.fail(f'{name}-inside-raises', f'{ex!r}', {**case, 'mask': mask, 'via': name})
        # different root => not inside
        try:
            if mk_loc(enclosing_of(t, 0, root + 'x'))._scope_string_matches(scope):
                ctx.fail(f'{name}-inside-other-root', f'{scope!r} inside a location with root {root + "x"!r}', {**case, 'via': name})
        except Exception as ex:  # noqa: BLE001
            ctx.fail(f'{name}-inside-raises', f'{ex!r}', {**case, 'mask': 0, 'via': name})


def oracle_filter(ctx, t, svcs):
    """Sentence 3: filtering never fails; the result is a sub-sequence of the input."""
    case = {'op': 'filter', 'self': list(t), 'services': svcs}
    services = mk_services(svcs)
    try:
        res = mk_loc(t).filter_services_inside(services)
    except Exception as ex:  # noqa: BLE001
        ctx.fail('filter-raises:' + type(ex).__name__, f'filter_services_inside raised {ex!r}', case)
        return None
    it = iter(services)
    if not all(any(r is s for s in it) for r in res):
        ctx.fail('filter-result-not-subsequence', 'result is not a sub-sequence of the services', case)
    return res


def oracle_filter_expected(ctx, t, svcs, expected):
    """Sentences 2+3 on services with several scopes: a service is inside iff ANY of its location scopes is inside;
    `expected` = indices known by construction."""
    case = {'op': 'filter', 'self': list(t), 'services': svcs, 'expected': list(expected)}
    try:
        res = mk_loc(t).filter_services_inside(mk_services(svcs))
    except Exception as ex:  # noqa: BLE001
        ctx.fail('filter-raises:' + type(ex).__name__, f'filter_services_inside raised {ex!r}', case)
        return
    got = [int(s.epr) for s in res]
    if got != list(expected):
        missing = [i for i in expected if i not in got]
        kind = 'inside-service-dropped' if missing else 'outside-service-kept'
        ctx.fail('filter-multi-scope:' + kind,
                 f'services {got} selected, by construction {list(expected)} are inside (a service is inside iff any of its scopes is)', case)


def oracle_search(ctx, t, remote, expected, impl):
    """search_sdc_device_services_in_location returns exactly the SDC devices whose published location is enclosed"""
    case = {'op': 'search', 'self': list(t), 'remote': remote, 'expected': list(expected)}
    if impl.startswith('err'):
        ctx.fail('search-in-location-raises:' + impl[4:], f'search_sdc_device_services_in_location raised {impl[4:]}', case)
        return
    got = sorted(int(x) for x in impl.split()[1:])
    if got != sorted(expected):
        missing = [i for i in expected if i not in got]
        ctx.fail('search-in-location:' + ('device-not-found' if missing else 'device-outside-found'),
                 f'search for {t!r} returned services {got}; devices located inside it (by construction): {sorted(expected)}', case)


# ---------------------------------------------------------------------------------------------- run
def load_corpus():
    out = []
    for f in sorted(glob.glob(os.path.join(core.VERIF, 'corpus', 'C16', '*.json'))):
        out.append(json.load(open(f))['case'])
    return out


def run_case_oracle(ctx, case, rng):
    if case['op'] == 'roundtrip':
        oracle_roundtrip(ctx, tuple(case['loc']))
    elif case['op'] == 'published':
        oracle_published(ctx, tuple(case['loc']), rng, all_masks=True)
    elif case['op'] == 'filter' and 'expected' in case:
        oracle_filter_expected(ctx, tuple(case['self']), case['services'], case['expected'])
    elif case['op'] == 'filter':
        oracle_filter(ctx, tuple(case['self']), case['services'])
    elif case['op'] == 'search-parsed':
        search_parsed(ctx, tuple(case['self']), case['remote'], case['expected'])
    elif case['op'] == 'rescope':
        stateful_scope_string(ctx, tuple(case['first']), tuple(case['then']))
    elif case['op'] == 'reparse':
        stateful_parse(ctx, case['scope'], lambda obj: case.get('mutation') or rand_mutation(rng, obj))
    elif case['op'] == 'refilter':
        stateful_filter(ctx, tuple(case['self']), case['scopes'], case['expected'], tuple(case['towards']) if case['towards'] else None, rng)
    elif case['op'] == 'history':
        run_history(ctx, MdibBackend if case['backend'] == 'mdib' else ContainerBackend, [(k, tuple(t)) for k, t in case['steps']], rng)
    elif case['op'] == 'search':
        remote = [(None if ty is None else [tuple(x) for x in ty], sc) for ty, sc in case['remote']]
        oracle_search(ctx, tuple(case['self']), remote, case['expected'], impl_search(tuple(case['self']), remote))


def run(ctx):
    rng = ctx.subrng('c16')
    lines, expect, cases = [], [], []

    def add(line, impl, case, nontrivial):
        lines.append(line)
        expect.append(impl)
        cases.append(case)
        ctx.case(case, nontrivial=nontrivial)
        ctx.count('op:' + line.split(' ', 1)[0])
        ctx.count('impl:' + line.split(' ', 1)[0] + ':' + ' '.join(impl.split(' ')[:2] if impl.startswith('err') else impl.split(' ')[:1]))

    def add_loc_cases(t, all_masks=False):
        nt = nontrivial_str(*t)
        oracle_roundtrip(ctx, t)
        oracle_published(ctx, t, rng, all_masks)
        sc = impl_scope(t)
        add('scope ' + show_loc(t), sc, {'op': 'scope', 'loc': list(t)}, nt)
        pb = impl_pub(t)
        add('pub ' + show_loc(t), pb, {'op': 'pub', 'loc': list(t)}, nt)
        for res in (sc, pb):
            if res.startswith('ok '):
                s = unhx(res[3:])
                add(f'parse {split_flag(s)} {hx(s)}', impl_parse(s), {'op': 'parse', 'scope': s}, nt)
                enc = enclosing_of(t, rng.randrange(64), rng.choice([t[0], DEFAULT_ROOT]))
                if rng.random() < 0.3:
                    enc = list(enc)
                    enc[1 + rng.randrange(6)] = rand_string(rng)
                    enc = tuple(enc)
                add(f'match {split_flag(s)} {show_loc(enc)} {hx(s)}', impl_match(enc, s), {'op': 'match', 'self': list(enc), 'scope': s}, nt)

    # 0. corpus of past failures (oracle only; the same inputs are part of the generated stream for the correspondence)
    for case in load_corpus():
        run_case_oracle(ctx, case, rng)
        ctx.count('corpus')
        if case['op'] in ('roundtrip', 'published') and encodable(*case['loc']):
            add_loc_cases(tuple(case['loc']), all_masks=True)
        elif case['op'] == 'filter':
            t, svcs = tuple(case['self']), case['services']
            if encodable(*t, *[s for sv in svcs if sv for s in sv]):
                add(_filter_line(t, svcs), impl_filter(t, svcs), case, True)
        elif case['op'] == 'search':
            t = tuple(case['self'])
            remote = [(None if ty is None else [tuple(x) for x in ty], sc) for ty, sc in case['remote']]
            add(_search_line(t, remote), impl_search(t, remote), case, True)

    # 1. locations: every presence pattern x special strings
    for mask in range(64):
        for _ in range(ctx.n(10, 60)):
            add_loc_cases(rand_loc(rng, mask, long_ok=ctx.tier == 'thorough'), all_masks=ctx.tier == 'thorough' and rng.random() < 0.2)
    # single-character sweep: every ASCII character and a sample of others as the only content of one element / the root
    chars = [chr(c) for c in range(0x80)] + NONASCII + [chr(rng.randrange(0x80, 0x110000)) for _ in range(ctx.n(20, 400))]
    for ch in chars:
        if not encodable(ch):
            continue
        i = rng.randrange(6)
        vals = [None] * 6
        vals[i] = ch
        add_loc_cases((DEFAULT_ROOT, *vals))
        add_loc_cases(('r' + ch, *vals))
    if ctx.tier == 'thorough':
        # quote_from_bytes switches to a chunked implementation at 200 000 bytes
        big = ''.join(rng.choice(['a', ' ', '/', 'é', '%', '+']) for _ in range(210_000))
        add_loc_cases((DEFAULT_ROOT, 'x', None, big, None, None, None))
    # empty root (outside the domain: recorded, and the model must still say what the code does)
    for _ in range(ctx.n(5, 40)):
        add_loc_cases(rand_loc(rng, root=''))

    # 2. foreign scopes: parse / match / filter
    for _ in range(ctx.n(8000, 60000)):
        s = rand_foreign_scope(rng)
        if not encodable(s):
            continue
        nt = True
        add(f'parse {split_flag(s)} {hx(s)}', impl_parse(s), {'op': 'parse', 'scope': s}, nt)
        add(f'split {split_flag(s)} {hx(s)}', impl_split(s), {'op': 'split', 'url': s}, nt)
        if rng.random() < 0.5:
            t = rand_loc(rng)
            add(f'match {split_flag(s)} {show_loc(t)} {hx(s)}', impl_match(t, s), {'op': 'match', 'self': list(t), 'scope': s}, nt)
    for _ in range(ctx.n(1500, 10000)):
        t = rand_loc(rng)
        svcs = []
        for _ in range(rng.randrange(6)):
            k = rng.random()
            if k < 0.15:
                svcs.append(None)
            else:
                sc = []
                for _ in range(rng.randrange(4)):
                    if rng.random() < 0.35:
                        inner = list(t)
                        for j in range(1, 7):  # make it more specific so that some services really are inside
                            if inner[j] is None and rng.random() < 0.5:
                                inner[j] = rand_string(rng)
                        try:
                            sc.append(published_scope(inner) if (t[0] == DEFAULT_ROOT and rng.random() < 0.5) else mk_loc(inner).scope_string)
                        except Exception:  # noqa: BLE001
                            sc.append(rand_foreign_scope(rng))
                    else:
                        sc.append(rand_foreign_scope(rng))
                svcs.append(sc)
        flat = [s for sv in svcs if sv for s in sv]
        res = oracle_filter(ctx, t, svcs)
        if res is not None:
            ctx.count('filter:selected' if res else 'filter:none-selected')
        if encodable(*flat):
            add(_filter_line(t, svcs), impl_filter(t, svcs), {'op': 'filter', 'self': list(t), 'services': svcs}, True)
    # lone surrogates / unencodable text in foreign scopes: oracle only (cannot be sent to the model as UTF-8)
    for _ in range(ctx.n(100, 2000)):
        s = rand_foreign_scope(rng)
        i = rng.randrange(len(s) + 1)
        s = s[:i] + chr(rng.randrange(0xd800, 0xe000)) + s[i:]
        oracle_filter(ctx, rand_loc(rng), [[s]])
        ctx.case({'op': 'filter-surrogate', 'scope': s.encode('utf-8', 'surrogatepass').hex()})
        ctx.count('op:filter-surrogate(oracle only)')

    # 2b. services with several location scopes (primary identifier ahead of the fallback, malformed one first, ...):
    #     inside iff ANY scope is inside; the expected selection is known by construction
    for _ in range(ctx.n(600, 6000)):
        t = rand_loc(rng)
        if t[0] == '':
            continue
        svcs, expected = [], []
        for i in range(rng.randrange(1, 5)):
            scopes, inside = multi_scope_service(rng, t)
            svcs.append(scopes)
            if inside:
                expected.append(i)
        if rng.random() < 0.5 and t[0] == DEFAULT_ROOT:
            # the real thing: a provider inside t whose location state has a primary identifier before/after the fallback
            inner = [v if v is not None else (rand_string(rng) if rng.random() < 0.5 else None) for v in t]
            if any(inner[1:]):
                first = rng.random() < 0.7
                svcs.append(published_scope_list(inner, [(rng.choice(['urn:oid:1.3.6.1.4.1.99', 'http://hospital/ids', 'x']),
                                                          rng.choice(['ward-7/bed-7', '', 'a b']))], extra_first=first))
                expected.append(len(svcs) - 1)
                ctx.count('multi-scope:published-with-primary-identifier-' + ('first' if first else 'last'))
        oracle_filter_expected(ctx, t, svcs, expected)
        ctx.count(f'multi-scope:services-inside-{min(len(expected), 3)}')
        if encodable(*[x for sv in svcs for x in sv]):
            add(_filter_line(t, svcs), impl_filter(t, svcs), {'op': 'filter', 'self': list(t), 'services': svcs, 'expected': expected}, True)

    # 2c. the public entry point WSDiscovery.search_sdc_device_services_in_location on a table of discovered services whose
    #     scopes come from the real mk_scopes: devices at a location inside / outside the searched one, services of another
    #     type, services with foreign scopes
    for _ in range(ctx.n(400, 5000)):
        dev = rand_loc(rng, root=DEFAULT_ROOT)
        if not any(dev[1:]):
            continue
        # the searched location: an enclosing one (drop elements), or one that differs in a specified element
        mask = rng.randrange(64)
        t = list(enclosing_of(dev, mask, DEFAULT_ROOT))
        encloses = True
        if rng.random() < 0.35:
            j = 1 + rng.randrange(6)
            t[j] = (dev[j] or '') + 'x'
            encloses = False
        t = tuple(t)
        remote, expected = [], []
        for i in range(rng.randrange(1, 6)):
            k = rng.random()
            if k < 0.45:      # an SDC device at `dev`
                try:
                    scopes = published_scope_list(dev, [('urn:oid:1.2.3', 'p/1')] if rng.random() < 0.3 else [], extra_first=rng.random() < 0.5)
                except Exception:  # noqa: BLE001
                    continue
                remote.append((list(DEVICE_TYPES) + ([OTHER_TYPE] if rng.random() < 0.3 else []), scopes))
                if encloses:
                    expected.append(len(remote) - 1)
            elif k < 0.6:     # same place, but not an SDC device (one of the device types missing)
                try:
                    remote.append((rng.choice([[DEVICE_TYPES[0]], [OTHER_TYPE], []]), published_scope_list(dev)))
                except Exception:  # noqa: BLE001
                    continue
            elif k < 0.8:     # an SDC device somewhere else
                other = list(dev)
                spec = [j for j in range(1, 7) if t[j] is not None]
                if not spec:
                    continue
                j = rng.choice(spec)
                other[j] = t[j] + 'y'
                try:
                    remote.append((list(DEVICE_TYPES), published_scope_list(other)))
                except Exception:  # noqa: BLE001
                    continue
            elif k < 0.9:     # foreign scopes only / no scopes
                remote.append((list(DEVICE_TYPES), None if rng.random() < 0.3 else [rand_foreign_scope(rng) for _ in range(rng.randrange(3))] + [rng.choice(NON_LOC_SCOPES)]))
                if remote[-1][1] is not None and any(x.lower().startswith('sdc.ctxt.loc:') or x[:1] in ' \t\n\x00\x1f' for x in remote[-1][1]):
                    remote.pop()   # a random location scope could be inside by accident: keep the expectation exact
            else:             # the scope SdcLocation itself makes (consumer side objects)
                remote.append((list(DEVICE_TYPES), [mk_loc(dev).scope_string]))
                if encloses:
                    expected.append(len(remote) - 1)
        if not remote or not encodable(*[x for _, sc in remote if sc for x in sc]):
            continue
        impl = impl_search(t, remote)
        oracle_search(ctx, t, remote, expected, impl)
        ctx.count('search:' + ('enclosing' if encloses else 'elsewhere') + f':found-{min(len(expected), 3)}')
        add(_search_line(t, remote), impl, {'op': 'search', 'self': list(t), 'remote': remote, 'expected': expected}, True)

    # 2f. services as a consumer really gets them: parsed from Hello / ProbeMatch nodes whose xs:list elements are formatted
    #     with arbitrary XML white space; searched by location
    for _ in range(ctx.n(300, 4000)):
        dev = rand_loc(rng, root=DEFAULT_ROOT)
        if not any(dev[1:]):
            continue
        t = list(enclosing_of(dev, rng.randrange(64), DEFAULT_ROOT))
        enc = True
        if rng.random() < 0.3:
            j = 1 + rng.randrange(6)
            t[j] = (dev[j] or '') + 'x'
            enc = False
        t = tuple(t)
        elsewhere = list(dev)
        spec = [j for j in range(1, 7) if t[j] is not None]
        remote = [(list(DEVICE_TYPES), published_scope_list(dev) + ['sdc.cdc.type:/a/b/c'], ['http://10.0.0.1:6464/x', 'https://h/y'])]
        expected = [0] if enc else []
        if spec:
            j = rng.choice(spec)
            elsewhere[j] = t[j] + 'y'
            remote.append((list(DEVICE_TYPES), published_scope_list(elsewhere), ['http://10.0.0.2/z']))
        full = [[ty, sc, xa, rng.choice(['hello', 'probematch']), rand_ws(rng)] for ty, sc, xa in remote]
        search_parsed(ctx, t, full, expected, lambda line, impl, case: add(line, impl, case, True))
        ctx.count('search-parsed:' + ('enclosing' if enc else 'elsewhere'))

    # 2e. the functions are pure: call sequences on the SAME scope string with the caller changing returned objects in between
    def emit2(line, impl, case):
        add(line, impl, case, True)
    for _ in range(ctx.n(600, 6000)):
        t = rand_loc(rng, root=DEFAULT_ROOT if rng.random() < 0.6 else None)
        if t[0] == '':
            continue
        # write side: one location object, read - change - read
        then = list(t)
        for j in range(7):
            if rng.random() < 0.35:
                then[j] = (rand_string(rng) or 'r') if j == 0 else rng.choice([None, rand_string(rng), (t[j] or '') + 'x'])
        stateful_scope_string(ctx, t, tuple(then), emit2)
        k = rng.random()
        origin = None
        if k < 0.45:
            s_, origin = mk_loc(t).scope_string, t
        elif k < 0.8 and any(t[1:]):
            s_, origin = published_scope(t), (DEFAULT_ROOT, *t[1:])
        else:
            s_ = rand_foreign_scope(rng)
        stateful_parse(ctx, s_, lambda obj: rand_mutation(rng, obj), emit2, origin)
        if origin is not None:
            # a probe that encloses the device / one that differs in an element; the caller's edits push the parsed
            # object towards the opposite answer
            probe = enclosing_of(origin, rng.randrange(64), origin[0])
            inside = True
            towards = tuple([origin[0] + 'x'] + [(v or '') + 'x' for v in origin[1:]])
            if rng.random() < 0.5:
                j = 1 + rng.randrange(6)
                probe = list(probe)
                probe[j] = (origin[j] or '') + 'y'
                probe = tuple(probe)
                inside = False
                towards = tuple([probe[0]] + [p if p is not None else v for p, v in zip(probe[1:], origin[1:])])
            scopes = [s_] + ([rng.choice(NON_LOC_SCOPES)] if rng.random() < 0.5 else [])
            stateful_filter(ctx, probe, scopes, inside, towards, rng, emit2)

    # 2d. histories of location changes of ONE provider: the same state object updated again and again, and a real
    #     ProviderMdib (set_location / update of the associated state in a context state transaction)
    def emit(line, impl, case):
        add(line, impl, case, True)
    for case in load_corpus():
        if case['op'] == 'history':
            run_history(ctx, MdibBackend if case['backend'] == 'mdib' else ContainerBackend,
                        [(k, tuple(t)) for k, t in case['steps']], rng, emit)
    for i in range(ctx.n(500, 6000)):
        cls = MdibBackend if i % 2 else ContainerBackend
        run_history(ctx, cls, rand_history(rng, cls.name), rng, emit)

    # 3. library functions under the model: parse_qsl, UTF-8 repair, quote / quote_plus / unquote
    for _ in range(ctx.n(1500, 10000)):
        q = rng.choice(QUERIES) if rng.random() < 0.4 else '&'.join(
            (rand_string(rng) if rng.random() < 0.3 else rng.choice(ELEMS)) + rng.choice(['=', '=', '', '==', '=+'])
            + (quote_plus(rand_string(rng)) if rng.random() < 0.5 else rand_string(rng)) for _ in range(rng.randrange(5)))
        if not encodable(q):
            continue
        for keep in (True, False):
            impl = 'ok ' + ' '.join(hx(k) + '=' + hx(v) for k, v in parse_qsl(q, keep_blank_values=keep))
            add(f'qsl {int(keep)} {hx(q)}', impl, {'op': 'qsl', 'keep': keep, 'q': q}, True)
    for _ in range(ctx.n(3000, 30000)):
        n = rng.choice([1, 2, 3, 4, 5, 8])
        bs = bytes(rng.choice([rng.randrange(256), rng.randrange(0x80, 0x100), rng.choice(b'\xc2\xe0\xed\xf0\xf4\x80\xbf\x9f\xa0\x90\x8f')]) for _ in range(n))
        try:
            bs.decode('utf-8')
            impl = 'valid'
        except UnicodeDecodeError:
            impl = 'repaired x' + bs.decode('utf-8', 'replace').encode('utf-8').hex()
        add('utf8 x' + bs.hex(), impl, {'op': 'utf8', 'bytes': bs.hex()}, True)
    for _ in range(ctx.n(1000, 8000)):
        s = rand_string(rng)
        if not encodable(s):
            continue
        nt = nontrivial_str(s)
        add('quote ' + hx(s), 'ok ' + hx(quote(s, safe='')), {'op': 'quote', 's': s}, nt)
        add('quoteplus ' + hx(s), 'ok ' + hx(quote_plus(s)), {'op': 'quoteplus', 's': s}, nt)
        add('quoteslash ' + hx(s), 'ok ' + hx(quote(s)), {'op': 'quoteslash', 's': s}, nt)
        add('unquote ' + hx(s), 'ok ' + hx(unquote(s)), {'op': 'unquote', 's': s}, nt)

    ctx.notes['explanation'] = ('all 64 presence patterns x random special strings; every ASCII character alone in an element and in '
                                'the root; foreign scopes from a grammar (scheme, netloc, 0-6 segments, query, fragment, leading '
                                'control characters) and mutations of valid scopes')
    if ctx.driver_ok:
        out = ctx.driver('drv_c16', lines)
        for line, o, e, case in zip(lines, out, expect, cases):
            if o.rstrip() != e.rstrip():
                ctx.disagree('model == implementation: ' + line.split(' ', 1)[0], case, o[:300], e[:300])


def impl_split(s: str) -> str:
    try:
        r = urlsplit(s)
        return 'ok ' + ' '.join(hx(x) for x in r)
    except ValueError:
        return 'err ValueError'


def _filter_line(t, svcs) -> str:
    toks = []
    for sv in svcs:
        if sv is None:
            toks.append('N')
        else:
            toks.append('S' + ','.join(split_flag(s) + hx(s) for s in sv))
    return ('filter ' + show_loc(t) + ' ' + ' '.join(toks)).rstrip()


def search(ctx):
    """Deeper failing-input search (called when the proof or the correspondence is broken and run() found no failure)."""
    rng = ctx.subrng('c16-search')
    for _ in range(20000):
        t = rand_loc(rng)
        if encodable(*t):
            oracle_roundtrip(ctx, t)
            oracle_published(ctx, t, rng, all_masks=False)
        oracle_filter(ctx, rand_loc(rng), [[rand_foreign_scope(rng)]])
        cls = rng.choice([ContainerBackend, MdibBackend])
        run_history(ctx, cls, rand_history(rng, cls.name), rng)
        if t[0] != '' and encodable(*t):
            stateful_parse(ctx, mk_loc(t).scope_string, lambda obj: rand_mutation(rng, obj), None, t)
            stateful_scope_string(ctx, t, rand_loc(rng, root=t[0]))
        if ctx.failures:
            return


def replay(ctx, obj) -> bool:
    rng = ctx.subrng('replay')
    run_case_oracle(ctx, obj['case'], rng)
    for f in ctx.failures:
        print(f['signature'], '-', f['detail'][:400])
    return bool(ctx.failures)
