"""C06 — consumer MDIB never regresses under lost, duplicated or reordered reports.

Tie: correspondence between the Lean consumer model (`lean/SdcModel/Consumer.lean`, driver `drv_c06`) and the real
`ConsumerMdib`.  Histories are produced by a real provider (loop-back harness, every report captured as wire bytes);
the generator turns one history into many delivery schedules (drop / duplicate / reorder / delay / replay,
notifications during an in-flight GetMdib answered from an earlier prefix, SequenceId / InstanceId changes) and
delivers them synchronously to a real `SdcConsumer` + `ConsumerMdib`.  After every event the content of the real
consumer MDIB (delta of the three tables, version group, state machine, buffer length, raised `*_by_handle`
observables) is compared with the output of the model driver, and the oracle (monotone versions, stale / duplicate
changes nothing, lookups consistent, only published states, stop on id change, mirror after a loss-free reload)
is evaluated directly on the real consumer.

The module is also the library of C01 (`props/c01.py` uses World / gen_history / Runner).
"""
from __future__ import annotations

import dataclasses
import json
import os
import sys
import threading
import time
import traceback
import uuid
from decimal import Decimal
from unittest import mock

import core

sys.path.insert(0, os.environ.get('VERIF_REPO', '/repo'))

READY = True
MANIFEST = dict(
    technique='Lean 4 theorems (induction over arbitrary event lists) about a transcription of ConsumerMdib; '
              'differential correspondence model <-> real ConsumerMdib over fault schedules of real provider histories',
    text='Theorems (Properties/C06.lean) prove for every event list: MdibVersion and every StateVersion non-decreasing, '
         'stale / duplicated reports change nothing, keys stay unique, every held state was published, a SequenceId / '
         'InstanceId change stops all updates until reload, reload = snapshot + exactly the newer buffered reports once. '
         'The model is compared with the real ConsumerMdib after every delivered notification of generated fault '
         'schedules (real provider, real wire messages).',
    note='Trusted: Lean kernel; harness + generators; lxml parsing of the wire messages. Model domain: a handle keeps its '
         'container class, report parts carry one descriptor, descriptor table is a forest.',
    ref='5 C06')
DRIVERS = ['drv_c06']
RULE = ('one case = (provider history, delivery schedule); distinct by the canonical (abstract) event list; non-trivial = at '
        'least one report accepted and at least one of: dropped, duplicated / replayed, delivered out of order, buffered')
TRUSTED = ['lxml / the library message reader for turning wire bytes into containers (abstraction of reports)',
           'canonical attribute dump of containers (loopback.canon_value) as the notion of state content']
ASSUMPTIONS = ['a handle is never reused for a different container class', 'one descriptor per report part (what the provider emits)',
               'descriptor parent relation is acyclic', 'GetMdib / GetContextStates answers have unique handles',
               'sequence_or_instance_id_changed_event is raised synchronously in the harness (threading.Thread replaced)']

KINDS = ('metric', 'rt', 'alert', 'component', 'operational', 'context')
RK = {'EpisodicMetricReport': 0, 'EpisodicAlertReport': 1, 'EpisodicComponentReport': 2, 'EpisodicContextReport': 3,
      'EpisodicOperationalStateReport': 4, 'WaveformStream': 5, 'DescriptionModificationReport': 6}
OBS_OF_RK = {0: 'metrics_by_handle', 1: 'alert_by_handle', 2: 'component_by_handle', 3: 'context_by_handle',
             4: 'operation_by_handle', 5: 'waveform_by_handle'}


def _lb():
    import loopback
    return loopback


# ----------------------------------------------------------------------------------------------------------------
# translator: lock discipline of reload_all / _pre_check_report_ok from a dynamic trace -> Generated/ConsumerLocks.lean


def trace_lock_programs():
    """Run reload_all and _pre_check_report_ok of a real ConsumerMdib (no network: Get service stubbed with the content of
    a ProviderMdib) with a traced buffer lock, traced reads / writes of `_state` and a traced buffer list."""
    from types import SimpleNamespace

    from lxml import etree
    from sdc11073.consumer.consumerimpl import SdcConsumer
    from sdc11073.definitions_sdc import SdcV1Definitions
    from sdc11073.mdib import ConsumerMdib, ProviderMdib
    from sdc11073.mdib.consumermdib import ConsumerMdibState
    from sdc11073.pysoap.msgreader import MdibVersionGroupReader
    repo = os.environ.get('VERIF_REPO', '/repo')
    prov = ProviderMdib.from_mdib_file(os.path.join(repo, 'tests', 'mdib_two_mds.xml'))
    consumer = SdcConsumer('http://127.0.0.1:9/none', sdc_definitions=SdcV1Definitions, ssl_context_container=None,
                           validate=False)
    log = []

    class Stub:
        @staticmethod
        def get_mdib():
            node, mvg = prov.reconstruct_mdib_with_context_states()
            result = consumer.msg_reader.read_get_mdib_payload(etree.fromstring(etree.tostring(node)))  # noqa: S320
            return SimpleNamespace(result=result, mdib_version_group=MdibVersionGroupReader(
                mvg.mdib_version, mvg.sequence_id, mvg.instance_id))

        @staticmethod
        def get_context_states():
            return SimpleNamespace(result=SimpleNamespace(ContextState=[]))
    consumer._service_clients['Get'] = Stub  # noqa: SLF001
    consumer._service_clients['Context'] = Stub  # noqa: SLF001
    mdib = ConsumerMdib(consumer)

    class TracedLock:
        def __init__(self, real):
            self.real = real

        def __enter__(self):
            self.real.acquire()
            log.append('acq')
            return self

        def __exit__(self, *exc):
            log.append('rel')
            self.real.release()
            return False

    class TracedList(list):
        def append(self, x):
            log.append('append')
            super().append(x)

    class Traced(type(mdib)):
        def __getattribute__(self, name):
            if name == '_state':
                log.append('read')
            return super().__getattribute__(name)

        def __setattr__(self, name, value):
            if name == '_state':
                log.append('write:' + value.name)
            super().__setattr__(name, value)
    mdib._buffered_notifications_lock = TracedLock(mdib._buffered_notifications_lock)  # noqa: SLF001
    mdib._buffered_notifications = TracedList()  # noqa: SLF001
    mdib.__class__ = Traced
    mdib.reload_all()
    reload_trace, log[:] = list(log), []
    mdib._state = ConsumerMdibState.initializing  # noqa: SLF001
    log[:] = []
    mdib._pre_check_report_ok(MdibVersionGroupReader(1, 'urn:uuid:trace', None), object(), lambda *a: None)  # noqa: SLF001
    return reload_trace, list(log)


def lean_trace(acts):
    m = {'acq': '.acq', 'rel': '.rel', 'read': '.readState', 'append': '.append', 'write:initializing': '.writeState .initializing',
         'write:initialized': '.writeState .initialized', 'write:invalid': '.writeState .invalid'}
    return '[' + ', '.join(m[a] for a in acts) + ']'


def translate(ctx):
    reload_trace, precheck_trace = trace_lock_programs()
    from collections import deque

    from sdc11073.mdib.consumermdib import ConsumerMdib
    shared = sorted(f'{c.__name__}.{k}' for c in ConsumerMdib.__mro__[:-1] for k, v in vars(c).items()
                    if isinstance(v, (list, dict, set, deque, bytearray)) and not k.startswith('__'))
    src = ('import SdcModel.Consumer\n/-! generated by harness/props/c06.py (translate): dynamic traces of ConsumerMdib.reload_all and\n'
           'ConsumerMdib._pre_check_report_ok (state `initializing`): buffer lock, reads / writes of `_state`, buffer appends -/\n'
           'namespace Sdc.Generated\nopen Sdc.Consumer\n'
           f'def reloadAllTrace : List LockAct := {lean_trace(reload_trace)}\n'
           f'def preCheckTrace : List LockAct := {lean_trace(precheck_trace)}\n'
           '/-- mutable containers that are attributes of the ConsumerMdib class (or a base class) instead of the instance -/\n'
           f'def consumerClassLevelMutableAttrs : List String := [' + ', '.join(f'"{x}"' for x in shared) + ']\n'
           'end Sdc.Generated\n')
    core.write_if_changed(core.GENERATED + '/ConsumerLocks.lean', src)


def kind_code(c) -> int:
    """state category of a descriptor / state container (same dispatch as DescriptorTransaction._get_states_update)"""
    g = lambda n: getattr(c, n, False)  # noqa: E731
    if g('is_realtime_sample_array_metric_state') or g('is_realtime_sample_array_metric_descriptor'):
        return 1
    if g('is_metric_state') or g('is_metric_descriptor'):
        return 0
    if g('is_alert_state') or g('is_alert_descriptor'):
        return 2
    if g('is_component_state') or g('is_component_descriptor'):
        return 3
    if g('is_operational_state') or g('is_operational_descriptor'):
        return 4
    if g('is_context_state') or g('is_context_descriptor'):
        return 5
    raise ValueError(f'unknown container category {c}')


class Intern:
    def __init__(self, first=1):
        self.d = {}
        self.first = first

    def __call__(self, key):
        v = self.d.get(key)
        if v is None:
            v = len(self.d) + self.first
            self.d[key] = v
        return v


class Abstraction:
    """handles / sequence ids / bodies -> Nat (one instance per history)"""

    def __init__(self):
        self.h = Intern()
        self.seq = Intern()
        self.seq.d[''] = 0
        self.seq.first = 0
        self.body = Intern()

    def b(self, obj):
        return self.body(json.dumps(obj, sort_keys=True, default=str))

    def sstate(self, st):
        lb = _lb()
        body = lb.state_body(st)
        if st.NODETYPE.localname == 'ClockState':
            # the self-updating clock time is not part of the content (as in loopback.diff_snapshots)
            body = {k: v for k, v in body.items() if k not in ('DateAndTime', 'LastSet')}
        return (self.h(st.DescriptorHandle), st.DescriptorVersion, st.StateVersion, kind_code(st),
                self.b([st.NODETYPE.localname, body]))

    def cstate(self, st):
        lb = _lb()
        return (self.h(st.Handle), self.h(st.DescriptorHandle), st.DescriptorVersion, st.StateVersion,
                self.b([st.NODETYPE.localname, lb.state_body(st)]))

    def descr(self, d):
        lb = _lb()
        return (self.h(d.Handle), None if d.parent_handle is None else self.h(d.parent_handle), kind_code(d),
                d.DescriptorVersion, self.b([d.NODETYPE.localname, lb.descr_body(d)]))

    def vg(self, v):
        return (v.mdib_version, self.seq(v.sequence_id), v.instance_id)


def opt(v):
    return 0 if v is None else v + 1


def enc_s(s):
    return list(s)


def enc_d(d):
    return [d[0], opt(d[1]), d[2], d[3], d[4]]


def enc_list(items, enc):
    out = [len(items)]
    for i in items:
        out.extend(enc(i))
    return out


@dataclasses.dataclass
class AReport:
    """abstract report = argument of the model's `report` event"""
    rk: int
    vg: tuple
    states: list
    cstates: list
    parts: list  # (mod, descr, states, cstates)

    def line(self):
        toks = [self.rk, self.vg[0], self.vg[1], opt(self.vg[2])]
        toks += enc_list(self.states, enc_s) + enc_list(self.cstates, enc_s)
        toks.append(len(self.parts))
        for m, d, ss, cs in self.parts:
            toks += [m] + enc_d(d) + enc_list(ss, enc_s) + enc_list(cs, enc_s)
        return 'rep ' + ' '.join(map(str, toks))

    def touched(self):
        """keys of the entries the report names"""
        t = {s[0] for s in self.states} | {s[0] for s in self.cstates}
        for _, d, ss, cs in self.parts:
            t.add(d[0])
            t.update(s[0] for s in ss)
            t.update(s[0] for s in cs)
        return t

    def all_states(self):
        res = list(self.states)
        for _, _, ss, _ in self.parts:
            res.extend(ss)
        return res

    def all_cstates(self):
        res = list(self.cstates)
        for _, _, _, cs in self.parts:
            res.extend(cs)
        return res


@dataclasses.dataclass
class ASnapshot:
    vg: tuple
    descrs: list
    states: list
    cstates: list


@dataclasses.dataclass
class Capture:
    """answers of GetMdib / GetContextStates taken after transaction `tx` (−1 = before the first one)"""
    tx: int
    wire_len: int         # number of wire messages emitted before the capture
    raw_mdib: bytes
    raw_ctx: bytes
    snap: ASnapshot
    ctx: list
    ctx_vg: tuple
    psnap: dict = None    # canonical provider snapshot at capture time
    epoch: int = 0           # epoch (SequenceId / InstanceId period of the provider) in which the capture was taken
    live_wires: list = None  # wire indices of the transaction that was committed while the GetMdib request was being answered


@dataclasses.dataclass
class History:
    abs: Abstraction
    wire: list
    reports: list            # AReport per wire message
    tx_of_wire: list
    captures: list
    psnaps: dict             # tx index -> canonical provider snapshot (loopback.snapshot) after that transaction
    txs: list                # descriptions of the transactions
    epoch_of_tx: list        # epoch number (changes with SequenceId / InstanceId)
    excluded_tx: dict = dataclasses.field(default_factory=dict)  # tx -> context descriptor (abstract handle) one of whose
    #                                                              states was deleted without a report (not mirrorable)
    heals: dict = dataclasses.field(default_factory=dict)        # tx -> context descriptors with an UPDATE part
    pcores: dict = dataclasses.field(default_factory=dict)       # tx -> (vg, abstract tables) of the provider (C01)
    epoch_start: dict = dataclasses.field(default_factory=dict)  # tx index -> kind of id change right before it
    pcore_before: dict = dataclasses.field(default_factory=dict)  # tx index -> provider content right before it (after an id change)


# ----------------------------------------------------------------------------------------------------------------
# world: one provider + one consumer (SdcConsumer without report subscriptions), reused for all histories


class SyncThread:
    """replacement of threading.Thread inside consumermdib: runs the target synchronously on start()"""

    def __init__(self, target=None, args=(), kwargs=None, **_):
        self._t, self._a, self._k = target, args, kwargs or {}

    def start(self):
        self._t(*self._a, **self._k)

    def join(self, timeout=None):
        pass


class World:
    def __init__(self, two_mds=False):
        lb = _lb()
        lb.quiet()
        self.lb = lb
        self.two_mds = two_mds
        self.provider = lb.Provider(mdib_path=lb.MDIB_2) if two_mds else lb.Provider()
        # the role providers' periodic job (AlertSystem self check) commits transactions of its own in a worker thread:
        # stop it, every transaction of a history is made by the generator
        for product in self.provider.device.product_lookup.values():
            for rp in getattr(product, '_ordered_role_providers', []):
                if getattr(rp, '_worker_thread', None) is not None and hasattr(rp, '_stop_worker'):
                    rp.stop()
        self.consumer = lb.Consumer(self.provider, init_mdib=False)
        self.mdib = self.provider.mdib
        self.sdc = self.consumer.sdc
        self.reader = self.sdc.msg_reader
        self.get = self.sdc.client('Get')
        self.ctx = self.sdc.client('Context')
        self.counter = 0
        self.last_sel = {}
        self.deleted_ctx = []   # (handle, parent handle, node type local name) of context descriptors removed by the generator
        self.created = []   # handles of descriptors created by the generator (alive)
        self.deleted = []   # handles deleted by the generator (candidates for re-creation): (handle, parent, kind)
        from sdc11073.mdib import consumermdib
        import types
        # only the name `threading` inside consumermdib (it uses threading.Thread for the id-changed event, nothing else)
        self._thread_patch = mock.patch.object(consumermdib, 'threading', types.SimpleNamespace(Thread=SyncThread))
        self._thread_patch.start()

    BINDINGS = (('waveform_report', '_on_waveform_report'), ('episodic_metric_report', '_on_episodic_metric_report'),
                ('episodic_alert_report', '_on_episodic_alert_report'), ('episodic_context_report', '_on_episodic_context_report'),
                ('episodic_component_report', '_on_episodic_component_report'),
                ('description_modification_report', '_on_description_modification_report'),
                ('episodic_operational_state_report', '_on_operational_state_report'))

    def attach(self, mdib):
        """connect a ConsumerMdib to the SdcConsumer (bind_to_client_observables + set_mdib); detach the previous one"""
        from sdc11073 import observableproperties as props
        old = getattr(self, 'current_mdib', None)
        if old is not None:
            for obs, meth in self.BINDINGS:
                props.unbind(self.sdc, **{obs: getattr(old.xtra, meth)})
        self.sdc.set_mdib(None)
        self.current_mdib = mdib
        if mdib is not None:
            mdib.xtra.bind_to_client_observables()
            self.sdc.set_mdib(mdib)

    def stop(self):
        self._thread_patch.stop()
        self.consumer.stop()
        self.provider.stop()

    # ---- wire -> abstract
    def typed_report(self, wire):
        md = self.reader.read_received_message(wire.raw)
        name = md.q_name.localname
        cls = getattr(self.mdib.data_model.msg_types, name)
        return name, md, cls.from_node(md.p_msg.msg_node)

    def abstract_report(self, ab: Abstraction, wire) -> AReport:
        name, md, rep = self.typed_report(wire)
        rk = RK[name]
        vg = ab.vg(md.mdib_version_group)
        states, cstates, parts = [], [], []
        if rk == 6:
            dmt = self.mdib.data_model.msg_types.DescriptionModificationType
            code = {dmt.CREATE: 0, dmt.UPDATE: 1, dmt.DELETE: 2}
            for part in rep.ReportPart:
                if len(part.Descriptor) != 1:
                    raise AssertionError('report part with %d descriptors (outside the model domain)' % len(part.Descriptor))
                ss = [ab.sstate(s) for s in part.State if not s.is_context_state]
                cs = [ab.cstate(s) for s in part.State if s.is_context_state]
                parts.append((code[part.ModificationType], ab.descr(part.Descriptor[0]), ss, cs))
        elif rk == 5:
            states = [ab.sstate(s) for s in rep.State]
        elif rk == 3:
            for part in rep.ReportPart:
                cstates.extend(ab.cstate(s) for s in part.values_list)
        else:
            for part in rep.ReportPart:
                states.extend(ab.sstate(s) for s in part.values_list)
        return AReport(rk, vg, states, cstates, parts)

    def capture(self, ab: Abstraction, tx: int, wire_len: int) -> Capture:
        r = self.get.get_mdib()
        r2 = self.ctx.get_context_states()
        descrs, states = r.result
        snap = ASnapshot(ab.vg(r.mdib_version_group), [ab.descr(d) for d in descrs],
                         [ab.sstate(s) for s in states if not s.is_context_state],
                         [ab.cstate(s) for s in states if s.is_context_state])
        ctx = [ab.cstate(s) for s in r2.result.ContextState]
        return Capture(tx, wire_len, r.p_msg.raw_data, r2.p_msg.raw_data, snap, ctx, ab.vg(r2.mdib_version_group))


# ----------------------------------------------------------------------------------------------------------------
# provider transactions


def _handles(mdib, pred):
    return sorted(d.Handle for d in mdib.descriptions.objects if pred(d))


class TxGen:
    """Random committed provider transactions of every kind. Each method returns a short description."""

    def __init__(self, world: World, rng):
        self.w = world
        self.mdib = world.mdib
        self.rng = rng
        self.pm_types = self.mdib.data_model.pm_types
        self.pm = self.mdib.data_model.pm_names

    def _pick(self, kind, candidates, n):
        """n of the candidates; with probability 0.35 the same handle set as the previous transaction of this kind (two
        consecutive reports on the same handle set: every *_by_handle observable has to fire again)"""
        last = self.w.last_sel.get(kind)
        if last and self.rng.random() < 0.35 and all(h in candidates for h in last):
            sel = list(last)
        else:
            sel = self.rng.sample(candidates, min(len(candidates), n))
        if len(sel) >= 2 and self.rng.random() < 0.7:
            sel = self._interleave_mds(sel, candidates)
        self.w.last_sel[kind] = list(sel)
        return sel

    def _interleave_mds(self, sel, candidates):
        """MDIB with several MDS: order (and if possible extend) the selection such that the states of one transaction
        alternate between the MDS (mds A, mds B, mds A): the reports group the states by their source MDS"""
        def src(h):
            d = self.mdib.descriptions.handle.get_one(h, allow_none=True)
            if d is None:       # handle of a context state
                st = self.mdib.context_states.handle.get_one(h)
                d = self.mdib.descriptions.handle.get_one(st.DescriptorHandle)
            return d.source_mds or d.Handle
        groups = {}
        for h in candidates:
            groups.setdefault(src(h), []).append(h)
        if len(groups) < 2:
            return sel
        keys = sorted(groups, key=lambda k: -len(groups[k]))
        a, b = groups[keys[0]], groups[keys[1]]
        if len(a) < 2:
            return sel
        first, last = self.rng.sample(a, 2)
        return [first, self.rng.choice(b), last]

    def _new_handle(self, prefix):
        self.w.counter += 1
        return f'{prefix}{self.w.counter}'

    # -- state transactions
    def tx_metric(self):
        hs = _handles(self.mdib, lambda d: d.NODETYPE.localname == 'NumericMetricDescriptor')
        sel = self._pick('metric', hs, self.rng.choice([1, 1, 2, 4]))
        with self.mdib.metric_state_transaction() as tr:
            for h in sel:
                st = tr.get_state(h)
                if st.MetricValue is None:
                    st.mk_metric_value()
                st.MetricValue.Value = Decimal(self.rng.randint(0, 1000)) / Decimal(self.rng.choice([1, 10, 100]))
                st.MetricValue.MetricQuality.Validity = self.rng.choice(
                    [self.pm_types.MeasurementValidity.VALID, self.pm_types.MeasurementValidity.QUESTIONABLE])
        return f'metric {len(sel)}'

    def tx_string_metric(self):
        hs = _handles(self.mdib, lambda d: d.NODETYPE.localname in ('EnumStringMetricDescriptor', 'StringMetricDescriptor'))
        if not hs:
            return self.tx_metric()
        h = self.rng.choice(hs)
        with self.mdib.metric_state_transaction() as tr:
            st = tr.get_state(h)
            if st.MetricValue is None:
                st.mk_metric_value()
            st.MetricValue.Value = self.rng.choice(['a', 'b', 'c', 'ä ö'])
        return 'string metric'

    def tx_alert(self):
        hs = _handles(self.mdib, lambda d: d.NODETYPE.localname in ('AlertConditionDescriptor', 'LimitAlertConditionDescriptor'))
        sig = _handles(self.mdib, lambda d: d.NODETYPE.localname == 'AlertSignalDescriptor')
        with self.mdib.alert_state_transaction() as tr:
            n = 0
            for h in self._pick('alert', hs, self.rng.choice([1, 2])):
                st = tr.get_state(h)
                st.Presence = not st.Presence
                n += 1
            if sig and self.rng.random() < 0.5:
                st = tr.get_state(self.rng.choice(sig))
                st.Presence = self.rng.choice(list(self.pm_types.AlertSignalPresence))
                n += 1
        return f'alert {n}'

    def tx_component(self):
        hs = _handles(self.mdib, lambda d: d.NODETYPE.localname in ('ChannelDescriptor', 'VmdDescriptor', 'MdsDescriptor'))
        sel = self._pick('component', hs, self.rng.choice([1, 2]))
        with self.mdib.component_state_transaction() as tr:
            for h in sel:
                st = tr.get_state(h)
                st.OperatingHours = self.rng.randint(0, 100000)
                st.ActivationState = self.rng.choice(list(self.pm_types.ComponentActivation))
        return f'component {len(sel)}'

    def tx_operational(self):
        hs = _handles(self.mdib, lambda d: d.NODETYPE.localname.endswith('OperationDescriptor'))
        h = self._pick('operational', hs, 1)[0]
        with self.mdib.operational_state_transaction() as tr:
            st = tr.get_state(h)
            st.OperatingMode = self.rng.choice(list(self.pm_types.OperatingMode))
        return 'operational'

    def tx_rt(self):
        hs = _handles(self.mdib, lambda d: d.NODETYPE.localname == 'RealTimeSampleArrayMetricDescriptor')
        sel = self._pick('rt', hs, self.rng.choice([1, 2, 3]))
        with self.mdib.rt_sample_state_transaction() as tr:
            for h in sel:
                st = tr.get_state(h)
                if st.MetricValue is None:
                    st.mk_metric_value()
                st.MetricValue.Samples = [Decimal(self.rng.randint(-50, 50)) for _ in range(self.rng.randint(1, 5))]
                st.MetricValue.DeterminationTime = time.time()
                st.MetricValue.MetricQuality.Validity = self.pm_types.MeasurementValidity.VALID
        return f'rt {len(sel)}'

    # -- context transactions
    def _ctx_descr(self, which=None):
        names = {'pat': 'PatientContextDescriptor', 'loc': 'LocationContextDescriptor'}
        which = which or self.rng.choice(['pat', 'pat', 'loc'])
        hs = _handles(self.mdib, lambda d: d.NODETYPE.localname == names[which])
        return which, (hs[0] if hs else None)

    def tx_context_new(self):
        which, dh = self._ctx_descr()
        if dh is None:
            return self.tx_metric()
        handle = self._new_handle('ctx')
        with self.mdib.context_state_transaction() as tr:
            if self.rng.random() < 0.7:
                tr.disassociate_all(dh)
            st = tr.mk_context_state(dh, handle, set_associated=self.rng.random() < 0.8)
            if which == 'pat':
                st.CoreData.Givenname = self.rng.choice(['Max', 'Moritz', 'Erika'])
                st.CoreData.Familyname = self.rng.choice(['M', 'N'])
            else:
                st.LocationDetail.PoC = self.rng.choice(['poc1', 'poc2'])
                st.LocationDetail.Bed = f'bed{self.rng.randint(1, 9)}'
        return f'context new {which}'

    def tx_context_update(self):
        sts = sorted(s.Handle for s in self.mdib.context_states.objects)
        if not sts:
            return self.tx_context_new()
        sel = self._pick('context', sts, self.rng.choice([1, 1, 2]))
        with self.mdib.context_state_transaction() as tr:
            for h in sel:
                st = tr.get_context_state(h)
                if st.NODETYPE.localname == 'PatientContextState':
                    st.CoreData.Givenname = self.rng.choice(['Max', 'Moritz', 'Erika', 'Hans'])
                else:
                    st.LocationDetail.Bed = f'bed{self.rng.randint(1, 99)}'
                if self.rng.random() < 0.3:
                    st.ContextAssociation = self.rng.choice(list(self.pm_types.ContextAssociation))
        return f'context update {len(sel)}'

    def tx_context_delete(self):
        """a context state deleted through the entity interface: the provider sends no report (cannot be mirrored)"""
        sts = sorted((s.Handle, s.DescriptorHandle) for s in self.mdib.context_states.objects)
        if len(sts) < 2:
            return self.tx_context_new()
        handle, dh = self.rng.choice(sts)
        ent = self.mdib.entities.by_handle(dh)
        ent.states.pop(handle)
        with self.mdib.context_state_transaction() as tr:
            tr.write_entity(ent, [handle])
        return f'context delete {dh}'

    def tx_set_location(self):
        from sdc11073.location import SdcLocation
        if not _handles(self.mdib, lambda d: d.NODETYPE.localname == 'LocationContextDescriptor'):
            return self.tx_metric()
        loc = SdcLocation(fac=self.rng.choice(['fac1', 'fac2']), poc=self.rng.choice(['CU1', 'CU2']),
                          bed=f'b{self.rng.randint(1, 500)}')
        if self.rng.random() < 0.5:
            self.w.provider.device.set_location(loc, publish_now=False)
        else:
            self.mdib.xtra.set_location(loc)
        return 'set_location'

    # -- descriptor transactions
    def tx_descr_update(self):
        kind = self.rng.choice(['metric', 'metric', 'alertcond', 'channel', 'context', 'metric+state'])
        if kind in ('metric', 'metric+state'):
            hs = _handles(self.mdib, lambda d: d.NODETYPE.localname == 'NumericMetricDescriptor')
            sel = self.rng.sample(hs, min(len(hs), self.rng.choice([1, 1, 2])))
            with self.mdib.descriptor_transaction() as tr:
                for h in sel:
                    d = tr.get_descriptor(h)
                    d.DeterminationPeriod = self.rng.randint(1, 100) / 10
                    if kind == 'metric+state':
                        st = tr.get_state(h)
                        if st.MetricValue is None:
                            st.mk_metric_value()
                        st.MetricValue.Value = Decimal(self.rng.randint(0, 99))
            return f'descr update {kind} {len(sel)}'
        if kind == 'alertcond':
            hs = _handles(self.mdib, lambda d: d.NODETYPE.localname == 'AlertConditionDescriptor')
            metrics = _handles(self.mdib, lambda d: d.NODETYPE.localname == 'NumericMetricDescriptor')
            with self.mdib.descriptor_transaction() as tr:
                d = tr.get_descriptor(self.rng.choice(hs))
                d.Source = self.rng.sample(metrics, self.rng.choice([0, 1, 2]))
                d.SafetyClassification = self.rng.choice(list(self.pm_types.SafetyClassification))
            return 'descr update alert condition source'
        if kind == 'channel':
            hs = _handles(self.mdib, lambda d: d.NODETYPE.localname == 'ChannelDescriptor')
            with self.mdib.descriptor_transaction() as tr:
                d = tr.get_descriptor(self.rng.choice(hs))
                d.SafetyClassification = self.rng.choice(list(self.pm_types.SafetyClassification))
            return 'descr update channel'
        which, dh = self._ctx_descr()
        if dh is None:
            return self.tx_metric()
        if self.rng.random() < 0.4:
            # entity interface: the context entity written through a descriptor transaction with one more state
            # (in the EpisodicContextReport the new state follows the existing ones)
            ent = self.mdib.entities.by_handle(dh)
            ent.descriptor.SafetyClassification = self.rng.choice(list(self.pm_types.SafetyClassification))
            st = ent.new_state(self._new_handle('ctxe'))
            if which == 'pat':
                st.CoreData.Givenname = 'Entity'
            else:
                st.LocationDetail.Bed = 'entitybed'
            with self.mdib.descriptor_transaction() as tr:
                tr.write_entity(ent)
            return f'descr update context {which} write_entity + new state ({len(ent.states) - 1} existing)'
        with self.mdib.descriptor_transaction() as tr:
            d = tr.get_descriptor(dh)
            d.SafetyClassification = self.rng.choice(list(self.pm_types.SafetyClassification))
            if self.rng.random() < 0.5:
                cls = self.mdib.data_model.get_state_container_class(d.STATE_QNAME)
                st = cls(d)
                st.Handle = self._new_handle('ctxd')
                if which == 'pat':
                    st.CoreData.Givenname = 'New'
                else:
                    st.LocationDetail.Bed = 'newbed'
                tr.add_state(st)
                return f'descr update context {which} + new state'
        return f'descr update context {which}'

    def _mk_metric(self, handle, parent):
        cls = self.mdib.data_model.get_descriptor_container_class(self.pm.NumericMetricDescriptor)
        nd = cls(handle=handle, parent_handle=parent)
        nd.Type = self.pm_types.CodedValue(str(self.rng.randint(10000, 99999)))
        nd.Unit = self.pm_types.CodedValue('u' + str(self.rng.randint(1, 9)))
        nd.Resolution = Decimal('0.42')
        st = self.mdib.data_model.mk_state_container(nd)
        return nd, st

    def _mk_channel(self, handle, parent):
        cls = self.mdib.data_model.get_descriptor_container_class(self.pm.ChannelDescriptor)
        nd = cls(handle=handle, parent_handle=parent)
        nd.SafetyClassification = self.pm_types.SafetyClassification.INF
        st = self.mdib.data_model.mk_state_container(nd)
        return nd, st

    def tx_descr_create(self):
        channels = _handles(self.mdib, lambda d: d.NODETYPE.localname == 'ChannelDescriptor')
        vmds = _handles(self.mdib, lambda d: d.NODETYPE.localname == 'VmdDescriptor')
        recreate = [x for x in self.w.deleted if x[1] in channels + vmds and
                    self.mdib.descriptions.handle.get_one(x[0], allow_none=True) is None]
        mode = self.rng.choice(['metric', 'siblings', 'entity-siblings', 'channel+metric', 'recreate' if recreate else 'metric'])
        if mode == 'entity-siblings':
            # several children of one existing parent in one transaction, entity interface
            parent = self.rng.choice(channels)
            ents = []
            for _ in range(self.rng.choice([2, 3])):
                h = self._new_handle('m')
                ent = self.mdib.entities.new_entity(self.pm.NumericMetricDescriptor, h, parent)
                ent.descriptor.Type = self.pm_types.CodedValue(str(self.rng.randint(10000, 99999)))
                ent.descriptor.Unit = self.pm_types.CodedValue('u' + str(self.rng.randint(1, 9)))
                ent.descriptor.Resolution = Decimal('0.42')
                ents.append(ent)
                self.w.created.append((h, parent, 'metric'))
            with self.mdib.descriptor_transaction() as tr:
                tr.write_entities(ents)
            return f'descr create {mode} {len(ents)}'
        with self.mdib.descriptor_transaction() as tr:
            if mode == 'siblings':
                # several children of one existing parent in one transaction (the parent is bumped and reported once)
                parent = self.rng.choice(channels)
                for _ in range(self.rng.choice([2, 3])):
                    h = self._new_handle('m')
                    nd, st = self._mk_metric(h, parent)
                    tr.add_descriptor(nd, state_container=st)
                    self.w.created.append((h, parent, 'metric'))
            elif mode == 'metric':
                h = self._new_handle('m')
                nd, st = self._mk_metric(h, self.rng.choice(channels))
                tr.add_descriptor(nd, state_container=st)
                self.w.created.append((h, nd.parent_handle, 'metric'))
            elif mode == 'channel+metric':
                hc = self._new_handle('ch')
                nd, st = self._mk_channel(hc, self.rng.choice(vmds))
                tr.add_descriptor(nd, state_container=st)
                self.w.created.append((hc, nd.parent_handle, 'channel'))
                for _ in range(self.rng.choice([1, 2])):
                    hm = self._new_handle('m')
                    nd2, st2 = self._mk_metric(hm, hc)
                    tr.add_descriptor(nd2, state_container=st2)
                    self.w.created.append((hm, hc, 'metric'))
            else:
                h, parent, kind = self.rng.choice(recreate)
                self.w.deleted = [x for x in self.w.deleted if x[0] != h]
                nd, st = (self._mk_metric if kind == 'metric' else self._mk_channel)(h, parent)
                tr.add_descriptor(nd, state_container=st)
                self.w.created.append((h, parent, kind))
        return f'descr create {mode}'

    def tx_descr_delete(self):
        alive = [x for x in self.w.created if self.mdib.descriptions.handle.get_one(x[0], allow_none=True) is not None]
        if not alive:
            return self.tx_descr_create()
        h, parent, kind = self.rng.choice(alive)
        siblings = [x for x in alive if x[1] == parent and x[2] == 'metric' and x[0] != h]
        if kind == 'metric' and siblings and self.rng.random() < 0.6:
            # several children of one parent removed in one transaction (classic or entity interface)
            victims = [h] + [x[0] for x in self.rng.sample(siblings, self.rng.randint(1, min(2, len(siblings))))]
            entity_api = self.rng.random() < 0.5
            with self.mdib.descriptor_transaction() as tr:
                for v in victims:
                    if entity_api:
                        tr.remove_entity(self.mdib.entities.by_handle(v))
                    else:
                        tr.remove_descriptor(v)
            for x in list(self.w.created):
                if x[0] in victims:
                    self.w.created.remove(x)
                    self.w.deleted.append(x)
            return f'descr delete siblings ({len(victims)})'
        sub = [d.Handle for d in self.mdib.get_all_descriptors_in_subtree(self.mdib.descriptions.handle.get_one(h))]
        with self.mdib.descriptor_transaction() as tr:
            tr.remove_descriptor(h)
        for x in list(self.w.created):
            if x[0] in sub:
                self.w.created.remove(x)
                self.w.deleted.append(x)
        return f'descr delete {kind} ({len(sub)})'

    def tx_descr_delete_context(self):
        """a context descriptor that has several context states is removed (all its states go with it); it is created
        again by a later transaction (`tx_descr_restore_context`)"""
        cands = [dh for dh in _handles(self.mdib, lambda d: d.is_context_descriptor)
                 if len(self.mdib.context_states.descriptor_handle.get(dh, [])) >= 2]
        if not cands:
            return self.tx_context_new()
        dh = self.rng.choice(cands)
        d = self.mdib.descriptions.handle.get_one(dh)
        n = len(self.mdib.context_states.descriptor_handle.get(dh, []))
        self.w.deleted_ctx.append((dh, d.parent_handle, d.NODETYPE.localname))
        with self.mdib.descriptor_transaction() as tr:
            tr.remove_descriptor(dh)
        return f'descr delete context-descriptor ({n} states)'

    def tx_descr_restore_context(self):
        if not self.w.deleted_ctx:
            return self.tx_context_new()
        dh, parent, localname = self.w.deleted_ctx.pop(0)
        cls = self.mdib.data_model.get_descriptor_container_class(getattr(self.pm, localname))
        nd = cls(handle=dh, parent_handle=parent)
        with self.mdib.descriptor_transaction() as tr:
            tr.add_descriptor(nd)
        return 'descr create context-descriptor'

    def tx_descr_update_context_staged(self):
        """descriptor update (get_descriptor or entity write) of a context descriptor that owns context states in different
        association stages, at least one of them unbound (UnbindingMdibVersion set): every state of the descriptor follows
        the new DescriptorVersion and is listed in the UPDATE part"""
        cands = [dh for dh in _handles(self.mdib, lambda d: d.is_context_descriptor)
                 if any(s.UnbindingMdibVersion is not None for s in self.mdib.context_states.descriptor_handle.get(dh, []))]
        if not cands:
            # produce the stages first: a new associated state disassociates (unbinds) the previous ones
            return self.tx_set_location() if self.rng.random() < 0.5 else self.tx_context_new()
        dh = self.rng.choice(cands)
        n = len(self.mdib.context_states.descriptor_handle.get(dh, []))
        sc = self.rng.choice(list(self.pm_types.SafetyClassification))
        if self.rng.random() < 0.5:
            with self.mdib.descriptor_transaction() as tr:
                tr.get_descriptor(dh).SafetyClassification = sc
            how = 'get_descriptor'
        else:
            ent = self.mdib.entities.by_handle(dh)
            ent.descriptor.SafetyClassification = sc
            with self.mdib.descriptor_transaction() as tr:
                tr.write_entity(ent)
            how = 'write_entity'
        return f'descr update context-staged {how} ({n} states)'

    def tx_touch_and_drop(self):
        """the application gets a state, writes into its nested objects and then drops it again (`unget_state`, or an
        exception leaves the with-block): the provider MDIB must not change for that state; with `unget` something else is
        committed in the same transaction"""
        kind = self.rng.choice(['metric', 'metric', 'rt'])
        name = 'NumericMetricDescriptor' if kind == 'metric' else 'RealTimeSampleArrayMetricDescriptor'
        hs = [h for h in _handles(self.mdib, lambda d: d.NODETYPE.localname == name)
              if self.mdib.states.descriptor_handle.get_one(h).MetricValue is not None]
        if len(hs) < 2:
            # give the states a value first (the nested object has to exist)
            return self.tx_metric() if kind == 'metric' else self.tx_rt()
        victim, other = self.rng.sample(hs, 2)
        mode = self.rng.choice(['unget', 'unget', 'abort'])
        factory = self.mdib.metric_state_transaction if kind == 'metric' else self.mdib.rt_sample_state_transaction

        def scribble(st):
            if kind == 'metric':
                st.MetricValue.Value = Decimal(self.rng.randint(100000, 999999))
            else:
                st.MetricValue.Samples = [Decimal(self.rng.randint(1000, 9999))]
            st.MetricValue.MetricQuality.Validity = self.pm_types.MeasurementValidity.INVALID
            st.MetricValue.DeterminationTime = 12345.0

        class _Abort(Exception):
            pass
        try:
            with factory() as tr:
                st = tr.get_state(victim)
                scribble(st)
                if mode == 'abort':
                    raise _Abort
                tr.unget_state(st)
                st2 = tr.get_state(other)
                if kind == 'metric':
                    st2.MetricValue.Value = Decimal(self.rng.randint(0, 999))
                else:
                    st2.MetricValue.Samples = [Decimal(self.rng.randint(-9, 9))]
        except _Abort:
            pass
        return f'touch-and-drop {kind} {mode}'

    def tx_empty(self):
        """a transaction that commits without any change (nothing got / written, or a disassociate_all that finds nothing
        associated): no MdibVersion increment, no report"""
        kind = self.rng.choice(['metric_state', 'alert_state', 'component_state', 'operational_state', 'rt_sample_state',
                                'context_state', 'context_state', 'descriptor'])
        with getattr(self.mdib, kind + '_transaction')() as tr:
            if kind == 'context_state':
                _, dh = self._ctx_descr()
                assoc = self.pm_types.ContextAssociation.ASSOCIATED
                if dh is not None and not any(s.ContextAssociation == assoc or s.UnbindingMdibVersion is None
                                              for s in self.mdib.context_states.descriptor_handle.get(dh, [])):
                    tr.disassociate_all(dh)
        return f'empty {kind}'

    def tx_descr_context_clear(self):
        """a context entity written through a descriptor transaction with some or all of its states removed: the UPDATE
        part lists the remaining states, the consumer has to drop the others (also the last one)"""
        cands = sorted({s.DescriptorHandle for s in self.mdib.context_states.objects})
        if not cands:
            return self.tx_context_new()
        dh = self.rng.choice(cands)
        ent = self.mdib.entities.by_handle(dh)
        handles = sorted(ent.states)
        drop = handles if self.rng.random() < 0.5 else self.rng.sample(handles, self.rng.randint(1, len(handles)))
        for h in drop:
            ent.states.pop(h)
        with self.mdib.descriptor_transaction() as tr:
            tr.write_entity(ent)
        return f'descr update context-clear {len(drop)}/{len(handles)}'

    KINDS = (('tx_descr_update_context_staged', 2), ('tx_touch_and_drop', 2), ('tx_empty', 2), ('tx_descr_context_clear', 1), ('tx_descr_delete_context', 1), ('tx_descr_restore_context', 2), ('tx_metric', 5), ('tx_string_metric', 1), ('tx_alert', 3), ('tx_component', 2), ('tx_operational', 2),
             ('tx_rt', 2), ('tx_context_new', 3), ('tx_context_update', 3), ('tx_context_delete', 1), ('tx_set_location', 2),
             ('tx_descr_update', 5), ('tx_descr_create', 4), ('tx_descr_delete', 3))

    def any(self):
        names = [n for n, w in self.KINDS for _ in range(w)]
        return getattr(self, self.rng.choice(names))()


class AppObserverError(Exception):
    """raised by the generator's application observer of a provider observable"""


class ProviderObservers:
    """Application observers bound to the provider mdib's *_by_handle observables (what an application may do with them):
    some firings raise an exception, some modify the containers they receive."""
    NAMES = ('metrics_by_handle', 'alert_by_handle', 'component_by_handle', 'context_by_handle', 'operation_by_handle',
             'waveform_by_handle', 'new_descriptors_by_handle', 'updated_descriptors_by_handle')
    # not observed: deleted_descriptors_by_handle / deleted_states_by_handle. MdibBase.rm_descriptors_and_states sets them from
    # INSIDE the commit (with the table objects): an observer that raises there aborts the commit half-way (MdibVersion
    # incremented, descriptor removed, no report) - atomicity of the commit (C03), not a committed transaction any more.

    def __init__(self, mdib, rng, p_raise=0.25, p_modify=0.5):
        from sdc11073 import observableproperties as props
        self.mdib, self.rng, self.p_raise, self.p_modify = mdib, rng, p_raise, p_modify
        self.props = props
        self.stats = {'raised': 0, 'modified': 0}
        self.cbs = {n: self._mk(n) for n in self.NAMES}
        for n, cb in self.cbs.items():
            props.strongbind(mdib, **{n: cb})

    def _mk(self, name):
        def cb(value):
            if not isinstance(value, dict) or not value:
                return
            x = self.rng.random()
            if x < self.p_modify:
                self.stats['modified'] += 1
                for c in value.values():
                    # an application that "works" on what it got
                    for attr, v in (('StateVersion', 4711), ('DescriptorVersion', 4712), ('ActivationState', None),
                                    ('MetricValue', None), ('Presence', None), ('ContextAssociation', None),
                                    ('OperatingHours', 1), ('SafetyClassification', None)):
                        if hasattr(c, attr):
                            try:
                                setattr(c, attr, v)
                            except Exception:  # noqa: BLE001
                                pass
            if x > 1 - self.p_raise:
                self.stats['raised'] += 1
                raise AppObserverError(name)
        return cb

    def unbind(self):
        for n, cb in self.cbs.items():
            self.props.unbind(self.mdib, **{n: cb})


class HistoryRecorder:
    """Runs transactions on the real provider and records wire messages, Get answers and provider snapshots."""

    def __init__(self, world: World, count=None, ctx_in_getmdib=True, record_cores=False):
        self.w = world
        self.count = count
        world.provider.take_wire()
        world.provider.device.contextstates_in_getmdib = ctx_in_getmdib
        self.hist = History(Abstraction(), [], [], [], [], {}, [], [])
        self.epoch = 0
        self.record_cores = record_cores
        self.capture()
        self.hist.psnaps[-1] = world.lb.snapshot(world.provider.mdib)
        self._core(-1)

    @property
    def n_tx(self):
        return len(self.hist.txs)

    def _core(self, i):
        """abstract provider content (model vocabulary) after transaction i"""
        if self.record_cores:
            mdib = self.w.provider.mdib
            self.hist.pcores[i] = (self.hist.abs.vg(mdib.mdib_version_group), abstract_tables(mdib, self.hist.abs))

    def capture(self, commit_during=None):
        """GetMdib / GetContextStates through the real provider handlers.
        commit_during = a transaction function: it is committed while the GetMdib request is being answered, right after
        the handler took its snapshot of the mdib (reconstruct_mdib*) and before it builds the response; the reports of
        that transaction are `live_wires` of the capture (for the consumer they are notifications in flight)."""
        h = self.hist
        mdib = self.w.provider.mdib
        tx_before, wire_before = self.n_tx - 1, len(h.wire)
        if commit_during is None:
            cap = self.w.capture(h.abs, tx_before, wire_before)
            cap.psnap = self.w.lb.snapshot(mdib)
        else:
            box = {}
            main_thread = threading.current_thread()

            def in_window():
                # the GetMdib handler has just released the provider's mdib_lock (snapshot taken), the answer is not built yet
                box['psnap'] = self.w.lb.snapshot(mdib)
                try:
                    box['wires'] = self.tx(commit_during)
                except Exception as ex:  # noqa: BLE001
                    box['error'] = ex

            class ProviderLockProxy:
                """traced replacement of ProviderMdib.mdib_lock during the request: runs `in_window` right after the first
                outermost release by the request handler thread"""

                def __init__(self, real):
                    self.real = real
                    self.depth = threading.local()
                    self.fired = False

                def acquire(self, *a, **k):
                    return self.real.acquire(*a, **k)

                def release(self):
                    self.real.release()

                def __enter__(self):
                    self.real.acquire()
                    self.depth.n = getattr(self.depth, 'n', 0) + 1
                    return self

                def __exit__(self, *exc):
                    self.depth.n -= 1
                    self.real.release()
                    if self.depth.n == 0 and not self.fired and threading.current_thread() is not main_thread:
                        self.fired = True
                        in_window()
                    return False
            real_lock = mdib.mdib_lock
            mdib.mdib_lock = ProviderLockProxy(real_lock)
            try:
                cap = self.w.capture(h.abs, tx_before, wire_before)
            finally:
                mdib.mdib_lock = real_lock
            if 'error' in box or 'wires' not in box:
                raise RuntimeError(f'transaction during GetMdib failed: {box.get("error")!r}')
            cap.psnap = box['psnap']
            cap.live_wires = box['wires']
            if self.count:
                self.count('capture:commit-during-GetMdib')
        cap.epoch = self.epoch
        h.captures.append(cap)
        return len(h.captures) - 1

    def epoch_change(self, what, rng):
        """new SequenceId / InstanceId (as after a provider restart); 'ver' also lowers the MdibVersion counter"""
        mdib = self.w.provider.mdib
        self.epoch += 1
        if 'seq' in what:
            mdib.sequence_id = uuid.UUID(int=rng.getrandbits(128)).urn
        if 'inst' in what:
            mdib.instance_id = (mdib.instance_id or 0) + 1
        if 'ver' in what:
            mdib.mdib_version = rng.randint(0, max(0, mdib.mdib_version - 1))
        if self.count:
            self.count('epoch-change:' + what)
        h = self.hist
        h.epoch_start[self.n_tx] = what
        if self.record_cores:        # the version group of the content before the next transaction changed
            h.pcore_before[self.n_tx] = (h.abs.vg(mdib.mdib_version_group), abstract_tables(mdib, h.abs))
        # a consumer can only get in sync again through a reload: always offer a capture at the epoch start
        return self.capture()

    def tx(self, fn):
        """fn() performs one committed provider transaction and returns a description"""
        p = self.w.provider
        h = self.hist
        box = {}

        def run():
            box['desc'] = fn()
        try:
            try:
                run()
                desc = box['desc']
            except AppObserverError as ex:
                # an application observer of a provider observable raised: the transaction is committed nevertheless
                desc = f'observer-raised {ex} ' + str(box.get('desc', ''))
                if self.count:
                    self.count('provider-observer-raised')
        except Exception as ex:  # noqa: BLE001   (generator bug or provider defect: report, do not hide)
            raise RuntimeError(f'transaction generator failed: {ex!r}\n{traceback.format_exc()[-1500:]}') from ex
        if p.capture_errors:
            errs, p.capture_errors = p.capture_errors, []
            raise RuntimeError(f'provider could not serialise a report of "{desc}": {errs}')
        i = self.n_tx
        first = len(h.wire)
        for w in p.take_wire():
            h.wire.append(w)
            h.reports.append(self.w.abstract_report(h.abs, w))
            h.tx_of_wire.append(i)
            for m, d, _, _ in h.reports[-1].parts:
                if m in (1, 2) and d[2] == 5:     # UPDATE lists the remaining states, DELETE removes all of them
                    h.heals.setdefault(i, set()).add(d[0])
        if desc.startswith('context delete'):
            h.excluded_tx[i] = h.abs.h(desc.split(' ')[-1])
        h.txs.append(desc)
        h.epoch_of_tx.append(self.epoch)
        h.psnaps[i] = self.w.lb.snapshot(p.mdib)
        self._core(i)
        if self.count:
            ws = desc.split(' ')
            self.count('tx:' + ws[0] + (' ' + ws[1] if ws[0] in ('descr', 'context') and len(ws) > 1 else ''))
        return list(range(first, len(h.wire)))


def gen_history(world: World, rng, n_tx: int, n_captures: int = 3, epochs: bool = True, count=None,
                record_cores=False) -> History:
    """Run `n_tx` random transactions on the real provider; capture wire messages, Get answers, provider snapshots."""
    gen = TxGen(world, rng)
    # InstanceId of the provider: a number, 0 or absent
    world.provider.mdib.instance_id = rng.choice([1, 0, None, 7, world.provider.mdib.instance_id])
    rec = HistoryRecorder(world, count, ctx_in_getmdib=rng.random() < 0.6, record_cores=record_cores)
    observers = ProviderObservers(world.provider.mdib, rng) if rng.random() < 0.35 else None
    try:
        return _gen_history(world, rng, n_tx, n_captures, epochs, gen, rec)
    finally:
        if observers is not None:
            observers.unbind()
            if count:
                count('history-with-provider-observers')
                count('provider-observer-modified', observers.stats['modified'])


def _gen_history(world, rng, n_tx, n_captures, epochs, gen, rec):
    capture_at = set(rng.sample(range(n_tx), min(n_tx, n_captures)))
    # epoch changes (new SequenceId / InstanceId as after a provider restart) in some histories
    epoch_at = {}
    if epochs and n_tx >= 4 and rng.random() < 0.5:
        epoch_at[rng.randrange(2, n_tx)] = rng.choice(['seq', 'seq', 'inst', 'seq+ver'])
    live_at = rng.choice(sorted(capture_at)) if capture_at and rng.random() < 0.5 else None
    for i in range(n_tx):
        if i in epoch_at:
            rec.epoch_change(epoch_at[i], rng)
        if i == live_at and i not in epoch_at:
            # this transaction is committed while a GetMdib request is being answered (single-state kinds: the context
            # states may be fetched by a second request afterwards)
            rec.capture(commit_during=getattr(gen, rng.choice(['tx_metric', 'tx_alert', 'tx_component', 'tx_operational', 'tx_rt'])))
            continue
        rec.tx(gen.any)
        if i in capture_at:
            rec.capture()
    return rec.hist


# ----------------------------------------------------------------------------------------------------------------
# schedules
#   ('deliver', wire index)
#   ('reload', capture index, ctx capture index, [wire indices delivered while GetMdib is in flight])


def gen_schedule(hist: History, rng, count=None):
    n = len(hist.wire)
    caps = hist.captures
    style = rng.choice(['inorder', 'lossy', 'dup', 'reorder', 'chaos', 'inflight', 'chaos'])
    ev = []
    c0 = rng.randrange(len(caps)) if rng.random() < 0.4 else 0
    if rng.random() < 0.15:
        # a few notifications before the first load (state invalid: dropped)
        ev += [('deliver', rng.randrange(n)) for _ in range(rng.randint(1, 3))] if n else []

    def inflight(cap_idx):
        cap = caps[cap_idx]
        lo = max(0, cap.wire_len - rng.randint(0, 4))
        hi = min(n, cap.wire_len + rng.randint(0, 6))
        during = list(range(lo, hi))
        if style in ('chaos', 'dup', 'reorder') and during:
            if rng.random() < 0.5:
                rng.shuffle(during)
            during += [rng.choice(during) for _ in range(rng.randint(0, 2))]
            during = [x for x in during if rng.random() < 0.85]
        ctx_idx = cap_idx
        if rng.random() < 0.3:
            later = [j for j, c in enumerate(caps) if c.wire_len >= cap.wire_len and c.snap.vg[1] == cap.snap.vg[1]]
            ctx_idx = rng.choice(later)
        during = during if (style in ('inflight', 'chaos') or rng.random() < 0.3) else []
        if cap.live_wires and rng.random() < 0.7:
            during = list(range(lo, cap.wire_len)) + list(cap.live_wires)   # as it happened: committed during the request
            ctx_idx = cap_idx
        if during and rng.random() < 0.06:
            # a burst while the request is in flight: the last notification is repeated many times (a replaying sender)
            during = during + [during[-1]] * rng.choice([10, 150, 150])
        nxt = max([cap.wire_len] + [i + 1 for i in during])
        if rng.random() < 0.2 and nxt < n and hist.reports[nxt].vg[1:] == cap.snap.vg[1:]:
            # forced interleaving of a notification thread with reload_all at the buffer lock of the pre-check
            return ('race', cap_idx, ctx_idx, during, nxt, rng.choice(['before-lock', 'in-lock', 'after-release']))
        return ('reload+other' if during and rng.random() < 0.2 else 'reload', cap_idx, ctx_idx, during)

    first = inflight(c0)
    ev.append(first)
    pos = max([caps[c0].wire_len] + [i + 1 for i in first[3]] + ([first[4] + 1] if first[0] == 'race' else [])) \
        if rng.random() < 0.8 else caps[c0].wire_len
    order = list(range(pos, n))
    if style == 'lossy':
        order = [i for i in order if rng.random() < 0.7]
    elif style == 'dup':
        order = [j for i in order for j in ([i, i] if rng.random() < 0.3 else [i])]
        for _ in range(rng.randint(0, 3)):
            if order:
                k = rng.randrange(len(order))
                order.insert(min(len(order), k + rng.randint(1, 4)), order[k])
    elif style == 'reorder':
        for _ in range(rng.randint(1, 4)):
            if len(order) > 1:
                k = rng.randrange(len(order) - 1)
                j = min(len(order) - 1, k + rng.randint(1, 5))
                order.insert(j, order.pop(k))   # delay one message past later ones
    elif style == 'chaos':
        order = [i for i in order if rng.random() < 0.8]
        order += [rng.randrange(n) for _ in range(rng.randint(0, 4))] if n else []
        if rng.random() < 0.5:
            rng.shuffle(order)
        else:
            for _ in range(rng.randint(1, 4)):
                if len(order) > 1:
                    k = rng.randrange(len(order) - 1)
                    order.insert(min(len(order) - 1, k + rng.randint(1, 5)), order.pop(k))
    for i in order:
        ev.append(('deliver', i))
        # reloads in between: after an epoch change (the application's reaction) or spontaneously
        if rng.random() < 0.06:
            ev.append(inflight(rng.randrange(len(caps))))
    # make sure epoch changes are followed by a reload in most schedules
    out = []
    cur_epoch_seq = caps[c0].snap.vg[1:]
    for e in ev:
        out.append(e)
        if e[0] != 'deliver':
            cur_epoch_seq = caps[e[1]].snap.vg[1:]
        elif hist.reports[e[1]].vg[1:] != cur_epoch_seq and rng.random() < 0.5:
            fitting = [j for j, c in enumerate(caps) if c.snap.vg[1:] == hist.reports[e[1]].vg[1:]]
            if fitting:
                r = inflight(rng.choice(fitting))
                out.append(r)
                cur_epoch_seq = caps[r[1]].snap.vg[1:]
    if count:
        count('schedule-style:' + style)
    return out


# ----------------------------------------------------------------------------------------------------------------
# running a schedule on the real consumer


class Recorder:
    """collects the firings of the consumer mdib observables (named methods, kept alive by the Runner)"""
    NAMES = ('metrics_by_handle', 'alert_by_handle', 'component_by_handle', 'context_by_handle', 'operation_by_handle',
             'waveform_by_handle', 'new_descriptors_by_handle', 'updated_descriptors_by_handle',
             'deleted_descriptors_by_handle', 'description_modifications', 'sequence_or_instance_id_changed_event')

    def __init__(self):
        self.log = []
        self.cbs = {}
        for n in self.NAMES:
            self.cbs[n] = self._mk(n)

    def _mk(self, name):
        def cb(value, _name=name):
            if value is None:
                return
            keys = sorted(value.keys()) if isinstance(value, dict) else None
            self.log.append((_name, keys))
        return cb

    def bind(self, mdib):
        from sdc11073 import observableproperties as props
        for n, cb in self.cbs.items():
            props.strongbind(mdib, **{n: cb})


HANDLERS = ('_process_incoming_metric_states_report', '_process_incoming_alert_states_report',
            '_process_incoming_operational_states_report', '_process_incoming_context_states_report',
            '_process_incoming_component_states_report', '_process_incoming_waveform_states',
            '_process_incoming_description_modifications')


def abstract_tables(mdib, ab: Abstraction, prev=None, touched=None):
    """content of a real MDIB in the vocabulary of the model: three dicts key -> tuple.
    With `prev` / `touched`: entries whose key is not in `touched` are taken from `prev` (the full dump at the end of
    every schedule and at every reload recomputes everything, so an unexpected change cannot hide)."""
    if prev is None:
        return ({ab.h(d.Handle): ab.descr(d) for d in mdib.descriptions.objects},
                {ab.h(s.DescriptorHandle): ab.sstate(s) for s in mdib.states.objects},
                {ab.h(s.Handle): ab.cstate(s) for s in mdib.context_states.objects})
    res = []
    for objs, keyattr, conv, old in ((mdib.descriptions.objects, 'Handle', ab.descr, prev[0]),
                                     (mdib.states.objects, 'DescriptorHandle', ab.sstate, prev[1]),
                                     (mdib.context_states.objects, 'Handle', ab.cstate, prev[2])):
        tab = {}
        for o in objs:
            k = ab.h(getattr(o, keyattr))
            v = old.get(k) if k not in touched else None
            tab[k] = v if v is not None else conv(o)
        res.append(tab)
    return tuple(res)


def _o(v):
    return '-' if v is None else str(v)


def fmt_entry(t):
    return '/'.join(_o(x) for x in t)


def fmt_delta(old, new):
    added = sorted(k for k, v in new.items() if old.get(k) != v)
    removed = sorted(k for k in old if k not in new)
    return ' '.join(fmt_entry(new[k]) for k in added), ','.join(map(str, removed))


def fmt_line(mode, vg, buflen, notifs, old, new):
    if mode == 'ing':
        head = 'ing - - -'
    else:
        head = f'{mode} {vg[0]} {vg[1]} {_o(vg[2])}'
    d, s, c = (fmt_delta(o, n) for o, n in zip(old, new))
    return f'{head} b={buflen} | {";".join(notifs)} | D+ {d[0]} D- {d[1]} S+ {s[0]} S- {s[1]} C+ {c[0]} C- {c[1]}'


def fmt_notif(rk, h=(), c=(), u=(), d=(), x=0, e=0):
    j = lambda xs: ','.join(map(str, sorted(set(xs))))  # noqa: E731
    return f'k{rk}:h={j(h)}:c={j(c)}:u={j(u)}:d={j(d)}:x={x}:e={e}'


class SchedLock:
    """Traced replacement of ConsumerMdib._buffered_notifications_lock for the forced schedules: the notification thread
    (`slow`) is stopped at the lock boundary of `_pre_check_report_ok` — 'before-lock': between its read of `_state` and
    the acquisition, until the harness releases it (after reload_all finished); 'in-lock': inside the critical section,
    until reload_all itself waits for the lock."""
    TIMEOUT = 15

    def __init__(self, real):
        self.real = real
        self.slow = None
        self.variant = None
        self.at_lock = threading.Event()
        self.release = threading.Event()
        self.other_waiting = threading.Event()
        self.on_other_acquired = None

    def arm(self, thread, variant, on_other_acquired=None):
        self.slow, self.variant, self.on_other_acquired = thread, variant, on_other_acquired
        for e in (self.at_lock, self.release, self.other_waiting):
            e.clear()

    def disarm(self):
        self.slow = self.variant = self.on_other_acquired = None

    def acquire(self, *a, **k):
        return self.real.acquire(*a, **k)

    def release_lock(self):
        self.real.release()

    def __enter__(self):
        me = threading.current_thread()
        if self.slow is not None and me is self.slow:
            if self.variant == 'before-lock':
                self.at_lock.set()
                if not self.release.wait(self.TIMEOUT):
                    raise RuntimeError('forced schedule: notification thread was never released')
                self.real.acquire()
            else:
                self.real.acquire()
                self.at_lock.set()
                self.other_waiting.wait(self.TIMEOUT)
        elif self.slow is not None and self.variant == 'in-lock':
            if not self.real.acquire(False):
                self.other_waiting.set()
                self.real.acquire()
                cb, self.on_other_acquired = self.on_other_acquired, None
                if cb is not None:
                    cb()
        else:
            self.real.acquire()
        return self

    def __exit__(self, *exc):
        self.real.release()
        if self.variant == 'after-release' and self.slow is not None and threading.current_thread() is not self.slow:
            # the loader (reload_all) has just left its buffer-lock section: window for a complete notification delivery
            cb, self.on_other_acquired = self.on_other_acquired, None
            if cb is not None:
                cb()
        return False


class MdibLockProxy:
    """Traced replacement of ConsumerMdib.mdib_lock (re-entrant): reports when the notification thread has to wait for the
    lock and holds it back until the harness has observed the consumer."""

    def __init__(self, real, sched: SchedLock):
        self.real = real
        self.sched = sched
        self.waiting = threading.Event()

    def acquire(self, *a, **k):
        return self.real.acquire(*a, **k)

    def release(self):
        self.real.release()

    def __enter__(self):
        s = self.sched
        if s.slow is not None and s.variant == 'after-release' and threading.current_thread() is s.slow:
            if not self.real.acquire(False):
                self.waiting.set()
                if not s.release.wait(s.TIMEOUT):
                    raise RuntimeError('forced schedule: notification thread was never released')
                self.real.acquire()
        else:
            self.real.acquire()
        return self

    def __exit__(self, *exc):
        self.real.release()
        return False


class Runner:
    """Executes one schedule on a fresh real ConsumerMdib; produces the canonical lines + oracle verdicts."""

    def __init__(self, world: World, hist: History, fail, count=lambda *_: None, mirror_oracle=True, notif_oracle=False):
        self.notif_oracle = notif_oracle
        self.w = world
        self.hist = hist
        self.ab = hist.abs
        self.fail = fail            # fail(signature, detail)
        self.count = count
        self.mirror_oracle = mirror_oracle
        from sdc11073.mdib import ConsumerMdib
        from sdc11073.mdib.consumermdib import ConsumerMdibState
        self.St = ConsumerMdibState
        world.attach(None)
        self.mdib = ConsumerMdib(world.sdc)
        world.attach(self.mdib)      # what init_mdib does, without the network GetMdib
        self.rec = Recorder()
        self.rec.bind(self.mdib)
        self._wrap_handlers()
        self.sched_lock = SchedLock(self.mdib._buffered_notifications_lock)  # noqa: SLF001
        self.mdib._buffered_notifications_lock = self.sched_lock  # noqa: SLF001
        self.mdib_lock_proxy = MdibLockProxy(self.mdib.mdib_lock, self.sched_lock)
        self.mdib.mdib_lock = self.mdib_lock_proxy
        self.lines = []       # model input
        self.outs = []        # canonical implementation output per model input line
        self.prev = ({}, {}, {})
        self.stats = dict(accepted=0, dropped=0, dup=0, reordered=0, buffered=0, stale=0, invalid=0, reloads=0)
        # oracle bookkeeping
        self.delivered = set()        # wire indices processed (accepted by the MdibVersion gate) in this epoch
        self.max_delivered = -1
        self.epoch_ids = None         # (seq, inst) of the last load
        self.in_sync_tx = None        # consumer has seen exactly every report up to this transaction (else None)
        self.unmirrored = set()       # context descriptors with a state deleted by the provider without any report
        self.published = self._published()
        self.stopped = False

    def _published(self):
        s, c = {}, {}
        for r in self.hist.reports:
            for st in r.all_states():
                s.setdefault(st[0], set()).add(st)
            for st in r.all_cstates():
                c.setdefault(st[0], set()).add(st)
        for cap in self.hist.captures:
            for st in cap.snap.states:
                s.setdefault(st[0], set()).add(st)
            for st in cap.snap.cstates + cap.ctx:
                c.setdefault(st[0], set()).add(st)
        return s, c

    def _wrap_handlers(self):
        rec = self.rec
        for name in HANDLERS:
            orig = getattr(self.mdib, name)

            def wrapper(vg, report, _orig=orig, _name=name):
                rec.log.append(('<handler>', _name))
                return _orig(vg, report)
            setattr(self.mdib, name, wrapper)

    # ---- observation
    def mode(self):
        return {self.St.invalid: 'inv', self.St.initializing: 'ing', self.St.initialized: 'ok'}[self.mdib._state]  # noqa: SLF001

    def vg(self):
        m = self.mdib
        return (m.mdib_version, None if m.sequence_id is None else self.ab.seq(m.sequence_id), m.instance_id)

    def notifs(self):
        """firings since the last call, grouped per handler invocation, in the model's format"""
        log, self.rec.log = self.rec.log, []
        res = []
        cur = None
        rk_of_handler = {HANDLERS[0]: 0, HANDLERS[1]: 1, HANDLERS[2]: 4, HANDLERS[3]: 3, HANDLERS[4]: 2, HANDLERS[5]: 5,
                         HANDLERS[6]: 6}

        self.last_struct = []

        def flush():
            if cur is not None:
                res.append(fmt_notif(cur['rk'], cur['h'], cur['c'], cur['u'], cur['d']))
                self.last_struct.append(cur)
        for name, keys in log:
            if name == '<handler>':
                flush()
                cur = dict(rk=rk_of_handler[keys], h=[], c=[], u=[], d=[], fired=set())
            elif name == 'sequence_or_instance_id_changed_event':
                res.append(('x', None))
            elif cur is None:
                continue   # firings outside a handler (reload: add_description_containers)
            else:
                ks = [self.ab.h(k) for k in (keys or [])]
                cur['fired'].add(name)
                if name == OBS_OF_RK.get(cur['rk']):
                    cur['h'] += ks
                elif name == 'new_descriptors_by_handle':
                    cur['c'] += ks
                elif name == 'updated_descriptors_by_handle':
                    cur['u'] += ks
                elif name == 'deleted_descriptors_by_handle':
                    cur['d'] += ks
                elif name == 'description_modifications':
                    pass
                else:
                    res.append(f'unexpected-observable:{name}')
        flush()
        return res

    def observe(self, line, rk_for_watchdog=None, touched=None):
        new = abstract_tables(self.mdib, self.ab, self.prev if touched is not None else None, touched)
        notifs = [fmt_notif(rk_for_watchdog, x=1) if n == ('x', None) else n for n in self.notifs()]
        out = fmt_line(self.mode(), self.vg(), len(self.mdib._buffered_notifications), notifs, self.prev, new)  # noqa: SLF001
        self.lines.append(line)
        self.outs.append(out)
        old, self.prev = self.prev, new
        return old, new

    # ---- events
    def deliver(self, i, inflight=False):
        hist = self.hist
        rep = hist.reports[i]
        before_mode = self.mode()
        before_vg = self.vg()
        self._rt_before = self._rt_snapshot() if rep.rk == 5 else None
        try:
            self.w.consumer.deliver(hist.wire[i])
            exc = None
        except Exception as ex:  # noqa: BLE001
            exc = ex
        old, new = self.observe(rep.line(), rk_for_watchdog=rep.rk, touched=rep.touched())
        if exc is not None:
            self.fail('report-handler-raises:' + type(exc).__name__,
                      f'delivering wire[{i}] ({hist.wire[i].short} v{rep.vg[0]}) raised {exc!r}; consumer mdib at {before_vg}')
        self._oracle_delivery(i, rep, before_mode, before_vg, old, new)

    def _rt_snapshot(self):
        """content of the waveform sample buffers (ConsumerMdib.rt_buffers)"""
        return {h: tuple((str(x.value), round(x.determination_time * 1000)) for x in list(b.rt_data))
                for h, b in self.mdib.rt_buffers.items()}

    def reload(self, cap_idx, ctx_idx, during, race=None, other_load=False):
        """race = (wire index, 'before-lock' | 'in-lock'): a notification thread delivers that report while GetMdib is in
        flight and is stopped at the buffer lock of _pre_check_report_ok (forced interleaving with reload_all)"""
        hist = self.hist
        cap, capc = hist.captures[cap_idx], hist.captures[ctx_idx]
        reader = self.w.reader
        from sdc11073.consumer.serviceclients.serviceclientbase import GetRequestResult
        runner = self
        lock = self.sched_lock
        thread_exc = []
        thr = None
        if race is not None:
            ri, variant = race
            rrep = hist.reports[ri]

            def notify():
                try:
                    runner.w.consumer.deliver(hist.wire[ri])
                except Exception as ex:  # noqa: BLE001
                    thread_exc.append(ex)
            thr = threading.Thread(target=notify, daemon=True)

            def in_lock_observed():
                # reload_all got the buffer lock after the notification thread left it: the report is in the buffer now.
                # (the implementation has loaded the answer already, the model loads and replays in one step: only the
                # state machine and the buffer are compared here, the content after `end`)
                runner.rec.log = [x for x in runner.rec.log if x[0] == '<handler>' or x[0].startswith('sequence')]
                runner.lines.append(rrep.line())
                runner.outs.append(fmt_line(runner.mode(), runner.vg(), len(runner.mdib._buffered_notifications), [],  # noqa: SLF001
                                            runner.prev, runner.prev))

            def in_release_window():
                # reload_all has released the buffer lock (replay done, buffer cleared); it still holds mdib_lock.
                # A complete notification delivery runs now: it ends, or it waits for mdib_lock (then it is held back
                # until the consumer has been observed after the load).
                runner.mdib_lock_proxy.waiting.clear()
                thr.start()
                t0 = time.time()
                while thr.is_alive() and not runner.mdib_lock_proxy.waiting.is_set() and time.time() - t0 < lock.TIMEOUT:
                    time.sleep(0.001)

        nested = []

        def fake_get_mdib(*_a, **_k):
            if nested:      # the GetMdib of the other consumer mdib (see below): just the answer
                md = reader.read_received_message(cap.raw_mdib)
                return GetRequestResult(md, md.msg_reader.read_get_mdib_response(md))
            runner.observe('begin')   # state initializing, tables cleared
            runner._oracle_tables('during reload')
            for i in during:
                runner.deliver(i, inflight=True)
            if other_load:
                # overlapping loads: a second ConsumerMdib of the same SdcConsumer (no notification ever reaches it) performs
                # a complete reload_all while this one waits for its GetMdib answer. The state of a consumer mdib is
                # per instance: the other load sees an empty buffer, ends exactly at the answer and leaves ours alone.
                from sdc11073.mdib import ConsumerMdib
                nested.append(True)
                try:
                    other = ConsumerMdib(runner.w.sdc)
                    n_before = len(runner.mdib._buffered_notifications)  # noqa: SLF001
                    other.reload_all()
                    where2 = f'second ConsumerMdib loaded (capture {cap_idx}) while the first one waits for GetMdib with {n_before} buffered notifications'
                    if other.mdib_version != cap.snap.vg[0] or len(other._buffered_notifications):  # noqa: SLF001
                        runner.fail('other-consumer-mdib-affected', f'{where2}: it ends at MdibVersion {other.mdib_version} '
                                                                    f'(answer: {cap.snap.vg[0]}), buffer {len(other._buffered_notifications)}')  # noqa: SLF001
                    if len(runner.mdib._buffered_notifications) != n_before:  # noqa: SLF001
                        runner.fail('buffer-changed-by-other-consumer-mdib', f'{where2}: afterwards '
                                                                             f'{len(runner.mdib._buffered_notifications)} are buffered')  # noqa: SLF001
                    runner.count('overlapping-loads')
                finally:
                    nested.pop()
            if thr is not None and variant == 'after-release':
                lock.arm(thr, variant, in_release_window)
            elif thr is not None:
                lock.arm(thr, variant, in_lock_observed if variant == 'in-lock' else None)
                thr.start()
                if not lock.at_lock.wait(lock.TIMEOUT):
                    runner.fail('initializing-report-not-buffered', 'forced schedule: the notification thread did not reach the '
                                                                    'buffer lock while the mdib was initializing')
            md = reader.read_received_message(cap.raw_mdib)
            return GetRequestResult(md, md.msg_reader.read_get_mdib_response(md))

        def fake_get_ctx(*_a, **_k):
            md = reader.read_received_message(capc.raw_ctx)
            cls = md.msg_reader.msg_types.GetContextStatesResponse
            return GetRequestResult(md, cls.from_node(md.p_msg.msg_node))
        self.stats['reloads'] += 1
        with mock.patch.object(self.w.get, 'get_mdib', fake_get_mdib), \
                mock.patch.object(self.w.ctx, 'get_context_states', fake_get_ctx):
            try:
                self.mdib.reload_all()
                exc = None
            except Exception as ex:  # noqa: BLE001
                exc = ex
        s = cap.snap
        toks = [s.vg[0], s.vg[1], opt(s.vg[2])] + enc_list(s.descrs, enc_d) + enc_list(s.states, enc_s) + \
            enc_list(s.cstates, enc_s) + enc_list(capc.ctx, enc_s)
        old, new = self.observe('end ' + ' '.join(map(str, toks)))
        if exc is not None:
            lock.release.set()
            lock.disarm()
            self.fail('reload-raises:' + type(exc).__name__, f'reload_all raised {exc!r}')
            return
        if race is None:
            self._oracle_reload(cap_idx, ctx_idx, during, new)
            return
        self.count('forced-schedule:' + variant)
        if variant == 'in-lock':
            thr.join(lock.TIMEOUT)
            lock.disarm()
            self.stats['buffered'] += 1
            self._oracle_reload(cap_idx, ctx_idx, list(during) + [ri], new)
        else:
            # reload_all is finished, the notification thread still waits (in front of the buffer lock / for mdib_lock)
            self._oracle_reload(cap_idx, ctx_idx, during, new)
            before_vg = self.vg()
            lock.release.set()
            thr.join(lock.TIMEOUT)
            lock.disarm()
            if variant == 'after-release':
                # the state switch happens inside the buffer-lock section: the delivery saw `initialized`, an ordinary report
                line = rrep.line()
                where = (f'report wire[{ri}] ({hist.wire[ri].short} v{rrep.vg[0]}) arrived right after reload_all had replayed '
                         f'and cleared the buffer (buffer lock released, mdib_lock still held)')
            else:
                line = 'fin' + rrep.line()[3:]
                where = (f'report wire[{ri}] ({hist.wire[ri].short} v{rrep.vg[0]}) arrived while GetMdib was in flight; its thread '
                         f'got the buffer lock only after reload_all had replayed the buffer')
            old, new = self.observe(line, rk_for_watchdog=rrep.rk, touched=rrep.touched())
            if self.mdib._buffered_notifications:  # noqa: SLF001
                self.fail('report-lost-in-buffer-after-load',
                          f'{where}: the report was appended to the buffer of an initialized mdib (nobody replays it)')
            self._oracle_delivery(ri, rrep, 'ok', before_vg, old, new)
        if thr.is_alive():
            self.fail('notification-thread-blocked', 'forced schedule: the notification thread did not finish')
        if thread_exc:
            self.fail('report-handler-raises:' + type(thread_exc[0]).__name__, f'notification thread raised {thread_exc[0]!r}')

    # ---- oracle (independent of the Lean model)
    def _oracle_tables(self, where):
        from mk_oracle import table_problems
        m = self.mdib
        for name, tab in (('descriptions', m.descriptions), ('states', m.states), ('context_states', m.context_states)):
            probs = table_problems(tab, name)
            if probs:
                self.fail('lookup-inconsistent:' + name, f'{where}: {probs[:3]}')

    def _oracle_published(self, new, where):
        ps, pc = self.published
        for k, st in new[1].items():
            if st not in ps.get(k, ()):
                self.fail('state-not-published', f'{where}: consumer holds state {st} of handle #{k} that no report / Get answer of the '
                                                 f'provider history contains')
                break
        for k, st in new[2].items():
            if st not in pc.get(k, ()):
                self.fail('context-state-not-published', f'{where}: consumer holds context state {st} that was never published')
                break

    def _oracle_delivery(self, i, rep, before_mode, before_vg, old, new):
        hist = self.hist
        where = f'deliver wire[{i}] ({hist.wire[i].short} v{rep.vg[0]}) in mode {before_mode} at {before_vg}'
        self._oracle_tables(where)
        self._oracle_published(new, where)
        after_mode, after_vg = self.mode(), self.vg()
        changed = old != new or (before_vg != after_vg)
        if before_mode == 'inv':
            self.stats['invalid'] += 1
            if changed or after_mode != 'inv':
                self.fail('invalid-mdib-updated', f'{where}: consumer in state invalid was changed by a notification')
            return
        if before_mode == 'ing':
            self.stats['buffered'] += 1
            if old != new:
                self.fail('initializing-mdib-updated', f'{where}: tables changed while GetMdib is in flight')
            return
        ids_differ = rep.vg[1:] != before_vg[1:]
        if ids_differ and getattr(self, 'loaded_epoch', None) == hist.epoch_of_tx[hist.tx_of_wire[i]] and \
                rep.vg[1:] != self.loaded_ids:
            self.fail('same-epoch-report-with-other-ids',
                      f'{where}: the report belongs to the same provider epoch as the loaded GetMdib answer but carries '
                      f'(SequenceId, InstanceId) #{rep.vg[1:]} instead of #{self.loaded_ids} of that answer: the consumer stops following')
        if ids_differ:
            if after_mode != 'inv' or changed:
                self.fail('id-change-not-stopped', f'{where}: SequenceId/InstanceId differ but consumer went on ({after_mode}, changed={changed})')
            self.in_sync_tx = None
            return
        # initialized, same ids
        if after_mode == 'ok' and self.mdib._buffered_notifications:  # noqa: SLF001
            self.fail('report-lost-in-buffer-after-load', f'{where}: the buffer of an initialized mdib is not empty')
        self._count_branches(rep, before_vg, old)
        if after_vg[0] < before_vg[0]:
            self.fail('mdib-version-regressed', f'{where}: MdibVersion {before_vg[0]} -> {after_vg[0]}')
        for tab, name in ((1, 'state'), (2, 'context state')):
            for k, st in new[tab].items():
                o = old[tab].get(k)
                if o is not None and st[3 - (tab == 1)] < o[3 - (tab == 1)]:
                    self.fail(name.replace(' ', '-') + '-version-regressed',
                              f'{where}: StateVersion of {name} #{k} {o[3 - (tab == 1)]} -> {st[3 - (tab == 1)]}')
        stale = rep.vg[0] < before_vg[0]
        dup = i in self.delivered
        if stale:
            self.stats['stale'] += 1
        if dup:
            self.stats['dup'] += 1
        if stale or dup:
            which = 'stale' if stale else 'duplicated'
            named = sorted({k for n in self.last_struct for k in n['h']}) if rep.rk != 6 else []
            if named:
                self.fail('stale-or-duplicate-announced', f'{where}: {which} report: {OBS_OF_RK[rep.rk]} announces #{named} although '
                                                          f'nothing changed')
            if getattr(self, '_rt_before', None) is not None:
                after = self._rt_snapshot()
                if after != self._rt_before:
                    grown = {h: (len(self._rt_before.get(h, ())), len(v)) for h, v in after.items() if self._rt_before.get(h) != v}
                    self.fail('stale-or-duplicate-changed-rt-buffers', f'{where}: {which} waveform report changed rt_buffers '
                                                                       f'(samples before, after): {grown}')
        if (stale or dup) and changed:
            self.fail('stale-or-duplicate-changed-mdib' + (':description' if rep.rk == 6 else ''),
                      f'{where}: {"stale" if stale else "duplicated"} report changed the consumer MDIB: '
                      f'{fmt_line(after_mode, after_vg, 0, [], old, new)[:400]}')
        if not stale and rep.rk == 6:
            self._oracle_deleted_subtrees(rep, old, new, where)
        if not stale:
            self.delivered.add(i)
            self.stats['accepted'] += 1
        if i < self.max_delivered:
            self.stats['reordered'] += 1
        self.max_delivered = max(self.max_delivered, i)
        if self.notif_oracle and self.in_sync_tx is not None and i == self.in_sync_wire:
            self._oracle_notifications(rep, old, new, where)
        self._track_sync(i, new, where)

    def _oracle_notifications(self, rep, old, new, where):
        """C01: the notifications raised while the report was processed name exactly the entities it changed"""
        if len(self.last_struct) != 1:
            self.fail('notification-count', f'{where}: {len(self.last_struct)} handler notifications for one report')
            return
        n = self.last_struct[0]

        def changed(tab):
            return {k for k in set(old[tab]) | set(new[tab]) if old[tab].get(k) != new[tab].get(k)}
        if rep.rk == 6:
            named = set(n['c']) | set(n['u']) | set(n['d'])
            ent = changed(0) | {(old[1].get(k) or new[1].get(k))[0] for k in changed(1)} | \
                {(old[2].get(k) or new[2].get(k))[1] for k in changed(2)}
            parts = {'c': {d[0] for m, d, _, _ in rep.parts if m == 0}, 'u': {d[0] for m, d, _, _ in rep.parts if m == 1},
                     'd': {d[0] for m, d, _, _ in rep.parts if m == 2}}
            for key, label in (('c', 'new'), ('u', 'updated'), ('d', 'deleted')):
                if set(n[key]) != parts[key]:
                    self.fail('notification-keys:' + label, f'{where}: {label}_descriptors_by_handle names #{sorted(set(n[key]))}, the report '
                                                            f'has {label} parts for #{sorted(parts[key])}')
            if ent != named:
                self.fail('notification-keys:description', f'{where}: description modification notifications name #{sorted(named)}, '
                                                           f'changed entities are #{sorted(ent)}')
        else:
            named = set(n['h'])
            ch = changed(2 if rep.rk == 3 else 1)
            if named != ch:
                self.fail('notification-keys:' + ('context' if rep.rk == 3 else 'state'),
                          f'{where}: {OBS_OF_RK[rep.rk]} names #{sorted(named)}, the report changed #{sorted(ch)}')

    def _oracle_deleted_subtrees(self, rep, old, new, where):
        """a DELETE part for a descriptor the consumer had removes the descriptor with everything below it: afterwards the
        consumer holds no descriptor (and no state of a descriptor) that has the deleted handle among its ancestors"""
        deleted = {d[0] for m, d, _, _ in rep.parts if m == 2 and d[0] in old[0]} - set(new[0])
        if not deleted:
            return
        parent = {k: v[1] for k, v in new[0].items()}
        below = set()
        for k in parent:
            a, n = parent[k], 0
            while a is not None and n < 1000:
                if a in deleted:
                    below.add(k)
                    break
                a, n = parent.get(a), n + 1
        gone = deleted | below
        orphans = sorted(k for tab in (new[1], new[2]) for k, st in tab.items() if (st[0] if tab is new[1] else st[1]) in gone)
        if below:
            self.fail('deleted-descriptor-keeps-subtree', f'{where}: descriptor(s) #{sorted(deleted)} deleted, the consumer still holds '
                                                          f'descriptors #{sorted(below)} below them (states of them: #{orphans})')
        elif orphans:
            self.fail('deleted-descriptor-keeps-states', f'{where}: descriptor(s) #{sorted(deleted)} deleted, the consumer still holds '
                                                         f'state(s) / context state(s) #{orphans} of them (states without descriptor)')

    def _count_branches(self, rep, before_vg, old):
        """which branches of the handlers this delivery exercises (evidence only)"""
        d = rep.vg[0] - before_vg[0]
        self.count('branch:mdib-version-' + ('older' if d < 0 else 'equal' if d == 0 else 'next' if d == 1 else 'gap'))
        if d < 0:
            return

        def gate(tab, key, st, svi):
            o = old[tab].get(key)
            if o is None:
                return 'missing'
            dd = st[svi] - o[svi]
            return 'older' if dd < 0 else 'equal' if dd == 0 else 'next' if dd == 1 else 'gap'
        for st in rep.states:
            self.count('branch:state-gate-' + gate(1, st[0], st, 2))
        for st in rep.cstates:
            self.count('branch:context-gate-' + gate(2, st[0], st, 3))
        for m, dsc, ss, cs in rep.parts:
            have = dsc[0] in old[0]
            self.count('branch:part-' + ('create', 'update', 'delete')[m] + ('-existing' if have else '-missing'))
            for st in ss:
                self.count('branch:part-state-gate-' + gate(1, st[0], st, 2))
            for st in cs:
                self.count('branch:part-context-gate-' + gate(2, st[0], st, 3))
            if m == 1 and dsc[2] == 5:
                keep = {c[0] for c in cs if c[1] == dsc[0]}
                if any(c[1] == dsc[0] and k not in keep for k, c in old[2].items()):
                    self.count('branch:context-update-removes-state')
            if m == 2 and any(x[1] == dsc[0] for x in old[0].values()):
                self.count('branch:delete-with-subtree')

    def _track_sync(self, i, new, where):
        """mirror oracle: while every report since the load arrived exactly once and in order, the consumer must equal
        the provider snapshot after each completely delivered transaction"""
        if self.in_sync_tx is None:
            return
        hist = self.hist
        nxt = self.in_sync_wire
        if i < nxt and i in self.delivered:
            return      # a duplicate of a report that was processed: must change nothing (checked above), still in sync
        if i != nxt:
            self.in_sync_tx = None
            return
        self.in_sync_wire = i + 1
        tx = hist.tx_of_wire[i]
        last_of_tx = i + 1 >= len(hist.wire) or hist.tx_of_wire[i + 1] != tx
        if last_of_tx:
            self._advance_sync(self.in_sync_tx, tx)
            self.in_sync_tx = tx
            if self.mirror_oracle and not self.unmirrored:
                self.check_mirror_and_idle(tx, where)

    def _advance_sync(self, from_tx, to_tx):
        """transactions (from_tx, to_tx] are now reflected: book-keeping of the context states that were deleted without
        a report (the protocol has no message for it; an UPDATE of their descriptor removes them at the consumer)"""
        hist = self.hist
        for t in range(from_tx + 1, to_tx + 1):
            self.unmirrored -= hist.heals.get(t, set())
            if t in hist.excluded_tx:
                self.unmirrored.add(hist.excluded_tx[t])

    def check_mirror_and_idle(self, tx, where, psnap=None):
        """mirror after transaction `tx`, and after every directly following transaction that sent no report (an empty
        transaction: the provider content, MdibVersion included, must not have changed without a report)"""
        self.check_mirror(tx, where, psnap)
        hist = self.hist
        with_reports = set(hist.tx_of_wire)
        t = tx + 1
        while t < len(hist.txs) and t not in with_reports and t not in hist.excluded_tx and t not in hist.epoch_start:
            self.check_mirror(t, f'{where}; then transaction {t} ("{hist.txs[t]}") without any report')
            t += 1

    def check_mirror(self, tx, where, psnap=None):
        lb = self.w.lb
        diff = lb.diff_snapshots(psnap or self.hist.psnaps[tx], lb.snapshot(self.mdib))
        self.count('mirror-checks')
        if diff:
            self.fail('not-a-mirror:' + _diff_class(diff), f'{where}: all reports up to transaction {tx} ("{self.hist.txs[tx]}") '
                                                           f'delivered in order, consumer != provider: {diff[:4]}')

    def _oracle_reload(self, cap_idx, ctx_idx, during, new):
        hist = self.hist
        cap = hist.captures[cap_idx]
        where = f'reload from capture {cap_idx} (after tx {cap.tx}, v{cap.snap.vg[0]}) with {len(during)} notifications in flight'
        self._oracle_tables(where)
        self._oracle_published(new, where)
        if self.mode() != 'ok':
            self.fail('reload-not-initialized', f'{where}: state is {self.mode()}')
        if self.mdib._buffered_notifications:  # noqa: SLF001
            self.fail('reload-buffer-not-empty', where)
        self.delivered = set()
        self.max_delivered = -1
        self.loaded_epoch = cap.epoch
        self.loaded_ids = cap.snap.vg[1:]
        # a state that was loaded (GetMdib / GetContextStates answer) must not be replaced by an older version
        loaded_c = cap.snap.cstates or hist.captures[ctx_idx].ctx
        for tab, loaded, name, svi in ((1, cap.snap.states, 'state', 2), (2, loaded_c, 'context state', 3)):
            for st in loaded:
                cur = new[tab].get(st[0])
                if cur is not None and cur[svi] < st[svi]:
                    sig = name.replace(' ', '-') + '-version-regressed:reload'
                    if tab == 2 and ctx_idx != cap_idx and not cap.snap.cstates:
                        # the context states came from a GetContextStates answer of a LATER moment than the GetMdib answer.
                        # History class: a buffered (older) description modification report removes the state (DELETE of its
                        # descriptor / UPDATE part of its context descriptor that does not list it yet), a buffered older
                        # context report creates it again with its first StateVersion.
                        removed = any(
                            (m == 2 and d[0] == st[1]) or (m == 1 and d[2] == 5 and d[0] == st[1] and st[0] not in {c[0] for c in cs})
                            for i in during if hist.reports[i].rk == 6 and hist.reports[i].vg[0] > cap.snap.vg[0]
                            for m, d, _, cs in hist.reports[i].parts)
                        if removed:
                            sig += ':later-GetContextStates-answer-then-buffered-removal-and-recreation'
                    self.fail(sig,
                              f'{where}: {name} #{st[0]} was loaded with StateVersion {st[svi]}, after the replay of the '
                              f'buffered notifications it has {cur[svi]}')
        # which in-flight notifications have to be applied: same SequenceId, newer than the snapshot
        applicable = [i for i in during if hist.reports[i].vg[1] == cap.snap.vg[1] and hist.reports[i].vg[0] > cap.snap.vg[0]]
        vmax = max([cap.snap.vg[0]] + [hist.reports[i].vg[0] for i in applicable])
        if self.vg()[0] != vmax and all(hist.reports[i].vg[2] == cap.snap.vg[2] for i in applicable):
            self.fail('reload-version', f'{where}: MdibVersion {self.vg()[0]}, expected {vmax}')
        for i in during:
            r = hist.reports[i]
            if r.vg[1] == cap.snap.vg[1] and r.vg[0] <= self.vg()[0] and \
                    (r.vg[0] > cap.snap.vg[0] or ctx_idx == cap_idx or bool(cap.snap.cstates) or r.rk not in (3, 6)):
                self.delivered.add(i)
        # reports that are contained in the loaded content count as applied (a later delivery is a duplicate). When the
        # context states came from a GetContextStates answer of another moment, the load is no consistent snapshot
        # with respect to context states: only the single-state reports are certainly contained then.
        consistent = ctx_idx == cap_idx or bool(cap.snap.cstates)
        for i in range(cap.wire_len):
            if hist.reports[i].vg[1:] == cap.snap.vg[1:] and (consistent or hist.reports[i].rk not in (3, 6)):
                self.delivered.add(i)     # contained in the snapshot
        # loss-free initial load: the applicable notifications are exactly the next reports, once, in order
        # (duplicates of a report that is already in the buffer change nothing: only the first occurrences count)
        firsts = list(dict.fromkeys(applicable))
        if len(firsts) != len(applicable):
            self.count('inflight-with-duplicates')
        applicable = firsts
        expect = list(range(cap.wire_len, cap.wire_len + len(applicable)))
        self.in_sync_tx = None
        ctx_ok = ctx_idx == cap_idx or bool(cap.snap.cstates)
        if applicable == expect and ctx_ok and all(hist.reports[i].vg[1:] == cap.snap.vg[1:] for i in applicable):
            self.in_sync_wire = cap.wire_len + len(applicable)
            nxt = self.in_sync_wire
            complete = nxt >= len(hist.wire) or not applicable or hist.tx_of_wire[nxt] != hist.tx_of_wire[nxt - 1]
            tx = hist.tx_of_wire[nxt - 1] if applicable else cap.tx
            self.in_sync_tx = tx if complete else cap.tx
            self.unmirrored = set()
            self._advance_sync(cap.tx, self.in_sync_tx)
            if complete and self.mirror_oracle and not self.unmirrored:
                self.check_mirror_and_idle(tx, where, psnap=None if applicable else cap.psnap)

    def run(self, schedule):
        for e in schedule:
            if e[0] == 'deliver':
                self.deliver(e[1])
            elif e[0] == 'race':
                self.reload(e[1], e[2], e[3], race=(e[4], e[5]))
            elif e[0] == 'reload+other':
                self.reload(e[1], e[2], e[3], other_load=True)
            else:
                self.reload(e[1], e[2], e[3])
        self.full_dump()
        seen = {e[1] for e in schedule if e[0] == 'deliver'} | {i for e in schedule if e[0] != 'deliver' for i in e[3]} | \
            {e[4] for e in schedule if e[0] == 'race'}
        self.stats['dropped'] = len(self.hist.wire) - len(seen)
        return self

    def full_dump(self):
        """complete content (everything recomputed from the real objects) against the model's complete content"""
        new = abstract_tables(self.mdib, self.ab)
        self.lines.append('dump')
        self.outs.append(fmt_line(self.mode(), self.vg(), len(self.mdib._buffered_notifications), [], ({}, {}, {}), new))  # noqa: SLF001
        self.prev = new


def _diff_class(diff):
    d = diff[0]
    tab = d.split('[')[0]
    if 'only in' in d:
        return tab + (':missing' if 'only in first' in d else ':extra')
    if 'differs' in d:
        return tab + ':differs'
    return d.split(':')[0]


# ----------------------------------------------------------------------------------------------------------------
# the check


def canon_case(hist: History, schedule):
    return [(e[0], hist.reports[e[1]].line()) if e[0] == 'deliver' else
            (e[0], e[1], e[2], [hist.reports[i].line() for i in e[3]]) + tuple(e[4:]) for e in schedule]


CHUNK = 5   # histories per fresh provider (a history depends on the provider state left by the earlier ones of its chunk)


@dataclasses.dataclass
class CaseResult:
    """picklable result of one (history, schedule) run on the implementation"""
    case: dict
    txs: list
    canon: list
    lines: list
    outs: list
    stats: dict
    n_wire: int
    n_events: int


def _result(case, hist, sched, runner):
    return CaseResult(case, hist.txs, canon_case(hist, sched), runner.lines, runner.outs, runner.stats, len(hist.wire), len(sched))


def _resolve(name):
    import importlib
    mod, fn = name.split(':')
    return getattr(importlib.import_module(mod), fn)


def two_mds_chunk(chunk):
    """every third chunk of histories runs on the MDIB with two MDS (tests/mdib_two_mds.xml)"""
    return chunk % 3 == 2


def run_chunk(ctx, world, key, chunk, n_hist, n_sched, n_tx=(4, 12), mirror_oracle=True, sched_gen='props.c06:gen_schedule',
              only=None, describe=False, notif_oracle=False):
    """histories chunk*CHUNK .. on `world` (which must be fresh); `only=(hi, schedule)` = replay of one recorded case"""
    gen = _resolve(sched_gen)
    res = []
    for hi in range(chunk * CHUNK, min(n_hist, (chunk + 1) * CHUNK)):
        rng = ctx.subrng(key, 'history', hi)
        hist = gen_history(world, rng, rng.randint(*n_tx), count=ctx.count, record_cores=describe)
        ctx.count('histories')
        ctx.count('wire-messages', len(hist.wire))
        if describe and only is None:
            res.append(describe_result(hist, {'key': key, 'history': hi, 'seed': ctx.seed, 'tier': ctx.tier, 'n_hist': n_hist,
                                              'n_tx': list(n_tx), 'sched_gen': sched_gen, 'schedule': [], 'describe': True}))
        if only is not None:
            if hi != only[0]:
                continue
            scheds = [(None, [tuple(e) for e in only[1]])]
        else:
            scheds = [(si, gen(hist, ctx.subrng(key, 'history', hi, 'schedule', si), ctx.count)) for si in range(n_sched)]
        for si, sched in scheds:
            case = {'key': key, 'history': hi, 'schedule_index': si, 'schedule': [list(e) for e in sched], 'seed': ctx.seed,
                    'tier': ctx.tier, 'n_hist': n_hist, 'n_tx': list(n_tx), 'sched_gen': sched_gen}

            def fail(sig, detail, _case=case, _hist=hist):
                ctx.fail(sig, detail, {**_case, 'txs': _hist.txs})
            runner = Runner(world, hist, fail, ctx.count, mirror_oracle=mirror_oracle, notif_oracle=notif_oracle).run(sched)
            res.append(_result(case, hist, sched, runner))
    return res


def enc_core(vg, tabs):
    d, s, c = tabs
    return [vg[0], vg[1], opt(vg[2])] + enc_list([d[k] for k in sorted(d)], enc_d) + enc_list([s[k] for k in sorted(s)], enc_s) + \
        enc_list([c[k] for k in sorted(c)], enc_s)


def describe_result(hist: History, case):
    """one `desc` line per transaction: do its reports describe the change of the provider content? (C01 hypothesis)"""
    lines, outs = [], []
    for i, desc in enumerate(hist.txs):
        if i in hist.excluded_tx or i - 1 not in hist.pcores or i not in hist.pcores:
            continue
        reps = [r for r, t in zip(hist.reports, hist.tx_of_wire) if t == i]
        if not reps:
            continue      # no report: nothing to describe; the mirror oracle demands an unchanged provider content
        toks = enc_core(*hist.pcore_before.get(i, hist.pcores[i - 1])) + enc_core(*hist.pcores[i]) + [len(reps)]
        for r in reps:
            toks += [int(x) for x in r.line().split(' ')[1:]]
        lines.append('desc ' + ' '.join(map(str, toks)))
        outs.append('describes')
    return CaseResult(case, hist.txs, ['describe', hist.txs, [r.line() for r in hist.reports]], lines, outs,
                      dict(accepted=0, dropped=0, dup=0, reordered=0, buffered=0, stale=0, invalid=0, reloads=0), len(hist.wire), 0)


def _chunk_worker(args):
    prop, tier, seed, kw = args
    import logging
    logging.disable(logging.CRITICAL)
    ctx = core.Ctx(prop, tier, seed)
    try:
        if 'scenario_set' in kw:
            world = World(two_mds=SCENARIO_SETS[kw['scenario_set']][0])
            try:
                res = run_scenarios(ctx, world, True, notif_oracle=(prop == 'C01'), scenario_set=kw['scenario_set'])
            finally:
                world.stop()
            return res, ctx.failures, ctx.hist, None
        world = World(two_mds=two_mds_chunk(kw['chunk']))
        try:
            res = run_chunk(ctx, world, **kw)
        finally:
            world.stop()
        err = None
    except Exception:  # noqa: BLE001
        res, err = [], traceback.format_exc()[-3000:]
    return res, ctx.failures, ctx.hist, err


def run_cases(ctx, key, n_hist, n_sched, processes=None, scenario_sets=(), **kw):
    """all chunks (and the fixed scenario sets), each on a fresh provider in a worker process; merges counts / failures"""
    import multiprocessing as mp
    chunks = list(range((n_hist + CHUNK - 1) // CHUNK))
    tasks = [(ctx.prop, ctx.tier, ctx.seed, dict(scenario_set=x)) for x in scenario_sets]
    tasks += [(ctx.prop, ctx.tier, ctx.seed, dict(key=key, chunk=c, n_hist=n_hist, n_sched=n_sched, **kw)) for c in chunks]
    procs = processes or min(8, len(tasks))
    if procs <= 1:
        outs = [_chunk_worker(t) for t in tasks]
    else:
        with mp.get_context('spawn').Pool(procs) as pool:
            outs = pool.map(_chunk_worker, tasks, chunksize=1)
    results = []
    for res, failures, hist, err in outs:
        if err:
            raise RuntimeError('worker failed: ' + err)
        results.extend(res)
        for f in failures:
            ctx.fail(f['signature'], f['detail'], f['case'])
            ctx.hist['oracle-failure:' + f['signature']] -= 1   # counted below with the worker's histogram
        for k, v in hist.items():
            ctx.count(k, v)
    return results


def compare_with_model(ctx, results, driver='drv_c06'):
    if not ctx.driver_ok:
        return
    lines = []
    for r in results:
        lines.append('reset')
        lines.extend(r.lines)
    out = ctx.driver(driver, lines)
    k = 0
    for r in results:
        k += 1  # reset
        for j, (line, impl) in enumerate(zip(r.lines, r.outs)):
            model = out[k]
            k += 1
            if model != impl:
                ctx.disagree('Consumer.step == ConsumerMdib after the event', {**r.case, 'event_index': j, 'event': line[:300],
                                                                            'txs': r.txs},
                             model[:1500], impl[:1500])
                # the later lines of this case only repeat the difference
                k += len(r.lines) - j - 1
                break


# ----------------------------------------------------------------------------------------------------------------
# fixed scenarios (run first on every run, on a fresh provider): the schedules on which the pinned tree failed


def _first(mdib, name):
    return _handles(mdib, lambda d: d.NODETYPE.localname == name)[0]


def scenario_dup_create(world, rng):
    """a DescriptionModificationReport with CREATE parts delivered twice, then a re-create after a lost DELETE"""
    gen = TxGen(world, rng)
    rec = HistoryRecorder(world)
    ch = _first(world.mdib, 'ChannelDescriptor')

    def create(handle):
        def fn():
            with world.mdib.descriptor_transaction() as tr:
                nd, st = gen._mk_metric(handle, ch)  # noqa: SLF001
                tr.add_descriptor(nd, state_container=st)
            return 'descr create metric ' + handle
        return fn

    def delete(handle):
        def fn():
            with world.mdib.descriptor_transaction() as tr:
                tr.remove_descriptor(handle)
            return 'descr delete ' + handle
        return fn
    w1 = rec.tx(create('scn_m1'))
    w2 = rec.tx(gen.tx_metric)
    w3 = rec.tx(delete('scn_m1'))
    w4 = rec.tx(create('scn_m1'))
    sched = [('reload', 0, 0, [])] + [('deliver', w1[0]), ('deliver', w1[0])] + [('deliver', i) for i in w1[1:]] + \
        [('deliver', w1[0])] + [('deliver', i) for i in w2] + [('deliver', i) for i in w4] + [('deliver', w4[0])]
    return rec.hist, sched


def scenario_alert_source(world, rng):
    """descriptor update that changes an indexed attribute (AlertCondition.Source): lookups must follow"""
    rec = HistoryRecorder(world)
    ac = _first(world.mdib, 'AlertConditionDescriptor')
    metrics = _handles(world.mdib, lambda d: d.NODETYPE.localname == 'NumericMetricDescriptor')

    def fn():
        with world.mdib.descriptor_transaction() as tr:
            d = tr.get_descriptor(ac)
            d.Source = [metrics[3], metrics[4]]
        return 'descr update alert condition source'
    w1 = rec.tx(fn)
    return rec.hist, [('reload', 0, 0, [])] + [('deliver', i) for i in w1] + [('deliver', w1[0])]


def scenario_inflight_same_version(world, rng):
    """both reports of one descriptor transaction (DescriptionModificationReport + EpisodicContextReport, same
    MdibVersion) arrive while GetMdib is in flight: none of them may be lost"""
    gen = TxGen(world, rng)
    rec = HistoryRecorder(world)
    pat = _first(world.mdib, 'PatientContextDescriptor')

    def fn():
        with world.mdib.descriptor_transaction() as tr:
            d = tr.get_descriptor(pat)
            d.SafetyClassification = gen.pm_types.SafetyClassification.MED_A
            cls = world.mdib.data_model.get_state_container_class(d.STATE_QNAME)
            st = cls(d)
            st.Handle = gen._new_handle('scn_ctx')  # noqa: SLF001
            st.CoreData.Givenname = 'Inflight'
            tr.add_state(st)
        return 'descr update context pat + new state'
    w1 = rec.tx(fn)
    w2 = rec.tx(gen.tx_metric)
    return rec.hist, [('reload', 0, 0, w1)] + [('deliver', i) for i in w2]


def scenario_ctx_answer_newer(world, rng):
    """GetMdib answered without context states, GetContextStates answered later (newer context state); a delayed
    DescriptionModificationReport that carries the older version of that context state is replayed from the buffer"""
    gen = TxGen(world, rng)
    rec = HistoryRecorder(world, ctx_in_getmdib=False)
    pat = _first(world.mdib, 'PatientContextDescriptor')
    handle = gen._new_handle('scn_pat')  # noqa: SLF001

    def new_state():
        with world.mdib.context_state_transaction() as tr:
            st = tr.mk_context_state(pat, handle, set_associated=True)
            st.CoreData.Givenname = 'A'
        return 'context new pat'

    def upd_descr():
        with world.mdib.descriptor_transaction() as tr:
            d = tr.get_descriptor(pat)
            d.SafetyClassification = gen.pm_types.SafetyClassification.MED_B
        return 'descr update context pat'

    def upd_state():
        with world.mdib.context_state_transaction() as tr:
            st = tr.get_context_state(handle)
            st.CoreData.Givenname = 'B'
        return 'context update 1'
    rec.tx(new_state)
    c1 = rec.capture()
    w2 = rec.tx(upd_descr)
    rec.tx(upd_state)
    c2 = rec.capture()
    return rec.hist, [('reload', c1, c2, [w2[0]])]


def scenario_context_keys(world, rng):
    """new and updated context states, in order (C01: notifications name the changed entities by their Handle)"""
    gen = TxGen(world, rng)
    rec = HistoryRecorder(world)
    w = rec.tx(gen.tx_context_new) + rec.tx(gen.tx_context_update) + rec.tx(gen.tx_set_location) + rec.tx(gen.tx_set_location)
    return rec.hist, [('reload', 0, 0, [])] + [('deliver', i) for i in w]


def scenario_orphan_state(world, rng):
    """the CREATE report is lost, the state report of the same transaction arrives (state without descriptor)"""
    gen = TxGen(world, rng)
    rec = HistoryRecorder(world)
    w1 = rec.tx(gen.tx_descr_create)
    w2 = rec.tx(gen.tx_metric)
    return rec.hist, [('reload', 0, 0, [])] + [('deliver', i) for i in w1[1:]] + [('deliver', i) for i in w2]


def scenario_context_delete_heals(world, rng):
    """a context state is deleted through the entity interface (no report exists for that); the next UPDATE of its
    descriptor lists the remaining states: the consumer has to drop the deleted one and is a mirror again"""
    gen = TxGen(world, rng)
    rec = HistoryRecorder(world)
    pat = _first(world.mdib, 'PatientContextDescriptor')
    handles = [gen._new_handle('scn_del'), gen._new_handle('scn_del')]  # noqa: SLF001

    def new_state(h):
        def fn():
            with world.mdib.context_state_transaction() as tr:
                st = tr.mk_context_state(pat, h, set_associated=False)
                st.CoreData.Givenname = h
            return 'context new pat'
        return fn

    def delete():
        ent = world.mdib.entities.by_handle(pat)
        ent.states.pop(handles[0])
        with world.mdib.context_state_transaction() as tr:
            tr.write_entity(ent, [handles[0]])
        return f'context delete {pat}'

    def upd_descr():
        with world.mdib.descriptor_transaction() as tr:
            d = tr.get_descriptor(pat)
            d.SafetyClassification = gen.pm_types.SafetyClassification.MED_C
        return 'descr update context pat'
    w = rec.tx(new_state(handles[0])) + rec.tx(new_state(handles[1])) + rec.tx(delete) + rec.tx(gen.tx_metric) + \
        rec.tx(upd_descr) + rec.tx(gen.tx_metric)
    return rec.hist, [('reload', 0, 0, [])] + [('deliver', i) for i in w]


def scenario_buffer_race(world, rng):
    """forced schedules at the buffer lock of _pre_check_report_ok: the notification thread reads `initializing`, is stopped
    in front of / inside the lock section while reload_all finishes / waits: the report must be neither lost nor doubled"""
    gen = TxGen(world, rng)
    rec = HistoryRecorder(world)
    w1 = rec.tx(gen.tx_metric)
    w2 = rec.tx(gen.tx_alert)
    w3 = rec.tx(gen.tx_metric)
    c1 = rec.capture()
    w4 = rec.tx(gen.tx_metric)
    w5 = rec.tx(gen.tx_metric)
    return rec.hist, [('race', 0, 0, [], w1[0], 'before-lock')] + [('deliver', i) for i in w1[1:] + w2 + w3] + \
        [('race', c1, c1, [], w4[0], 'in-lock')] + [('deliver', i) for i in w4[1:] + w5] + \
        [('race', c1, c1, w4, w5[0], 'before-lock')] + [('deliver', i) for i in w5[1:]] + \
        [('race', c1, c1, [], w4[0], 'after-release')] + [('deliver', i) for i in w4[1:] + w5] + \
        [('reload+other', 0, 0, w1 + w2), ('deliver', w3[0]), ('reload+other', c1, c1, w4 + w5)]


def scenario_commit_during_getmdib(world, rng):
    """GetMdib answered by the real provider handler while a transaction commits (after the handler took its snapshot):
    the answer has to carry the version of its content; the reports of that transaction are in flight at the consumer"""
    gen = TxGen(world, rng)
    rec = HistoryRecorder(world)
    rec.tx(gen.tx_metric)
    c1 = rec.capture(commit_during=gen.tx_metric)
    live = rec.hist.captures[c1].live_wires
    w3 = rec.tx(gen.tx_alert)
    return rec.hist, [('reload', c1, c1, live)] + [('deliver', i) for i in w3]


def scenario_duplicates_announce_nothing(world, rng):
    """every report delivered twice in a row (MdibVersion equal to the consumer's): the second delivery changes nothing,
    announces nothing and does not add waveform samples a second time"""
    gen = TxGen(world, rng)
    rec = HistoryRecorder(world)
    w = rec.tx(gen.tx_rt) + rec.tx(gen.tx_metric) + rec.tx(gen.tx_alert) + rec.tx(gen.tx_context_new) + rec.tx(gen.tx_rt) + \
        rec.tx(gen.tx_component) + rec.tx(gen.tx_operational)
    return rec.hist, [('reload', 0, 0, [])] + [('deliver', i) for j in w for i in (j, j)]


def scenario_lost_child_delete(world, rng):
    """a child descriptor is deleted and that report is lost; then its parent is deleted and this report arrives: the
    consumer has to remove the whole subtree it still holds"""
    gen = TxGen(world, rng)
    rec = HistoryRecorder(world)
    vmd = _first(world.mdib, 'VmdDescriptor')
    hc, hm1, hm2 = gen._new_handle('scn_ch'), gen._new_handle('scn_m'), gen._new_handle('scn_m')  # noqa: SLF001

    def create():
        with world.mdib.descriptor_transaction() as tr:
            tr.add_descriptor(*_args(gen._mk_channel(hc, vmd)))  # noqa: SLF001
            tr.add_descriptor(*_args(gen._mk_metric(hm1, hc)))  # noqa: SLF001
            tr.add_descriptor(*_args(gen._mk_metric(hm2, hc)))  # noqa: SLF001
        return 'descr create channel+metric'

    def delete(h):
        def fn():
            with world.mdib.descriptor_transaction() as tr:
                tr.remove_descriptor(h)
            return 'descr delete ' + h
        return fn
    w1 = rec.tx(create)
    w2 = rec.tx(delete(hm1))        # lost
    w3 = rec.tx(gen.tx_metric)
    w4 = rec.tx(delete(hc))
    w5 = rec.tx(gen.tx_metric)
    assert w2
    return rec.hist, [('reload', 0, 0, [])] + [('deliver', i) for i in w1 + w3 + w4 + w5]


def _args(pair):
    return pair[0], True, pair[1]


def scenario_empty_transactions(world, rng):
    """transactions of every kind that commit without a change: no version increment, the consumer stays a mirror"""
    gen = TxGen(world, rng)
    rec = HistoryRecorder(world)
    mdib = world.mdib
    w = rec.tx(gen.tx_metric)

    def empty(kind):
        def fn():
            with getattr(mdib, kind + '_transaction')() as tr:
                if kind == 'context_state':
                    for dh in _handles(mdib, lambda d: d.is_context_descriptor):
                        assoc = gen.pm_types.ContextAssociation.ASSOCIATED
                        if not any(s.ContextAssociation == assoc or s.UnbindingMdibVersion is None
                                   for s in mdib.context_states.descriptor_handle.get(dh, [])):
                            tr.disassociate_all(dh)
            return f'empty {kind}'
        return fn
    for kind in ('metric_state', 'alert_state', 'component_state', 'operational_state', 'rt_sample_state', 'context_state',
                 'descriptor'):
        assert not rec.tx(empty(kind))
    w += rec.tx(gen.tx_alert)
    assert not rec.tx(empty('context_state'))
    return rec.hist, [('reload', 0, 0, [])] + [('deliver', i) for i in w]


def scenario_same_handles_twice(world, rng):
    """two consecutive reports of each kind that change exactly the same handle set: the second one has to be announced
    like the first one"""
    gen = TxGen(world, rng)
    rec = HistoryRecorder(world)
    w = rec.tx(gen.tx_context_new)
    for name in ('tx_metric', 'tx_alert', 'tx_component', 'tx_operational', 'tx_rt', 'tx_context_update'):
        kind = name[3:].replace('_update', '')
        w += rec.tx(getattr(gen, name))
        sel = list(world.last_sel.get(kind) or [])

        def again(_name=name, _kind=kind, _sel=sel):
            world.last_sel[_kind] = list(_sel)
            orig = gen.rng.random
            gen.rng.random = lambda: 0.0          # take the "same handle set" branch of _pick
            try:
                return getattr(gen, _name)()
            finally:
                gen.rng.random = orig
        w += rec.tx(again)
    return rec.hist, [('reload', 0, 0, [])] + [('deliver', i) for i in w]


def scenario_context_clear_by_descriptor_tx(world, rng):
    """context states removed by writing the context entity through a descriptor transaction: first one of two, then the
    last one (UPDATE part without any state)"""
    gen = TxGen(world, rng)
    rec = HistoryRecorder(world, record_cores=True)
    mdib = world.mdib
    pat = _first(mdib, 'PatientContextDescriptor')
    ent = mdib.entities.by_handle(pat)
    handles = [gen._new_handle('scn_clr'), gen._new_handle('scn_clr')]  # noqa: SLF001

    def new_state(h):
        def fn():
            with mdib.context_state_transaction() as tr:
                st = tr.mk_context_state(pat, h, set_associated=False)
                st.CoreData.Givenname = h
            return 'context new pat'
        return fn

    def keep_only(keep):
        def fn():
            ent = mdib.entities.by_handle(pat)
            for h in list(ent.states):
                if h not in keep:
                    ent.states.pop(h)
            with mdib.descriptor_transaction() as tr:
                tr.write_entity(ent)
            return 'descr update context-clear'
        return fn
    del ent
    w = rec.tx(keep_only([])) if mdib.context_states.descriptor_handle.get(pat) else []
    w += rec.tx(new_state(handles[0])) + rec.tx(new_state(handles[1])) + rec.tx(keep_only([handles[1]])) + \
        rec.tx(gen.tx_metric) + rec.tx(keep_only([])) + rec.tx(gen.tx_metric)
    return rec.hist, [('reload', 0, 0, [])] + [('deliver', i) for i in w]


def scenario_siblings_one_parent(world, rng):
    """several children of one untouched parent created / removed in ONE transaction, classic and entity interface: the
    parent's DescriptorVersion grows by one per transaction and is reported once"""
    gen = TxGen(world, rng)
    rec = HistoryRecorder(world)
    mdib = world.mdib
    ch = _first(mdib, 'ChannelDescriptor')
    hs = [gen._new_handle('scn_sib') for _ in range(5)]  # noqa: SLF001

    def create_classic():
        with mdib.descriptor_transaction() as tr:
            for h in hs[:3]:
                tr.add_descriptor(*_args(gen._mk_metric(h, ch)))  # noqa: SLF001
        return 'descr create siblings 3'

    def create_entities():
        ents = []
        for h in hs[3:]:
            ent = mdib.entities.new_entity(gen.pm.NumericMetricDescriptor, h, ch)
            ent.descriptor.Type = gen.pm_types.CodedValue('4711')
            ent.descriptor.Unit = gen.pm_types.CodedValue('u1')
            ent.descriptor.Resolution = Decimal('0.5')
            ents.append(ent)
        with mdib.descriptor_transaction() as tr:
            tr.write_entities(ents)
        return 'descr create entity-siblings 2'

    def delete(handles, entity_api):
        def fn():
            with mdib.descriptor_transaction() as tr:
                for h in handles:
                    if entity_api:
                        tr.remove_entity(mdib.entities.by_handle(h))
                    else:
                        tr.remove_descriptor(h)
            return f'descr delete siblings ({len(handles)})'
        return fn
    w = rec.tx(create_classic) + rec.tx(gen.tx_metric) + rec.tx(create_entities) + rec.tx(delete(hs[:2], False)) + \
        rec.tx(gen.tx_component) + rec.tx(delete(hs[2:4], True)) + rec.tx(gen.tx_metric)
    return rec.hist, [('reload', 0, 0, [])] + [('deliver', i) for i in w]


def scenario_context_entity_new_state(world, rng):
    """a context entity that already has states is written through a descriptor transaction with one more state: in the
    EpisodicContextReport the new state follows states that were already applied with the description report"""
    gen = TxGen(world, rng)
    rec = HistoryRecorder(world)
    mdib = world.mdib
    pat = _first(mdib, 'PatientContextDescriptor')

    def new_state():
        with mdib.context_state_transaction() as tr:
            st = tr.mk_context_state(pat, gen._new_handle('scn_ent'), set_associated=False)  # noqa: SLF001
            st.CoreData.Givenname = 'existing'
        return 'context new pat'

    def write_entity_new_state():
        ent = mdib.entities.by_handle(pat)
        st = ent.new_state(gen._new_handle('scn_ent'))  # noqa: SLF001
        st.CoreData.Givenname = 'added'
        with mdib.descriptor_transaction() as tr:
            tr.write_entity(ent)
        return 'descr update context pat write_entity + new state'
    w = rec.tx(new_state) + rec.tx(new_state) + rec.tx(write_entity_new_state) + rec.tx(gen.tx_metric) + \
        rec.tx(write_entity_new_state) + rec.tx(gen.tx_context_update)
    return rec.hist, [('reload', 0, 0, [])] + [('deliver', i) for i in w]


def scenario_two_mds_interleaved(world, rng):
    """MDIB with two MDS: one transaction changes states of MDS A, MDS B, MDS A (in this order); the reports carry one
    part per source MDS and must contain every state"""
    gen = TxGen(world, rng)
    rec = HistoryRecorder(world)
    mdib = world.mdib

    def by_mds(pred):
        g = {}
        for d in sorted(mdib.descriptions.objects, key=lambda d: d.Handle):
            if pred(d):
                g.setdefault(d.source_mds or d.Handle, []).append(d.Handle)
        keys = sorted(g, key=lambda k: -len(g[k]))
        return [g[keys[0]][0], g[keys[1]][0], g[keys[0]][1]]

    def metric():
        with mdib.metric_state_transaction() as tr:
            for i, h in enumerate(by_mds(lambda d: d.NODETYPE.localname == 'NumericMetricDescriptor')):
                st = tr.get_state(h)
                if st.MetricValue is None:
                    st.mk_metric_value()
                st.MetricValue.Value = Decimal(10 + i)
        return 'metric 3'

    def alert():
        with mdib.alert_state_transaction() as tr:
            for h in by_mds(lambda d: d.NODETYPE.localname == 'AlertConditionDescriptor'):
                st = tr.get_state(h)
                st.Presence = not st.Presence
        return 'alert 3'

    def component():
        with mdib.component_state_transaction() as tr:
            for i, h in enumerate(by_mds(lambda d: d.NODETYPE.localname in ('ChannelDescriptor', 'VmdDescriptor'))):
                tr.get_state(h).OperatingHours = 100 + i
        return 'component 3'
    w = rec.tx(metric) + rec.tx(alert) + rec.tx(component) + rec.tx(metric)
    return rec.hist, [('reload', 0, 0, [])] + [('deliver', i) for i in w]


def scenario_delete_context_descriptor(world, rng):
    """a context descriptor with three context states is deleted (one in-order DELETE part): the consumer has to drop the
    descriptor and all three states; afterwards the descriptor is created again"""
    gen = TxGen(world, rng)
    rec = HistoryRecorder(world)
    mdib = world.mdib
    pat = _first(mdib, 'PatientContextDescriptor')
    parent = mdib.descriptions.handle.get_one(pat).parent_handle

    def new_state():
        with mdib.context_state_transaction() as tr:
            st = tr.mk_context_state(pat, gen._new_handle('scn_dc'), set_associated=False)  # noqa: SLF001
            st.CoreData.Givenname = 'p'
        return 'context new pat'

    def delete():
        n = len(mdib.context_states.descriptor_handle.get(pat, []))
        with mdib.descriptor_transaction() as tr:
            tr.remove_descriptor(pat)
        return f'descr delete context-descriptor ({n} states)'

    def restore():
        cls = mdib.data_model.get_descriptor_container_class(gen.pm.PatientContextDescriptor)
        with mdib.descriptor_transaction() as tr:
            tr.add_descriptor(cls(handle=pat, parent_handle=parent))
        return 'descr create context-descriptor'
    w = rec.tx(new_state) + rec.tx(new_state) + rec.tx(new_state) + rec.tx(delete) + rec.tx(gen.tx_metric) + rec.tx(restore) + \
        rec.tx(new_state)
    return rec.hist, [('reload', 0, 0, [])] + [('deliver', i) for i in w]


def scenario_inflight_burst(world, rng):
    """bursts of 1, 10, 150, 1200 notifications while GetMdib is in flight: four transactions on different metrics, in
    order, then the last report again and again. Every report is newer than the GetMdib answer: none may get lost (the
    buffer is unbounded: `buffering_exact`), the repetitions change nothing: the consumer is a mirror after the load"""
    gen = TxGen(world, rng)
    rec = HistoryRecorder(world)
    mdib = world.mdib
    metrics = _handles(mdib, lambda d: d.NODETYPE.localname == 'NumericMetricDescriptor')[:4]

    def change(h):
        def fn():
            with mdib.metric_state_transaction() as tr:
                st = tr.get_state(h)
                if st.MetricValue is None:
                    st.mk_metric_value()
                st.MetricValue.Value = Decimal(rng.randint(1, 999))
            return 'metric 1'
        return fn
    w = []
    for h in metrics:
        w += rec.tx(change(h))
    w5 = rec.tx(gen.tx_alert)
    sched = []
    for n in (1, 10, 150, 1200):
        sched += [('reload', 0, 0, w + [w[-1]] * n)] + [('deliver', i) for i in w5]
    return rec.hist, sched


def scenario_touch_and_drop(world, rng):
    """states handed out by get_state are written (nested objects) and then dropped by unget_state / by an aborted
    transaction: the provider content must stay what the reports said"""
    gen = TxGen(world, rng)
    rec = HistoryRecorder(world)
    w = rec.tx(gen.tx_metric) + rec.tx(gen.tx_metric) + rec.tx(gen.tx_rt) + rec.tx(gen.tx_rt)
    for _ in range(8):
        w += rec.tx(gen.tx_touch_and_drop)
    w += rec.tx(gen.tx_alert)
    return rec.hist, [('reload', 0, 0, [])] + [('deliver', i) for i in w]


def scenario_context_stages_descriptor_update(world, rng):
    """context descriptors whose states are in different association stages (associated, disassociated with
    UnbindingMdibVersion, not associated) get descriptor updates through get_descriptor and through write_entity"""
    gen = TxGen(world, rng)
    rec = HistoryRecorder(world)
    mdib = world.mdib
    pat = _first(mdib, 'PatientContextDescriptor')

    def new_pat(assoc):
        def fn():
            with mdib.context_state_transaction() as tr:
                if assoc:
                    tr.disassociate_all(pat)
                st = tr.mk_context_state(pat, gen._new_handle('scn_stage'), set_associated=assoc)  # noqa: SLF001
                st.CoreData.Givenname = 'stage'
            return 'context new pat'
        return fn
    w = rec.tx(gen.tx_set_location) + rec.tx(gen.tx_set_location) + rec.tx(new_pat(True)) + rec.tx(new_pat(True)) + \
        rec.tx(new_pat(False))
    for _ in range(6):
        w += rec.tx(gen.tx_descr_update_context_staged)
    w += rec.tx(gen.tx_context_update)
    return rec.hist, [('reload', 0, 0, [])] + [('deliver', i) for i in w]


def scenario_instance_ids(world, rng):
    """provider InstanceId 0, absent, 7: the version group of the reports has to equal the one of the Get answers; the
    consumer follows after a load in each epoch"""
    gen = TxGen(world, rng)
    mdib = world.mdib
    keep = mdib.instance_id
    mdib.instance_id = 0
    rec = HistoryRecorder(world)
    sched = [('reload', 0, 0, [])]
    try:
        w = rec.tx(gen.tx_metric) + rec.tx(gen.tx_alert) + rec.tx(gen.tx_descr_update)
        sched += [('deliver', i) for i in w]
        for inst in (None, 7):
            mdib.instance_id = inst
            rec.epoch += 1
            rec.hist.epoch_start[rec.n_tx] = 'inst'
            c = rec.capture()
            w = rec.tx(gen.tx_metric) + rec.tx(gen.tx_context_new)
            sched += [('deliver', w[0]), ('reload', c, c, [])] + [('deliver', i) for i in w]
    finally:
        mdib.instance_id = keep
    return rec.hist, sched


def scenario_provider_observers(world, rng):
    """application observers on the provider's *_by_handle observables that raise / modify what they get: the transaction
    is committed, its reports are sent and say what the provider tables say"""
    gen = TxGen(world, rng)
    rec = HistoryRecorder(world)
    w = []
    for p_raise, p_modify in ((1.0, 0.0), (0.0, 1.0), (0.5, 1.0)):
        obs = ProviderObservers(world.mdib, rng, p_raise=p_raise, p_modify=p_modify)
        try:
            for name in ('tx_metric', 'tx_alert', 'tx_component', 'tx_context_new', 'tx_operational', 'tx_descr_update'):
                w += rec.tx(getattr(gen, name))
        finally:
            obs.unbind()
    w += rec.tx(gen.tx_metric)
    return rec.hist, [('reload', 0, 0, [])] + [('deliver', i) for i in w]


SCENARIOS_BURST = (scenario_inflight_burst, scenario_instance_ids, scenario_provider_observers, scenario_touch_and_drop,
                   scenario_context_stages_descriptor_update)
SCENARIOS_TWO_MDS = (scenario_two_mds_interleaved,)
SCENARIO_SETS = {'main': (False, 'SCENARIOS'), 'two_mds': (True, 'SCENARIOS_TWO_MDS'), 'burst': (False, 'SCENARIOS_BURST')}

SCENARIOS = (scenario_ctx_answer_newer, scenario_siblings_one_parent, scenario_context_entity_new_state,
             scenario_delete_context_descriptor, scenario_lost_child_delete, scenario_empty_transactions, scenario_same_handles_twice,
             scenario_context_clear_by_descriptor_tx, scenario_buffer_race, scenario_commit_during_getmdib, scenario_duplicates_announce_nothing, scenario_context_delete_heals, scenario_dup_create, scenario_alert_source, scenario_inflight_same_version,
             scenario_context_keys, scenario_orphan_state)


def run_scenarios(ctx, world, mirror_oracle=True, notif_oracle=False, scenario_set=None):
    cases = []
    scenario_set = scenario_set or ('two_mds' if world.two_mds else 'main')
    for fn in globals()[SCENARIO_SETS[scenario_set][1]]:
        hist, sched = fn(world, ctx.subrng('scenario', fn.__name__))
        case = {'scenario': fn.__name__, 'two_mds': world.two_mds, 'scenario_set': scenario_set,
                'schedule': [list(e) for e in sched] if len(sched) < 200 else f'({len(sched)} events, see the scenario)'}

        def fail(sig, detail, _case=case, _hist=hist):
            ctx.fail(sig, detail, {**_case, 'txs': _hist.txs})
        runner = Runner(world, hist, fail, ctx.count, mirror_oracle=mirror_oracle, notif_oracle=notif_oracle).run(sched)
        cases.append(_result(case, hist, sched, runner))
        ctx.count('scenarios')
    return cases


def _scenario_worker(args):
    prop, tier, seed, mirror = args
    import logging
    logging.disable(logging.CRITICAL)
    ctx = core.Ctx(prop, tier, seed)
    try:
        res = []
        for two_mds in (False, True):
            world = World(two_mds=two_mds)
            try:
                res += run_scenarios(ctx, world, mirror, notif_oracle=(prop == 'C01'))
            finally:
                world.stop()
        err = None
    except Exception:  # noqa: BLE001
        res, err = [], traceback.format_exc()[-3000:]
    return res, ctx.failures, ctx.hist, err


def nontrivial(st, n_wire, n_events):
    return st['accepted'] > 0 and (st['dup'] + st['stale'] + st['reordered'] + st['buffered'] > 0 or n_events < n_wire)


def run_corpus(ctx):
    """recorded failing cases (minimised past failures, among them the witnesses of the known findings) run first, in both tiers"""
    import glob
    import json
    for f in sorted(glob.glob(os.path.join(core.VERIF, 'corpus', ctx.prop, '*.json'))):
        case = json.load(open(f))['case']
        if 'scenario' in case:
            continue     # the scenario sets run in every tier anyway
        sub = core.Ctx(ctx.prop, case.get('tier', ctx.tier), case.get('seed', ctx.seed))
        world = World(two_mds=two_mds_chunk(case['history'] // CHUNK))
        try:
            run_chunk(sub, world, case['key'], case['history'] // CHUNK, case['n_hist'], 0, tuple(case['n_tx']),
                      sched_gen=case['sched_gen'], only=(case['history'], case['schedule']))
        finally:
            world.stop()
        for fl in sub.failures:
            ctx.fail(fl['signature'], fl['detail'], fl['case'])
        ctx.count('corpus-cases')


def run(ctx):
    results = []
    run_corpus(ctx)
    # the fixed scenario sets and the generated cases, each task on a fresh provider in a worker process
    results += run_cases(ctx, 'c06', ctx.n(15, 400), ctx.n(8, 12), scenario_sets=('burst', 'main', 'two_mds'))
    for r in results:
        ctx.case(r.canon, nontrivial=nontrivial(r.stats, r.n_wire, r.n_events),
                 sample={'txs': r.txs, 'schedule': r.case['schedule'][:12], 'stats': r.stats})
        for k, v in r.stats.items():
            ctx.count('events:' + k, v)
    ctx.traces = sum(len(r.lines) for r in results)
    ctx.notes['explanation'] = ('every case: real provider history (all transaction kinds, SequenceId / InstanceId changes) x one '
                                'delivery schedule (drop / duplicate / reorder / delay / replay, notifications during an in-flight '
                                'GetMdib answered from an earlier prefix, GetContextStates answered later); after every event the '
                                'model output == real ConsumerMdib and the oracle is evaluated on the real consumer; the fixed '
                                'scenarios (schedules on which the pinned tree failed) run first')
    compare_with_model(ctx, results)


def search(ctx):
    """deeper failing-input search: other histories and schedules, oracle only"""
    run_cases(ctx, 'c06-search', ctx.n(20, 80), 10)


def replay(ctx, obj):
    case = obj['case']
    sub = core.Ctx(ctx.prop, case.get('tier', ctx.tier), case.get('seed', ctx.seed))
    world = World(two_mds=case.get('two_mds', False) if 'scenario' in case else two_mds_chunk(case['history'] // CHUNK))
    try:
        if 'scenario' in case:
            run_scenarios(sub, world, True, notif_oracle=(ctx.prop == 'C01'), scenario_set=case.get('scenario_set'))
        else:
            run_chunk(sub, world, case['key'], case['history'] // CHUNK, case['n_hist'], 0, tuple(case['n_tx']),
                      sched_gen=case['sched_gen'], only=(case['history'], case['schedule']))
    finally:
        world.stop()
    for f in sub.failures:
        print(f['signature'], '::', f['detail'][:300])
    return any(f['signature'] == obj['signature'] for f in sub.failures)
