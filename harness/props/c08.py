"""C08 — WS-Eventing subscriptions deliver exactly while alive and end cleanly.

Tie: the four real subscription-manager classes (sync/async x path/reference-parameter dispatch) are driven through
`_EventService.on_post` (dpwshostedservice.py) with real SOAP messages built the way the consumer builds them, the
real `SoapClientPool` and the real `SoapClient` / `SoapClientAsync` classes; only the http layer below them is replaced
(`FakeConn` / `FakeSession`: connect refused / timed out, connection reset, HTTP 500 + fault, HTTP 200 + non-xml body, ok),
so which exception a failure becomes and whether a client ever reconnects is decided by the real client code. Every
hand-over to a soap client and every event on the fake wire is recorded. Virtual clock patched into
`subscriptionmgr_base.time`, house-keeping run on demand. The outcome observed per delivery is environment input of the model.
The same op list goes to the Lean model driver (`drv_c08`); canonical answers are diffed op by op.
Oracle: `Monitor` — a subscriber-side reference of subscription liveness written from the property text, evaluated on
the transport log / responses of the implementation after every op (independent of the Lean model).
Translator: constants and the action URIs the provider can emit -> Generated/Eventing.lean.
"""
from __future__ import annotations

import asyncio
import copy
import fractions
import glob
import http.client
import json
import multiprocessing
import os
import types
from unittest import mock
from urllib.parse import urlsplit

import core

READY = True
MANIFEST = dict(
    technique='Lean 4 theorems over a transcribed model of the subscription managers: a simulation invariant between the '
              'model and a subscriber-side reference monitor is proved by induction over arbitrary op lists; translator for '
              'constants and action URIs; op-by-op correspondence of the four real manager classes with the compiled model',
    text='Properties/C08.lean proves, for every sequence of Subscribe/Renew/GetStatus/Unsubscribe/notify/clock/'
         'delivery-outcome/house-keeping/stop ops and both dispatch variants: a notification is handed to the transport for '
         'subscriber s iff the monitor says s is accepted, unexpired, not unsubscribed, not ended, below the failure limit and '
         'the filter matches (code matching = suffix; equals membership on the generated real action URIs, by decide); '
         'granted <= min(requested, max) for requested > 0; GetStatus/Renew answers = granted - elapsed on the 10 ms raster; '
         'unknown / unsubscribed / ended identifiers get a fault and change nothing; stop with end messages posts exactly one '
         'SubscriptionEnd per live subscription to EndTo else NotifyTo (address, wsa:To and echoed reference parameters of every posted '
         'message are re-parsed), none when switched off. The model is compared with '
         'the real managers on generated and directed op sequences on every run; the Python monitor is the run-time oracle and its '
         'alive/known view is compared with the Lean monitor of the theorems after every op.',
    note='Known (not repaired): Expires=PT0S is granted the maximum; filter entries match by suffix. Repaired: sync manager '
         'delivered after Unsubscribe; Renew/GetStatus/Unsubscribe were answered for an unsubscribed subscription; a non-xml answer of '
         'one subscriber aborted the report distribution of the sync managers; an EndTo endpoint without reference parameters was sent the '
         'NotifyTo ones. The outcome of each delivery (incl. the state of the '
         'pooled soap client) is an input of the model: theorems hold for every outcome assignment; pool behaviour is checked by the oracle. '
         'Trusted: harness (fake transport, virtual clock on a 10 ms raster), asyncio loop, lxml; thread interleavings of '
         'house-keeping vs. requests are not modelled (ops are atomic).',
    ref='5 C08')
DRIVERS = ['drv_c08']
RULE = ('one case = manager class x max duration x failure limit x library logging on/off x op list (subscribe/renew/status/unsubscribe with known, '
        'unknown, wrong-slot identifiers, notify, tick to/around expiry and grace boundaries, delivery outcome changes, '
        'house-keeping, stop); distinct by SHA-1 of the canonical case; non-trivial = at least one notification delivered '
        'and at least one notification withheld from an accepted subscription')
TRUSTED = ['fake http layer (FakeConn/FakeSession) under the real soap clients and pool, virtual clock (monotonic float on a 10 ms raster, time.time as Fraction)',
           'lxml + message factory/reader used to build requests and to decode posted messages',
           'asyncio event loop (run_until_complete per op) for the async managers',
           'ops are atomic: no interleaving of the house-keeping thread with a request inside one handler']
ASSUMPTIONS = ['half of the generated cases and a copy of every directed / corpus case run with the library loggers enabled at DEBUG (eager formatting of log arguments is part of the code under test); output discarded',
               'all durations and clock advances are multiples of 10 ms (remaining_seconds rounds to 2 digits)',
               'notified actions carry no surrounding white space (matches() strips it)',
               'subscriber / network behaviours: ok, HTTP 500 with soap fault, HTTP 200 with a non-xml body, connection refused, connect time-out, '
               'established connections reset (subscriber restarted); the wire-level clause not-sent-on-fresh-connection is evaluated until the first stop']

NS = 'urn:verif'
OTHER_DIALECT = 'urn:verif:other-dialect'
OUTCOMES = ['ok', 'httpError', 'garbage', 'refused', 'timeout', 'reset']   # what the environment can do (Env.set_mode)
NADDR = 6
MGRS = ['sync-path', 'sync-ref', 'async-path', 'async-ref']
_L = None


def lib():
    """lazy import of the implementation"""
    global _L
    if _L is None:
        import sdc11073.definitions_sdc  # noqa: F401  (protocol registry)
        from lxml import etree
        from sdc11073 import observableproperties
        from sdc11073.definitions_sdc import SdcV1Definitions
        from sdc11073.dispatch.request import RequestData
        from sdc11073.namespaces import EventingActions
        from sdc11073.provider import subscriptionmgr as sync
        from sdc11073.provider import subscriptionmgr_async as asy
        from sdc11073.provider import subscriptionmgr_base as base
        from sdc11073.provider.dpwshostedservice import _EventService
        from sdc11073.pysoap.msgfactory import MessageFactory
        from sdc11073.pysoap.msgreader import MessageReader
        from sdc11073.pysoap.soapclient import HTTPReturnCodeError
        from sdc11073.pysoap.soapclientpool import SoapClientPool
        from sdc11073.xml_types import eventing_types as evt
        from sdc11073.xml_types import msg_types
        from sdc11073.xml_types.addressing_types import HeaderInformationBlock
        from sdc11073.xml_types.dpws_types import DeviceEventingFilterDialectURI
        L = types.SimpleNamespace(**{k: v for k, v in locals().items() if k != 'L'})
        L.mf = MessageFactory(SdcV1Definitions, None, logger=None, validate=False)
        L.mr = MessageReader(SdcV1Definitions, None, logger=None, validate=False)
        L.classes = {'sync-path': sync.PathDispatchingSubscriptionsManager, 'sync-ref': sync.ReferenceParamSubscriptionsManager,
                     'async-path': asy.SubscriptionsManagerPathAsync, 'async-ref': asy.SubscriptionsManagerReferenceParamAsync}

        from sdc11073 import loghelper
        from sdc11073.pysoap.soapclient import SoapClient
        from sdc11073.pysoap.soapclient_async import SoapClientAsync
        from sdc11073.pysoap.soapenvelope import Fault, faultcodeEnum
        import aiohttp.client_exceptions as aioex
        L.aioex = aioex
        fault = Fault()
        fault.Code.Value = faultcodeEnum.RECEIVER
        fault.add_reason_text('verif: subscriber says no')
        L.fault_body = L.mf.mk_soap_message(HeaderInformationBlock(action=fault.action, addr_to='http://verif/anonymous'),
                                            fault).serialize(validate=False)
        log = loghelper.get_logger_adapter('sdc.verif.soapclient', 'verif')
        L.mr_client = MessageReader(SdcV1Definitions, None, logger=log, validate=False)   # the soap clients' reader (logs parse errors)

        def outcome_of(ex):
            """canonical name of what the soap client did with a message (decided by the real client code)"""
            if ex is None:
                return 'ok'
            if isinstance(ex, HTTPReturnCodeError):
                return 'httpError'
            if isinstance(ex, (ConnectionRefusedError, aioex.ClientConnectorError)):
                return 'refused'
            if isinstance(ex, TimeoutError):
                return 'timeout'
            if isinstance(ex, (http.client.NotConnected, aioex.ServerDisconnectedError)):
                return 'notConnected'
            if isinstance(ex, etree.XMLSyntaxError):
                return 'parseError'
            return 'other-' + type(ex).__name__

        class LoopSoapClient(SoapClient):
            """the real synchronous SoapClient; only the http connection underneath is replaced (FakeConn)"""

            def __init__(self, env, netloc, encodings):
                super().__init__(netloc, 1.0, log, None, SdcV1Definitions, L.mr_client, request_encodings=encodings)
                self.env = env

            def _mk_http_connection(self):
                return FakeConn(self.env, self._netloc)

            def post_message_to(self, path, message, msg='', request_manipulator=None, validate=True):
                rec = self.env.on_post(self._netloc, path, message)   # hand-over to the soap client
                try:
                    res = super().post_message_to(path, message, msg=msg, request_manipulator=request_manipulator, validate=validate)
                except Exception as ex:
                    rec['outcome'] = outcome_of(ex)
                    raise
                finally:
                    self.env.current = None
                rec['outcome'] = 'ok'
                return res

        class LoopSoapClientAsync(SoapClientAsync):
            """the real SoapClientAsync; the aiohttp session underneath is replaced (FakeSession)"""

            def __init__(self, env, netloc, encodings):
                super().__init__(netloc, 1.0, log, None, SdcV1Definitions, L.mr_client, request_encodings=encodings)
                self.env = env

            async def _mk_http_connection(self):
                return FakeSession(self.env, self._netloc)

            async def async_post_message_to(self, path, message, request_manipulator=None):
                await asyncio.sleep(0)
                rec = self.env.on_post(self._netloc, path, message)
                try:
                    res = await super().async_post_message_to(path, message, request_manipulator=request_manipulator)
                except Exception as ex:
                    rec['outcome'] = outcome_of(ex)
                    raise
                finally:
                    self.env.current = None
                rec['outcome'] = 'ok'
                return res
        L.LoopSoapClient, L.LoopSoapClientAsync = LoopSoapClient, LoopSoapClientAsync
        _L = L
    return _L


def addr_parts(a):
    return f'h{a // 2}.verif:80{a // 2:02d}', f'/p{a}'


def addr_str(a):
    n, p = addr_parts(a)
    return f'http://{n}{p}'


ADDR_OF = {addr_parts(a): a for a in range(NADDR)}


def endpoint_url(a, k):
    """the url a subscriber puts into NotifyTo / EndTo of its k-th Subscribe: address a plus a path of its own (as the real
    consumer does: .../subscr1, .../subscr1_e), so that a posted message can be attributed without looking at its header"""
    return f'{addr_str(a)}/s{k}'


def parse_endpoint(netloc, path):
    """(address number, number of the Subscribe op) of a posted-to netloc/path; None where it does not fit"""
    import re
    m = re.fullmatch(r'(/p\d+)(?:/s(\d+))?', path)
    if not m:
        return None, None
    return ADDR_OF.get((netloc, m.group(1))), (int(m.group(2)) if m.group(2) else None)


class FakeSock:
    @staticmethod
    def getsockname():
        return ('127.0.0.1', 50000)

    def setsockopt(self, *a):
        pass


class FakeResponse:
    def __init__(self, status, reason, body):
        self.status, self.reason, self._body = status, reason, body
        self._headers = {'content-length': str(len(body)), 'content-type': 'application/soap+xml; charset=utf-8'}

    def getheader(self, name, default=None):
        return self._headers.get(name.lower(), default)

    def getheaders(self):
        return list(self._headers.items())

    def read(self, _n=None):
        b, self._body = self._body, b''
        return b

    async def text(self):
        return self._body.decode('utf-8')


def _answer(env, netloc, path):
    """what the subscriber at netloc/path answers to a POST that reached it"""
    mode = env.modes.get(parse_endpoint(netloc, path)[0], 'ok')
    if mode == 'httpError':
        return FakeResponse(500, 'Internal Server Error', env.L.fault_body)
    if mode == 'garbage':
        return FakeResponse(200, 'OK', b'OK')   # not a soap envelope, not even xml
    return FakeResponse(202, 'Accepted', b'')


class FakeConn:
    """stands for http.client.HTTPConnection under the real SoapClient: connect / request / getresponse / close"""

    def __init__(self, env, netloc):
        self.env, self.netloc, self.sock, self.broken, self._path = env, netloc, None, False, None
        env.conns.setdefault(netloc, []).append(self)

    def connect(self):
        hm = self.env.host.get(self.netloc, 'up')
        self.env.wire('connect:' + hm)
        if hm == 'refused':
            raise ConnectionRefusedError(111, 'verif: connection refused')
        if hm == 'timeout':
            raise TimeoutError('verif: timed out')
        self.sock = FakeSock()

    def request(self, _method, path, body=None, headers=None):  # noqa: ARG002
        if self.broken or self.env.host.get(self.netloc, 'up') != 'up':
            self.env.wire('request:reset')
            raise ConnectionResetError(104, 'verif: connection reset by peer')
        self.env.wire('request:sent')
        self._path = path

    def getresponse(self):
        return _answer(self.env, self.netloc, self._path)

    def close(self):
        self.sock = None


class FakeSession:
    """stands for aiohttp.ClientSession under the real SoapClientAsync (aiohttp opens a new connection when needed)"""

    def __init__(self, env, netloc):
        self.env, self.netloc, self.broken = env, netloc, False
        env.conns.setdefault(netloc, []).append(self)

    def post(self, path, data=None, headers=None):  # noqa: ARG002
        sess = self

        class _Cm:
            async def __aenter__(self):
                env, aioex = sess.env, sess.env.L.aioex
                hm = env.host.get(sess.netloc, 'up')
                if hm == 'refused':
                    env.wire('connect:refused')
                    key = types.SimpleNamespace(host=sess.netloc, port=0, ssl=None, is_ssl=False)
                    raise aioex.ClientConnectorError(key, ConnectionRefusedError(111, 'verif: connection refused'))
                if hm == 'timeout':
                    env.wire('connect:timeout')
                    raise asyncio.TimeoutError
                if sess.broken:
                    sess.broken = False
                    env.wire('request:reset')
                    raise aioex.ServerDisconnectedError
                env.wire('request:sent')
                return _answer(env, sess.netloc, path)

            async def __aexit__(self, *a):
                return False
        return _Cm()

    async def close(self):
        pass


class Clock:
    """virtual `time` module for subscriptionmgr_base"""

    def __init__(self):
        self.ticks = 0
        self.on_sleep = None

    def monotonic(self):
        return self.ticks / 100

    def time(self):
        return fractions.Fraction(self.ticks, 100)

    def sleep(self, _s):
        if self.on_sleep:
            self.on_sleep()


class FakeThread:
    def __init__(self, *a, **k):
        pass

    def start(self):
        pass

    def join(self, *a):
        pass


class LoopThread:
    """stands for AsyncioEventLoopThread: coroutines are run to completion on demand"""

    def __init__(self):
        self.loop = asyncio.new_event_loop()
        self.running = True

    def run_coro(self, coro):
        return self.loop.run_until_complete(coro)

    def stop(self):
        self.loop.close()


def real_consts():
    L = lib()
    return dict(max_notify_errors=L.base.SubscriptionBase.MAX_NOTIFY_ERRORS,
                default_max_dur=round(L.base.SubscriptionsManagerBase.DEFAULT_MAX_SUBSCR_DURATION * 100),
                actions=[a.value for a in L.SdcV1Definitions.Actions])


class Env:
    """one manager instance with fake transport and virtual clock"""

    def __init__(self, case):
        L = lib()
        self.L = L
        self.kind = case['mgr']
        cls = L.classes[self.kind]
        self.clock = Clock()
        self.modes = {}      # per address: what the subscriber answers (ok / httpError / garbage)
        self.host = {}       # per netloc: up / refused / timeout (connection level)
        self.conns = {}      # per netloc: fake connections / sessions created so far
        self.current = None  # the hand-over record the wire events belong to
        self.posts = []
        self.issued = []       # per model id: dict(hex, path, refs, k)
        self.k2id = {}
        self.nsub_ops = 0
        self.is_async = issubclass(cls, L.asy.BICEPSSubscriptionsManagerBaseAsync)
        client_cls = L.LoopSoapClientAsync if self.is_async else L.LoopSoapClient
        self.pool = L.SoapClientPool(lambda netloc, enc: client_cls(self, netloc, enc), 'verif')
        if self.is_async:
            self.pool.async_loop_subscr_mgr = LoopThread()
        md = case.get('maxdur')
        with mock.patch.object(L.base, 'Thread', FakeThread):
            self.mgr = cls(L.SdcV1Definitions, L.mf, self.pool, max_subscription_duration=(md / 100 if md else None), log_prefix='verif')
        self.mgr.set_base_urls([urlsplit('http://127.0.0.1:9000/uuid')])
        self.svc = L._EventService(types.SimpleNamespace(msg_reader=L.mr), self.mgr, [])
        self.maxerr = case.get('maxerr')
        self.cfg = dict(dispatch='path' if self.kind.endswith('path') else 'ref',
                        maxdur=round(self.mgr._max_subscription_duration * 100),
                        maxerr=self.maxerr or L.base.SubscriptionBase.MAX_NOTIFY_ERRORS,
                        check_dialect=int(hasattr(cls, 'supported_filter_dialect')))

    def close(self):
        if self.is_async:
            self.pool.async_loop_subscr_mgr.stop()

    # ---- transport side
    def on_post(self, netloc, path, message):
        L = self.L
        raw = message.serialize(validate=False)
        hib = L.mr.read_received_message(raw, validate=False).p_msg.header_info_block
        a, k = parse_endpoint(netloc, path)
        idents = [r for r in hib.reference_parameters if r.tag in (f'{{{NS}}}N', f'{{{NS}}}E')]
        if k is None:      # url without a path of its own (consumer loop-back scenario): attribute by the echoed identifier
            k = next((int(r.text[1:]) for r in idents if r.text and r.text[1:].isdigit()), None)
        if a is not None and hib.To != f'http://{netloc}{path}':
            a = None       # wsa:To is not the url the message was posted to
        # the reference parameters echoed in the WS-Addressing header, relative to the subscription the url belongs to:
        # n = its NotifyTo identifier, e = its EndTo identifier, x = anything else of ours
        toks = sorted({('n' if r.tag.endswith('}N') and r.text == f'n{k}' else 'e' if r.tag.endswith('}E') and r.text == f'e{k}' else 'x')
                       for r in idents})
        kind = 'e' if hib.Action == L.EventingActions.SubscriptionEnd else 'n'
        rec = dict(kind=kind, action=hib.Action, k=k, addr=a, outcome='?', wire=[], refs='+'.join(toks) or '-')
        self.posts.append(rec)
        self.current = rec
        return rec

    def wire(self, event):
        """something happened on the (fake) network on behalf of the current hand-over"""
        if self.current is not None:
            self.current['wire'].append(event)

    def set_mode(self, a, o):
        netloc = addr_parts(a)[0]
        if o in ('ok', 'httpError', 'garbage'):     # the subscriber is up and answers like this
            self.modes[a] = o
            self.host[netloc] = 'up'
        elif o in ('refused', 'timeout'):            # the host does not accept connections; established ones break
            self.host[netloc] = o
        elif o == 'reset':                           # subscriber restarted: established connections are gone, new ones work
            for c in self.conns.get(netloc, []):
                c.broken = True
            self.host[netloc] = 'up'
        else:
            raise ValueError(o)

    def _patched(self):
        L = self.L
        ps = [mock.patch.object(L.base, 'time', self.clock)]
        if self.maxerr:
            ps.append(mock.patch.object(L.base.SubscriptionBase, 'MAX_NOTIFY_ERRORS', self.maxerr))
        return ps

    def request(self, path, created):
        L = self.L
        raw = created.serialize(validate=False)
        rd = L.RequestData({'Accept-Encoding': 'gzip'}, path, 'verif-peer', raw, L.mr.read_received_message(raw, validate=False))
        rd.consume_current_path_element()   # device uuid (MessageConverterMiddleware)
        rd.consume_current_path_element()   # hosted service (SdcProvider dispatcher)
        resp = self.svc.on_post(rd)
        return L.mr.read_received_message(resp.serialize(validate=False), validate=False)

    def hexof(self, i):
        return self.issued[i]['hex'] if i < len(self.issued) else f'{0xfab0000 + i:032x}'

    def msgs(self):
        out = []
        for p in self.posts:
            i = self.k2id.get(p['k'], '?')
            out.append((p['kind'], i, '?' if p['addr'] is None else p['addr'], p['outcome'], p['action'], ' '.join(p['wire']), p['refs']))
        self.posts = []
        return out

    # ---- one op; returns (driver line, canonical impl answer, parsed answer for the monitor)
    def do(self, op):
        import contextlib
        with contextlib.ExitStack() as st:
            for p in self._patched():
                st.enter_context(p)
            try:
                return self._do(op)
            except Exception as ex:  # noqa: BLE001
                m = self.msgs()
                return self._line(op, m), f'exc {type(ex).__name__}', ('exc', type(ex).__name__, m)

    @staticmethod
    def _s(s):
        return ','.join(str(ord(c)) for c in s) if s else 'e'

    @staticmethod
    def _o(x):
        return '-' if x is None else str(x)

    MODE_NAME = {'garbage': 'parseError', 'reset': 'notConnected'}

    @staticmethod
    def sub_fields(op):
        """['sub', notifyTo, endTo, filter, dialectOk, expires, EndTo has reference parameters, NotifyTo has (default yes)]"""
        return (*op, True) if len(op) == 7 else tuple(op)

    def _line(self, op, msgs=()):
        t, o = op[0], self._o
        # the outcomes observed per delivery are environment input of the model (`ov`)
        ov = ','.join(f'{m[1]}:{m[3]}' for m in msgs if isinstance(m[1], int)) or '-'
        if t == 'sub':
            _, nt, et, flt, dok, exp, end_ident, notify_ident = self.sub_fields(op)
            f = 'none' if flt is None else ('-' if not flt else ';'.join(self._s(x) for x in flt))
            return f'sub {nt} {o(et)} {f} {int(dok)} {o(exp)} {int(notify_ident)} {int(et is not None and end_ident)}'
        if t == 'renew':
            return f'renew {o(op[1])} {o(op[2])} {o(op[3])}'
        if t in ('status', 'unsub'):
            return f'{t} {o(op[1])} {o(op[2])}'
        if t == 'notify':
            return f'notify {self._s(op[1])} {ov}'
        if t == 'tick':
            return f'tick {op[1]}'
        if t == 'mode':
            return f'mode {op[1]} {self.MODE_NAME.get(op[2], op[2])}'
        if t == 'hk':
            return 'hk'
        if t == 'stop':
            return f'stop {int(op[1])} {ov}'
        raise ValueError(op)

    def _sent(self, msgs):
        # order inside one op carries no meaning (async: gather): by subscription number, as the model lists them
        ms = sorted(msgs, key=lambda m: (m[1] if isinstance(m[1], int) else 10 ** 9, str(m[:4])))
        return ' '.join(['sent', *(f'{m[0]}:{m[1]}:{m[2]}:{m[3]}:{m[6]}' for m in ms)])

    def _do(self, op):  # noqa: C901, PLR0912, PLR0915
        L = self.L
        evt, HIB, etree = L.evt, L.HeaderInformationBlock, L.etree
        t = op[0]
        line = self._line(op)
        if t == 'sub':
            _, nt, et, flt, dok, exp, end_ident, notify_ident = self.sub_fields(op)
            k = self.nsub_ops
            self.nsub_ops += 1
            s = evt.Subscribe()
            if flt is not None:
                seps = [' ', '\n', '\t ', '  ']
                text = ''.join(x + seps[(k + j) % 4] for j, x in enumerate(flt))
                s.set_filter(text, dialect=L.DeviceEventingFilterDialectURI.ACTION if dok else OTHER_DIALECT)
            s.Delivery.Mode = 'http://schemas.xmlsoap.org/ws/2004/08/eventing/DeliveryModes/Push'
            s.Delivery.NotifyTo.Address = endpoint_url(nt, k)
            if notify_ident:
                n_id = etree.Element(f'{{{NS}}}N')
                n_id.text = f'n{k}'
                s.Delivery.NotifyTo.ReferenceParameters = [n_id]
            if et is not None:
                s.init_end_to()
                s.EndTo.Address = endpoint_url(et, k)
                if end_ident:
                    e_id = etree.Element(f'{{{NS}}}E')
                    e_id.text = f'e{k}'
                    s.EndTo.ReferenceParameters = [e_id]
            if exp is not None:
                s.Expires = exp / 100
            msg = L.mf.mk_soap_message(HIB(action=s.action, addr_to='http://127.0.0.1:9000/uuid/Svc'), s)
            try:
                r = self.request('/uuid/Svc', msg)
            except ValueError:
                return line, 'rejected', ('rejected',)
            if r.action != L.EventingActions.SubscribeResponse:
                return line, 'fault', ('fault',)
            sr = evt.SubscribeResponse.from_node(r.p_msg.msg_node)
            path = urlsplit(sr.SubscriptionManager.Address).path
            refs = list(sr.SubscriptionManager.ReferenceParameters)
            hexid = refs[0].text if refs else path.rsplit('/', 1)[-1]
            i = len(self.issued)
            self.issued.append(dict(hex=hexid, path=path, refs=refs, k=k))
            self.k2id[k] = i
            g = round(sr.Expires * 100)
            return line, f'subscribed {i} {g}', ('subscribed', i, g, (path, [(x.tag, x.text) for x in refs]))
        if t in ('renew', 'status', 'unsub'):
            ref, pth = op[1], op[2]
            if t == 'renew':
                payload = evt.Renew()
                if op[3] is not None:
                    payload.Expires = op[3] / 100
            else:
                payload = evt.GetStatus() if t == 'status' else evt.Unsubscribe()
            path = '/uuid/Svc' + ('' if pth is None else '/' + self.hexof(pth))
            rps = []
            if ref is not None:
                if ref < len(self.issued) and self.issued[ref]['refs']:
                    rps = [copy.deepcopy(self.issued[ref]['refs'][0])]
                else:
                    el = etree.Element(L.base.SubscriptionBase.IDENT_TAG)
                    el.text = self.hexof(ref)
                    rps = [el]
            msg = L.mf.mk_soap_message(HIB(action=payload.action, addr_to='http://127.0.0.1:9000' + path, reference_parameters=rps), payload)
            r = self.request(path, msg)
            named = (path, [(x.tag, x.text) for x in rps])
            if r.action == L.EventingActions.RenewResponse and t == 'renew':
                v = round(evt.RenewResponse.from_node(r.p_msg.msg_node).Expires * 100)
                return line, f'remaining {v}', ('remaining', v, named)
            if r.action == L.EventingActions.GetStatusResponse and t == 'status':
                v = round(evt.GetStatusResponse.from_node(r.p_msg.msg_node).Expires * 100)
                return line, f'remaining {v}', ('remaining', v, named)
            if r.action == L.EventingActions.UnsubscribeResponse and t == 'unsub':
                return line, 'unsubscribed', ('unsubscribed', named)
            if r.q_name is not None and r.q_name.localname == 'Fault':
                return line, 'fault', ('fault', named)
            return line, f'unexpected {r.action}', ('unexpected', named)
        if t == 'notify':
            # real report object (MessageType branch) for the metric report, a bare element otherwise
            payload = L.msg_types.EpisodicMetricReport() if op[1].endswith('/EpisodicMetricReport') else etree.Element(f'{{{NS}}}Report')
            self.mgr.send_to_subscribers(payload, op[1], None)
            m = self.msgs()
            return self._line(op, m), self._sent(m), ('sent', m)
        if t == 'tick':
            self.clock.ticks += op[1]
            return line, 'ok', ('ok',)
        if t == 'mode':
            self.set_mode(op[1], op[2])
            return line, 'ok', ('ok',)
        if t == 'hk':
            def once():
                self.mgr._run_housekeeping_thread = False
            self.clock.on_sleep = once
            self.mgr._do_housekeeping()
            self.clock.on_sleep = None
            m = self.msgs()
            return line, 'ok' if not m else self._sent(m), ('ok',) if not m else ('sent', m)
        if t == 'stop':
            self.mgr.stop_all(send_subscription_end=bool(op[1]))
            m = self.msgs()
            return self._line(op, m), self._sent(m), ('sent', m)
        raise ValueError(op)


class Monitor:
    """The property text as a subscriber-side reference: fed with each op and what the implementation answered / posted.

    Knows nothing about house-keeping or the manager's tables. `fails` collects (signature, detail).
    """

    def __init__(self, maxdur, maxerr):
        self.maxdur, self.maxerr = maxdur, max(maxerr, 1)
        self.now = 0
        self.recs = []      # per id: dict
        self.fails = []
        self.delivered = 0
        self.withheld = 0
        self.poison = {}      # netloc -> a connection to it broke while the provider used it and subscriptions of it remained
        self.stopped = False

    def alive(self, r):
        return (not r['unsub']) and (not r['ended']) and self.now < r['at'] + r['granted'] and r['failures'] < self.maxerr

    def _why_dead(self, r):
        if r['unsub']:
            return 'unsubscribe'
        if r['ended']:
            return 'end'
        if not self.now < r['at'] + r['granted']:
            return 'expiry'
        return 'failure-limit'

    def fail(self, sig, detail):
        self.fails.append((sig, detail))

    def view(self):
        """ids considered alive / known; compared with the Lean reference monitor `Mon` (fed with the model's answers)"""
        alive = [str(i) for i, r in enumerate(self.recs) if self.alive(r)]
        known = [str(i) for i, r in enumerate(self.recs) if not r['unsub'] and not r['ended']]
        return ' | alive=' + ','.join(alive) + ' known=' + ','.join(known)

    def _check_grant(self, what, req, g):
        if g > self.maxdur:
            self.fail('granted-exceeds-maximum', f'{what}: granted {g / 100} s > provider maximum {self.maxdur / 100} s')
        if req is not None and g > req:
            if req == 0:
                self.fail('granted-exceeds-requested:PT0S', f'{what}: Expires=PT0S requested, {g / 100} s granted')
            else:
                self.fail('granted-exceeds-requested', f'{what}: {req / 100} s requested, {g / 100} s granted')

    def _target(self, named):
        """the subscription this request names: addressed exactly as the SubscribeResponse said"""
        for i, r in enumerate(self.recs):
            if r['epr'] == named:
                return i
        return None

    def feed(self, op, out):  # noqa: C901, PLR0912
        t = op[0]
        if out[0] == 'exc':
            self.fail(f'handler-exception:{t}:{out[1]}', f'{t} raised {out[1]}')
            if t not in ('notify', 'stop'):
                return
            out = ('sent', out[2])     # what was handed over before the exception escaped is judged as usual
        if t == 'tick':
            self.now += op[1]
        elif t == 'sub':
            if out[0] == 'subscribed':
                _, i, g, epr = out
                self._check_grant('Subscribe', op[5], g)
                assert i == len(self.recs)
                self.recs.append(dict(notify=op[1], end=op[2], filter=list(op[3] or []), at=self.now, granted=g,
                                      notify_ref=(op[7] if len(op) > 7 else True), end_ref=bool(op[2] is not None and op[6]),
                                      failures=0, unsub=False, ended=False, epr=epr, removed=False, unsub_at=None))
        elif t in ('renew', 'status', 'unsub'):
            i = self._target(out[-1])
            r = None if i is None else self.recs[i]
            if out[0] == 'fault':
                if r is not None and self.alive(r):
                    self.fail('live-subscription-faulted', f'{t} for live subscription {i} answered with a fault')
            elif out[0] in ('remaining', 'unsubscribed'):
                if r is None:
                    self.fail('unknown-subscription-not-faulted:never-issued', f'{t} naming no issued subscription answered {out[0]}')
                elif r['unsub'] or r['ended']:
                    self.fail('unknown-subscription-not-faulted:after-' + ('unsubscribe' if r['unsub'] else 'end'),
                              f'{t} for subscription {i} answered {out[0]} although it was ' + ('unsubscribed' if r['unsub'] else 'ended'))
                elif t == 'status':
                    exp = max(r['granted'] - (self.now - r['at']), 0)
                    if out[1] != exp:
                        self.fail('status-inconsistent', f'GetStatus of {i}: {out[1] / 100} s, granted {r["granted"] / 100} s, elapsed {(self.now - r["at"]) / 100} s')
                elif t == 'renew':
                    self._check_grant('Renew', op[3], out[1])
                    r['at'], r['granted'] = self.now, out[1]
                else:
                    r['unsub'], r['unsub_at'] = True, self.now
            else:
                self.fail(f'unexpected-response:{t}', str(out))
        elif t == 'notify':
            self._notify(op[1], out[1])
        elif t == 'stop':
            self._stop(bool(op[1]), out[1])
        elif t == 'hk':
            if out[0] == 'sent':
                self.fail('message-during-housekeeping', str(out[1]))
            self._housekeeping()

    def _housekeeping(self):
        """house-keeping ran: subscriptions that are dead now hold nothing any more; a subscriber address none of whose
        subscriptions is left starts from scratch (no connection state of an earlier session may be inherited)"""
        for r in self.recs:
            if not r['removed'] and (r['ended'] or not self.now < r['at'] + r['granted'] or r['failures'] >= self.maxerr
                                     or (r['unsub'] and self.now > r['unsub_at'] + 100)):
                r['removed'] = True
        for netloc in list(self.poison):
            if all(r['removed'] for r in self.recs if r['notify'] // 2 == netloc):
                del self.poison[netloc]

    def _wire(self, kind, i, addr, wire):
        """connection-level bookkeeping of one hand-over; the starvation clause of `delivered iff`"""
        if not isinstance(addr, int):
            return
        netloc = addr // 2
        if 'request:reset' in wire:
            self.poison[netloc] = True
        if kind == 'n' and not wire and not self.stopped and not self.poison.get(netloc):
            self.fail('not-sent-on-fresh-connection',
                      f'notification for subscription {i} was handed to a soap client that did not even try to reach '
                      f'{addr_str(addr)}: no connection to that subscriber broke since all its earlier subscriptions were removed')

    def _notify(self, action, msgs):
        got = {}
        for kind, i, addr, outcome, act, wire, refs in msgs:
            self._wire(kind, i, addr, wire)
            if kind != 'n' or act != action:
                self.fail('unexpected-message-during-notify', f'{kind} {act}')
            elif i == '?':
                self.fail('message-to-unknown-subscriber', f'notification posted to {addr}')
            else:
                got.setdefault(i, []).append((addr, outcome))
                want = 'n' if self.recs[i]['notify_ref'] else '-'
                if refs != want:
                    self.fail('notification-wrong-reference-parameters',
                              f'subscription {i}: the notification echoes reference parameters {refs!r}, those of NotifyTo are {want!r}')
        for i, r in enumerate(self.recs):
            expected = self.alive(r) and action in r['filter']
            g = got.get(i, [])
            if len(g) > 1:
                self.fail('notification-duplicated', f'{len(g)} posts to subscription {i}')
            if g and not expected:
                if not self.alive(r):
                    self.fail('delivered-after-' + self._why_dead(r), f'subscription {i} got {action.rsplit("/", 1)[-1]}')
                else:
                    sfx = any(f.endswith(action) for f in r['filter'])
                    self.fail('delivered-not-in-filter' + (':suffix-match' if sfx else ''),
                              f'subscription {i} with filter {r["filter"]} got {action}')
            if expected and not g:
                self.fail('not-delivered-while-alive', f'live subscription {i} with matching filter did not get {action.rsplit("/", 1)[-1]}')
            if g and g[0][0] != r['notify']:
                self.fail('notification-wrong-address', f'subscription {i}: posted to {g[0][0]}, NotifyTo is {r["notify"]}')
            if g:
                self.delivered += 1
                r['failures'] = 0 if g[0][1] == 'ok' else r['failures'] + 1
            else:
                self.withheld += 1

    def _stop(self, send_end, msgs):
        got = {}
        for kind, i, addr, _outcome, act, wire, refs in msgs:
            self._wire(kind, i, addr, wire)
            if kind != 'e':
                self.fail('unexpected-message-during-stop', f'{kind} {act}')
            elif i == '?':
                self.fail('message-to-unknown-subscriber', f'SubscriptionEnd posted to {addr}')
            else:
                got.setdefault(i, []).append(addr)
                r = self.recs[i]
                # addressed to the EndTo endpoint if one was given, else to NotifyTo: an endpoint is address + reference parameters
                want = ('e' if r['end_ref'] else '-') if r['end'] is not None else ('n' if r['notify_ref'] else '-')
                if refs != want:
                    if r['end'] is not None and not r['end_ref'] and refs == 'n':
                        self.fail('subscription-end-foreign-reference-parameters:endto-has-none',
                                  f'subscription {i}: its EndTo endpoint has no reference parameters, the SubscriptionEnd echoes those of NotifyTo')
                    else:
                        self.fail('subscription-end-wrong-reference-parameters',
                                  f'subscription {i}: the SubscriptionEnd echoes reference parameters {refs!r}, those of '
                                  f'{"EndTo" if r["end"] is not None else "NotifyTo"} are {want!r}')
        for i, r in enumerate(self.recs):
            if send_end and self.alive(r):
                g = got.get(i, [])
                want = r['end'] if r['end'] is not None else r['notify']
                if not g:
                    self.fail('subscription-end-missing', f'live subscription {i} got no SubscriptionEnd')
                elif len(g) > 1:
                    self.fail('subscription-end-duplicated', f'subscription {i} got {len(g)} SubscriptionEnd')
                elif g[0] != want:
                    self.fail('subscription-end-wrong-address', f'subscription {i}: SubscriptionEnd to {g[0]}, expected {want} '
                              f'({"EndTo" if r["end"] is not None else "NotifyTo"})')
            elif got.get(i) and r['unsub']:
                # the code (both variants) excludes unsubscribed subscriptions explicitly; a subscriber that has
                # unsubscribed must not be sent anything any more
                self.fail('subscription-end-after-unsubscribe', f'unsubscribed subscription {i} got a SubscriptionEnd')
            r['ended'] = True
        self.stopped = True


class _FormatAndDrop(__import__('logging').Handler):
    """formats every record like a real handler would and throws it away"""

    def emit(self, record):
        try:
            record.getMessage()
        except Exception:  # noqa: BLE001   (standard handlers swallow formatting errors of %-style records, too)
            pass


def library_logging(on):
    """cases with `log` set run with the library's loggers enabled at DEBUG: sdc11073.loghelper.LoggerAdapter formats its
    arguments eagerly (str.format, repr of subscriptions / exceptions, callables) and re-raises, so every log call on the paths
    of the managers is code that runs inside request handling / report distribution. Output is discarded."""
    import logging
    if not on:
        logging.disable(logging.CRITICAL)
        return
    logging.disable(logging.NOTSET)
    logging.raiseExceptions = False
    root = logging.getLogger()
    if not any(isinstance(h, _FormatAndDrop) for h in root.handlers):
        for h in root.handlers[:]:
            root.removeHandler(h)
        root.addHandler(_FormatAndDrop(level=logging.DEBUG))
    root.setLevel(logging.DEBUG)
    for name in ('sdc', 'sdc.device', 'sdc.device.subscrMgr', 'sdc.device.soap_client_pool', 'sdc.verif.soapclient'):
        logging.getLogger(name).setLevel(logging.DEBUG)


def execute(case):
    """run one case on the implementation; returns (driver lines, impl answers, oracle failures, stats)"""
    import contextlib
    import io
    library_logging(bool(case.get('log')))
    try:
        with contextlib.redirect_stdout(io.StringIO()):    # LoggerAdapter prints a traceback when formatting fails
            return _execute(case)
    finally:
        library_logging(False)


def _execute(case):
    env = Env(case)
    c = env.cfg
    lines = [f'cfg {c["dispatch"]} {c["maxdur"]} {c["maxerr"]} {c["check_dialect"]}']
    outs = ['ok']
    mon = Monitor(c['maxdur'], c['maxerr'])
    stats = {}
    try:
        for op in case['ops']:
            line, out, parsed = env.do(op)
            lines.append(line)
            outs.append(out)
            mon.feed(op, parsed)
            outs[-1] += mon.view()
            key = f'op:{op[0]}:{out.split(" ")[0]}'
            stats[key] = stats.get(key, 0) + 1
            if parsed[0] in ('sent', 'exc') and isinstance(parsed[-1], list):
                for m in parsed[-1]:
                    k2 = f'post:{m[0]}:{m[3]}'
                    stats[k2] = stats.get(k2, 0) + 1
    finally:
        env.close()
    stats['delivered'] = mon.delivered
    stats['withheld'] = mon.withheld
    return lines, outs, mon.fails, stats


# ---------------------------------------------------------------------------------------------- generators

def _actions():
    A = lib().SdcV1Definitions.Actions
    return [A.EpisodicMetricReport.value, A.EpisodicAlertReport.value, A.Waveform.value, A.OperationInvokedReport.value]


def gen_case(rng, arbitrary_filters=True):  # noqa: C901, PLR0912, PLR0915
    real = _actions()
    mgr = rng.choice(MGRS)
    maxdur = rng.choice([None, None, 3000, 500, 150])
    maxerr = None if rng.random() < 0.7 else rng.choice([2, 3])
    md = maxdur or real_consts()['default_max_dur']
    ops = []
    nsub = 0
    now = 0
    marks = []   # interesting instants (estimated expiry, unsubscribe + grace)

    def expires():
        return rng.choice([None, 0, rng.choice([1, 10, 50, 100, 137, 500]), rng.choice([1, 10, 50, 100, 137, 500]),
                           md - 1, md, md + 1, 10 * md, rng.randint(1, 2 * min(md, 5000))])

    def key():
        tgt = rng.randrange(nsub) if nsub and rng.random() < 0.85 else nsub + rng.randrange(3)
        good = (None, tgt) if mgr.endswith('path') else (tgt, None)
        v = rng.random()
        if v < 0.8:
            return good, tgt
        if v < 0.88:
            return (good[1], good[0]), None
        if v < 0.94:
            return (tgt, tgt), None
        if v < 0.97:
            return (tgt, rng.randrange(nsub + 1)), None
        return (None, None), None

    for _ in range(rng.randint(4, 40)):
        w = rng.random()
        if nsub == 0 and w < 0.7 or w < 0.17:
            pool = list(real)
            if arbitrary_filters:
                pool += ['x' + real[0], 'urn:verif:other', real[1].rsplit('/', 1)[-1], real[2] + '/x']
            flt = rng.sample(pool, rng.randint(0 if rng.random() < 0.1 else 1, 3))
            if rng.random() < 0.04:
                flt = None
            exp = expires()
            ops.append(['sub', rng.randrange(NADDR), rng.choice([None, None, rng.randrange(NADDR)]), flt,
                        rng.random() > 0.06, exp, rng.random() < 0.7, rng.random() < 0.8])
            marks.append(now + min(exp or md, md))
            nsub += 1
        elif w < 0.27:
            (r, p), tgt = key()
            exp = expires()
            ops.append(['renew', r, p, exp])
            if tgt is not None:
                marks.append(now + min(exp or md, md))
        elif w < 0.37:
            (r, p), _ = key()
            ops.append(['status', r, p])
        elif w < 0.45:
            (r, p), _ = key()
            ops.append(['unsub', r, p])
            marks.append(now + 100)
        elif w < 0.70:
            ops.append(['notify', rng.choice(real + real + (['urn:verif:other'] if arbitrary_filters else []))])
        elif w < 0.82:
            fut = [m - now for m in marks if m > now]
            if fut and rng.random() < 0.6:
                dt = max(1, rng.choice(fut) + rng.choice([-1, 0, 0, 1]))
            else:
                dt = rng.choice([1, 5, 10, 49, 50, 99, 100, 101, 137, 500])
            ops.append(['tick', dt])
            now += dt
        elif w < 0.90:
            ops.append(['mode', rng.randrange(NADDR), rng.choice(OUTCOMES + ['ok', 'ok'])])
        elif w < 0.96:
            ops.append(['hk'])
        else:
            ops.append(['stop', rng.random() < 0.8])
    return dict(mgr=mgr, maxdur=maxdur, maxerr=maxerr, ops=ops, log=rng.random() < 0.5)


def directed_cases():
    """hand-written scenarios, one per clause of the property, for every manager class"""
    a0, a1, a2, _ = _actions()
    res = []
    for mgr in MGRS:
        P = mgr.endswith('path')

        def k(i, P=P):
            return [None, i] if P else [i, None]

        def mk(name, ops, maxdur=3000, maxerr=None, mgr=mgr):
            res.append(dict(mgr=mgr, maxdur=maxdur, maxerr=maxerr, ops=ops, name=name))
        mk('unsubscribe-then-notify', [['sub', 0, None, [a0], True, 1000, True], ['notify', a0], ['unsub', *k(0)], ['notify', a0],
                                       ['status', *k(0)], ['renew', *k(0), 500], ['unsub', *k(0)], ['tick', 100], ['hk'], ['notify', a0],
                                       ['tick', 1], ['hk'], ['status', *k(0)]])
        mk('expiry-boundary', [['sub', 0, None, [a0, a1], True, 137, True], ['tick', 136], ['notify', a0], ['status', *k(0)], ['tick', 1],
                               ['notify', a0], ['status', *k(0)], ['renew', *k(0), 50], ['notify', a1], ['tick', 50], ['hk'], ['renew', *k(0), 50],
                               ['notify', a1]])
        mk('failure-limit', [['sub', 0, None, [a0], True, None, True], ['sub', 1, None, [a0], True, None, True], ['mode', 0, 'refused'],
                             ['notify', a0], ['mode', 0, 'ok'], ['notify', a0], ['status', *k(0)], ['hk'], ['status', *k(0)], ['notify', a0]])
        for o in OUTCOMES[1:]:
            mk('failure-' + o, [['sub', 2, None, [a0], True, None, True], ['mode', 2, o], ['notify', a0], ['mode', 2, 'ok'], ['notify', a0],
                                ['notify', a0], ['mode', 2, o], ['notify', a0], ['notify', a0], ['notify', a0]], maxerr=2)
        mk('grants', [['sub', 0, None, [a0], True, e, True] for e in (None, 0, 1, 2999, 3000, 3001, 99999)] +
           [['renew', *k(0), e] for e in (None, 0, 1, 3000, 3001)] + [['status', *k(0)]])
        mk('unknown-ids', [['sub', 0, None, [a0], True, 500, True], ['status', *k(1)], ['renew', *k(1), 100], ['unsub', *k(1)],
                           ['status', 0, 0], ['status', None, None], ['status', *reversed(k(0))], ['unsub', *reversed(k(0))],
                           ['renew', *reversed(k(0)), 10], ['status', *k(0)], ['notify', a0]])
        mk('stop-routing', [['sub', 0, 1, [a0], True, 500, True], ['sub', 2, None, [a0], True, 500, True], ['sub', 3, 4, [a1], True, 100, False],
                            ['sub', 4, 5, [a1], True, 500, True], ['sub', 5, 1, [a2], True, 500, True], ['unsub', *k(3)], ['tick', 100],
                            ['mode', 5, 'refused'], ['notify', a2], ['mode', 1, 'timeout'], ['stop', True], ['notify', a0], ['status', *k(0)],
                            ['sub', 0, None, [a0], True, 500, True], ['notify', a0], ['stop', True]])
        mk('stop-off', [['sub', 0, 1, [a0], True, 500, True], ['stop', False], ['notify', a0], ['unsub', *k(0)]])
        mk('filters', [['sub', 0, None, [a0, a1], True, 500, True], ['sub', 1, None, [], True, 500, True], ['sub', 2, None, None, True, 500, True],
                       ['sub', 2, None, [a2], False, 500, True], ['sub', 3, None, [a1.rsplit('/', 1)[-1]], True, 500, True],
                       ['notify', a0], ['notify', a1], ['notify', a2]])
        mk('suffix-filter', [['sub', 0, None, ['x' + a0], True, 500, True], ['notify', a0]])
        mk('shared-address', [['sub', 0, 0, [a0], True, 500, True], ['sub', 0, 0, [a0, a1], True, 300, False], ['notify', a0], ['tick', 300],
                              ['notify', a0], ['mode', 0, 'httpError'], ['notify', a1], ['notify', a0], ['stop', True]])
        for o in OUTCOMES[1:]:
            for pos in range(3):
                # one of three subscribers fails in this way exactly when its SubscriptionEnd is posted (every table position)
                target = [1, 2, 5][pos]
                mk(f'end-{o}-{pos}', [['sub', 0, 1, [a0], True, 500, True], ['sub', 2, None, [a0], True, 500, True],
                                      ['sub', 4, 5, [a0], True, 500, False], ['notify', a0], ['mode', target, o], ['stop', True]])
                # ... and when a report is posted
                mk(f'notify-{o}-{pos}', [['sub', 0, None, [a0], True, 500, True], ['sub', 2, None, [a0], True, 500, True],
                                         ['sub', 4, None, [a0], True, 500, True], ['notify', a0], ['mode', [0, 2, 4][pos], o],
                                         ['notify', a0], ['mode', [0, 2, 4][pos], 'ok'], ['notify', a0], ['hk'], ['notify', a0]])
        for o in ('reset', 'refused', 'timeout', 'garbage', 'httpError'):
            for again in (0, 1):      # the subscriber comes back on the same address / on the same host
                # session 1 fails, is removed, the subscriber subscribes again: the new subscription must be served
                mk(f'resubscribe-after-{o}-{again}', [['sub', 0, None, [a0], True, 1000, True], ['notify', a0], ['mode', 0, o], ['notify', a0],
                                                      ['hk'], ['mode', 0, 'ok'], ['sub', again, None, [a0], True, 1000, True], ['notify', a0],
                                                      ['notify', a0], ['status', *k(1)]])
                # the same without house-keeping in between
                mk(f'resubscribe-early-{o}-{again}', [['sub', 0, None, [a0], True, 1000, True], ['notify', a0], ['mode', 0, o], ['notify', a0],
                                                      ['mode', 0, 'ok'], ['sub', again, None, [a0], True, 1000, True], ['hk'], ['notify', a0],
                                                      ['notify', a0]])
        # every combination of reference parameters in NotifyTo / EndTo, alive at shutdown (and notified before)
        combos = [(None, False, True), (None, False, False), (1, True, True), (1, True, False), (3, False, True), (3, False, False)]
        for order in (combos, combos[::-1]):
            mk('reference-parameters', [['sub', 2 * (j % 3), et, [a0], True, 500, ei, ni] for j, (et, ei, ni) in enumerate(order)] +
               [['notify', a0], ['stop', True]])
        mk('grace-boundary', [['sub', 0, None, [a0], True, 1000, True], ['unsub', *k(0)], ['tick', 100], ['hk'], ['tick', 1], ['hk'],
                              ['sub', 0, None, [a0], True, 1000, True], ['status', *k(1)], ['notify', a0]])
    return res + [dict(c, log=True) for c in res]


# ---------------------------------------------------------------------------------------------- translator

def translate(ctx):  # noqa: ARG001
    c = real_consts()

    def codes(s):
        return '[' + ', '.join(str(ord(ch)) for ch in s) + ']'
    acts = ',\n'.join(f'  -- {a}\n  {codes(a)}' for a in c['actions'])
    src = ('import SdcModel.Eventing\n/-! generated by harness/props/c08.py from the running code (do not edit) -/\n'
           'namespace Sdc.Generated.Eventing\nopen Sdc.Eventing\n'
           f'/-- `SubscriptionBase.MAX_NOTIFY_ERRORS` -/\ndef maxNotifyErrors : Nat := {c["max_notify_errors"]}\n'
           f'/-- `SubscriptionsManagerBase.DEFAULT_MAX_SUBSCR_DURATION` in ticks of 10 ms -/\ndef defaultMaxDur : Nat := {c["default_max_dur"]}\n'
           '/-- every action URI of `SdcV1Definitions.Actions` (a superset of what `send_to_subscribers` is called with), as code points -/\n'
           f'def actions : List Str := [\n{acts}]\n'
           'end Sdc.Generated.Eventing\n')
    core.write_if_changed(core.GENERATED + '/Eventing.lean', src)


# ---------------------------------------------------------------------------------------------- run / search / replay

def _worker(case):
    import logging
    logging.disable(logging.CRITICAL)
    try:
        return execute(case)
    except Exception as ex:  # noqa: BLE001
        import traceback
        return None, None, [('harness-error', traceback.format_exc()[-800:])], {'harness-error:' + type(ex).__name__: 1}


def _still(case, sig):
    try:
        return any(s == sig for s, _ in execute(case)[2])
    except Exception:  # noqa: BLE001
        return False


def _without_sub(case, idx):
    """the case without the subscribe op at position idx; identifiers of later subscriptions are renumbered"""
    outs = execute(case)[1][1:]
    o = outs[idx].split()
    ops = [list(op) for k, op in enumerate(case['ops']) if k != idx]
    if o[0] == 'subscribed':
        gone = int(o[1])

        def ren(x):
            if x is None or x < gone:
                return x
            return 900 + x if x == gone else x - 1
        for op in ops:
            if op[0] in ('renew', 'status', 'unsub'):
                op[1], op[2] = ren(op[1]), ren(op[2])
    return dict(case, ops=ops)


def _shrink(case, sig):
    """greedy removal of ops (last to first, two passes) while the same oracle signature still fires"""
    for _ in range(2):
        i = len(case['ops']) - 1
        while i >= 0:
            op = case['ops'][i]
            trial = _without_sub(case, i) if op[0] == 'sub' else dict(case, ops=case['ops'][:i] + case['ops'][i + 1:])
            if _still(trial, sig):
                case = trial
            i -= 1
    return case


def _evaluate(ctx, cases, label):
    """run cases on implementation (+oracle) and on the model; record everything in ctx"""
    if len(cases) > 200:
        with multiprocessing.get_context('fork').Pool(8) as pool:
            results = pool.map(_worker, cases, chunksize=16)
    else:
        results = [_worker(c) for c in cases]
    all_lines = []
    spans = []
    reported = set()
    for case, (lines, outs, fails, stats) in zip(cases, results):
        for kk, v in stats.items():
            ctx.count(kk, v)
        ctx.count(f'cases:{label}')
        ctx.count('mgr:' + case['mgr'])
        ctx.count('library-logging:' + ('on' if case.get('log') else 'off'))
        for sig, detail in fails:
            if sig == 'harness-error':
                raise RuntimeError(detail)
            small = case
            if sig not in reported:
                reported.add(sig)
                small = _shrink(case, sig)
            ctx.fail(sig, detail, small)
        if lines is None:
            continue
        canon = {k2: case.get(k2) for k2 in ('mgr', 'maxdur', 'maxerr', 'ops', 'log')}
        nontrivial = stats.get('delivered', 0) > 0 and stats.get('withheld', 0) > 0
        ctx.case(canon, nontrivial=nontrivial,
                 sample={'case': canon, 'impl': outs} if (nontrivial and len(case['ops']) <= 14) else None)
        spans.append((case, len(all_lines), len(lines), outs))
        all_lines.extend(lines)
    if ctx.driver_ok and all_lines:
        out = ctx.driver('drv_c08', all_lines)
        for case, start, n, outs in spans:
            model = out[start:start + n]
            if model != outs:
                j = next(i for i, (a, b) in enumerate(zip(model, outs)) if a != b)
                ctx.disagree('model step == manager answer / transport log',
                             {'mgr': case['mgr'], 'maxdur': case['maxdur'], 'maxerr': case['maxerr'], 'log': case.get('log'), 'ops': case['ops'][:j],
                              'line': all_lines[start + j]}, model[j], outs[j])


def _coverage(ctx):
    """line/branch coverage of the anchored provider files while directed + some generated cases run (evidence only)"""
    try:
        import coverage
    except ImportError:
        return
    L = lib()
    files = [L.base.__file__, L.sync.__file__, L.asy.__file__]
    cov = coverage.Coverage(include=files, branch=True, data_file=None)
    rng = ctx.subrng('coverage')
    cases = directed_cases() + [gen_case(rng) for _ in range(120)]
    cov.start()
    try:
        for c in cases:
            execute(c)
    finally:
        cov.stop()
    import ast
    res = {}
    for f in files:
        _, stmts, _, missing, _ = cov.analysis2(f)
        # the modules were imported before the measurement started: count only statements inside function bodies
        inside = {}
        for fn in ast.walk(ast.parse(open(f).read())):
            if isinstance(fn, (ast.FunctionDef, ast.AsyncFunctionDef)):
                for b in fn.body:
                    for n in ast.walk(b):
                        if isinstance(n, ast.stmt):
                            inside[n.lineno] = fn.name
        body = [x for x in stmts if x in inside]
        miss = [x for x in missing if x in inside]
        by_fn = {}
        for x in miss:
            by_fn.setdefault(inside[x], []).append(x)
        res[os.path.basename(f)] = dict(statements_in_functions=len(body), missed=len(miss),
                                        missed_by_function={k: ' '.join(map(str, v)) for k, v in by_fn.items()})
    ctx.notes['anchor_coverage'] = res


def consumer_loopback(ctx):
    """the real ConsumerSubscription (consumer/subscription.py) talks to each manager class through a loop-back soap client:
    its view of the granted / remaining time must be the numbers of the reference monitor"""
    from sdc11073.consumer.subscription import ConsumerSubscription
    L = lib()
    a0 = _actions()[0]
    for mgr in MGRS:
        env = Env(dict(mgr=mgr, maxdur=3000, maxerr=None))

        class Loop:
            def post_message_to(self, path, message, msg='', **_):  # noqa: ARG002
                with contextlib.ExitStack() as st:
                    for p in env._patched():
                        st.enter_context(p)
                    return env.request(path, message)
        import contextlib
        hosted = types.SimpleNamespace(EndpointReference=[types.SimpleNamespace(Address='http://127.0.0.1:9000/uuid/Svc')])
        flt = L.evt.FilterType()
        flt.text = a0
        flt.Dialect = L.DeviceEventingFilterDialectURI.ACTION
        cs = ConsumerSubscription(L.mf, L.SdcV1Definitions.data_model, lambda _addr: Loop(), hosted, flt,
                                  notification_url=addr_str(0), end_to_url=addr_str(1), log_prefix='verif')
        seen = []
        try:
            cs.subscribe(expires=25.37)
            seen.append(('granted', round(cs.granted_expires * 100), 2537))
            env.clock.ticks += 137
            seen.append(('status', round(cs.get_status() * 100), 2400))
            seen.append(('renew', round(cs.renew(10) * 100), 1000))
            seen.append(('renew>max', round(cs.renew(99) * 100), 3000))
            with contextlib.ExitStack() as st:
                for p in env._patched():
                    st.enter_context(p)
                env.mgr.send_to_subscribers(L.etree.Element(f'{{{NS}}}Report'), a0, None)
            seen.append(('notified', [(p['kind'], p['addr']) for p in env.posts], [('n', 0)]))
            env.posts = []
            cs.unsubscribe()
            seen.append(('unsubscribed', cs.is_subscribed, False))
            with contextlib.ExitStack() as st:
                for p in env._patched():
                    st.enter_context(p)
                env.mgr.send_to_subscribers(L.etree.Element(f'{{{NS}}}Report'), a0, None)
                env.mgr.stop_all(send_subscription_end=True)
            seen.append(('after-unsubscribe', [(p['kind'], p['addr']) for p in env.posts], []))
        finally:
            env.close()
        ctx.count('consumer-loopback:' + mgr)
        for what, got, want in seen:
            if got != want:
                ctx.fail('consumer-view-inconsistent:' + what, f'{mgr}: ConsumerSubscription sees {got}, reference says {want}',
                         {'mgr': mgr, 'scenario': 'consumer-loopback', 'step': what})


def _corpus():
    res = []
    for f in sorted(glob.glob(os.path.join(core.VERIF, 'corpus', 'C08', '*.json'))):
        res.append(json.load(open(f))['case'])
    return res


def run(ctx):
    import logging
    logging.disable(logging.CRITICAL)
    c = real_consts()
    ctx.notes['constants'] = {k: v for k, v in c.items() if k != 'actions'}
    ctx.notes['actions_in_generated_file'] = len(c['actions'])
    bad = [(a, b) for a in c['actions'] for b in c['actions'] if a != b and b.endswith(a)]
    if bad:
        ctx.fail('delivered-not-in-filter:real-action-suffix', f'action {bad[0][0]} is a proper suffix of action {bad[0][1]}',
                 {'actions': bad[0]})
    _evaluate(ctx, _corpus() + [dict(c, log=True) for c in _corpus()], 'corpus')
    consumer_loopback(ctx)
    library_logging(True)
    try:
        consumer_loopback(ctx)
    finally:
        library_logging(False)
    _evaluate(ctx, directed_cases(), 'directed')
    rng = ctx.subrng('cases')
    _evaluate(ctx, [gen_case(rng) for _ in range(ctx.n(700, 50000))], 'generated')
    # conforming subscribers only (filters = real actions): the suffix match must then be invisible
    rng = ctx.subrng('conforming')
    _evaluate(ctx, [gen_case(rng, arbitrary_filters=False) for _ in range(ctx.n(200, 12000))], 'generated-real-filters')
    _coverage(ctx)


def search(ctx):
    """failing-input search: oracle only, more and longer cases"""
    import logging
    logging.disable(logging.CRITICAL)
    drv, ctx.driver_ok = ctx.driver_ok, False
    try:
        rng = ctx.subrng('search')
        _evaluate(ctx, [gen_case(rng) for _ in range(ctx.n(3000, 20000))], 'search')
    finally:
        ctx.driver_ok = drv


def replay(ctx, obj):  # noqa: ARG001
    import logging
    logging.disable(logging.CRITICAL)
    if obj['case'].get('scenario') == 'consumer-loopback':
        n = len(ctx.failures)
        consumer_loopback(ctx)
        return any(f['signature'] == obj.get('signature') for f in ctx.failures[n:])
    lines, outs, fails, _ = execute(obj['case'])
    print(f'  manager={obj["case"]["mgr"]} cfg: {lines[0]}')
    for op, o in zip(obj['case']['ops'], outs[1:]):
        short = [(x.rsplit('/', 1)[-1] if isinstance(x, str) else [y.rsplit('/', 1)[-1] if y.startswith('http') else y for y in x] if isinstance(x, list) else x)
                 for x in op]
        print(f'  {json.dumps(short):90s} -> {o}')
    for s, d in fails:
        print('  oracle:', s, '-', d)
    return any(s == obj.get('signature') for s, _ in fails)
