#!/bin/bash
# re-verify every seeded change (demo clean/patched, named tests on the patched tree, the property's check); results in meta.json + out/seedtests
cd "$(dirname "$0")/.."
for d in seeded/*/; do
  n=$(basename "$d")
  /venv/bin/python harness/seedtest.py "$n" --tests --seeds "${SEEDS:-0}" 2>&1 | grep "^SEED"
done
