#!/bin/bash
# re-verify every seeded change (demo clean/patched, named tests on the patched tree, the property's check); results in meta.json + out/seedtests
# usage: harness/seed_all.sh [parallelism]   (env SEEDS=0,1 ; NOTESTS=1 skips the test modules)
cd "$(dirname "$0")/.."
mkdir -p out/seedtests
T="--tests"; [ -n "$NOTESTS" ] && T=""
ls seeded | xargs -P "${1:-4}" -I{} sh -c "/venv/bin/python harness/seedtest.py {} $T --seeds ${SEEDS:-0} > out/seedtests/{}.log 2>&1; grep '^SEED' out/seedtests/{}.log"
