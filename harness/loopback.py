"""In-process provider <-> consumer loop-back used by the MDIB-level checks (C01, C02, C03, C04, C06, C10, C11 …).

* `Provider`: a real `SdcProvider` (tests.mockstuff.SomeDevice) on a real localhost HTTP server (needed for the
  consumer's GetMdib / GetContextStates / Set requests) with the *synchronous* subscription managers.
  Every report the provider hands to its subscription managers is captured from the `sent_to_subscribers`
  observable, wrapped into the SOAP notification exactly like `SubscriptionBase._mk_notification_message`
  does, and serialised (with schema validation, as on the wire): `provider.wire` is the list of `WireMsg`.
* `Consumer`: a real `SdcConsumer` + `ConsumerMdib` that does NOT subscribe to the report actions; reports are
  delivered by the harness: `consumer.deliver(wire_msg)` parses the bytes with the consumer's message reader and
  calls `SdcConsumer._on_notification` synchronously in the calling thread. The harness therefore controls
  loss, duplication and order of notifications (C06) and knows when a report has been processed (no sleeps).
* `snapshot(mdib)`: canonical, comparable content of the three tables + version group.

Everything random is the caller's business; nothing here reads the clock except the library itself.
"""
from __future__ import annotations

import dataclasses
import logging
import sys
import threading
from decimal import Decimal

import os as _os
REPO = _os.environ.get('VERIF_REPO', '/repo')
sys.path.insert(0, REPO)

import sdc11073.definitions_sdc  # noqa: F401,E402  (protocol registry)
from sdc11073 import observableproperties as properties  # noqa: E402
from sdc11073.consumer.consumerimpl import SdcConsumer  # noqa: E402
from sdc11073.mdib import ConsumerMdib  # noqa: E402
from sdc11073.xml_types.addressing_types import HeaderInformationBlock  # noqa: E402

MDIB_1 = REPO + '/tests/70041_MDIB_Final.xml'
MDIB_2 = REPO + '/tests/mdib_two_mds.xml'


@dataclasses.dataclass
class WireMsg:
    action: str
    mdib_version: int
    sequence_id: str
    instance_id: int | None
    raw: bytes
    manager: str

    @property
    def short(self):
        return self.action.rsplit('/', 1)[-1]


class Provider:
    def __init__(self, mdib_path=MDIB_1, sync=True, role_providers=True, validate=True, start=True, instance_id=1):
        from tests import mockstuff
        kw = {}
        if sync:
            kw['components'] = _sync_components()
        if not role_providers:
            kw['role_provider_components'] = _no_roles()
        self.wsd = mockstuff.MockWsDiscovery('127.0.0.1')
        self.device = mockstuff.SomeDevice.from_mdib_file(self.wsd, None, mdib_path, validate=validate, **kw)
        self.mdib = self.device.mdib
        self.mdib.instance_id = instance_id
        self.wire: list[WireMsg] = []
        self._bound = []
        self.started = False
        self.capture_errors: list[str] = []
        for name, mgr in self.device._subscriptions_managers.items():  # noqa: SLF001
            self._bind(name, mgr)
        if start:
            self.start()

    def _bind(self, name, mgr):
        def on_sent(value, _name=name, _mgr=mgr):
            if value is None:
                return
            action, vg, body_node = value
            try:
                info = HeaderInformationBlock(action=action, addr_to='http://127.0.0.1:1/loopback')
                msg = _mgr._msg_factory.mk_soap_message_etree_payload(info, body_node)  # noqa: SLF001
                raw = msg.serialize(validate=True)
            except Exception as ex:  # noqa: BLE001
                self.capture_errors.append(f'{action}: {ex!r}')
                return
            self.wire.append(WireMsg(action, vg.mdib_version, vg.sequence_id, vg.instance_id, raw, _name))
        self._bound.append(on_sent)  # keep a strong reference (bind keeps weak refs)
        properties.bind(mgr, sent_to_subscribers=on_sent)

    def start(self):
        self.device.start_all(start_rtsample_loop=False)
        self.started = True

    @property
    def xaddr(self):
        return self.device.get_xaddrs()[0]

    def take_wire(self):
        w, self.wire = self.wire, []
        return w

    def stop(self):
        try:
            self.device.stop_all(send_subscription_end=False)
        except Exception:  # noqa: BLE001
            pass


def _sync_components():
    from sdc11073.provider.providerimpl import provider_components_sync_factory
    return provider_components_sync_factory()


def _no_roles():
    from sdc11073.provider.providerimpl import RoleProviderComponents  # type: ignore
    return RoleProviderComponents(role_provider_class=None, waveform_provider_class=None)


REPORT_ACTION_WORDS = ('Report', 'Waveform')


class Consumer:
    def __init__(self, provider: Provider, init_mdib=True, subscribe_reports=False):
        defs = provider.mdib.sdc_definitions
        self.provider = provider
        self.sdc = SdcConsumer(provider.xaddr, sdc_definitions=defs, ssl_context_container=None, validate=True)
        actions = defs.Actions
        not_subscribed = None
        if not subscribe_reports:
            not_subscribed = [getattr(actions, n) for n in dir(actions)
                              if not n.startswith('_') and isinstance(getattr(actions, n), str)
                              and ('Report' in n or 'Waveform' in n) and n != 'OperationInvokedReport']
        self.sdc.start_all(not_subscribed_actions=not_subscribed)
        self.mdib = None
        if init_mdib:
            self.mdib = ConsumerMdib(self.sdc)
            self.mdib.init_mdib()

    def parse(self, wire: WireMsg):
        return self.sdc.msg_reader.read_received_message(wire.raw)

    def deliver(self, wire: WireMsg):
        """Synchronous delivery of one notification, as ConsumerSubscription.on_notification -> _on_notification."""
        message_data = self.parse(wire)
        self.sdc._on_notification(message_data)  # noqa: SLF001

    def stop(self):
        try:
            self.sdc.stop_all(unsubscribe=True)
        except Exception:  # noqa: BLE001
            pass


# ----------------------------------------------------------------------------------------------------------------
# canonical snapshots


def _norm(v, ms_keys=False):
    if isinstance(v, Decimal):
        return format(v.normalize(), 'f') if v.is_finite() else str(v)   # numeric value, not the lexical form
    if isinstance(v, float):
        return round(v * 1000)  # timestamps: wire resolution 1 ms
    return v


def canon_value(obj, depth=0):
    """Deep canonical value of a container / data-type object / scalar (all `_props`, implied values resolved)."""
    if obj is None or isinstance(obj, (str, int, bool)):
        return obj
    if isinstance(obj, (Decimal, float)):
        return _norm(obj)
    if isinstance(obj, (list, tuple)):
        return [canon_value(x, depth + 1) for x in obj]
    if hasattr(obj, 'sorted_container_properties'):
        res = {'__cls__': type(obj).__name__}
        for name, _ in obj.sorted_container_properties():
            val = getattr(obj, name)
            if val is None or val == [] or val == '':
                continue
            res[name] = canon_value(val, depth + 1)
        for name in _schema_attr_names(obj):
            # attributes the bundled schema gives this type and the class has, whether or not the class lists them in `_props`
            if name not in res:
                val = getattr(obj, name, None)
                if not (val is None or val == [] or val == ''):
                    res[name] = canon_value(val, depth + 1)
        return res
    if hasattr(obj, 'tag') and hasattr(obj, 'attrib'):  # etree node (extension content)
        return _canon_etree(obj)
    if hasattr(obj, 'value') and hasattr(type(obj), '__members__'):  # enum
        return obj.value
    if hasattr(obj, 'text') and hasattr(obj, 'namespace'):  # QName
        return str(obj)
    return repr(obj)


_XSD_TABLE = None
_XSD_ATTRS = {}


def _schema_attr_names(obj):
    nodetype = getattr(obj, 'NODETYPE', None)
    if nodetype is None or not hasattr(nodetype, 'localname'):
        return ()
    key = (type(obj), str(nodetype))
    if key not in _XSD_ATTRS:
        global _XSD_TABLE
        try:
            if _XSD_TABLE is None:
                import xsdtable
                _XSD_TABLE = xsdtable.XsdTable()
            tname = f'{{{nodetype.namespace}}}{nodetype.localname}'
            names = [a[0] for a in _XSD_TABLE.flatten(tname)[1]] if tname in _XSD_TABLE.types else []
        except Exception:  # noqa: BLE001
            names = []
        _XSD_ATTRS[key] = tuple(n for n in names if hasattr(type(obj), n))
    return _XSD_ATTRS[key]


def _canon_etree(node):
    """namespace-prefix independent dump of an etree node"""
    if not isinstance(node.tag, str):  # comment / PI
        return None
    return [node.tag, sorted(node.attrib.items()), (node.text or '').strip(),
            [c for c in (_canon_etree(ch) for ch in node) if c is not None]]


IGNORED_STATE_PROPS = ()


def state_body(st):
    """canonical content of a state without the version/handle fields that the models spell out"""
    d = canon_value(st)
    for k in ('StateVersion', 'DescriptorVersion', 'DescriptorHandle', 'Handle'):
        d.pop(k, None)
    return d


def descr_body(d):
    c = canon_value(d)
    for k in ('DescriptorVersion', 'Handle'):
        c.pop(k, None)
    return c


def snapshot(mdib, clock_handles=()):
    """Canonical content of an MDIB: comparable between provider and consumer and between points in time."""
    snap = {'version': mdib.mdib_version, 'sequence_id': mdib.sequence_id, 'instance_id': mdib.instance_id,
            'descriptors': {}, 'states': {}, 'context_states': {}}
    for d in mdib.descriptions.objects:
        snap['descriptors'][d.Handle] = {'parent': d.parent_handle, 'ver': d.DescriptorVersion, 'type': d.NODETYPE.localname,
                                        'body': descr_body(d)}
    for s in mdib.states.objects:
        snap['states'][s.DescriptorHandle] = {'dv': s.DescriptorVersion, 'sv': s.StateVersion, 'type': s.NODETYPE.localname,
                                              'body': state_body(s)}
    for s in mdib.context_states.objects:
        snap['context_states'][s.Handle] = {'dh': s.DescriptorHandle, 'dv': s.DescriptorVersion, 'sv': s.StateVersion,
                                            'type': s.NODETYPE.localname, 'body': state_body(s)}
    return snap


def snapshot_sizes(mdib):
    return (len(mdib.descriptions.objects), len(mdib.states.objects), len(mdib.context_states.objects))


def diff_snapshots(a, b, ignore_clock=True):
    """List of human readable differences between two snapshots (empty = equal)."""
    out = []
    for k in ('version', 'sequence_id', 'instance_id'):
        if a[k] != b[k]:
            out.append(f'{k}: {a[k]!r} != {b[k]!r}')
    for tab in ('descriptors', 'states', 'context_states'):
        ka, kb = set(a[tab]), set(b[tab])
        for h in sorted(ka - kb):
            out.append(f'{tab}[{h}] only in first')
        for h in sorted(kb - ka):
            out.append(f'{tab}[{h}] only in second')
        for h in sorted(ka & kb):
            x, y = a[tab][h], b[tab][h]
            if ignore_clock and x.get('type') == 'ClockState':
                x = {**x, 'body': {k: v for k, v in x['body'].items() if k not in ('DateAndTime', 'LastSet')}}
                y = {**y, 'body': {k: v for k, v in y['body'].items() if k not in ('DateAndTime', 'LastSet')}}
            if x != y:
                keys = [k for k in x if x.get(k) != y.get(k)]
                detail = ''
                if 'body' in keys:
                    bk = [k for k in set(x['body']) | set(y['body']) if x['body'].get(k) != y['body'].get(k)]
                    detail = ' body:' + ','.join(sorted(bk))
                out.append(f'{tab}[{h}] differs in {keys}{detail}')
    return out


def quiet():
    logging.disable(logging.CRITICAL)
