"""Identity / sharing helpers for container and data-type instances (used by C12, C05; usable by C03 and others).

Everything here reads property values with `getattr(obj, prop._local_var_name)` (the *actual* value) and never through
the descriptor's `__get__`, because several `__get__` implementations write to the instance on first read
(`ExtensionNodeProperty`, the list kinds).

  all_classes()            ordered {key: class} of every XMLTypeBase / ContainerBase class of the data-type modules
  class_props(cls)         [(name, descriptor)] in `sorted_container_properties` order, without needing an instance
  new_instance(cls)        cls(...) with the fewest arguments the constructor accepts
  is_mutable(v)            does `v` have an identity that matters (can be changed in place)?
  all_paths(obj)           [(path, object)] of every mutable object reachable through `_props` / list items ('' = obj)
  sharing_matrix(a, b)     set of paths of `a` whose (mutable) object `is` an object reachable from `b`
  sharing_pairs(a, b)      the same as set of (path in a, path in b)
  canonical(obj)           deep canonical value (JSON-able): all `_props` recursively, lists in order, implied values
                           resolved, Decimal / float / int normalised
"""
from __future__ import annotations

import datetime
import decimal
import enum
import importlib
import inspect

import sdc11073.definitions_sdc  # noqa: F401  (protocol registry must exist before containers are used)
from lxml import etree
from sdc11073.mdib import containerbase
from sdc11073.xml_types import basetypes
from sdc11073.xml_types import xml_structure as xs

MODULES = ['sdc11073.xml_types.basetypes', 'sdc11073.xml_types.pm_types', 'sdc11073.xml_types.msg_types',
           'sdc11073.xml_types.eventing_types', 'sdc11073.xml_types.wsd_types', 'sdc11073.xml_types.addressing_types',
           'sdc11073.xml_types.dpws_types', 'sdc11073.xml_types.mex_types', 'sdc11073.mdib.descriptorcontainers',
           'sdc11073.mdib.statecontainers', 'sdc11073.pysoap.soapenvelope']

BASES = (basetypes.XMLTypeBase, containerbase.ContainerBase)
_IMMUTABLE = (type(None), str, bytes, int, float, bool, complex, decimal.Decimal, enum.Enum, etree.QName, frozenset,
              datetime.date, datetime.time, datetime.timedelta, datetime.tzinfo, type, range)


def all_classes() -> dict:
    res = {}
    for m in MODULES:
        mod = importlib.import_module(m)
        for n, c in sorted(inspect.getmembers(mod, inspect.isclass)):
            if issubclass(c, BASES) and c.__module__ == m and n == c.__name__:   # aliases are skipped
                res[f'{m.rsplit(".", 1)[-1]}.{n}'] = c
    return res


def class_key(cls) -> str:
    return f'{cls.__module__.rsplit(".", 1)[-1]}.{cls.__name__}'


def class_props(cls, broken=None):
    """(name, descriptor) in the order of `sorted_container_properties`; names in `_props` that do not resolve are
    appended to `broken` (the real method raises AttributeError for them)."""
    ret = []
    for c in reversed(inspect.getmro(cls)):
        for name in c.__dict__.get('_props', ()):
            try:
                obj = getattr(c, name)
            except AttributeError:
                if broken is not None:
                    broken.append((c.__name__, name))
                continue
            if obj is not None:
                ret.append((name, obj))
    return ret


def new_instance(cls):
    """cls(...) passing None for every parameter without default (descriptors: handle / parent_handle = strings)."""
    try:
        sig = inspect.signature(cls.__init__)
    except (TypeError, ValueError):
        return cls()
    args = []
    for p in list(sig.parameters.values())[1:]:
        if p.kind in (p.VAR_POSITIONAL, p.VAR_KEYWORD, p.KEYWORD_ONLY) or p.default is not p.empty:
            continue
        if p.name == 'handle':
            args.append('h0')
        elif p.name in ('text', 'code'):
            args.append('' if p.name == 'text' else '0')
        else:
            args.append(None)
    return cls(*args)


def actual(obj, prop):
    return getattr(obj, prop._local_var_name, None)


def is_value_object(v) -> bool:
    return isinstance(v, BASES)


def is_mutable(v) -> bool:
    if isinstance(v, _IMMUTABLE):
        return False
    if isinstance(v, tuple):
        return any(is_mutable(x) for x in v)
    if hasattr(type(v), '__dataclass_params__') and type(v).__dataclass_params__.frozen:
        return False
    return True


def children(v):
    """[(label, child value)] of a mutable value: properties of a value object, items of a list / tuple."""
    if is_value_object(v):
        return [(name, actual(v, p)) for name, p in class_props(type(v))]
    if isinstance(v, (list, tuple)):
        return [(f'[{i}]', x) for i, x in enumerate(v)]
    return []   # lxml elements and unknown objects are opaque


def _join(path, label):
    if label.startswith('['):
        return path + label
    return f'{path}.{label}' if path else label


def all_paths(obj, _path='', _seen=None):
    """[(path, object)] of all mutable objects reachable from obj (pre-order, obj itself first with path '')."""
    res = []
    seen = _seen if _seen is not None else set()
    if not is_mutable(obj) or (id(obj), _path) in seen:
        return res
    seen.add((id(obj), _path))
    if not isinstance(obj, tuple):
        res.append((_path, obj))
    if _path.count('.') + _path.count('[') > 40:
        return res
    for label, child in children(obj):
        res.extend(all_paths(child, _join(_path, label), seen))
    return res


def sharing_pairs(a, b) -> set:
    ids_b = {}
    for p, o in all_paths(b):
        ids_b.setdefault(id(o), []).append(p)
    res = set()
    for p, o in all_paths(a):
        for q in ids_b.get(id(o), ()):
            res.add((p, q))
    return res


def sharing_matrix(a, b) -> set:
    """paths of `a` whose object is identical (`is`) to a mutable object reachable from `b`"""
    return {p for p, _ in sharing_pairs(a, b)}


def _num(v):
    if isinstance(v, bool):
        return ['b', v]
    if isinstance(v, int):
        return ['n', str(v)]
    if isinstance(v, float):
        if v != v or v in (float('inf'), float('-inf')):
            return ['f', repr(v)]
        return ['n', str(int(v))] if v.is_integer() else ['f', repr(v)]
    if isinstance(v, decimal.Decimal):
        if not v.is_finite():
            return ['d', str(v)]
        return ['n', str(int(v))] if v == v.to_integral_value() else ['d', format(v.normalize(), 'f')]
    raise TypeError


def canonical_xml(el):
    """prefix independent structural form of an lxml element (raw / extension content)"""
    kids = [canonical_xml(c) for c in el if isinstance(c.tag, str)]
    return [el.tag, sorted([k, v] for k, v in el.attrib.items()), el.text or '', kids]


def public_canonical(obj):
    """canonical value of a *throw-away* instance as a user sees it: every property read with `getattr` (through the
    descriptor's `__get__`, which may write to `obj`), nested values canonicalised without further side effects"""
    items = []
    for name, p in class_props(type(obj)):
        try:
            v = getattr(obj, name)
        except Exception as ex:  # noqa: BLE001
            v = f'<{type(ex).__name__}>'
        items.append([name, canonical(v, p)])
    return ['o', type(obj).__name__, items]


def canonical(v, prop=None):
    """Deep canonical (JSON-able) value. `prop` = descriptor the value is stored under (for implied values)."""
    if v is None and prop is not None:
        if isinstance(prop, xs.ExtensionNodeProperty):
            return ['l', []]      # __get__ yields an empty ExtensionLocalValue for a missing value
        v = prop._implied_py_value
    if v is None:
        return None
    if isinstance(v, (bool, int, float, decimal.Decimal)) and not isinstance(v, enum.Enum):
        return _num(v)
    if isinstance(v, enum.Enum) and not isinstance(v, str):
        val = v.value
        return ['e', type(v).__name__, val.text if isinstance(val, etree.QName) else str(val)]
    if isinstance(v, str):
        return str(v.value) if isinstance(v, enum.Enum) else v     # a StringEnum member == its string value
    if isinstance(v, etree.QName):
        return ['q', v.text]
    if is_value_object(v):
        items = []
        for name, p in class_props(type(v)):
            if isinstance(p, (xs._AttributeListBase, xs._ElementListProperty)) and not hasattr(v, p._local_var_name):
                items.append([name, ['l', []]])     # __get__ of the list kinds creates the list on first read
            else:
                items.append([name, canonical(actual(v, p), p)])
        return ['o', type(v).__name__, items]
    if isinstance(v, (list, tuple)):
        return ['l', [canonical(x) for x in v]]
    if isinstance(v, etree._Element):  # noqa: SLF001
        return ['x', canonical_xml(v)]
    return ['r', type(v).__name__, str(v)]
