"""Writes MANIFEST.json from the table below (kept in one place so that the file is always valid)."""
import json, os
V = os.path.dirname(os.path.dirname(os.path.abspath(__file__)))
import importlib, sys
sys.path.insert(0, os.path.join(V, 'harness'))
CHECKS = {}
for i in range(1, 21):
    pid = f'C{i:02d}'
    try:
        mod = importlib.import_module(f'props.{pid.lower()}')
    except ModuleNotFoundError:
        continue
    if getattr(mod, 'READY', False):
        CHECKS[pid] = mod.MANIFEST
NOT_APPLICABLE = []

def main():
    checks = []
    for pid, c in sorted(CHECKS.items()):
        checks.append({
            'property_id': pid,
            'quick_cmd': f'./check {pid} --tier quick',
            'thorough_cmd': f'./check {pid} --tier thorough',
            'evidence_file': f'/verif/evidence/{pid}.json',
            'replay_cmd_template': f'./check {pid} --replay {{path}}',
            'engine': 'lean4-proof+correspondence',
            'level_claimed': {'category': c.get('category', 'proof'), 'text': c['text'], 'design_ref': 'DESIGN.md ' + c['ref']},
            'level_note': c['note'],
            'technique': c['technique'],
        })
    m = {
        'version': 1,
        'setup_cmd': './setup.sh',
        'hooks': {'guard': 'SDC11073_VERIF', 'enable': 'export SDC11073_VERIF=1 (set by ./check); no source hooks are installed',
                  'baseline_off_cmd': 'cd /repo && /venv/bin/python -m pytest -ra -q -p no:cacheprovider --timeout=900 --continue-on-collection-errors',
                  'source_commits': [], 'add_only': True},
        'engines': [{'name': 'lean4-proof+correspondence', 'path': '/verif/lean + /verif/harness',
                     'serves_properties': sorted(CHECKS), 'kind_free_text': 'Lean 4 model + theorems (lake project SdcModel), translators regenerating model instances from /repo, compiled model drivers compared with the implementation in-process'}],
        'checks': checks,
        'not_applicable': NOT_APPLICABLE,
        'notes': 'See DESIGN.md. fix: commits in /repo are listed in known_findings/Cxx.json (kind=fixed); unrepaired genuine defects are kind=known there.',
    }
    json.dump(m, open(os.path.join(V, 'MANIFEST.json'), 'w'), indent=1)

if __name__ == '__main__':
    main()
