"""Import the seeded changes an independent agent left in <worktree>/seeded/<k>/ as /verif/seeded/<prop>-<n>/ (next free n)."""
import glob
import json
import os
import shutil
import sys

VERIF = os.path.dirname(os.path.dirname(os.path.abspath(__file__)))
prop, src = sys.argv[1], sys.argv[2]
have = [int(os.path.basename(p).split('-')[1]) for p in glob.glob(os.path.join(VERIF, 'seeded', prop + '-*'))]
n = max(have + [0])
names = []
for d in sorted(glob.glob(os.path.join(src, 'seeded', '*'))):
    if not os.path.exists(os.path.join(d, 'patch.diff')):
        continue
    n += 1
    dst = os.path.join(VERIF, 'seeded', f'{prop}-{n}')
    shutil.copytree(d, dst)
    m = json.load(open(os.path.join(dst, 'meta.json')))
    m['round'] = 2
    json.dump(m, open(os.path.join(dst, 'meta.json'), 'w'), indent=1)
    names.append(f'{prop}-{n}')
print(' '.join(names))
