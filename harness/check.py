"""CLI: ./check Cxx [--tier quick|thorough] [--replay file]"""
from __future__ import annotations

import argparse
import importlib
import json
import logging
import os
import signal
import sys

sys.path.insert(0, os.path.dirname(os.path.abspath(__file__)))

import core  # noqa: E402


def main():
    ap = argparse.ArgumentParser()
    ap.add_argument('prop')
    ap.add_argument('--tier', default=os.environ.get('VERIF_TIER', 'quick'), choices=['quick', 'thorough'])
    ap.add_argument('--replay')
    ap.add_argument('--seed', type=int, default=int(os.environ.get('VERIF_SEED', '0') or 0))
    args = ap.parse_args()
    logging.disable(logging.CRITICAL)
    prop = args.prop.upper()
    mod = importlib.import_module(f'props.{prop.lower()}')

    def on_alarm(*_):
        print(f'[{prop}] TIMEOUT of the check itself (broken check, not a violation)')
        os._exit(2)
    signal.signal(signal.SIGALRM, on_alarm)
    signal.alarm(int(os.environ.get('VERIF_TIMEOUT', '1500' if args.tier == 'quick' else '7200')))

    if args.replay:
        obj = json.load(open(args.replay))
        ctx = core.Ctx(prop, args.tier, args.seed)
        if obj.get('kind') != 'failing-input':
            print('replay file names a broken proof obligation / correspondence, nothing to execute:')
            print(json.dumps(obj, indent=1)[:4000])
            sys.exit(1)
        still = mod.replay(ctx, obj)
        print(('REPRODUCED: ' if still else 'NOT REPRODUCED: ') + obj.get('signature', ''))
        sys.exit(1 if still else 0)
    rc = core.run_check(mod, prop, args.tier, args.seed)
    sys.stdout.flush()
    os._exit(rc)


if __name__ == '__main__':
    main()
