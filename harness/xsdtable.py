"""The bundled XML schemas (/repo/src/sdc11073/xsd/*.xsd) as an independent reference for C05.

Plain lxml walk (no XSD semantics beyond what is listed): every named complexType and every global element becomes an
`XsdType` with its base type, the ordered sequence of child elements (name, type, minOccurs, maxOccurs; `choice`
members become optional, anonymous inline types get the synthetic name `<owner>/<element>`), and its attributes (name,
type, use, default). `flatten` resolves the extension chain (base elements first, as XSD does).
"""
from __future__ import annotations

import glob
import os

from lxml import etree

XS = 'http://www.w3.org/2001/XMLSchema'


import re

_IMPLIED = re.compile(r'implied value(?: of the initial version| for the initial (?:state|descriptor) instance)? SHALL be "([^"]*)"', re.I)


def _implied(node):
    """BICEPS documents implied values in the annotation: `The implied value SHALL be "false".`"""
    for doc in node.iter('{%s}documentation' % XS):
        m = _IMPLIED.search(' '.join((doc.text or '').split()))
        if m and not m.group(1).startswith('urn:oid'):
            return m.group(1)
    return None


def x(tag):
    return '{%s}%s' % (XS, tag)


class XsdType:
    def __init__(self, name):
        self.name = name          # Clark notation
        self.base = None
        self.elems = []           # [name, type, min, max(-1 = unbounded)]
        self.attrs = []           # [name, type, required, default]
        self.any_elem = False
        self.any_attr = False
        self.simple = False       # simpleContent / simpleType: text content
        self.is_element = False


class XsdTable:
    def __init__(self, repo=None):
        repo = repo or os.environ.get('VERIF_REPO', '/repo')
        self.types = {}
        self.global_elems = {}    # element name -> type name
        self.groups = {}
        self.attr_groups = {}
        self.docs = []
        for f in sorted(glob.glob(os.path.join(repo, 'src', 'sdc11073', 'xsd', '*.xsd'))):
            root = etree.parse(f).getroot()
            self.docs.append((root.get('targetNamespace'), root))
        for tns, root in self.docs:
            for el in root:
                if el.tag == x('attributeGroup') and el.get('name'):
                    self.attr_groups[self._clark(tns, el.get('name'))] = (tns, el, root)
        for tns, root in self.docs:
            self.qualified = root.get('elementFormDefault') == 'qualified'
            for el in root:
                if el.tag == x('complexType'):
                    self._complex(tns, self._clark(tns, el.get('name')), el, root)
                elif el.tag == x('simpleType'):
                    t = XsdType(self._clark(tns, el.get('name')))
                    t.simple = True
                    self.types[t.name] = t
                elif el.tag == x('element'):
                    nm = self._clark(tns, el.get('name'))
                    if el.get('type'):
                        self.global_elems[nm] = self._q(el, el.get('type'))
                    else:
                        ct = el.find(x('complexType'))
                        tname = nm + '/#element'
                        if ct is not None:
                            self._complex(tns, tname, ct, root)
                            self.types[tname].is_element = True
                        self.global_elems[nm] = tname
                elif el.tag == x('attributeGroup') and el.get('name'):
                    self.attr_groups[self._clark(tns, el.get('name'))] = (tns, el, root)

    @staticmethod
    def _clark(ns, local):
        return '{%s}%s' % (ns, local) if ns else local

    @staticmethod
    def _q(el, qname):
        if ':' in qname:
            pre, local = qname.split(':', 1)
            return '{%s}%s' % (el.nsmap.get(pre), local)
        ns = el.nsmap.get(None)
        return '{%s}%s' % (ns, qname) if ns else qname

    def _complex(self, tns, name, ct, root):
        t = XsdType(name)
        self.types[name] = t
        body = ct
        cc = ct.find(x('complexContent'))
        sc = ct.find(x('simpleContent'))
        if cc is not None or sc is not None:
            inner = (cc if cc is not None else sc)
            ext = inner.find(x('extension'))
            if ext is None:
                ext = inner.find(x('restriction'))
            if ext is not None:
                t.base = self._q(ext, ext.get('base'))
                body = ext
            t.simple = sc is not None
        self._particles(tns, t, body, 1, root)
        for a in body.findall(x('attribute')):
            self._attr(tns, t, a, root)
        for ag in body.findall(x('attributeGroup')):
            ref = self._q(ag, ag.get('ref'))
            if ref in self.attr_groups:
                gtns, gel, _ = self.attr_groups[ref]
                for a in gel.findall(x('attribute')):
                    self._attr(gtns, t, a, root)
        if body.find(x('anyAttribute')) is not None:
            t.any_attr = True

    def _attr(self, tns, t, a, root):
        if a.get('ref'):
            nm = self._q(a, a.get('ref'))
            typ = None
        else:
            qualified = a.get('form') == 'qualified' or root.get('attributeFormDefault') == 'qualified'
            nm = self._clark(tns, a.get('name')) if qualified else a.get('name')
            typ = self._q(a, a.get('type')) if a.get('type') else None
        t.attrs.append([nm, typ, a.get('use') == 'required', a.get('default') if a.get('default') is not None else _implied(a)])

    def _particles(self, tns, t, parent, outer_min, root):
        for grp in parent:
            if grp.tag in (x('sequence'), x('choice'), x('all')):
                gmin = int(grp.get('minOccurs', '1')) * outer_min
                if grp.tag == x('choice'):
                    gmin = 0
                gmax = grp.get('maxOccurs', '1')
                for el in grp:
                    if el.tag == x('element'):
                        mn = int(el.get('minOccurs', '1')) * (1 if gmin else 0)
                        mx = el.get('maxOccurs', '1')
                        mx = -1 if 'unbounded' in (mx, gmax) else max(int(mx), int(gmax))
                        if el.get('ref'):
                            nm = self._q(el, el.get('ref'))
                            typ = nm + '/#ref'
                        else:
                            qualified = el.get('form') == 'qualified' or root.get('elementFormDefault') == 'qualified'
                            nm = self._clark(tns, el.get('name')) if qualified else el.get('name')
                            if el.get('type'):
                                typ = self._q(el, el.get('type'))
                            else:
                                typ = f'{t.name}/{el.get("name")}'
                                ct = el.find(x('complexType'))
                                if ct is not None:
                                    self._complex(tns, typ, ct, root)
                                else:
                                    st = XsdType(typ)
                                    st.simple = True
                                    self.types[typ] = st
                        t.elems.append([nm, typ, mn, mx])
                    elif el.tag in (x('sequence'), x('choice')):
                        self._particles(tns, t, [el], 1 if gmin else 0, root)
                    elif el.tag == x('any'):
                        t.any_elem = True

    def resolve(self, typ):
        """type name of an element reference / alias"""
        if typ is None:
            return None
        if typ.endswith('/#ref'):
            return self.global_elems.get(typ[:-5], typ)
        return typ

    def flatten(self, name, _seen=()):
        """(elements, attributes, any_elem, any_attr) of a type incl. everything inherited"""
        t = self.types.get(name)
        if t is None or name in _seen:
            return [], [], False, False
        be, ba, ae, aa = self.flatten(t.base, _seen + (name,)) if t.base else ([], [], False, False)
        return be + t.elems, ba + t.attrs, ae or t.any_elem, aa or t.any_attr

    def derives(self, typ, base):
        seen = set()
        while typ is not None and typ not in seen:
            if typ == base:
                return True
            seen.add(typ)
            t = self.types.get(typ)
            typ = t.base if t else None
        return False
