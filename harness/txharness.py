"""Generator + executor of provider transaction histories on the real ProviderMdib, with the matching line-protocol
ops for the Lean provider model (lean/SdcModel/Mdib.lean, MdibDescr.lean; driver SdcModel/Drivers/MdibDriver.lean).

Used by C02 (version counters / referential consistency), C03 (atomicity / isolation), C04 (reports).
A history is a JSON-serialisable list of scripts; `World.execute(script)` runs one script on the real code and
returns everything observed; `World.model_lines` accumulates the driver input; `World.expected` the outputs the model
must produce (outcome + transaction result for `end`, table dump for `dump`).
"""
from __future__ import annotations

import copy
import json
import types
from decimal import Decimal

import loopback as lb
from sdc11073.exceptions import ApiUsageError

ERR = {ValueError: 'valueError', KeyError: 'keyError', ApiUsageError: 'apiUsage', AttributeError: 'attributeError'}
STATE_KINDS = ['metric', 'alert', 'component', 'operational', 'rt']


class AppAbort(Exception):
    """Raised by the simulated application code inside the transaction."""


class Clock:
    def __init__(self):
        self.t = 1000.0

    def time(self):
        return self.t


def kind_of(c):
    g = lambda n: getattr(c, n, False)  # noqa: E731
    if g('is_realtime_sample_array_metric_state') or g('is_realtime_sample_array_metric_descriptor'):
        return 'rt'
    if g('is_metric_state') or g('is_metric_descriptor'):
        return 'metric'
    if g('is_alert_state') or g('is_alert_descriptor'):
        return 'alert'
    if g('is_component_state') or g('is_component_descriptor'):
        return 'component'
    if g('is_operational_state') or g('is_operational_descriptor'):
        return 'operational'
    if g('is_context_state') or g('is_context_descriptor'):
        return 'context'
    raise ValueError(c)


def strip_keys(d, keys):
    if isinstance(d, dict):
        return {k: strip_keys(v, keys) for k, v in d.items() if k not in keys}
    if isinstance(d, list):
        return [strip_keys(x, keys) for x in d]
    return d


CTX_TRACKED = ('ContextAssociation', 'BindingMdibVersion', 'UnbindingMdibVersion', 'BindingStartTime', 'BindingEndTime')


def enrich(mdib):
    """Descriptor classes of the data model that none of the repository's test MDIBs contains get one instance each (with its
    state), added to the tables directly as when an MDIB is assembled: Battery, DistributionSampleArrayMetric, the four
    remaining context descriptors, SetMetricState- / SetComponentStateOperation. The generators then meet every
    descriptor / state class pairing."""
    from sdc11073.xml_types import pm_qnames as q
    from sdc11073.xml_types import pm_types
    have = {type(d) for d in mdib.descriptions.objects}

    def first(qn):
        found = mdib.descriptions.NODETYPE.get(qn)
        return found[0] if found else None
    metric = next((d.Handle for d in mdib.descriptions.objects if d.is_metric_descriptor), None)
    plan = [(q.BatteryDescriptor, q.MdsDescriptor), (q.DistributionSampleArrayMetricDescriptor, q.ChannelDescriptor),
            (q.EnsembleContextDescriptor, q.SystemContextDescriptor), (q.MeansContextDescriptor, q.SystemContextDescriptor),
            (q.OperatorContextDescriptor, q.SystemContextDescriptor), (q.WorkflowContextDescriptor, q.SystemContextDescriptor),
            (q.SetMetricStateOperationDescriptor, q.ScoDescriptor), (q.SetComponentStateOperationDescriptor, q.ScoDescriptor)]
    added = []
    for i, (qn, parent_qn) in enumerate(plan):
        cls = mdib.data_model.get_descriptor_container_class(qn)
        parent = first(parent_qn)
        if cls in have or parent is None:
            continue
        d = cls(f'enriched_{qn.localname}', parent.Handle)
        d.set_source_mds(parent.source_mds if parent.source_mds is not None else parent.Handle)
        if not d.is_context_descriptor:
            d.Type = pm_types.CodedValue(str(87000 + i))
        if d.is_metric_descriptor:
            d.Unit = pm_types.CodedValue('262656')
            d.DomainUnit = pm_types.CodedValue('262657')
            d.DistributionRange = pm_types.Range(Decimal(0), Decimal(100))
            d.Resolution = Decimal('0.1')
            d.MetricCategory = pm_types.MetricCategory.MEASUREMENT
            d.MetricAvailability = pm_types.MetricAvailability.CONTINUOUS
        if d.is_operational_descriptor:
            if metric is None:
                continue
            d.OperationTarget = metric if qn == q.SetMetricStateOperationDescriptor else parent.parent_handle
        mdib.descriptions.add_object(d)
        if not d.is_context_descriptor:
            mdib.states.add_object(mdib.data_model.mk_state_container(d))
        added.append(d.Handle)
    return added


_XSD = None


class World:
    def __init__(self, provider: lb.Provider, rng):
        self.p = provider
        self.mdib = provider.mdib
        self.rng = rng
        self.handles = {}     # str -> nat
        self.bodies = {}      # canonical json -> nat
        self.clock = Clock()
        import sdc11073.mdib.transactions as tr
        self._tr = tr
        tr.time = types.SimpleNamespace(time=self.clock.time)
        self._uuid_n = 0
        self.model_lines = []
        self.expected = []    # (line index, expected output or None)
        self.removed_descr = {}   # handle -> (descriptor copy, state copy or None) for re-creation
        self.new_n = 0
        self.hot = []             # handles touched recently: reused with high probability (multi-step interactions)
        self.stale_entities = {}  # handle -> entity fetched in an earlier script (possibly outdated by now)
        self.late_writes = False  # C03: after the `with` block write into everything that was handed out
        self.scribble_results = True
        self.retained = []        # C03: (label, object, canonical value when it was published)
        self.enriched = enrich(self.mdib)

    def close(self):
        import time
        self._tr.time = time

    # ---------------- interning / canonical dumps
    def hid(self, h):
        if h is None:
            return '-'
        if h not in self.handles:
            self.handles[h] = len(self.handles) + 1
        return self.handles[h]

    def bid(self, body):
        key = json.dumps(body, sort_keys=True, default=str)
        if key not in self.bodies:
            self.bodies[key] = len(self.bodies) + 1
        return self.bodies[key]

    def sbody(self, st):
        b = strip_keys(lb.state_body(st), ('DeterminationTime', 'DateAndTime'))
        if st.is_context_state:
            for k in CTX_TRACKED:
                b.pop(k, None)
        return self.bid(b)

    def dbody(self, d):
        return self.bid(lb.descr_body(d))

    @staticmethod
    def opt(v):
        return '-' if v is None else str(v)

    def show_d(self, d):
        return f'{self.hid(d.Handle)},{self.hid(d.parent_handle)},{kind_of(d)},{d.DescriptorVersion},{self.dbody(d)},{self.hid(d.source_mds)}'

    def show_s(self, s):
        return f'{self.hid(s.DescriptorHandle)},{s.DescriptorVersion},{s.StateVersion},{kind_of(s)},{self.sbody(s)}'

    def show_c(self, c):
        assoc = {'No': 'no', 'Pre': 'pre', 'Assoc': 'assoc', 'Dis': 'dis'}[c.ContextAssociation.value if c.ContextAssociation is not None else 'No']
        t = lambda x: '-' if x is None else str(int(round(x)))  # noqa: E731
        return (f'{self.hid(c.Handle)},{self.hid(c.DescriptorHandle)},{c.DescriptorVersion},{c.StateVersion},{self.sbody(c)},{assoc},'
                f'{self.opt(c.BindingMdibVersion)},{self.opt(c.UnbindingMdibVersion)},{t(c.BindingStartTime)},{t(c.BindingEndTime)}')

    def real_dump(self):
        m = self.mdib
        sv = lambda look: ';'.join(f'{k}:{v}' for k, v in sorted((self.hid(h), v) for h, v in look.items()))  # noqa: E731
        key0 = lambda s: int(s.split(',')[0])  # noqa: E731
        return (f'ver={m.mdib_version}|D ' + ';'.join(sorted((self.show_d(d) for d in m.descriptions.objects), key=key0))
                + '|S ' + ';'.join(sorted((self.show_s(s) for s in m.states.objects), key=key0))
                + '|C ' + ';'.join(sorted((self.show_c(c) for c in m.context_states.objects), key=key0))
                + '|dS ' + sv(m.descriptions.handle_version_lookup) + '|sS ' + sv(m.states.handle_version_lookup)
                + '|cS ' + sv(m.context_states.handle_version_lookup))

    def show_result(self, r):
        if r is None:
            r = types.SimpleNamespace(descr_updated=[], descr_created=[], descr_deleted=[], metric_updates=[], alert_updates=[],
                                      comp_updates=[], ctxt_updates=[], op_updates=[], rt_updates=[])
        j = ';'.join
        return ('U ' + j(self.show_d(d) for d in r.descr_updated) + '|N ' + j(self.show_d(d) for d in r.descr_created)
                + '|X ' + j(self.show_d(d) for d in r.descr_deleted)
                + '|metric ' + j(self.show_s(s) for s in r.metric_updates) + '|alert ' + j(self.show_s(s) for s in r.alert_updates)
                + '|comp ' + j(self.show_s(s) for s in r.comp_updates) + '|ctx ' + j(self.show_c(s) for s in r.ctxt_updates)
                + '|op ' + j(self.show_s(s) for s in r.op_updates) + '|rt ' + j(self.show_s(s) for s in r.rt_updates))

    def load_lines(self):
        m = self.mdib
        lines = ['reset', f'ver {m.mdib_version}']
        # intern handles in a stable order
        for d in sorted(m.descriptions.objects, key=lambda d: d.Handle):
            self.hid(d.Handle)
        # table order of the model = DFS pre-order over the parent_handle index lists, so that the model's
        # `childrenOf` / `ctxOf` enumerate in the order of the real index lists (set iteration order is arbitrary)
        ordered = []

        def walk(parent):
            for d in list(m.descriptions.parent_handle.get(parent, [])):
                ordered.append(d)
                walk(d.Handle)
        walk(None)
        seen = {id(d) for d in ordered}
        ordered += [d for d in m.descriptions.objects if id(d) not in seen]   # descriptors not reachable from a root
        lines += ['d ' + self.show_d(d).replace(',', ' ') for d in ordered]
        lines += ['s ' + self.show_s(s).replace(',', ' ') for s in m.states.objects]
        cord = []
        for d in ordered:
            cord += list(m.context_states.descriptor_handle.get(d.Handle, []))
        seen = {id(c) for c in cord}
        cord += [c for c in m.context_states.objects if id(c) not in seen]
        lines += ['c ' + self.show_c(c).replace(',', ' ') for c in cord]
        for ln in lines:
            self.emit(ln, 'ok')
        self.emit('dump', self.real_dump())

    def emit(self, line, expected=None):
        self.model_lines.append(line)
        self.expected.append(expected)

    # ---------------- mutators (the application's writes into handed-out objects); n selects the value
    @staticmethod
    def dec(n):
        """decimal values in the forms applications produce: integers, fractions, trailing zeros, tiny and negative values"""
        return [Decimal(n), Decimal(n) / 1000, Decimal(f'{n % 97 + 1}E-9'), Decimal(f'{n % 90 + 10}0.0'), Decimal(f'-{n % 50 + 1}E-7'),
                Decimal(f'{n}.500'), Decimal(n * 1000)][n % 7]

    _TYPED_SKIP = {'Handle', 'DescriptorHandle', 'DescriptorVersion', 'StateVersion', 'BindingMdibVersion', 'UnbindingMdibVersion',
                   'BindingStartTime', 'BindingEndTime', 'DateAndTime', 'DeterminationTime', 'OperatingHours'}

    def typed_extra(self, obj, n):
        """Type-directed part of the mutators: one of the object's own attribute properties of a plain type (integer, boolean,
        timestamp, decimal) gets a value, or - if it is optional - is cleared. Every class contributes the attributes only it
        has (ClockState.LastSet, BatteryState capacities, ...), not just the members all classes of a kind share."""
        attrs = self.typed_attrs(obj)
        if not attrs:
            return
        name, kind, required = attrs[(n // 3) % len(attrs)]
        if n % 7 == 6 and not required:
            setattr(obj, name, None)
        elif kind == 'b':
            setattr(obj, name, n % 2 == 0)
        elif kind == 'i':
            setattr(obj, name, n % 5000)
        elif kind == 't':
            setattr(obj, name, float(1500000000 + n))    # (seconds as float, the type the reader produces)
        else:
            setattr(obj, name, Decimal(n % 1000))

    def typed_attrs(self, obj):
        # which attributes a class has is taken from the bundled XML schema, not from the class's own property list (a property
        # the class forgot to list would otherwise never be written)
        global _XSD
        if _XSD is None:
            import xsdtable
            _XSD = xsdtable.XsdTable()
        xsd, pmns = '{http://www.w3.org/2001/XMLSchema}', '{http://standards.ieee.org/downloads/11073/11073-10207-2017/participant}'
        kinds = {xsd + 'boolean': 'b', xsd + 'int': 'i', xsd + 'unsignedInt': 'i', xsd + 'long': 'i', xsd + 'unsignedLong': 'i',
                 xsd + 'decimal': 'd', pmns + 'Timestamp': 't'}
        tname = f'{{{obj.NODETYPE.namespace}}}{obj.NODETYPE.localname}'
        if tname not in _XSD.types:
            return []
        return [(a[0], kinds[a[1]], a[2]) for a in _XSD.flatten(tname)[1]
                if a[1] in kinds and a[0] not in self._TYPED_SKIP and hasattr(type(obj), a[0])]

    def mutate_state(self, st, n):
        self.typed_extra(st, n)
        k = kind_of(st)
        pm = self.mdib.data_model.pm_types
        if k == 'metric':
            if st.MetricValue is None:
                st.mk_metric_value()
            if hasattr(st.MetricValue, 'Value') and st.NODETYPE.localname == 'NumericMetricState':
                st.MetricValue.Value = self.dec(n)
            else:
                st.MetricValue.Value = f'v{n}'
        elif k == 'rt':
            if st.MetricValue is None:
                st.mk_metric_value()
            # sometimes a value without samples (sensor failure: validity changes, no samples)
            st.MetricValue.Samples = [] if n % 5 == 0 else [self.dec(n), self.dec(n + 1), self.dec(n + 2)]
            if n % 5 == 0:
                st.MetricValue.MetricQuality.Validity = pm.MeasurementValidity.INVALID
        elif k == 'alert':
            vals = list(pm.AlertActivation)
            st.ActivationState = vals[n % len(vals)]
            if hasattr(st, 'ActualPriority') and n % 2:
                pr = list(pm.AlertConditionPriority)
                st.ActualPriority = pr[n % len(pr)]
        elif k == 'component':
            st.OperatingHours = n
        elif k == 'operational':
            vals = list(pm.OperatingMode)
            st.OperatingMode = vals[n % len(vals)]
        elif k == 'context':
            st.Identification = [pm.InstanceIdentifier(root='urn:verif', extension_string=str(n))]

    def mutate_descr(self, d, n):
        pm = self.mdib.data_model.pm_types
        vals = list(pm.SafetyClassification)
        d.SafetyClassification = vals[n % len(vals)] if n % 5 != 4 else None     # (an optional attribute is also cleared again)
        self.typed_extra(d, n)
        if n % 3 == 0:
            d.Type = pm.CodedValue(str(n), 'urn:verif')
        # members the tables are indexed by (descriptions.source / condition_signaled)
        if hasattr(d, 'Source') and isinstance(getattr(d, 'Source', None), list) and n % 2:
            ms = self.states_of_kind('metric')
            d.Source = [ms[n % len(ms)], ms[(n // 2) % len(ms)]][:1 + n % 2] if ms else []
        if hasattr(d, 'ConditionSignaled') and n % 2:
            conds = sorted(x.Handle for x in self.mdib.descriptions.objects if hasattr(x, 'Source') and x.NODETYPE.localname.endswith('ConditionDescriptor'))
            if conds:
                d.ConditionSignaled = conds[n % len(conds)]

    # ---------------- handle selection
    def states_of_kind(self, kind):
        return sorted(s.DescriptorHandle for s in self.mdib.states.objects if kind_of(s) == kind)

    def descr_handles(self, pred=lambda d: True):
        return sorted(d.Handle for d in self.mdib.descriptions.objects if pred(d))

    def pick(self, pool):
        """choose from pool, preferring recently touched handles"""
        r = self.rng
        hot = [h for h in self.hot if h in pool]
        z = r.random()
        if hot and z < 0.45:
            h = r.choice(hot)
        elif z < 0.7:
            # class-balanced: first a descriptor class that occurs in the pool, then one of its instances (a class with a
            # single instance among dozens of numeric metrics is met as often as any other)
            by_cls = {}
            for x in pool:
                d = self.mdib.descriptions.handle.get_one(x, allow_none=True)
                by_cls.setdefault(type(d).__name__, []).append(x)
            h = r.choice(by_cls[r.choice(sorted(by_cls))])
        else:
            h = r.choice(pool)
        if h in self.hot:
            self.hot.remove(h)
        self.hot.append(h)
        del self.hot[:-6]
        return h

    def _outdated(self, h):
        ent = self.stale_entities[h]
        d = self.mdib.descriptions.handle.get_one(h, allow_none=True)
        if d is None:
            return False
        if d.DescriptorVersion != ent.descriptor.DescriptorVersion:
            return True
        if not ent.is_multi_state:
            st = self.mdib.states.descriptor_handle.get_one(h, allow_none=True)
            return st is not None and st.StateVersion != ent.state.StateVersion
        return False

    def pick_remember(self):
        """An application fetches entities now and may write them (much) later: which ones (hot ones preferred). The choice is
        part of the script (replays repeat it); the copies are taken when the script is executed."""
        r = self.rng
        pool = self.descr_handles(lambda d: d.parent_handle is not None)
        out = []
        for _ in range(2):
            if not pool:
                break
            hot = [h for h in self.hot if h in pool]
            ctx = [h for h in pool if self.mdib.context_states.descriptor_handle.get(h)]
            if ctx and r.random() < 0.3:
                out.append(r.choice(ctx))       # a context descriptor that has states (multi-state entity)
            else:
                out.append(r.choice(hot) if (hot and r.random() < 0.6) else r.choice(pool))
        return out

    def remember_entities(self, handles):
        m = self.mdib
        for h in handles:
            try:
                ent = m.entities.by_handle(h)
            except KeyError:
                continue
            if ent is None:
                continue
            if ent.is_multi_state:
                self.stale_entities[h] = type(ent)(m, copy.deepcopy(ent.descriptor), copy.deepcopy(list(ent.states.values())))
            else:
                self.stale_entities[h] = type(ent)(m, copy.deepcopy(ent.descriptor), copy.deepcopy(ent.state))

    # ---------------- script generation (type/state directed, 80 % enabled ops)
    def class_sweep_scripts(self):
        """Directed history: one instance of every descriptor class of this MDIB goes through every route of the transaction API
        (state transaction get / write_entity, descriptor transaction get+get_state / write_entity, and for leaves remove,
        re-create with the same handle, write_entity again). The random histories meet rare classes too seldom."""
        m = self.mdib
        r = self.rng
        by_cls = {}
        for d in sorted(m.descriptions.objects, key=lambda d: d.Handle):
            if d.parent_handle is None:
                continue
            leaf = not m.descriptions.parent_handle.get(d.Handle)
            cur = by_cls.get(type(d).__name__)
            if cur is None or (leaf and not cur[1]):
                by_cls[type(d).__name__] = (d.Handle, leaf, d.is_context_descriptor)
        out = []

        def sc(tx, calls, **kw):
            out.append({'tx': tx, 'catch': False, 'raise': False, 'calls': calls, **kw})
        for _name, (h, leaf, is_ctx) in sorted(by_cls.items()):
            n = r.randrange(1000)
            st = m.states.descriptor_handle.get_one(h, allow_none=True)
            if st is not None:
                sc('S', [['get', h], ['setBody', h, n]], kind=kind_of(st))
                sc('S', [['write', h, n + 1, False]], kind=kind_of(st))
                # every plain attribute the schema gives this state class is written once
                na = len(self.typed_attrs(st))
                for k in range(na):
                    nk = 3 * k + 3 * na * r.randrange(40)
                    sc('S', [['get', h], ['setBody', h, nk + (1 if nk % 7 == 6 else 0)]], kind=kind_of(st))
            sc('D', [['getDescr', h], ['setDescrBody', h, n + 2]] + ([] if is_ctx else [['getState', h], ['setStateBody', h, n + 3]]))
            nd = len(self.typed_attrs(m.descriptions.handle.get_one(h)))
            for k in range(nd):
                nk = 3 * k + 3 * nd * r.randrange(40)
                sc('D', [['getDescr', h], ['setDescrBody', h, nk + (1 if nk % 7 == 6 else 0)]])
            sc('D', [['writeEntity', h, n + 4, 'add' if is_ctx else 'keep', False]], remember=[h])
            if is_ctx:
                # the life of one context state handle: created, updated through both interfaces, deleted, and brought back
                # through every route that creates a state
                c = f'sw_{h}'
                sc('C', [['mk', h, c, True, False, n]])
                sc('C', [['writeUpd', c, n + 1, False]])
                sc('C', [['get', c], ['setBody', c, n + 2]])
                sc('C', [['del', c]])
                sc('C', [['writeNew', h, c, n + 3]])
                sc('C', [['del', c]])
                sc('C', [['mk', h, c, True, True, n + 4]])
                sc('C', [['del', c]])
                sc('C', [['addState', h, c, n + 5]])
                # states of one descriptor in every association stage (also unbound ones), then the descriptor changes: every one
                # of them follows its version
                sc('C', [['mk', h, c + '_a', True, True, n + 6], ['mk', h, c + '_p', True, False, n + 7]])
                sc('C', [['disassociateAll', h, None]])
                sc('C', [['mk', h, c + '_b', True, True, n + 8], ['get', c + '_p'], ['setAssoc', c + '_p', 'pre']])
                sc('D', [['getDescr', h], ['setDescrBody', h, n + 9]])
                sc('D', [['writeEntity', h, n + 10, 'keep', False]])
            if leaf:
                sc('D', [['removeDescr', h]])
                sc('D', [['addDescr', h, None, True]])
                sc('D', [['writeEntity', h, n + 5, 'keep', False]])
                if st is not None:
                    sc('S', [['write', h, n + 6, True]], kind=kind_of(st))     # the entity fetched before the re-creation
        return out

    def gen_script(self):
        r = self.rng
        remember = self.pick_remember() if r.random() < 0.4 else []
        x = r.random()
        tx = 'S' if x < 0.5 else ('C' if x < 0.7 else 'D')
        script = {'tx': tx, 'catch': r.random() < 0.15, 'raise': r.random() < 0.12, 'calls': []}
        if remember:
            script['remember'] = remember
        if tx == 'S':
            kind = r.choice(STATE_KINDS)
            script['kind'] = kind
            own = self.states_of_kind(kind)
            other = self.states_of_kind(r.choice([k for k in STATE_KINDS if k != kind]))
            got = []
            for _ in range(r.choice([0, 1, 1, 2, 2, 3, 5])):
                y = r.random()
                pool = own if (y < 0.85 and own) else (other or own or ['nohandle'])
                if y > 0.97:
                    pool = ['nohandle', '']
                h = self.pick(pool)
                z = r.random()
                if z < 0.55:
                    script['calls'].append(['get', h])
                    if h in own and h not in got:
                        got.append(h)
                        if r.random() < 0.85:
                            script['calls'].append(['setBody', h, r.randrange(1000)])
                elif z < 0.65 and got:
                    script['calls'].append(['unget', r.choice(got)])
                elif z < 0.75 and got:
                    script['calls'].append(['setBody', r.choice(got), r.randrange(1000)])
                elif z < 0.9:
                    # entity interface; sometimes with an entity that was fetched earlier and is outdated by now
                    ripe = [x for x in self.stale_entities if x in own and self._outdated(x)]
                    if ripe and r.random() < 0.35:
                        script['calls'].append(['write', r.choice(ripe), r.randrange(1000), True])
                    else:
                        script['calls'].append(['write', h, r.randrange(1000), h in self.stale_entities and r.random() < 0.4])
                else:
                    # write_entities: mostly homogeneous, sometimes a wrong-type / multi-state entity somewhere in the list
                    hs = [r.choice(own) for _ in range(r.choice([1, 2, 3]))] if own else []
                    if r.random() < 0.5:
                        cds = self.descr_handles(lambda d: d.is_context_descriptor)
                        bad = r.choice((other or ['nohandle']) + cds[:1])
                        hs.insert(r.randrange(len(hs) + 1), bad)
                    if hs:
                        script['calls'].append(['writeMany', hs, r.randrange(1000)])
        elif tx == 'C':
            cds = self.descr_handles(lambda d: d.is_context_descriptor)
            chs = sorted(c.Handle for c in self.mdib.context_states.objects)
            got = []
            alld = set(self.descr_handles())
            orphaned = sorted(h for h, e in self.stale_entities.items() if e.is_multi_state and h not in alld)
            for _ in range(r.choice([0, 1, 1, 2, 3, 4])):
                z = r.random()
                if orphaned and r.random() < 0.2:
                    # entity interface with an entity fetched before its descriptor was removed: a new state for it
                    script['calls'].append(['writeNew', r.choice(orphaned), f'as{self.new_n}', r.randrange(1000)])
                    self.new_n += 1
                elif z < 0.3 and cds:
                    dh = r.choice(cds) if r.random() < 0.9 else r.choice(self.descr_handles())
                    explicit = r.random() < 0.5
                    gone = sorted(x for x in self.mdib.context_states.handle_version_lookup if x not in chs)
                    if explicit:
                        y = r.random()
                        # the handle of an existing state (of any descriptor), of a deleted state, or a new one
                        h = r.choice(chs) if (chs and y < 0.3) else r.choice(gone) if (gone and y < 0.6) else f'cs{self.new_n}'
                    else:
                        h = f'uuid{self.new_n}'
                    self.new_n += 1
                    script['calls'].append(['mk', dh, h, explicit, r.random() < 0.5, r.randrange(1000)])
                    got.append(h)
                elif z < 0.6 and chs:
                    h = r.choice(chs) if r.random() < 0.93 else 'nohandle'
                    script['calls'].append(['get', h])
                    if h in chs and h not in got:
                        got.append(h)
                        if r.random() < 0.8:
                            script['calls'].append(['setBody', h, r.randrange(1000)])
                elif z < 0.66 and chs:
                    # entity interface: update an existing context state through write_entity, possibly with an entity fetched
                    # earlier (preferably one whose descriptor was changed since)
                    ripe = [c.Handle for c in self.mdib.context_states.objects
                            if c.DescriptorHandle in self.stale_entities and self._outdated(c.DescriptorHandle)]
                    if ripe and r.random() < 0.7:
                        script['calls'].append(['writeUpd', r.choice(sorted(ripe)), r.randrange(1000), True])
                    else:
                        script['calls'].append(['writeUpd', r.choice(chs), r.randrange(1000), r.random() < 0.5])
                elif z < 0.7 and got:
                    script['calls'].append(['setBody', r.choice(got), r.randrange(1000)])
                elif z < 0.8 and got:
                    script['calls'].append(['setAssoc', r.choice(got), r.choice(['no', 'pre', 'assoc', 'dis'])])
                elif z < 0.88 and cds:
                    script['calls'].append(['disassociateAll', r.choice(cds), r.choice([None] + chs[:2])])
                elif z < 0.95 and cds:
                    # add_state with a container built by the application; sometimes with the handle of an existing state
                    h = r.choice(chs) if (chs and r.random() < 0.35) else f'as{self.new_n}'
                    self.new_n += 1
                    which = r.choice(['addState', 'writeNew'])
                    gone_now = sorted(x for x in self.mdib.context_states.handle_version_lookup if x not in chs)
                    if which == 'writeNew' and gone_now and r.random() < 0.4:
                        h = r.choice(gone_now)        # the handle of a deleted state comes back through the entity interface
                    anonymous = which == 'addState' and r.random() < 0.25
                    if anonymous:
                        h = f'uuid{self.new_n}'      # a container without Handle: the transaction has to give it one
                        self.new_n += 1               # (generated handles are fresh)
                    script['calls'].append([which, r.choice(cds), h, r.randrange(1000)] + ([True] if anonymous else []))
                    got.append(h)
                elif chs:
                    script['calls'].append(['del', r.choice(chs) if r.random() < 0.8 else 'nohandle'])
        else:
            self._gen_descr_calls(script)
        return script

    def _gen_descr_calls(self, script):
        r = self.rng
        alld = self.descr_handles()
        leafish = self.descr_handles(lambda d: d.parent_handle is not None
                                     and d.NODETYPE.localname not in ('MdsDescriptor', 'SystemContextDescriptor', 'ScoDescriptor'))
        templates = [h for h in leafish if not self.mdib.descriptions.handle.get_one(h).is_context_descriptor]
        intx = []
        for _ in range(r.choice([1, 1, 2, 2, 3, 4])):
            z = r.random()
            if z < 0.3 and leafish:
                multi = [d for d in leafish if len(self.mdib.context_states.descriptor_handle.get(d, [])) >= 2]
                withstates = [d for d in leafish if self.mdib.context_states.descriptor_handle.get(d)]
                if multi and r.random() < 0.3:
                    h = r.choice(multi)      # a context descriptor with several context states: all of them follow the descriptor
                elif withstates and r.random() < 0.15:
                    h = r.choice(withstates)
                else:
                    h = self.pick(leafish) if r.random() < 0.95 else 'nohandle'
                script['calls'].append(['getDescr', h])
                if h in alld and h not in intx:
                    intx.append(h)
                    if r.random() < 0.8:
                        script['calls'].append(['setDescrBody', h, r.randrange(1000)])
                    if r.random() < 0.5:
                        script['calls'].append(['getState', h])
                        if r.random() < 0.8:
                            script['calls'].append(['setStateBody', h, r.randrange(1000)])
                    elif r.random() < 0.12:
                        # add_state of a fresh container for a descriptor (of this transaction) whose state exists in the mdib
                        script['calls'].append(['addStateDup', h])
            elif z < 0.34 and leafish:
                # remove a descriptor that has several states (context descriptor with >= 2 context states), or its parent
                multi = [d for d in leafish if len(self.mdib.context_states.descriptor_handle.get(d, [])) >= 2]
                held = [d for d in leafish if d in self.stale_entities and self.stale_entities[d].is_multi_state]
                if held and r.random() < 0.5:
                    # ... or one an application still holds an entity of (it may write that entity later)
                    script['calls'].append(['removeDescr', r.choice(held)])
                elif multi:
                    script['calls'].append(['removeDescr', self.pick(multi)])
                else:
                    script['calls'].append(['removeDescr', self.pick(leafish)])
            elif z < 0.5 and leafish:
                # remove: mostly leaves (metrics / alert conditions / operations), sometimes an inner node
                leaves = [h for h in leafish if not self.mdib.descriptions.parent_handle.get(h)]
                pool = leaves if (leaves and r.random() < 0.75) else leafish
                script['calls'].append(['removeDescr', self.pick(pool)])
            elif z < 0.8 and r.random() < 0.3 and templates:
                # entity interface: create through entities.new_entity + write_entity / write_entities (a new node, or a new
                # channel-like parent together with a new child, handed over child first), or remove through remove_entity
                y = r.random()
                if y < 0.45:
                    h = r.choice(sorted(self.removed_descr)) if (self.removed_descr and r.random() < 0.4) else f'ne{self.new_n}'
                    self.new_n += 1
                    script['calls'].append(['newEntity', h, r.choice(templates), r.randrange(1000)])
                elif y < 0.75:
                    inner = [h for h in leafish if self.mdib.descriptions.parent_handle.get(h)
                             and not self.mdib.descriptions.handle.get_one(h).is_context_descriptor]
                    if inner:
                        script['calls'].append(['newEntities', f'np{self.new_n}', r.choice(inner), f'nc{self.new_n}', r.choice(templates),
                                                r.choice(templates) if r.random() < 0.5 else None, r.randrange(1000)])
                        self.new_n += 1
                else:
                    script['calls'].append(['removeEntity', self.pick(leafish)])
            elif z < 0.8:
                # add: re-create a removed descriptor (same handle) or clone a template under the same parent
                if self.removed_descr and r.random() < 0.5:
                    ctxs = sorted(x for x, (d_, _s) in self.removed_descr.items() if d_.is_context_descriptor)
                    h = r.choice(ctxs) if (ctxs and r.random() < 0.5) else r.choice(sorted(self.removed_descr))
                    script['calls'].append(['addDescr', h, None, r.random() < 0.85])
                elif templates:
                    tmpl = r.choice(templates)
                    script['calls'].append(['addDescr', f'new{self.new_n}', tmpl, r.random() < 0.85])
                    self.new_n += 1
            elif z < 0.9 and intx:
                script['calls'].append(['getState', r.choice(intx + alld[:1])])
            elif z < 0.92 and alld:
                # entity interface: write an existing entity (single or multi state), possibly dropping / adding a context state
                cds = self.descr_handles(lambda d: d.is_context_descriptor)
                stale = r.random() < 0.45
                have = [h for h in self.stale_entities if h in alld]
                # entities that really are outdated (the descriptor or a state was changed since they were fetched) first
                ripe = [h for h in have if self._outdated(h)]
                if stale and have:
                    h = r.choice(ripe) if (ripe and r.random() < 0.8) else r.choice(have)
                    how = r.choice(['keep', 'drop', 'add']) if h in cds else 'keep'
                    script['calls'].append(['writeEntity', h, r.randrange(1000), how, True])
                elif cds and r.random() < 0.4:
                    script['calls'].append(['writeEntity', self.pick(cds), r.randrange(1000), r.choice(['keep', 'drop', 'add', 'add', 'hijack']), stale])
                elif templates:
                    script['calls'].append(['writeEntity', self.pick(templates), r.randrange(1000), 'keep', stale])
            elif z < 0.94 and leafish:
                # two removals on one path of the tree, in either order
                h = r.choice(leafish)
                anc = []
                d = self.mdib.descriptions.handle.get_one(h, allow_none=True)
                while d is not None and d.parent_handle is not None:
                    d = self.mdib.descriptions.handle.get_one(d.parent_handle, allow_none=True)
                    if d is not None and d.parent_handle is not None:
                        anc.append(d.Handle)
                if anc:
                    pair = [h, r.choice(anc)]
                    r.shuffle(pair)
                    script['calls'] += [['removeDescr', pair[0]], ['removeDescr', pair[1]]]
            elif z < 0.95 and templates:
                # several children of one parent are created / removed in one transaction (the parent itself is not touched)
                tmpl = r.choice(templates)
                par = self.mdib.descriptions.handle.get_one(tmpl).parent_handle
                sibs = [x for x in templates if self.mdib.descriptions.handle.get_one(x).parent_handle == par]
                for _k in range(r.choice([2, 2, 3])):
                    if r.random() < 0.6:
                        script['calls'].append(['addDescr', f'new{self.new_n}', r.choice(sibs), r.random() < 0.85])
                        self.new_n += 1
                    else:
                        script['calls'].append(['removeDescr', r.choice(sibs)])
            elif z < 0.965 and templates:
                # a node is removed and something is created below it (or below one of its descendants), in either order: the
                # commit-time consistency check has to refuse the transaction as a whole
                tmpl = r.choice(templates)
                anc = []
                d = self.mdib.descriptions.handle.get_one(tmpl, allow_none=True)
                while d is not None and d.parent_handle is not None:
                    d = self.mdib.descriptions.handle.get_one(d.parent_handle, allow_none=True)
                    if d is not None and d.parent_handle is not None:
                        anc.append(d.Handle)
                if anc:
                    pair = [['removeDescr', anc[0] if r.random() < 0.6 else r.choice(anc)], ['addDescr', f'new{self.new_n}', tmpl, r.random() < 0.85]]
                    self.new_n += 1
                    r.shuffle(pair)
                    script['calls'] += pair
            elif alld:
                # related objects: parent of something already in the transaction
                cand = [self.mdib.descriptions.handle.get_one(h, allow_none=True) for h in intx]
                par = [d.parent_handle for d in cand if d is not None and d.parent_handle in leafish]
                if par:
                    script['calls'].append([r.choice(['getDescr', 'removeDescr']), r.choice(par)])

    # ---------------- execution on the real code
    def execute(self, script):
        """Run one script on the real ProviderMdib. Returns dict(outcome, error, result, handed_out, tx_items)."""
        m = self.mdib
        tx = script['tx']
        self.remember_entities(script.get('remember', []))
        self.emit('begin ' + (f"S {script['kind']}" if tx == 'S' else tx), 'ok')
        info = {'outcome': None, 'error': None, 'handed': {}, 'calls_rejected': 0}
        prev_result = m.transaction
        ctxmgr = {'S': lambda: getattr(m, {'metric': 'metric_state_transaction', 'alert': 'alert_state_transaction',
                                           'component': 'component_state_transaction', 'operational': 'operational_state_transaction',
                                           'rt': 'rt_sample_state_transaction'}[script.get('kind', 'metric')])(),
                  'C': m.context_state_transaction, 'D': m.descriptor_transaction}[tx]
        in_call = [False]
        try:
            with ctxmgr() as mgr:
                if hasattr(mgr, 'write_entity'):
                    # entities come from `mdib.entities` (by_handle / new_entity): the application keeps them after it has written them
                    _orig_we = mgr.write_entity

                    def _we(entity, *a, **k):
                        info.setdefault('entities', []).append(entity)
                        return _orig_we(entity, *a, **k)
                    mgr.write_entity = _we
                for call in script['calls']:
                    self.clock.t += 1
                    try:
                        in_call[0] = True
                        self._do_call(tx, mgr, call, info)
                        in_call[0] = False
                    except tuple(ERR) as ex:
                        in_call[0] = False
                        info['calls_rejected'] += 1
                        if not script['catch']:
                            info['error'] = ERR[next(c for c in ERR if isinstance(ex, c))]
                            raise
                self.clock.t += 1
                if script['raise']:
                    info['propagating'] = True
                    raise AppAbort
                info['n_items'] = self._n_items(mgr)
        except AppAbort:
            info['outcome'] = 'aborted'
        except Exception as ex:  # noqa: BLE001
            if info['error'] is not None:
                info['outcome'] = 'rejected'
            else:
                info['outcome'] = 'commit-failed'
                info['error'] = repr(ex)
        else:
            swallowed = 'n_items' not in info    # the body was left by an exception that never arrived here
            info['outcome'] = 'committed' if (info.get('n_items') or (swallowed and m.transaction is not prev_result)) else 'empty'
            if swallowed or info['error'] is not None or info.get('propagating'):
                # an exception left the body of the `with` (a call the API rejected and the application did not catch, or the
                # application's own exception), but the transaction manager did not let it through: the body was executed
                # half-way and the transaction went on as if nothing had happened
                info.setdefault('isolation_failures', []).append(
                    ('exception-in-transaction-body-swallowed', f'{info["error"] or "application exception"} did not reach the application; '
                                                               f'the transaction ended as {info["outcome"]}'))
        res = m.transaction if (m.transaction is not prev_result) else None
        info['result'] = res
        if info['outcome'] in ('aborted', 'rejected'):
            res_str = self.show_result(None)
        elif info['outcome'] == 'commit-failed':
            res_str = self.show_result(None)
        else:
            res_str = self.show_result(res)
        self.emit(f"end {int(script['catch'])} {int(script['raise'])}", f"{info['outcome']} {res_str}")
        if self.late_writes:
            self._late_writes(info, res)
        # bookkeeping for re-creation of removed descriptors
        self.emit('dump', self.real_dump())
        return info

    def _late_writes(self, info, res):
        """The application keeps what it was handed and writes into it after the transaction ended; it also
        writes into the objects of the TransactionResult it observed. None of this may reach the MDIB."""
        n = 7000 + len(self.model_lines)
        snap0 = lb.snapshot(self.mdib)
        published = []
        if res is not None:
            for lst in (res.metric_updates, res.alert_updates, res.comp_updates, res.ctxt_updates, res.op_updates, res.rt_updates):
                published += list(lst)
        # remember what this commit published (first), then scribble over the handed-out objects
        for st in published:
            self.retained.append(('result-state', st, lb.canon_value(st)))
        for key, obj in list(info['handed'].items()):
            if obj is None:
                continue
            if key.startswith('D:'):
                self.mutate_descr(obj, n)
                deep_scribble(obj)
            else:
                self.mutate_state(obj, n)
                deep_scribble(obj)
        for ent in info.get('entities', []):
            self.mutate_descr(ent.descriptor, n + 2)
            deep_scribble(ent.descriptor)
            for st in (list(ent.states.values()) if ent.is_multi_state else [ent.state]):
                if st is not None:
                    self.mutate_state(st, n + 2)
                    deep_scribble(st)
        # published copies must not have changed through the handed-out objects
        for label, obj, before in self.retained[-len(published):] if published else []:
            if lb.canon_value(obj) != before:
                info.setdefault('isolation_failures', []).append(
                    ('published-result-changed-by-handed-out-object', f'{label} {getattr(obj, "DescriptorHandle", "")}'))
        # and now scribble over the result objects as well (a second observer would see them; the MDIB must not)
        if self.scribble_results:
            for st in published:
                deep_scribble(st)
            if res is not None:
                for d in list(res.descr_updated) + list(res.descr_created) + list(res.descr_deleted):
                    self.mutate_descr(d, n + 1)
                    deep_scribble(d)
        snap1 = lb.snapshot(self.mdib)
        if snap1 != snap0:
            info.setdefault('isolation_failures', []).append(
                ('late-write-changed-mdib', 'writing into handed-out / result objects after the transaction changed the MDIB: '
                 + '; '.join(lb.diff_snapshots(snap0, snap1)[:3])))
        undo_empty_appends()

    @staticmethod
    def _n_items(mgr):
        return sum(len(getattr(mgr, n)) for n in ('descriptor_updates', 'metric_state_updates', 'alert_state_updates',
                                                   'component_state_updates', 'context_state_updates',
                                                   'operational_state_updates', 'rt_sample_state_updates')) \
            if not hasattr(mgr, '_state_updates') else len(mgr._state_updates)  # noqa: SLF001

    def _do_call(self, tx, mgr, call, info):  # noqa: C901, PLR0912, PLR0915
        m = self.mdib
        op = call[0]
        H = self.hid
        if tx == 'S':
            if op == 'get':
                self.emit(f'get {H(call[1])}', 'ok')
                info['handed'][call[1]] = mgr.get_state(call[1])
            elif op == 'unget':
                st = info['handed'].get(call[1])
                if st is None:
                    return  # the application has no state object to pass to unget_state
                self.emit(f'unget {H(call[1])}', 'ok')
                mgr.unget_state(st)
            elif op == 'setBody':
                st = info['handed'].get(call[1])
                if st is None or call[1] not in mgr._state_updates or mgr._state_updates[call[1]].new is not st:  # noqa: SLF001
                    return  # nothing handed out (earlier call rejected / ungot / replaced by write_entity): no object of the tx to write to
                self.mutate_state(st, call[2])
                self.emit(f'setBody {H(call[1])} {self.sbody(st)}', 'ok')
            elif op == 'write':
                ent = None
                if len(call) > 3 and call[3] and m.descriptions.handle.get_one(call[1], allow_none=True) is not None:
                    old_ent = self.stale_entities.get(call[1])
                    if old_ent is not None and not old_ent.is_multi_state:
                        ent = type(old_ent)(m, copy.deepcopy(old_ent.descriptor), copy.deepcopy(old_ent.state))
                try:
                    if ent is None:
                        ent = m.entities.by_handle(call[1])
                except KeyError:
                    ent = None
                if ent is None:
                    return  # no entity to write (unknown handle / descriptor without state): not a call of the transaction API
                if ent.is_multi_state:
                    self.emit(f'write {H(call[1])} context 0 0 1', 'ok')
                else:
                    self.mutate_state(ent.state, call[2])
                    self.emit(f'write {H(call[1])} {kind_of(ent.state)} {ent.state.StateVersion} {self.sbody(ent.state)} 0', 'ok')
                mgr.write_entity(ent)
            elif op == 'writeMany':
                ents = []
                for h in call[1]:
                    try:
                        e = m.entities.by_handle(h)
                    except KeyError:
                        e = None
                    if e is not None and all(e.handle != x.handle for x in ents):
                        ents.append(e)
                if not ents:
                    return
                for e in ents:
                    if not e.is_multi_state:
                        self.mutate_state(e.state, call[2])
                # `write_entities` checks all entities before it writes any of them: the model sees either every single
                # write or one rejected call
                bad = next((e for e in ents if e.is_multi_state or kind_of(e.state) != mgr_kind(mgr)), None)
                if bad is not None:
                    self.emit(f'write {H(bad.handle)} context 0 0 1' if bad.is_multi_state else
                              f'write {H(bad.handle)} {kind_of(bad.state)} {bad.state.StateVersion} {self.sbody(bad.state)} 0', 'ok')
                else:
                    for e in ents:
                        self.emit(f'write {H(e.handle)} {kind_of(e.state)} {e.state.StateVersion} {self.sbody(e.state)} 0', 'ok')
                before = {k: id(v.new) for k, v in mgr._state_updates.items()}  # noqa: SLF001
                try:
                    mgr.write_entities(ents)
                except Exception:
                    after = {k: id(v.new) for k, v in mgr._state_updates.items()}  # noqa: SLF001
                    if after != before:
                        info.setdefault('isolation_failures', []).append(
                            ('rejected-call-changed-transaction', f'write_entities raised but registered {sorted(set(after) - set(before))}'))
                    raise
        elif tx == 'C':
            if op == 'get':
                self.emit(f'get {H(call[1])}', 'ok')
                info['handed'][call[1]] = mgr.get_context_state(call[1])
            elif op == 'mk':
                _, dh, h, explicit, assoc, n = call
                # body of the fresh container is only known after the call; compute it from a scratch instance
                d = m.descriptions.handle.get_one(dh, allow_none=True)
                body = 0
                if d is not None and d.is_context_descriptor:
                    scratch = m.data_model.mk_state_container(d)
                    scratch.Handle = h
                    body = self.sbody(scratch)
                self.emit(f'mk {H(dh)} {H(h)} {int(explicit)} {int(assoc)} {body} {int(self.clock.t)}', 'ok')
                import uuid as _uuid
                orig = self._tr.uuid
                self._tr.uuid = types.SimpleNamespace(uuid4=lambda: types.SimpleNamespace(hex=h))
                try:
                    st = mgr.mk_context_state(dh, h if explicit else None, set_associated=assoc)
                finally:
                    self._tr.uuid = orig
                info['handed'][h] = st
            elif op == 'addState':
                _, dh, h, n = call[:4]
                d = m.descriptions.handle.get_one(dh, allow_none=True)
                if d is None or not d.is_context_descriptor:
                    return
                st = m.data_model.mk_state_container(d)
                anonymous = len(call) > 4 and call[4]
                st.Handle = h
                st.descriptor_container = None
                self.mutate_state(st, n)
                # add_state(container) = mk_context_state with an explicit handle (or a generated one) + the content of the container
                self.emit(f'mk {H(dh)} {H(h)} {0 if anonymous else 1} 0 {self.sbody(st)} {int(self.clock.t)}', 'ok')
                if anonymous:
                    st.Handle = None
                    orig = self._tr.uuid
                    self._tr.uuid = types.SimpleNamespace(uuid4=lambda: types.SimpleNamespace(hex=h))
                    try:
                        mgr.add_state(st)
                    finally:
                        self._tr.uuid = orig
                else:
                    mgr.add_state(st)
                info['handed'][h] = st
            elif op == 'writeUpd':
                _, h, n, stale = call
                cur = m.context_states.handle.get_one(h, allow_none=True)
                if cur is None:
                    return
                dh = cur.DescriptorHandle
                ent = None
                old_ent = self.stale_entities.get(dh) if stale else None
                if old_ent is not None and old_ent.is_multi_state and h in old_ent.states:
                    o = old_ent.states[h]
                    same = (o.ContextAssociation, o.BindingMdibVersion, o.UnbindingMdibVersion, o.BindingStartTime, o.BindingEndTime) == \
                           (cur.ContextAssociation, cur.BindingMdibVersion, cur.UnbindingMdibVersion, cur.BindingStartTime, cur.BindingEndTime)
                    if same:    # (the model's calls cannot express a write of old binding fields; content and versions are what is stale)
                        ent = type(old_ent)(m, copy.deepcopy(old_ent.descriptor), copy.deepcopy(list(old_ent.states.values())))
                if ent is None:
                    ent = m.entities.by_handle(dh)
                st = ent.states[h]
                self.mutate_state(st, n)
                # write_entity of an existing context state = get_context_state + the content of the entity's state
                self.emit(f'get {H(h)}', 'ok')
                if h not in mgr._state_updates:  # noqa: SLF001  (otherwise both sides refuse the call)
                    self.emit(f'setBody {H(h)} {self.sbody(st)}', 'ok')
                    mgr.write_entity(ent, [h])
                else:
                    mgr.get_context_state(h)
            elif op == 'writeNew':
                # entity interface: a new context state (fresh handle, or the handle of a state of ANOTHER descriptor)
                _, dh, h, n = call
                if h in mgr._state_updates:  # noqa: SLF001
                    # write_entity REPLACES what the transaction already holds for this handle (mk_context_state refuses);
                    # the model has no call with that meaning, so the generator does not go there
                    return
                d = m.descriptions.handle.get_one(dh, allow_none=True)
                held = self.stale_entities.get(dh)
                if d is None and held is not None and held.is_multi_state:
                    # the descriptor has been removed since the application fetched the entity: the mdib has no such descriptor
                    # any more, the call has to be refused (model: `mk` for an unknown descriptor)
                    ent = type(held)(m, copy.deepcopy(held.descriptor), copy.deepcopy(list(held.states.values())))
                    if h in ent.states:
                        return
                    st = ent.new_state(h)
                    self.mutate_state(st, n)
                    self.emit(f'mk {H(dh)} {H(h)} 1 0 {self.sbody(st)} {int(self.clock.t)}', 'ok')
                    mgr.write_entity(ent, [h])
                    return
                if d is None or not d.is_context_descriptor:
                    return
                old = m.context_states.handle.get_one(h, allow_none=True)
                if old is not None and old.DescriptorHandle == dh:
                    return  # the entity itself refuses a second state with this handle; not a call of the transaction API
                ent = m.entities.by_handle(dh)
                st = ent.new_state(h)
                self.mutate_state(st, n)
                self.emit(f'mk {H(dh)} {H(h)} 1 0 {self.sbody(st)} {int(self.clock.t)}', 'ok')
                mgr.write_entity(ent, [h])
            elif op == 'setBody':
                st = info['handed'].get(call[1])
                if st is None or call[1] not in mgr._state_updates or mgr._state_updates[call[1]].new is not st:  # noqa: SLF001
                    return
                self.mutate_state(st, call[2])
                self.emit(f'setBody {H(call[1])} {self.sbody(st)}', 'ok')
            elif op == 'setAssoc':
                st = info['handed'].get(call[1])
                if st is None or call[1] not in mgr._state_updates or mgr._state_updates[call[1]].new is not st:  # noqa: SLF001
                    return
                pm = m.data_model.pm_types
                st.ContextAssociation = {'no': pm.ContextAssociation.NO_ASSOCIATION, 'pre': pm.ContextAssociation.PRE_ASSOCIATION,
                                         'assoc': pm.ContextAssociation.ASSOCIATED, 'dis': pm.ContextAssociation.DISASSOCIATED}[call[2]]
                self.emit(f'setAssoc {H(call[1])} {call[2]}', 'ok')
            elif op == 'disassociateAll':
                self.emit(f'disassociateAll {H(call[1])} {H(call[2])} {int(self.clock.t)}', 'ok')
                mgr.disassociate_all(call[1], call[2])
                for h, item in mgr._state_updates.items():  # noqa: SLF001
                    if item.new is not None:
                        info['handed'].setdefault(h, item.new)
            elif op == 'del':
                st = m.context_states.handle.get_one(call[1], allow_none=True)
                dh = st.DescriptorHandle if st is not None else next(iter(self.descr_handles(lambda d: d.is_context_descriptor)), None)
                ent = m.entities.by_handle(dh)
                if ent is None:
                    return
                ent.states.pop(call[1], None)
                self.emit(f'del {H(call[1])}', 'ok')
                mgr.write_entity(ent, [call[1]])
                if st is not None:
                    info.setdefault('asked_removed_ctx', []).append(call[1])
        else:
            if op == 'getDescr':
                self.emit(f'getDescr {H(call[1])}', 'ok')
                info['handed']['D:' + call[1]] = mgr.get_descriptor(call[1])
            elif op == 'removeDescr':
                self.emit(f'removeDescr {H(call[1])}', 'ok')
                mgr.remove_descriptor(call[1])
            elif op == 'getState':
                self.emit(f'getState {H(call[1])}', 'ok')
                info['handed']['S:' + call[1]] = mgr.get_state(call[1])
            elif op == 'setDescrBody':
                d = info['handed'].get('D:' + call[1])
                if d is None or call[1] not in mgr.descriptor_updates or mgr.descriptor_updates[call[1]].new is not d:
                    return
                self.mutate_descr(d, call[2])
                self.emit(f'setDescrBody {H(call[1])} {self.dbody(d)}', 'ok')
            elif op == 'setStateBody':
                st = info['handed'].get('S:' + call[1])
                if st is None or not any(call[1] in dct and dct[call[1]].new is st for dct in (
                        mgr.metric_state_updates, mgr.alert_state_updates, mgr.component_state_updates,
                        mgr.operational_state_updates, mgr.rt_sample_state_updates)):
                    return
                self.mutate_state(st, call[2])
                self.emit(f'setStateBody {H(call[1])} {self.sbody(st)}', 'ok')
            elif op == 'writeEntity':
                _, h, n, how = call[:4]
                stale = len(call) > 4 and call[4]
                ent = self.stale_entities.get(h) if stale else None
                if ent is not None and m.descriptions.handle.get_one(h, allow_none=True) is None:
                    ent = None
                if ent is None:
                    try:
                        ent = m.entities.by_handle(h)
                    except KeyError:
                        ent = None
                if ent is None:
                    return
                # what an application that fetched it now would still hold later
                if ent.is_multi_state:
                    self.stale_entities[h] = type(ent)(m, copy.deepcopy(ent.descriptor), copy.deepcopy(list(ent.states.values())))
                else:
                    self.stale_entities[h] = type(ent)(m, copy.deepcopy(ent.descriptor), copy.deepcopy(ent.state))
                self.mutate_descr(ent.descriptor, n)
                d = ent.descriptor
                head = f'writeEntity {H(d.Handle)} {H(d.parent_handle)} {kind_of(d)} {d.DescriptorVersion} {self.dbody(d)} {H(d.source_mds)}'
                if ent.is_multi_state and how == 'hijack':
                    foreign = sorted(s.Handle for s in m.context_states.objects if s.DescriptorHandle != h and s.Handle not in ent.states)
                    if foreign:
                        # a "new" state with the handle of a context state of another descriptor: the API has to refuse the
                        # call (model: creating what already exists = `addDescr` of an existing handle)
                        ent.new_state(foreign[0])
                        self.emit(f'addDescr {H(h)} {H(d.parent_handle)} {kind_of(d)} 0 0 - -', 'ok')
                        mgr.write_entity(ent)
                        return
                    how = 'add'
                if ent.is_multi_state:
                    if how == 'drop' and ent.states:
                        dropped = sorted(ent.states)[0]
                        ent.states.pop(dropped)
                        if m.context_states.handle.get_one(dropped, allow_none=True) is not None:
                            info.setdefault('asked_removed_ctx_pending', []).append(dropped)
                    elif how == 'add':
                        gone = sorted(x for x in m.context_states.handle_version_lookup
                                      if m.context_states.handle.get_one(x, allow_none=True) is None
                                      and x not in ent.states)   # (an entity fetched earlier may still hold a deleted state)
                        while (f'cs{self.new_n}' in m.context_states.handle_version_lookup or f'cs{self.new_n}' in ent.states
                               or m.context_states.handle.get_one(f'cs{self.new_n}', allow_none=True) is not None):
                            self.new_n += 1     # (replayed scripts carry handles of their own: never collide with them by accident)
                        st = ent.new_state(gone[n % len(gone)] if (gone and n % 5 < 2) else f'cs{self.new_n}')
                        self.new_n += 1
                        self.mutate_state(st, n)
                    for st in ent.states.values():
                        if how == 'keep':
                            self.mutate_state(st, n)
                    self.emit(head + ' multi ' + ' '.join(self.show_c(st) for st in ent.states.values()), 'ok')
                else:
                    self.mutate_state(ent.state, n)
                    self.emit(head + f' single {ent.state.StateVersion} {self.sbody(ent.state)}', 'ok')
                mgr.write_entity(ent)
                info.setdefault('asked_removed_ctx', []).extend(info.pop('asked_removed_ctx_pending', []))
            elif op == 'removeEntity':
                try:
                    ent = m.entities.by_handle(call[1])
                except KeyError:
                    ent = None
                if ent is None:
                    return
                self.emit(f'removeDescr {H(call[1])}', 'ok')
                mgr.remove_entity(ent)
            elif op in ('newEntity', 'newEntities'):
                def fresh(handle, tmpl_handle, parent=None):
                    t = m.descriptions.handle.get_one(tmpl_handle, allow_none=True)
                    if t is None:
                        return None
                    # (new_entity needs an existing parent: a child of a parent that is created in the same call gets its
                    #  parent handle afterwards)
                    e = m.entities.new_entity(t.NODETYPE, handle, t.parent_handle)
                    keep = (e.descriptor.Handle, parent if parent is not None else e.descriptor.parent_handle, e.descriptor.source_mds)
                    for name, _ in t.sorted_container_properties():
                        if name not in ('Handle', 'DescriptorVersion'):
                            setattr(e.descriptor, name, copy.deepcopy(getattr(t, name)))
                    e.descriptor.Handle, e.descriptor.parent_handle = keep[0], keep[1]
                    e.descriptor._source_mds = keep[2]  # noqa: SLF001
                    return e

                def line(e):
                    d = e.descriptor
                    return (f'writeEntity {H(d.Handle)} {H(d.parent_handle)} {kind_of(d)} {d.DescriptorVersion} {self.dbody(d)} {H(d.source_mds)}'
                            f' single {e.state.StateVersion} {self.sbody(e.state)}')
                if op == 'newEntity':
                    _, h, tmpl, n = call
                    if m.descriptions.handle.get_one(h, allow_none=True) is not None:
                        return
                    if h in self.removed_descr:
                        # a handle that comes back denotes the same kind of thing: same descriptor class as before
                        old_d = self.removed_descr[h][0]
                        if m.descriptions.handle.get_one(old_d.parent_handle, allow_none=True) is None:
                            return
                        e = m.entities.new_entity(old_d.NODETYPE, h, old_d.parent_handle)
                        for name, _p in old_d.sorted_container_properties():
                            if name not in ('Handle', 'DescriptorVersion'):
                                setattr(e.descriptor, name, copy.deepcopy(getattr(old_d, name)))
                    else:
                        e = fresh(h, tmpl)
                    if e is None or e.is_multi_state:
                        return
                    self.mutate_descr(e.descriptor, n)
                    self.mutate_state(e.state, n)
                    self.emit(line(e), 'ok')
                    mgr.write_entity(e)
                else:
                    _, ph, ptmpl, ch, ctmpl, extra, n = call
                    parent = fresh(ph, ptmpl)
                    if parent is None or parent.is_multi_state:
                        return
                    child = fresh(ch, ctmpl, parent=ph)
                    if child is None or child.is_multi_state:
                        return
                    child.descriptor._source_mds = parent.descriptor.source_mds  # noqa: SLF001  (the child lives where its parent lives)
                    ents = [child, parent]                     # child first: write_entities has to write the parent first
                    if extra is not None:
                        try:
                            x = m.entities.by_handle(extra)
                        except KeyError:
                            x = None
                        if x is not None and not x.is_multi_state:
                            self.mutate_state(x.state, n)
                            ents.insert(1, x)
                    for e in (child, parent):
                        self.mutate_descr(e.descriptor, n)
                    # the documented order: repeatedly, in the given order, everything whose parent is not still waiting
                    order, waiting = [], {e.handle: e for e in ents}
                    while waiting:
                        for hh, e in list(waiting.items()):
                            if not (e.parent_handle in waiting and e.parent_handle != hh):
                                order.append(e)
                                del waiting[hh]
                    for e in order:
                        self.emit(line(e), 'ok')
                        if e.handle in mgr.descriptor_updates:
                            break                               # this one is refused; the real call stops here, too
                    mgr.write_entities(ents)
            elif op == 'addStateDup':
                h = call[1]
                d = m.descriptions.handle.get_one(h, allow_none=True)
                if d is None:
                    return
                if d.is_context_descriptor:
                    olds = m.context_states.descriptor_handle.get(h, [])
                    if not olds:
                        return
                    st = copy.deepcopy(olds[0])     # same Handle as an existing context state
                else:
                    if m.states.descriptor_handle.get_one(h, allow_none=True) is None:
                        return
                    st = m.data_model.mk_state_container(d)
                st.descriptor_container = None
                # a second state object for something that has its state in the mdib: the API has to refuse the call.
                # (model: creating what already exists = `addDescr` of an existing handle, refused the same way)
                self.emit(f'addDescr {H(h)} {H(d.parent_handle)} {kind_of(d)} 0 0 - -', 'ok')
                mgr.add_state(st)
            elif op == 'addDescr':
                _, h, tmpl, with_state = call
                if tmpl is None:
                    if h not in self.removed_descr:
                        return
                    d, st = self.removed_descr[h]
                    d, st = copy.deepcopy(d), copy.deepcopy(st)
                else:
                    t = m.descriptions.handle.get_one(tmpl, allow_none=True)
                    if t is None:
                        return
                    d = copy.deepcopy(t)
                    d.Handle = h
                    d.DescriptorVersion = 0
                    st = None
                    if not d.is_context_descriptor:
                        st = m.data_model.mk_state_container(d)
                if d.is_context_descriptor and st is not None and with_state:
                    # a context descriptor comes back together with one of its context states (add_descriptor(d, state_container=s)):
                    # in the model that is the creation of a multi-state entity
                    if m.context_states.handle.get_one(st.Handle, allow_none=True) is not None:
                        return
                    mds = d.source_mds
                    d._source_mds = None  # noqa: SLF001
                    st.descriptor_container = None
                    par = d.parent_handle
                    if m.descriptions.handle.get_one(par, allow_none=True) is None and not (
                            par in mgr.descriptor_updates and mgr.descriptor_updates[par].new is not None):
                        # the parent is gone: add_descriptor cannot determine the source MDS and refuses the call before it looks
                        # at the state (model: `addDescr` without MDS)
                        self.emit(f'addDescr {H(d.Handle)} {H(par)} {kind_of(d)} {d.DescriptorVersion} {self.dbody(d)} - -', 'ok')
                        mgr.add_descriptor(d, state_container=st)
                        return
                    self.emit(f'writeEntity {H(d.Handle)} {H(d.parent_handle)} {kind_of(d)} {d.DescriptorVersion} {self.dbody(d)} {H(mds)}'
                              f' multi {self.show_c(st)}', 'ok')
                    mgr.add_descriptor(d, state_container=st)
                    return
                if d.is_context_descriptor or st is None:
                    with_state = False
                d._source_mds = None  # noqa: SLF001  (let the transaction determine it)
                if with_state:
                    st.DescriptorHandle = d.Handle
                    st.descriptor_container = None
                sb = self.sbody(st) if with_state else '-'
                self.emit(f'addDescr {H(d.Handle)} {H(d.parent_handle)} {kind_of(d)} {d.DescriptorVersion} {self.dbody(d)} - {sb}', 'ok')
                mgr.add_descriptor(d, state_container=st if with_state else None)

    def note_removed(self, before_descr, before_states, before_ctx=None):
        """Remember descriptors (and their single state / one of their context states) that vanished, for re-creation with
        the same handle."""
        now = {d.Handle for d in self.mdib.descriptions.objects}
        for h, d in before_descr.items():
            if h not in now and not d.is_context_descriptor:
                self.removed_descr[h] = (d, before_states.get(h))
            elif h not in now and before_ctx is not None:
                mine = sorted((c for c in before_ctx.values() if c.DescriptorHandle == h), key=lambda c: c.Handle)
                self.removed_descr[h] = (d, mine[0] if mine else None)
        for h in list(self.removed_descr):
            if h in now:
                del self.removed_descr[h]


def mgr_kind(mgr):
    return {'AlertStateTransaction': 'alert', 'MetricStateTransaction': 'metric', 'ComponentStateTransaction': 'component',
            'RtStateTransaction': 'rt', 'OperationalStateTransaction': 'operational'}.get(type(mgr).__name__)


def _sample_member(obj, name):
    """a value the list property `name` of `obj` accepts (declared value class; strings for the string / handle lists)"""
    prop = getattr(type(obj), name, None)
    vc = getattr(prop, 'value_class', None)
    if vc is str or 'String' in type(prop).__name__ or 'HandleRef' in type(prop).__name__ or 'RefList' in type(prop).__name__:
        return 'verif.late.write'
    if vc is Decimal or 'Decimal' in type(prop).__name__:
        return Decimal(7)
    if isinstance(vc, type):
        try:
            return vc()
        except Exception:  # noqa: BLE001
            return None
    return None


_EMPTY_APPENDS = []


def undo_empty_appends():
    """take the probe members out of the formerly empty lists again (after the snapshots were compared): the members are
    default-constructed and not valid content for a later commit"""
    while _EMPTY_APPENDS:
        _EMPTY_APPENDS.pop().clear()


def deep_scribble(obj, depth=0):
    """Write into every nested mutable object reachable through container properties (lists, sub-objects)."""
    if depth > 6 or not hasattr(obj, 'sorted_container_properties'):
        return
    for name, _ in obj.sorted_container_properties():
        try:
            val = getattr(obj, name)
        except Exception:  # noqa: BLE001
            continue
        if isinstance(val, list):
            for x in val:
                deep_scribble(x, depth + 1)
            if val:
                val.append(val[0])
            else:
                # an EMPTY list is shareable state too: put a member of the declared type into it
                x = _sample_member(obj, name)
                if x is not None:
                    val.append(x)
                    _EMPTY_APPENDS.append(val)
        elif hasattr(val, 'sorted_container_properties'):
            deep_scribble(val, depth + 1)
            for n2, _ in val.sorted_container_properties():
                v2 = getattr(val, n2, None)
                if isinstance(v2, str) and v2:
                    try:
                        setattr(val, n2, v2 + 'X')
                    except Exception:  # noqa: BLE001
                        pass
                    break
                if isinstance(v2, Decimal):
                    setattr(val, n2, v2 + 1)
                    break
