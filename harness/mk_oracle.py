"""Oracle for C11, reusable by the MDIB-level checks: do the lookups of a real `MultiKeyLookup` agree with a scan?

`table_problems(lookup)` recomputes every index of the table from `lookup.objects` with the *current* attribute
values (calling each index's `_get_key_func`, honouring `_index_none_values` and the three index classes) and
compares the result with the index dictionaries and with `_object_ids`. It does not use `mk_keys`, `_mk_indices` or any
other maintenance code of the table, and it does not use the Lean model.

Contract that is checked (nothing more):
  * for every index and key: the objects in `index[key]` are, as a multiset, exactly the stored objects whose current
    key set contains `key` (the order inside one list is insertion order and not part of the contract);
  * no key maps to an empty list (`key in index` / `index.get(key)` would disagree with a scan);
  * `_object_ids` has an entry for exactly the stored objects and lists exactly their filings (needed so that
    `remove_object` / `update_object` find everything);
  * no index list contains an object that is not in `objects`.
Call it when the table is quiescent (after a transaction / after a report has been processed). It takes the table's
lock, costs a few hundred key-function calls (about 3 ms for all three tables of a 100-descriptor MDIB) and returns []
when everything agrees. `mdib_problems(mdib, name)` does it for the three tables of a provider or consumer MDIB;
`table_problem_items` / `mdib_problem_items` give (`<table>.<index>`, message) pairs with a stable first component.
"""
from __future__ import annotations

from collections import Counter

from sdc11073 import multikey

_MAX_PROBLEMS = 20


def scan_keys(index, obj) -> list:
    """Keys under which `index` has to list `obj`, from the current attribute values of `obj`."""
    try:
        key = index._get_key_func(obj)
    except (TypeError, AttributeError):
        return []                      # documented: such an object is simply not part of this index
    if key is None and not index._index_none_values:
        return []
    if isinstance(index, multikey.IndexDefinition1n):
        try:
            keys = list(key)
        except TypeError:
            return []
    elif isinstance(index, multikey.UIndexDefinition):
        if isinstance(key, list):
            return []                  # a unique index rejects such an object, it cannot be listed
        keys = [key]
    else:
        keys = [key]
    res = []
    for k in keys:
        try:
            hash(k)
        except TypeError:
            return []                  # cannot be a dictionary key: the table swallows the TypeError of this index
        res.append(k)
    return res


def _label(obj) -> str:
    for attr in ('Handle', 'DescriptorHandle', 'identifier_uuid', 'name'):
        try:
            v = getattr(obj, attr)
        except Exception:  # noqa: BLE001
            continue
        if v is not None:
            return f'{type(obj).__name__}({attr}={v})'
    return f'{type(obj).__name__}@{id(obj):x}'


def _k(key) -> str:
    """readable key (QName objects have no useful repr)"""
    return str(key) if hasattr(key, 'localname') else repr(key)


def _fmt(counter, labels) -> str:
    return '{' + ', '.join(sorted((labels.get(i, f'<not stored @{i:x}>') + (f' x{n}' if n != 1 else ''))
                                  for i, n in counter.items())) + '}'


def table_problems(lookup, name: str = '') -> list[str]:
    """Return a list of human-readable disagreements between the indices of `lookup` and a scan (empty = consistent)."""
    prefix = (name + '.') if name else ''
    return [prefix + msg for _, msg in table_problem_items(lookup)]


def table_problem_items(lookup) -> list[tuple[str, str]]:
    """Like `table_problems`, as (name of the index | '_object_ids' | 'objects', message) pairs."""
    problems: list[tuple[str, str]] = []

    def add(msg):
        if len(problems) < _MAX_PROBLEMS:
            problems.append((msg.split('[', 1)[0].split(':', 1)[0], msg))

    with lookup._lock:
        objs = list(lookup._objects)
        stored = {id(o) for o in objs}
        labels = {id(o): _label(o) for o in objs}
        if len(stored) != len(objs):
            add('objects: the same object is stored twice')
        expected_refs = {i: Counter() for i in stored}
        for idx_name, index in lookup._idx_defs.items():
            expected: dict = {}
            for o in objs:
                for k in scan_keys(index, o):
                    expected.setdefault(k, Counter())[id(o)] += 1
                    expected_refs[id(o)][(id(index), k)] += 1
            seen = set()
            for key, lst in dict.items(index):
                seen.add(key)
                actual = Counter(id(o) for o in lst)
                exp = expected.get(key)
                if not lst:
                    add(f'{idx_name}[{_k(key)}]: empty list stored (key reported as present)')
                elif exp is None:
                    add(f'{idx_name}[{_k(key)}]: index lists {_fmt(actual, labels)}, a scan of objects finds nothing')
                elif actual != exp:
                    add(f'{idx_name}[{_k(key)}]: index lists {_fmt(actual, labels)}, a scan of objects finds {_fmt(exp, labels)}')
            for key, exp in expected.items():
                if key not in seen:
                    add(f'{idx_name}[{_k(key)}]: not in index, a scan of objects finds {_fmt(exp, labels)}')
        for i in stored:
            refs = lookup._object_ids.get(i)
            if refs is None:
                add(f'_object_ids: no entry for stored object {labels[i]}')
                continue
            actual = Counter((id(r.index_dict), r.key) for r in refs)
            if actual != expected_refs[i]:
                names = {id(d): n for n, d in lookup._idx_defs.items()}
                a = sorted(f'{names.get(d, "?")}:{_k(k)}' for (d, k), n in actual.items() for _ in range(n))
                e = sorted(f'{names.get(d, "?")}:{_k(k)}' for (d, k), n in expected_refs[i].items() for _ in range(n))
                add(f'_object_ids[{labels[i]}]: records {a}, current keys are {e}')
        for i in lookup._object_ids:
            if i not in stored:
                add(f'_object_ids: entry for an object that is not stored (@{i:x})')
    return problems


def mdib_problems(mdib, name: str = '') -> list[str]:
    """`table_problems` of the three tables of a provider or consumer MDIB."""
    prefix = (name + ':') if name else ''
    return [f'{prefix}{msg}' for where, msg in mdib_problem_items(mdib)]


def mdib_problem_items(mdib) -> list[tuple[str, str]]:
    """(`<table>.<index>`, message) pairs for the three tables of an MDIB; the first component is stable (signatures)."""
    res = []
    for attr in ('descriptions', 'states', 'context_states'):
        res.extend((f'{attr}.{where}', f'{attr}.{msg}') for where, msg in table_problem_items(getattr(mdib, attr)))
    return res


def table_dump(lookup):
    """Canonical, comparable content of a table (objects by identity): used for 'rejected operation leaves it as it was'."""
    with lookup._lock:
        return (frozenset(id(o) for o in lookup._objects),
                {n: {k: [id(o) for o in lst] for k, lst in dict.items(d)} for n, d in lookup._idx_defs.items()},
                {i: [(id(r.index_dict), r.key) for r in refs] for i, refs in lookup._object_ids.items()})
