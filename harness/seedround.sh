#!/bin/bash
# usage: harness/seedround.sh Cxx   -- import /tmp/seed2_Cxx/seeded/*, remove the scratch worktree, evaluate each (with tests)
cd /verif
P=$1
N=$(/venv/bin/python harness/seedimport.py $P /tmp/${SEEDPFX:-seed2}_$P | tail -1)
git -C /repo worktree remove --force /tmp/${SEEDPFX:-seed2}_$P 2>/dev/null; rm -rf /tmp/${SEEDPFX:-seed2}_$P /tmp/${P}_scratch
for s in $N; do
  T=--tests; [ -n "$SEEDNOTESTS" ] && T=
  /venv/bin/python harness/seedtest.py $s $T 2>&1 | grep "^SEED" | cut -c1-260
  /venv/bin/python -c "
import json;r=json.load(open('/verif/out/seedtests/$s.json'));print('   tests_rc=',r.get('tests_rc'),(r.get('tests_tail') or '').strip().split(chr(10))[-1][:100])"
done
