import SdcModel.Basic.Io
import SdcModel.LockLts
open Sdc Sdc.LockLts

/-! ops (actions are tokens `acq:l rel:l rdV rdD rdC deref incV wrD:x wrC:x mutate:x`, programs separated by `|`):
  `wl <acts>`                           -> `ok <WellLocked> <ReadOnly> <NoMutate>`
  `force n1 n2 … | R | W1 | W2 …`      -> thread 0 = R; after R has completed `n_k` actions writer `k` is started;
                                           a started writer runs whenever it is enabled (priority over R), R otherwise
  `sched t1 t2 … | P0 | P1 | …`        -> run the schedule (thread ids), skipping disabled steps
  answer of `force` / `sched`: `ok <thread 0: obsV ; obsD ; obsC ; left> | … | hist v:d:x …` -/

def parseAct (s : String) : Option Act :=
  match s.splitOn ":" with
  | ["acq", l] => l.toNat?.map Act.acq
  | ["rel", l] => l.toNat?.map Act.rel
  | ["rdV"] => some .rdV
  | ["rdC"] => some .rdC
  | ["rdD"] => some .rdD
  | ["wrD", x] => x.toNat?.map Act.wrD
  | ["deref"] => some .deref
  | ["incV"] => some .incV
  | ["wrC", x] => x.toNat?.map Act.wrC
  | ["mutate", x] => x.toNat?.map Act.mutate
  | _ => none

def parseProgs (parts : List (List String)) : Option (List (List Act)) := parts.mapM (·.mapM parseAct)

def showThr (t : Thr) : String :=
  s!"{Io.natList t.obsV} ; {Io.natList t.obsD} ; {Io.natList t.obsC} ; {t.todo.length}"

def showCfg (c : Cfg) (n : Nat) : String :=
  let thr := (List.range n).map (fun j => showThr (c.thr j))
  let hist := c.hist.map (fun p => s!"{p.1}:{p.2.1}:{p.2.2}")
  "ok " ++ " | ".intercalate thr ++ " | hist " ++ " ".intercalate hist

/-- step thread `i` `n` times; `none` when a step is not enabled -/
def stepN (c : Cfg) (i : Nat) : Nat → Option Cfg
  | 0 => some c
  | n + 1 => match stepFn c i with
    | some c' => stepN c' i n
    | none => none

/-- forced run: `starts[k]` = number of completed R actions after which writer `k+1` is started -/
def forceRun (c : Cfg) (starts : List Nat) : Nat → Nat → Cfg
  | 0, _ => c
  | fuel + 1, doneR =>
    -- started writers, lowest id first
    let started := (List.range starts.length).filter (fun k => starts.getD k 0 ≤ doneR)
    match started.findSome? (fun k => stepFn c (k + 1)) with
    | some c' => forceRun c' starts fuel doneR
    | none =>
      match stepFn c 0 with
      | some c' => forceRun c' starts fuel (doneR + 1)
      | none => c

def stepLine (st : Unit) (line : String) : Unit × String :=
  let parts := (Io.words line).splitOn "|"
  match parts with
  | ("wl" :: acts) :: [] =>
    match acts.mapM parseAct with
    | some p => (st, s!"ok {decide (WellLocked p)} {decide (ReadOnly p)} {decide (NoMutate p)}")
    | none => (st, "bad-op")
  | ("force" :: ns) :: progs =>
    match Io.parseNats ns, parseProgs progs with
    | some starts, some ps =>
      if starts.length + 1 = ps.length then
        let c0 := mkCfg ps 0 0 0
        let total := (ps.map List.length).foldl (· + ·) 0
        (st, showCfg (forceRun c0 starts (2 * total + 4) 0) ps.length)
      else (st, "bad-op")
    | _, _ => (st, "bad-op")
  | ("sched" :: ts) :: progs =>
    match Io.parseNats ts, parseProgs progs with
    | some sched, some ps =>
      let r := runSched (mkCfg ps 0 0 0) sched
      (st, showCfg r.1 ps.length ++ " | moved " ++ " ".intercalate (r.2.map (fun b => if b then "1" else "0")))
    | _, _ => (st, "bad-op")
  | _ => (st, "bad-op")

def main : IO Unit := Io.lineLoop stepLine ()
