import SdcModel.Basic.Io
import SdcModel.Eventing
open Sdc Sdc.Eventing

/-!
ops (one per line; strings = code points joined by `,`, the empty string is `e`):
  `cfg <path|ref> <maxDur> <maxErr> <checkDialect 0|1>`                       -> `ok`   (also resets the state)
  `sub <notifyTo> <endTo|-> <filter|none|-> <dialectOk 0|1> <expires|-> <notifyRef 0|1> <endRef 0|1>`
                                                                              -> `subscribed <id> <granted>` | `rejected`
        notifyRef / endRef: NotifyTo / EndTo came with reference parameters
        filter = entries joined by `;`, `none` = no Filter element, `-` = no entry
  `renew <ref|-> <path|-> <expires|->` | `status <ref|-> <path|->` | `unsub <ref|-> <path|->`
                                                                              -> `remaining <r>` | `unsubscribed` | `fault`
  `notify <action> <ov>` | `stop <0|1> <ov>`                                  -> `sent <n|e>:<sub>:<addr>:<outcome>:<refs n|e|-> …`
        ov = per-delivery outcomes observed on the implementation `sub:outcome,…` or `-` (then the standing `mode` of the address)
  `tick <dt>` | `mode <addr> <outcome>` | `hk`                                -> `ok`
every answer is followed by ` | alive=<ids> known=<ids>`: the reference monitor's view after the op (fed with the model's answers)
-/

namespace Sdc.Eventing

def optNat? (w : String) : Option (Option Nat) :=
  if w == "-" then some none else w.toNat?.map some

def str? (w : String) : Option Str :=
  if w == "e" then some [] else (w.splitOn ",").mapM String.toNat?

def filter? (w : String) : Option (Option (List Str)) :=
  if w == "none" then some none
  else if w == "-" then some (some [])
  else ((w.splitOn ";").mapM str?).map some

def bool? (w : String) : Option Bool :=
  if w == "1" then some true else if w == "0" then some false else none

def outcome? : String → Option Outcome
  | "ok" => some .ok | "httpError" => some .httpError | "refused" => some .refused
  | "notConnected" => some .notConnected | "timeout" => some .timeout | "parseError" => some .parseError | _ => none

def Outcome.str : Outcome → String
  | .ok => "ok" | .httpError => "httpError" | .refused => "refused"
  | .notConnected => "notConnected" | .timeout => "timeout" | .parseError => "parseError"

/-- per-delivery outcomes `sub:outcome,sub:outcome` (`-` = none) -/
def overrides? (w : String) : Option (List (Nat × Outcome)) :=
  if w == "-" then some [] else
  (w.splitOn ",").mapM (fun e => match e.splitOn ":" with
    | [i, o] => do pure (← i.toNat?, ← outcome? o)
    | _ => none)

def Msg.str (m : Msg) : String :=
  (match m.kind with | .notification _ => "n" | .subscriptionEnd => "e") ++ s!":{m.sub}:{m.addr}:{m.outcome.str}:" ++ (match m.refs with | .none => "-" | .notify => "n" | .endTo => "e")

def Out.str : Out → String
  | .subscribed i g => s!"subscribed {i} {g}"
  | .rejected => "rejected"
  | .remaining r => s!"remaining {r}"
  | .unsubscribed => "unsubscribed"
  | .fault => "fault"
  | .sent msgs => " ".intercalate ("sent" :: msgs.map Msg.str)
  | .done => "ok"

def parseOp (ws : List String) : Option Op :=
  match ws with
  | ["sub", nt, et, f, d, e, nr, er] => do
    pure (.subscribe (← nt.toNat?) (← optNat? et) (← filter? f) (← bool? d) (← optNat? e) (← bool? nr) (← bool? er))
  | ["renew", r, p, e] => do pure (.renew (← optNat? r, ← optNat? p) (← optNat? e))
  | ["status", r, p] => do pure (.getStatus (← optNat? r, ← optNat? p))
  | ["unsub", r, p] => do pure (.unsubscribe (← optNat? r, ← optNat? p))
  | ["notify", a, ov] => do pure (.notify (← str? a) (← overrides? ov))
  | ["tick", dt] => do pure (.tick (← dt.toNat?))
  | ["mode", a, o] => do pure (.setOutcome (← a.toNat?) (← outcome? o))
  | ["hk"] => some .housekeeping
  | ["stop", b, ov] => do pure (.stop (← bool? b) (← overrides? ov))
  | _ => none

def parseCfg (ws : List String) : Option Cfg :=
  match ws with
  | [d, maxDur, maxErr, cd] => do
    let disp ← (if d == "path" then some Dispatch.path else if d == "ref" then some Dispatch.ref else none)
    pure ⟨disp.mkKey, ← maxDur.toNat?, ← maxErr.toNat?, ← bool? cd⟩
  | _ => none

end Sdc.Eventing

/-- what the reference monitor says after the op: ids it considers alive / known (must equal the Python oracle's view) -/
def monView (cfg : Cfg) (m : Mon) (n : Nat) : String :=
  let ids := List.range n
  let alive := ids.filter (fun i => match m.recs i with | some r => decide (r.alive cfg m.now) | none => false)
  let known := ids.filter (fun i => match m.recs i with | some r => !r.unsub && !r.ended | none => false)
  " | alive=" ++ ",".intercalate (alive.map toString) ++ " known=" ++ ",".intercalate (known.map toString)

structure Drv where
  cfg : Cfg
  st : State
  mon : Mon

def stepLine (d : Drv) (line : String) : Drv × String :=
  match Io.words line with
  | "cfg" :: rest =>
    match parseCfg rest with
    | some c => (⟨c, init, Mon.init⟩, "ok")
    | none => (d, "bad-op")
  | ws =>
    match parseOp ws with
    | some op =>
      let r := step d.cfg d.st op
      let m := d.mon.step d.cfg op r.2
      (⟨d.cfg, r.1, m⟩, r.2.str ++ monView d.cfg m r.1.nextId)
    | none => (d, "bad-op")

def main : IO Unit := Io.lineLoop stepLine ⟨⟨Dispatch.path.mkKey, 720000, 1, true⟩, init, Mon.init⟩
