import SdcModel.Basic.Io
import SdcModel.Eventing
open Sdc Sdc.Eventing

/-!
ops (one per line; strings = code points joined by `,`, the empty string is `e`):
  `cfg <path|ref> <maxDur> <maxErr> <checkDialect 0|1>`                       -> `ok`   (also resets the state)
  `sub <notifyTo> <endTo|-> <filter|none|-> <dialectOk 0|1> <expires|->`      -> `subscribed <id> <granted>` | `rejected`
        filter = entries joined by `;`, `none` = no Filter element, `-` = no entry
  `renew <ref|-> <path|-> <expires|->` | `status <ref|-> <path|->` | `unsub <ref|-> <path|->`
                                                                              -> `remaining <r>` | `unsubscribed` | `fault`
  `notify <action>` | `stop <0|1>`                                            -> `sent <n|e>:<sub>:<addr>:<outcome> …`
  `tick <dt>` | `mode <addr> <outcome>` | `hk`                                -> `ok`
-/

namespace Sdc.Eventing

def optNat? (w : String) : Option (Option Nat) :=
  if w == "-" then some none else w.toNat?.map some

def str? (w : String) : Option Str :=
  if w == "e" then some [] else (w.splitOn ",").mapM String.toNat?

def filter? (w : String) : Option (Option (List Str)) :=
  if w == "none" then some none
  else if w == "-" then some (some [])
  else ((w.splitOn ";").mapM str?).map some

def bool? (w : String) : Option Bool :=
  if w == "1" then some true else if w == "0" then some false else none

def outcome? : String → Option Outcome
  | "ok" => some .ok | "httpError" => some .httpError | "refused" => some .refused
  | "notConnected" => some .notConnected | "timeout" => some .timeout | _ => none

def Outcome.str : Outcome → String
  | .ok => "ok" | .httpError => "httpError" | .refused => "refused"
  | .notConnected => "notConnected" | .timeout => "timeout"

def Msg.str (m : Msg) : String :=
  (match m.kind with | .notification _ => "n" | .subscriptionEnd => "e") ++ s!":{m.sub}:{m.addr}:{m.outcome.str}"

def Out.str : Out → String
  | .subscribed i g => s!"subscribed {i} {g}"
  | .rejected => "rejected"
  | .remaining r => s!"remaining {r}"
  | .unsubscribed => "unsubscribed"
  | .fault => "fault"
  | .sent msgs => " ".intercalate ("sent" :: msgs.map Msg.str)
  | .done => "ok"

def parseOp (ws : List String) : Option Op :=
  match ws with
  | ["sub", nt, et, f, d, e] => do
    pure (.subscribe (← nt.toNat?) (← optNat? et) (← filter? f) (← bool? d) (← optNat? e))
  | ["renew", r, p, e] => do pure (.renew (← optNat? r, ← optNat? p) (← optNat? e))
  | ["status", r, p] => do pure (.getStatus (← optNat? r, ← optNat? p))
  | ["unsub", r, p] => do pure (.unsubscribe (← optNat? r, ← optNat? p))
  | ["notify", a] => do pure (.notify (← str? a))
  | ["tick", dt] => do pure (.tick (← dt.toNat?))
  | ["mode", a, o] => do pure (.setOutcome (← a.toNat?) (← outcome? o))
  | ["hk"] => some .housekeeping
  | ["stop", b] => do pure (.stop (← bool? b))
  | _ => none

def parseCfg (ws : List String) : Option Cfg :=
  match ws with
  | [d, maxDur, maxErr, cd] => do
    let disp ← (if d == "path" then some Dispatch.path else if d == "ref" then some Dispatch.ref else none)
    pure ⟨disp.mkKey, ← maxDur.toNat?, ← maxErr.toNat?, ← bool? cd⟩
  | _ => none

end Sdc.Eventing

def stepLine (cs : Cfg × State) (line : String) : (Cfg × State) × String :=
  match Io.words line with
  | "cfg" :: rest =>
    match parseCfg rest with
    | some c => ((c, init), "ok")
    | none => (cs, "bad-op")
  | ws =>
    match parseOp ws with
    | some op =>
      let r := step cs.1 cs.2 op
      ((cs.1, r.1), r.2.str)
    | none => (cs, "bad-op")

def main : IO Unit := Io.lineLoop stepLine (⟨Dispatch.path.mkKey, 720000, 1, true⟩, init)
