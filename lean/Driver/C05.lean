import SdcModel.Basic.Io
import SdcModel.XmlBinding
open Sdc Sdc.XmlBinding

/-! Model driver for C05 (`XmlBinding`). Every string is a token `h<hex of utf-8>`; `-` = absent; element tags and
attribute names are numbers (interned by the harness, 0 = xsi:type).

schema:  `S h<name> <hasNT> <h<nodetype>|-> <n> (h<propname> <kind>)*n`     (classes in index order)
   kind = `attr h<n> h<conv> <opt> <vol>` | `attrList h<n> h<conv> <opt>`
        | `text <h<sub>|-> h<conv> <opt> <minLen> <plain|enumQName|qname|date> <h<dflt>|->`
        | `textList <h<sub>|-> h<conv> <opt>` | `subTextList h<n> h<conv>`
        | `sub <h<n>|-> <cls> <opt> <container> <skipEmpty> <dispatch> <-|val>` | `subList h<n> <cls> <container> <dispatch>`
        | `raw <h<sub>|-> <ext|any|anyList> <opt>`
         `T <reg> h<qname> <cls>`
implied: `I <cls> <member index> h<py>`   (the answer of `r` is `ok <stored value> | <value read through the public attributes>`)
codec:   `cx h<conv> h<py> h<lex>` | `cp h<conv> h<lex> <h<py>|!>` | `now h<py>`
ops:     `w <cls> <tag> <val>` -> `ok <xml>` | `err`     `r <cls> <xml>` -> `ok <val>` | `err`     `t <cls> <val>` -> `wt` | `nwt`
   val = `n` | `a h<py>` | `l <n> <val>*n` | `o <cls> <n> <val>*n` | `r <n> <xml>*n`
   xml = `x h<tag> <na> (h<name> h<value>)*na h<text> <nk> <xml>*nk`        (attributes sorted by name in the answer) -/

abbrev Toks := List String

def hexVal (c : Char) : Option Nat :=
  if '0' ≤ c && c ≤ '9' then some (c.toNat - '0'.toNat)
  else if 'a' ≤ c && c ≤ 'f' then some (c.toNat - 'a'.toNat + 10)
  else none

def unhexBytes : List Char → Option (List UInt8)
  | [] => some []
  | a :: b :: r => match hexVal a, hexVal b, unhexBytes r with
    | some x, some y, some bs => some (UInt8.ofNat (x * 16 + y) :: bs)
    | _, _, _ => none
  | _ => none

def unhex (t : String) : Option String :=
  match t.toList with
  | 'h' :: r => (unhexBytes r).bind fun bs => String.fromUTF8? ⟨bs.toArray⟩
  | _ => none

def hexDigit (n : Nat) : Char := if n < 10 then Char.ofNat ('0'.toNat + n) else Char.ofNat ('a'.toNat + n - 10)

def hex (s : String) : String :=
  "h" ++ String.mk (s.toUTF8.toList.flatMap fun b => [hexDigit (b.toNat / 16), hexDigit (b.toNat % 16)])

def optHex (t : String) : Option (Option String) := if t == "-" then some none else (unhex t).map some

def optNat (t : String) : Option (Option Nat) := if t == "-" then some none else t.toNat?.map some

def bool? (t : String) : Option Bool := if t == "1" then some true else if t == "0" then some false else none

mutual
def pXml : Nat → Toks → Option (Xml × Toks)
  | 0, _ => none
  | f + 1, "x" :: tag :: na :: r => do
    let tag ← tag.toNat?
    let na ← na.toNat?
    let (as, r) ← pAttrs na r
    match r with
    | tx :: nk :: r => do
      let tx ← unhex tx
      let nk ← nk.toNat?
      let (ks, r) ← pXmls f nk r
      pure (.node tag as ks tx, r)
    | _ => none
  | _ + 1, _ => none
def pXmls : Nat → Nat → Toks → Option (List Xml × Toks)
  | 0, _, _ => none
  | _ + 1, 0, r => some ([], r)
  | f + 1, n + 1, r => do
    let (x, r) ← pXml f r
    let (xs, r) ← pXmls f n r
    pure (x :: xs, r)
def pAttrs : Nat → Toks → Option (Attrs × Toks)
  | 0, r => some ([], r)
  | n + 1, k :: v :: r => do
    let k ← k.toNat?
    let v ← unhex v
    let (as, r) ← pAttrs n r
    pure ((k, v) :: as, r)
  | _ + 1, _ => none
end

mutual
def pVal : Nat → Toks → Option (Val × Toks)
  | 0, _ => none
  | _ + 1, "n" :: r => some (.none, r)
  | _ + 1, "a" :: s :: r => (unhex s).map fun s => (.atom s, r)
  | f + 1, "l" :: n :: r => do
    let n ← n.toNat?
    let (vs, r) ← pVals f n r
    pure (.list vs, r)
  | f + 1, "o" :: c :: n :: r => do
    let c ← c.toNat?
    let n ← n.toNat?
    let (vs, r) ← pVals f n r
    pure (.obj c vs, r)
  | f + 1, "r" :: n :: r => do
    let n ← n.toNat?
    let (xs, r) ← pXmls f n r
    pure (.raw xs, r)
  | _ + 1, _ => none
def pVals : Nat → Nat → Toks → Option (List Val × Toks)
  | 0, _, _ => none
  | _ + 1, 0, r => some ([], r)
  | f + 1, n + 1, r => do
    let (v, r) ← pVal f r
    let (vs, r) ← pVals f n r
    pure (v :: vs, r)
end

def insertSorted (p : Nat × String) : Attrs → Attrs
  | [] => [p]
  | q :: r => if p.1 < q.1 then p :: q :: r else q :: insertSorted p r

def sortAttrs (a : Attrs) : Attrs := a.foldr insertSorted []

mutual
def dXml : Xml → String
  | .node t a ks tx =>
    let sa := sortAttrs a
    "x " ++ toString t ++ " " ++ toString sa.length
      ++ String.join (sa.map fun p => " " ++ toString p.1 ++ " " ++ hex p.2)
      ++ " " ++ hex tx ++ " " ++ toString ks.length ++ dXmls ks
def dXmls : List Xml → String
  | [] => ""
  | x :: xs => " " ++ dXml x ++ dXmls xs
end

mutual
def dVal : Val → String
  | .none => "n"
  | .atom s => "a " ++ hex s
  | .list vs => "l " ++ toString vs.length ++ dVals vs
  | .obj c vs => "o " ++ toString c ++ " " ++ toString vs.length ++ dVals vs
  | .raw xs => "r " ++ toString xs.length ++ dXmls xs
def dVals : List Val → String
  | [] => ""
  | v :: vs => " " ++ dVal v ++ dVals vs
end

def pStyle : String → Option TextStyle
  | "plain" => some .plain | "enumQName" => some .enumQName | "qname" => some .qname | "date" => some .date | _ => none

def pRaw : String → Option RawStyle
  | "ext" => some .ext | "any" => some .any | "anyList" => some .anyList | _ => none

def pKind (f : Nat) : Toks → Option (Kind × Toks)
  | "attr" :: n :: c :: o :: v :: r => do
    pure (.attr (← n.toNat?) (← unhex c) (← bool? o) (← bool? v), r)
  | "attrList" :: n :: c :: o :: r => do pure (.attrList (← n.toNat?) (← unhex c) (← bool? o), r)
  | "text" :: s :: c :: o :: m :: st :: d :: r => do
    pure (.text (← optNat s) (← unhex c) (← bool? o) (← bool? m) (← pStyle st) (← optHex d), r)
  | "textList" :: s :: c :: o :: r => do pure (.textList (← optNat s) (← unhex c) (← bool? o), r)
  | "subTextList" :: n :: c :: r => do pure (.subTextList (← n.toNat?) (← unhex c), r)
  | "sub" :: n :: c :: o :: ct :: sk :: d :: r => do
    let n ← optNat n
    let c ← c.toNat?
    let o ← bool? o
    let ct ← bool? ct
    let sk ← bool? sk
    let d ← d.toNat?
    match r with
    | "-" :: r => pure (.sub n c o ct sk d none, r)
    | r => do
      let (v, r) ← pVal f r
      pure (.sub n c o ct sk d (some v), r)
  | "subList" :: n :: c :: ct :: d :: r => do pure (.subList (← n.toNat?) (← c.toNat?) (← bool? ct) (← d.toNat?), r)
  | "raw" :: s :: st :: o :: r => do pure (.raw (← optNat s) (← pRaw st) (← bool? o), r)
  | _ => none

def pPropEs (f : Nat) : Nat → Toks → Option (List PropE × Toks)
  | 0, r => some ([], r)
  | n + 1, nm :: r => do
    let nm ← unhex nm
    let (k, r) ← pKind f r
    let (ps, r) ← pPropEs f n r
    pure (⟨nm, k⟩ :: ps, r)
  | _ + 1, [] => none

/-! executable mirror of `WT` (evidence only: how many generated values lie in the domain of the theorems) -/
mutual
def xmlBeq : Xml → Xml → Bool
  | .node t a ks tx, .node t' a' ks' tx' => t == t' && a == a' && tx == tx' && xmlsBeq ks ks'
def xmlsBeq : List Xml → List Xml → Bool
  | [], [] => true
  | x :: xs, y :: ys => xmlBeq x y && xmlsBeq xs ys
  | _, _ => false
end

mutual
def valBeq : Val → Val → Bool
  | .none, .none => true
  | .atom a, .atom b => a == b
  | .list a, .list b => valsBeq a b
  | .obj c a, .obj d b => c == d && valsBeq a b
  | .raw a, .raw b => xmlsBeq a b
  | _, _ => false
def valsBeq : List Val → List Val → Bool
  | [], [] => true
  | x :: xs, y :: ys => valBeq x y && valsBeq xs ys
  | _, _ => false
end

def rtB (C : Codec) (conv s : String) : Bool :=
  match C.toXml conv s with
  | some l => C.toPy conv l == some s
  | none => false

def atomsB (C : Codec) (conv : String) (joined : Bool) (vs : List Val) : Bool :=
  match atoms vs with
  | some ss => match mapM' (C.toXml conv) ss with
    | some ls => mapM' (C.toPy conv) ls == some ss && (!joined || C.split (C.join ls) == ls)
    | none => false
  | none => false

def nestedB (S : Schema) (container : Bool) (dispatch decl c : Nat) : Bool :=
  match xsiFor S container decl c with
  | some none => c == decl
  | some (some q) => dispatch != 0 && S.lookupType dispatch q == some c
  | none => false

def wtKB (C : Codec) (S : Schema) (P : Nat → List Val → Bool) : Kind → Val → Bool
  | .attr _ conv opt vol, v =>
    (!vol || valBeq v (.atom C.now)) && (match v with
      | .none => opt && !vol
      | .atom s => rtB C conv s
      | _ => false)
  | .attrList _ conv _, .list vs => atomsB C conv true vs
  | .text sub conv opt _ style dflt, v => (match v with
      | .none => sub.isSome && opt && !(style == .enumQName && dflt.isSome)
      | .atom s => match C.toXml conv s with
        | some l => C.toPy conv l == some s && (style != .qname || l != "")
        | none => false
      | _ => false)
  | .textList _ conv _, .list vs => atomsB C conv true vs
  | .subTextList _ conv, .list vs => atomsB C conv false vs
  | .sub name decl opt container skipEmpty dispatch dflt, v =>
    name.isSome && (match v with
      | .none => (opt || skipEmpty) && dflt.isNone
      | .obj c fs =>
        if skipEmpty && v.isEmptyObj then (match dflt with | some d => valBeq d v | none => false)
        else P c fs && nestedB S container dispatch decl c
      | _ => false)
  | .subList _ decl container dispatch, .list vs => vs.all fun w => match w with
      | .obj c fs => P c fs && nestedB S container dispatch decl c
      | _ => false
  | .raw sub style opt, v => (match style, v with
      | .ext, .raw _ => true
      | .any, .none => opt && sub.isSome
      | .any, .raw _ => true
      | .anyList, .raw _ => true
      | _, _ => false)
  | _, _ => false

def wtPropsB (C : Codec) (S : Schema) (P : Nat → List Val → Bool) : List PropE → List Val → Bool
  | [], [] => true
  | p :: ps, v :: vs => wtKB C S P p.kind v && wtPropsB C S P ps vs
  | _, _ => false

def wtB (C : Codec) (S : Schema) : Nat → Nat → List Val → Bool
  | 0 => fun _ _ => false
  | f + 1 => fun c fs => S.okCls c && wtPropsB C S (wtB C S f) (S.props c) fs

structure DSt where
  S : Schema := ⟨[], []⟩
  cx : List ((String × String) × String) := []        -- (conv, py) -> lexical
  cp : List ((String × String) × Option String) := [] -- (conv, lexical) -> py
  now : String := ""
  implied : Implied := []

def isWs (c : Char) : Bool := c == ' ' || c == '\t' || c == '\n' || c == '\r'

def splitWs (s : String) : List String :=
  ((s.toList.splitBy fun a b => !isWs a && !isWs b).filter fun g => g.all (!isWs ·)).map String.mk

def DSt.codec (st : DSt) : Codec where
  toXml := fun c p => (st.cx.find? fun e => e.1.1 == c && e.1.2 == p).map (·.2)
  toPy := fun c l => ((st.cp.find? fun e => e.1.1 == c && e.1.2 == l).map (·.2)).join
  join := fun ls => " ".intercalate ls
  split := splitWs
  now := st.now

def fuelOf (ts : Toks) : Nat := ts.length + 2

def stepLine (st : DSt) (line : String) : DSt × String :=
  let ts := Io.words line
  let f := fuelOf ts
  match ts with
  | "S" :: nm :: hn :: nt :: n :: r =>
    match unhex nm, bool? hn, optHex nt, n.toNat? with
    | some nm, some hn, some nt, some n => match pPropEs f n r with
      | some (ps, []) => ({ st with S := { st.S with classes := st.S.classes ++ [⟨nm, hn, nt, ps⟩] } }, "ok")
      | _ => (st, "bad-op")
    | _, _, _, _ => (st, "bad-op")
  | ["T", reg, q, c] => match reg.toNat?, unhex q, c.toNat? with
    | some reg, some q, some c => ({ st with S := { st.S with types := st.S.types ++ [(reg, q, c)] } }, "ok")
    | _, _, _ => (st, "bad-op")
  | ["cx", c, p, l] => match unhex c, unhex p, unhex l with
    | some c, some p, some l => ({ st with cx := ((c, p), l) :: st.cx }, "ok")
    | _, _, _ => (st, "bad-op")
  | ["cp", c, l, p] => match unhex c, unhex l with
    | some c, some l =>
      if p == "!" then ({ st with cp := ((c, l), none) :: st.cp }, "ok")
      else match unhex p with
        | some p => ({ st with cp := ((c, l), some p) :: st.cp }, "ok")
        | none => (st, "bad-op")
    | _, _ => (st, "bad-op")
  | ["now", p] => match unhex p with
    | some p => ({ st with now := p }, "ok")
    | none => (st, "bad-op")
  | ["I", c, k, v] => match c.toNat?, k.toNat?, unhex v with
    | some c, some k, some v => ({ st with implied := (c, k, v) :: st.implied }, "ok")
    | _, _, _ => (st, "bad-op")
  | ["resetcodec"] => ({ st with cx := [], cp := [] }, "ok")
  | "w" :: c :: tag :: r => match c.toNat?, tag.toNat?, pVal f r with
    | some c, some tag, some (.obj c' fs, []) =>
      if c' = c then match writeCls st.codec st.S f c fs tag with
        | some x => (st, "ok " ++ dXml x)
        | none => (st, "err")
      else (st, "bad-op")
    | _, _, _ => (st, "bad-op")
  | "t" :: c :: r => match c.toNat?, pVal f r with
    | some c, some (.obj c' fs, []) => if c' = c then (st, if wtB st.codec st.S f c fs then "wt" else "nwt") else (st, "bad-op")
    | _, _ => (st, "bad-op")
  | "r" :: c :: r => match c.toNat?, pXml f r with
    | some c, some (x, []) => match readCls st.codec st.S f c x with
      | some v => (st, "ok " ++ dVal v ++ " | " ++ dVal (publicVal st.implied v))
      | none => (st, "err")
    | _, _ => (st, "bad-op")
  | _ => (st, "bad-op")

def main : IO Unit := Io.lineLoop stepLine {}
