import SdcModel.Basic.Io
import SdcModel.ObjGraph
open Sdc Sdc.ObjGraph

/-! Model driver for C12 (M2 `ObjGraph`).

table lines (before the first `reset`):
  `D <tree>`                                         next class-level default
  `C <copyDeep> <deepOk> <updDeep> <isContainer> <copyLevel1> <updLevel1> <n> (<desc> <mode> <mode> <get>)*n`   next class
     tree  = `i v` | `o id n <tree>*n`
     mode  = `mi v` | `mf <tree>` | `mc` | `md`        get = `gp` | `gi v` | `gl` | `gs`
ops:
  `reset` | `construct c` | `parse c <shape>` | `copy i` | `deepcopy i`
  `set i <plen> <path>* k <new>` | `append i <plen> <path>* <new>` | `update i j <n> <skip>*`
     shape = `a` | `i v` | `o cls n <shape>*n` | `l n <shape>*n`      new = `i v` | `c cls` | `t <tree>`
answer: `ok` for table lines, `ok D <trees> | I <trees>` after an op (objects renumbered in first-visit order; only the defaults that are objects are listed), `err`
for an op the model rejects, `bad-op` for an ill-formed line. -/

abbrev Toks := List String

mutual
def pTree : Nat → Toks → Option (Tree × Toks)
  | 0, _ => none
  | _ + 1, "i" :: v :: r => v.toNat?.map fun n => (.imm n, r)
  | f + 1, "o" :: id :: n :: r => match id.toNat?, n.toNat? with
    | some id, some n => (pTrees f n r).map fun (ks, r') => (.obj id ks, r')
    | _, _ => none
  | _ + 1, _ => none
def pTrees : Nat → Nat → Toks → Option (List Tree × Toks)
  | 0, _, _ => none
  | _ + 1, 0, r => some ([], r)
  | f + 1, n + 1, r => match pTree f r with
    | some (t, r') => (pTrees f n r').map fun (ts, r'') => (t :: ts, r'')
    | none => none
end

mutual
def pShape : Nat → Toks → Option (Shape × Toks)
  | 0, _ => none
  | _ + 1, "a" :: r => some (.absent, r)
  | _ + 1, "i" :: v :: r => v.toNat?.map fun n => (.imm n, r)
  | f + 1, "o" :: c :: n :: r => match c.toNat?, n.toNat? with
    | some c, some n => (pShapes f n r).map fun (ks, r') => (.obj c ks, r')
    | _, _ => none
  | f + 1, "l" :: n :: r => match n.toNat? with
    | some n => (pShapes f n r).map fun (ks, r') => (.list ks, r')
    | none => none
  | _ + 1, _ => none
def pShapes : Nat → Nat → Toks → Option (List Shape × Toks)
  | 0, _, _ => none
  | _ + 1, 0, r => some ([], r)
  | f + 1, n + 1, r => match pShape f r with
    | some (t, r') => (pShapes f n r').map fun (ts, r'') => (t :: ts, r'')
    | none => none
end

def pMode (f : Nat) : Toks → Option (Mode × Toks)
  | "mi" :: v :: r => v.toNat?.map fun n => (.imm n, r)
  | "mf" :: r => (pTree f r).map fun (t, r') => (.fresh t, r')
  | "mc" :: r => some (.copyDefault, r)
  | "md" :: r => some (.theDefault, r)
  | _ => none

def pGet : Toks → Option (GetMode × Toks)
  | "gp" :: r => some (.plain, r)
  | "gi" :: v :: r => v.toNat?.map fun n => (.implied n, r)
  | "gl" :: r => some (.lazy, r)
  | "gs" :: r => some (.sharedImplied, r)
  | _ => none

def pProps (f : Nat) : Nat → Toks → Option (List PropE × Toks)
  | 0, r => some ([], r)
  | n + 1, d :: r => do
    let d ← d.toNat?
    let (c, r) ← pMode f r
    let (a, r) ← pMode f r
    let (g, r) ← pGet r
    let (ps, r) ← pProps f n r
    pure (⟨d, c, a, g⟩ :: ps, r)
  | _ + 1, [] => none

def pNew (f : Nat) : Toks → Option (NewVal × Toks)
  | "i" :: v :: r => v.toNat?.map fun n => (.imm n, r)
  | "c" :: v :: r => v.toNat?.map fun n => (.construct n, r)
  | "t" :: r => (pTree f r).map fun (t, r') => (.tmpl t, r')
  | _ => none

def takeNats : Nat → Toks → Option (List Nat × Toks)
  | 0, r => some ([], r)
  | n + 1, x :: r => match x.toNat?, takeNats n r with
    | some v, some (vs, r') => some (v :: vs, r')
    | _, _ => none
  | _ + 1, [] => none

/-- canonical dump: objects renumbered in first-visit order -/
def lookup (m : List (Nat × Nat)) (id : Nat) : Option Nat := (m.find? (·.1 == id)).map (·.2)

mutual
def dTree : List (Nat × Nat) → Tree → String × List (Nat × Nat)
  | m, .imm v => ("i" ++ toString v, m)
  | m, .obj id ks =>
    let (k, m1) := match lookup m id with
      | some k => (k, m)
      | none => (m.length + 1, m ++ [(id, m.length + 1)])
    let (s, m2) := dTrees m1 ks
    ("o" ++ toString k ++ "(" ++ ",".intercalate s ++ ")", m2)
def dTrees : List (Nat × Nat) → List Tree → List String × List (Nat × Nat)
  | m, [] => ([], m)
  | m, t :: ts =>
    let (s, m1) := dTree m t
    let (ss, m2) := dTrees m1 ts
    (s :: ss, m2)
end

def dump (s : St) : String :=
  let (d, m) := dTrees [] (s.defaults.filter fun t => match t with | .obj _ _ => true | .imm _ => false)
  let (i, _) := dTrees m (s.insts.map (·.tree))
  "ok D " ++ " ".intercalate d ++ " | I " ++ " ".intercalate i

structure DSt where
  T : Table := []
  D : List Tree := []
  s : St := init []

def fuel (ts : Toks) : Nat := ts.length + 2

def parseOp (ts : Toks) : Option Op :=
  let f := fuel ts
  match ts with
  | ["construct", c] => c.toNat?.map Op.construct
  | "parse" :: c :: r => match c.toNat?, pShape f r with
    | some c, some (sh, []) => some (.parse c sh)
    | _, _ => none
  | ["copy", i] => i.toNat?.map Op.copy
  | ["deepcopy", i] => i.toNat?.map Op.deepcopy
  | "set" :: i :: n :: r => do
    let i ← i.toNat?
    let n ← n.toNat?
    let (path, r) ← takeNats n r
    match r with
    | k :: r => do
      let k ← k.toNat?
      match pNew f r with
      | some (v, []) => pure (.setKid i path k v)
      | _ => none
    | [] => none
  | "append" :: i :: n :: r => do
    let i ← i.toNat?
    let n ← n.toNat?
    let (path, r) ← takeNats n r
    match pNew f r with
    | some (v, []) => pure (.append i path v)
    | _ => none
  | "update" :: i :: j :: n :: r => do
    let i ← i.toNat?
    let j ← j.toNat?
    let n ← n.toNat?
    match takeNats n r with
    | some (skip, []) => pure (.update i j skip)
    | _ => none
  | _ => none

def stepLine (st : DSt) (line : String) : DSt × String :=
  let ts := Io.words line
  match ts with
  | "D" :: r => match pTree (fuel ts) r with
    | some (t, []) => ({ st with D := st.D ++ [t] }, "ok")
    | _ => (st, "bad-op")
  | "C" :: cd :: dk :: ud :: ic :: c1 :: u1 :: n :: r =>
    match cd.toNat?, dk.toNat?, ud.toNat?, ic.toNat?, c1.toNat?, u1.toNat?, n.toNat? with
    | some cd, some dk, some ud, some ic, some c1, some u1, some n => match pProps (fuel ts) n r with
      | some (ps, []) => ({ st with T := st.T ++ [⟨ps, cd != 0, dk != 0, ud != 0, ic != 0, c1 != 0, u1 != 0⟩] }, "ok")
      | _ => (st, "bad-op")
    | _, _, _, _, _, _, _ => (st, "bad-op")
  | ["reset"] => ({ st with s := init st.D }, "ok")
  | _ => match parseOp ts with
    | none => (st, "bad-op")
    | some op => match step st.T st.s op with
      | some s' => ({ st with s := s' }, dump s')
      | none => (st, "err")

def main : IO Unit := Io.lineLoop stepLine {}
