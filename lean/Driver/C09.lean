import SdcModel.Basic.Io
import SdcModel.Invocation
open Sdc Sdc.Invocation

/-! model driver for C09.
  provider:  `preset cap` | `recv <sco|-> <d|q> <State|raise>` -> `ok tx` | `handle k` | `tick s` -> messages
             `pstate n` -> counter, mdib, in-flight ids, queue ids of SCO 0..n-1
  consumer:  `creset maxlen` | `response fut tx State` | `part uid tx State` | `drop fut` -> completions of this step
             `cstate` -> buffered uids
  id lock:   `lts c0 <L|U|R> nthreads i1 i2 …` -> issued (thread:id) list and the result of every thread -/

structure DState where
  p : Prov
  c : Cons

def showInfo (i : Info) : String := s!"{i.tx} {i.st.name} {if i.err then 1 else 0}"

def showMsg : Msg → String
  | .resp i => "resp " ++ showInfo i
  | .report i => "report " ++ showInfo i

def showMsgs (l : List Msg) : String := if l.isEmpty then "-" else ";".intercalate (l.map showMsg)

def showResult (r : Result) : String :=
  s!"done {r.fut} {r.st.name} {if r.fromReport then 1 else 0} [{Io.natList (r.parts.map (·.uid))}]"

def parseOutcome (s : String) : Option Outcome :=
  if s == "raise" then some .raises else (St.ofName? s).map .ok

def cstepShow (d : DState) (e : CEv) : DState × String :=
  let c' := cstep d.c e
  let new := c'.done.drop d.c.done.length
  ({ d with c := c' }, if new.isEmpty then "-" else ";".intercalate (new.map showResult))

def ltsRun (c0 : Nat) (prog : List Lts.Act) (n : Nat) (sched : List Nat) : String :=
  let c := Lts.runSched prog (Lts.Cfg.init c0) sched
  let issued := " ".intercalate (c.issued.map (fun e => s!"{e.1}:{e.2}"))
  let res := " ".intercalate ((List.range n).map (fun i => match (c.thr i).res with | some a => toString a | none => "-"))
  s!"issued [{issued}] res [{res}] counter {c.counter}"

def stepLine (d : DState) (line : String) : DState × String :=
  match Io.words line with
  | ["preset", cap] => match cap.toNat? with
    | some k => ({ d with p := Prov.init k }, "ok")
    | none => (d, "bad-op")
  | ["recv", sco, mode, out] =>
    let sco? : Option (Option Nat) := if sco == "-" then some none else sco.toNat?.map some
    let mode? : Option Bool := if mode == "d" then some true else if mode == "q" then some false else none
    match sco?, mode?, parseOutcome out with
    | some s, some m, some o =>
      let r := step d.p (.recv ⟨s, m, o⟩)
      ({ d with p := r.1 }, s!"ok {r.1.counter}")
    | _, _, _ => (d, "bad-op")
  | ["handle", k] => match k.toNat? with
    | some k =>
      if k < d.p.inflight.length then
        let r := step d.p (.handle k)
        ({ d with p := r.1 }, showMsgs r.2)
      else (d, "none")
    | none => (d, "bad-op")
  | ["tick", s] => match s.toNat? with
    | some s =>
      let r := step d.p (.tick s)
      ({ d with p := r.1 }, if r.2.isEmpty then "idle" else showMsgs r.2)
    | none => (d, "bad-op")
  | ["pstate", n] => match n.toNat? with
    | some n =>
      let qs := (List.range n).map (fun s => "[" ++ Io.natList ((d.p.queues s).map (·.1)) ++ "]")
      (d, s!"counter={d.p.counter} mdib={d.p.mdib} inflight=[{Io.natList (d.p.inflight.map (·.1))}] queues={" ".intercalate qs}")
    | none => (d, "bad-op")
  | ["creset", m] => match m.toNat? with
    | some k => ({ d with c := Cons.init k }, "ok")
    | none => (d, "bad-op")
  | ["response", fut, tx, st] => match fut.toNat?, tx.toNat?, St.ofName? st with
    | some f, some t, some s => cstepShow d (.response f t s)
    | _, _, _ => (d, "bad-op")
  | ["part", uid, tx, st] => match uid.toNat?, tx.toNat?, St.ofName? st with
    | some u, some t, some s => cstepShow d (.part ⟨u, t, s⟩)
    | _, _, _ => (d, "bad-op")
  | ["drop", fut] => match fut.toNat? with
    | some f => cstepShow d (.drop f)
    | none => (d, "bad-op")
  | ["cstate"] => (d, s!"recent=[{Io.natList (d.c.recent.map (·.uid))}] done={d.c.done.length}")
  | "lts" :: c0 :: prog :: n :: sched =>
    let prog? := if prog == "L" then some Lts.lockedProg else if prog == "U" then some Lts.unlockedProg
      else if prog == "R" then some Lts.lateReadProg else none
    match c0.toNat?, prog?, n.toNat?, Io.parseNats sched with
    | some c0, some pr, some n, some sc => (d, ltsRun c0 pr n sc)
    | _, _, _, _ => (d, "bad-op")
  | _ => (d, "bad-op")

def main : IO Unit := Io.lineLoop stepLine ⟨Prov.init 10, Cons.init 50⟩
