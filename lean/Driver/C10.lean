import SdcModel.Basic.Io
import SdcModel.ContextAssoc
open Sdc Sdc.Mdib Sdc.ContextAssoc

/-!
line protocol of the C10 model driver (all numbers decimal, `-` = None, lists comma separated, `_` = empty list)

  env  <ctx h:dv,…|_> <other h,…|_> <locs h,…|_>     set the descriptors
  reset <ver> <clock> <fresh> <loc|->                 empty table, counters as given
  st   <state>                                        add a state to the table (start state)
  loc  <loc> <dh|->                                   set_location
  scs  <state>*                                       SetContextState with the proposals
  bump                                                commit of another transaction (MdibVersion + 1)
  dump                                                the table
  state := h,dh,dv,sv,body,assoc(no|pre|assoc|dis),bindV,unbindV,bindT,unbindT

answer of `loc`/`scs`/`dump`:  `<ok|err Class> ver=<v> fresh=<f> | <state> <state> …`  (states sorted by handle)
-/

def optNat? (s : String) : Option (Option Nat) := if s == "-" then some none else s.toNat?.map some

def assoc? : String → Option Assoc
  | "no" => some .no | "pre" => some .pre | "assoc" => some .assoc | "dis" => some .dis | _ => none

def state? (s : String) : Option CState :=
  match s.splitOn "," with
  | [h, dh, dv, sv, body, a, bv, uv, bt, ut] => do
    let h ← h.toNat?; let dh ← dh.toNat?; let dv ← dv.toNat?; let sv ← sv.toNat?; let body ← body.toNat?
    let a ← assoc? a; let bv ← optNat? bv; let uv ← optNat? uv; let bt ← optNat? bt; let ut ← optNat? ut
    pure { h, dh, dv, sv, body, assoc := a, bindV := bv, unbindV := uv, bindT := bt, unbindT := ut }
  | _ => none

def natListArg? (s : String) : Option (List Nat) :=
  if s == "_" then some [] else (s.splitOn ",").mapM String.toNat?

def pairListArg? (s : String) : Option (List (Nat × Nat)) :=
  if s == "_" then some [] else (s.splitOn ",").mapM fun x => match x.splitOn ":" with
    | [a, b] => do pure ((← a.toNat?), (← b.toNat?))
    | _ => none

def showOpt : Option Nat → String
  | none => "-" | some n => toString n

def showAssoc : Assoc → String
  | .no => "no" | .pre => "pre" | .assoc => "assoc" | .dis => "dis"

def showState (s : CState) : String :=
  ",".intercalate [toString s.h, toString s.dh, toString s.dv, toString s.sv, toString s.body, showAssoc s.assoc,
    showOpt s.bindV, showOpt s.unbindV, showOpt s.bindT, showOpt s.unbindT]

def insertSorted (s : CState) : List CState → List CState
  | [] => [s]
  | x :: xs => if s.h ≤ x.h then s :: x :: xs else x :: insertSorted s xs

def dump (st : St) : String :=
  s!"ver={st.ver} fresh={st.fresh} | " ++ " ".intercalate ((st.tab.foldr insertSorted []).map showState)

def showRes : Res → String
  | .ok => "ok"
  | .err .valueError => "err ValueError"
  | .err .keyError => "err KeyError"
  | .err .attributeError => "err AttributeError"

def stepLine (x : Env × St) (line : String) : (Env × St) × String :=
  let (env, st) := x
  match Io.words line with
  | ["env", c, o, l] =>
    match pairListArg? c, natListArg? o, natListArg? l with
    | some c, some o, some l => (({ ctx := c, other := o, locs := l }, st), "ok")
    | _, _, _ => (x, "bad-op")
  | ["reset", v, c, f, l] =>
    match v.toNat?, c.toNat?, f.toNat?, optNat? l with
    | some v, some c, some f, some l => ((env, { tab := [], ver := v, clock := c, fresh := f, loc := l }), "ok")
    | _, _, _, _ => (x, "bad-op")
  | ["st", s] =>
    match state? s with
    | some s => ((env, { st with tab := st.tab ++ [s] }), "ok")
    | none => (x, "bad-op")
  | ["loc", l, d] =>
    match l.toNat?, optNat? d with
    | some l, some d =>
      let (st', r) := step env st (.setLocation l d)
      ((env, st'), showRes r ++ " " ++ dump st')
    | _, _ => (x, "bad-op")
  | "scs" :: ps =>
    match ps.mapM state? with
    | some ps =>
      let (st', r) := step env st (.setContextState ps)
      ((env, st'), showRes r ++ " " ++ dump st')
    | none => (x, "bad-op")
  | ["bump"] =>
    let (st', _) := step env st .otherCommit
    ((env, st'), "ok")
  | ["dump"] => (x, "ok " ++ dump st)
  | _ => (x, "bad-op")

def main : IO Unit := Io.lineLoop stepLine (default, default)
