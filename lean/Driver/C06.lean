import SdcModel.Basic.Io
import SdcModel.Consumer
import SdcModel.Drivers.ConsumerIo
open Sdc Sdc.Mdib Sdc.Consumer

/-- model driver of C06 (and C01): see `SdcModel/Drivers/ConsumerIo.lean` for the line protocol -/
def main : IO Unit := Io.lineLoop ConsumerIo.stepLine St.init
