import SdcModel.Basic.Io
import SdcModel.UdpRepeat
open Sdc Sdc.UdpRepeat

/-- ops:  `sched maxInit repeats minDelay maxDelay upper init d`  ->  send times in ms
          `maxlen n` | `out id` | `recv id`  (known-id window)   -/
def stepLine (st : Nat × List String) (line : String) : (Nat × List String) × String :=
  match Io.words line with
  | "sched" :: rest =>
    match Io.parseNats rest with
    | some [a, b, c, d, e, i, g] => (st, Io.natList (schedule ⟨a, b, c, d, e⟩ i g))
    | _ => (st, "bad-op")
  | ["maxlen", n] => match n.toNat? with
    | some k => ((k, []), "ok")
    | none => (st, "bad-op")
  | ["out", id] => ((st.1, (step st.1 st.2 (.out id)).1), "ok")
  | ["recv", id] =>
    let r := step st.1 st.2 (.recv id)
    ((st.1, r.1), if r.2 then "dispatch" else "skip")
  | _ => (st, "bad-op")

def main : IO Unit := Io.lineLoop stepLine (200, [])
