import SdcModel.Basic.Io
import SdcModel.UdpRepeat
import SdcModel.UdpSendLoop
open Sdc Sdc.UdpRepeat

/-- `at msg maxInit repeats minDelay maxDelay upper init d` per call -/
def parseAdds : List Nat → Option (List UdpSendLoop.Add)
  | [] => some []
  | a :: m :: p1 :: p2 :: p3 :: p4 :: p5 :: i :: d :: rest => (parseAdds rest).map (⟨a, m, ⟨p1, p2, p3, p4, p5⟩, i, d⟩ :: ·)
  | _ => none

def showOut (out : List (Nat × UdpSendLoop.Entry)) : String :=
  let l := out.map (fun x => (x.1, x.2.msg, x.2.rep))
  let l := l.toArray.qsort (fun a b => a.1 < b.1 || (a.1 == b.1 && (a.2.1 < b.2.1 || (a.2.1 == b.2.1 && a.2.2 < b.2.2))))
  " ".intercalate (l.toList.map (fun x => s!"{x.1}:{x.2.1}:{x.2.2}"))

/-- ops:  `sched maxInit repeats minDelay maxDelay upper init d`  ->  send times in ms
          `maxlen n` | `out id` | `recv id`  (known-id window)
          `loop busy idle quitAt fuel (at msg maxInit repeats minDelay maxDelay upper init d)*` -> `done|more t:msg:rep ...` (µs) -/
def stepLine (st : Nat × List String) (line : String) : (Nat × List String) × String :=
  match Io.words line with
  | "sched" :: rest =>
    match Io.parseNats rest with
    | some [a, b, c, d, e, i, g] => (st, Io.natList (schedule ⟨a, b, c, d, e⟩ i g))
    | _ => (st, "bad-op")
  | "loop" :: rest =>
    match Io.parseNats rest with
    | some (b :: i :: q :: f :: adds) =>
      match parseAdds adds with
      | some as =>
        let r := UdpSendLoop.run ⟨b, i⟩ f (UdpSendLoop.start as q)
        (st, (if r.2 then "done " else "more ") ++ showOut r.1.out)
      | none => (st, "bad-op")
    | _ => (st, "bad-op")
  | "life" :: rest =>
    -- ops: s (start) t (stop) p<epr> c<epr>
    let ops := rest.filterMap (fun (w : String) =>
      if w == "s" then some UdpLife.Op.start else if w == "t" then some UdpLife.Op.stop
      else match w.toList with
        | 'p' :: ds => (String.ofList ds).toNat?.map UdpLife.Op.publish
        | 'c' :: ds => (String.ofList ds).toNat?.map UdpLife.Op.clear
        | _ => none)
    let outs := UdpLife.run {} ops
    (st, " ".intercalate (outs.map (fun o => match o with
      | none => "raise"
      | some l => "[" ++ "".intercalate (l.map (fun b => if b then "A" else "D")) ++ "]")))
  | ["maxlen", n] => match n.toNat? with
    | some k => ((k, []), "ok")
    | none => (st, "bad-op")
  | ["out", id] => ((st.1, (step st.1 st.2 (.out id)).1), "ok")
  | ["recv", id] =>
    let r := step st.1 st.2 (.recv id)
    ((st.1, r.1), if r.2 then "dispatch" else "skip")
  | _ => (st, "bad-op")

def main : IO Unit := Io.lineLoop stepLine (200, [])
