import SdcModel.Basic.Io
import SdcModel.Multikey
open Sdc Sdc.Multikey

/-! Model driver for C11. One op per line, one answer line per op.

  `defs <d>…`            d = m|u|n followed by 1|0 (index_none_values)   -> reset, `ok`
  `set <o> <r>…`         r = E | N | o<k> | s<w>:<e>,… | l<k>,…          -> `ok <dump>`
  `add|rm|upd <o>`, `clear`, `addm|rmm|updm <o>…`                        -> `ok <dump>` | `err <class> <dump>`
  a leading `.` word (`. add 3`): answer without the dump
  `addidx <d> <o>…`  add_index at run time, objects in the set's iteration order            -> like `add`
  `get <i> <k>` -> `none` | `o,…`     `has <i> <k>` -> `true|false`     `one <i> <k> <0|1>` -> `ok <o>|ok none|err <class>`
  dump = `O:<objs sorted> I<i>:<k>=<o,…>|… R:<o>=<i>.<k>,…/…` over the universe of keys / objects mentioned so far
-/

structure DState where
  defs : List IdxDef
  w : World
  keys : List Nat      -- universe, sorted
  objs : List Nat      -- universe, sorted

def insertSorted (x : Nat) : List Nat → List Nat
  | [] => [x]
  | y :: ys => if x < y then x :: y :: ys else if x = y then y :: ys else y :: insertSorted x ys

def natOfChars (cs : List Char) : Option Nat :=
  if cs.isEmpty then none else
  cs.foldl (fun acc c => match acc with
    | none => none
    | some n => if c.isDigit then some (n * 10 + (c.toNat - '0'.toNat)) else none) (some 0)

def splitChars (sep : Char) (cs : List Char) : List (List Char) :=
  let r := cs.foldr (fun c (acc : List Char × List (List Char)) =>
    if c = sep then ([], acc.1 :: acc.2) else (c :: acc.1, acc.2)) ([], [])
  r.1 :: r.2

def natsOfChars (cs : List Char) : Option (List Nat) :=
  if cs.isEmpty then some [] else (splitChars ',' cs).mapM natOfChars

def parseDef (s : String) : Option IdxDef :=
  match s.toList with
  | [c, b] =>
    let kind := match c with | 'm' => some IdxKind.multi | 'u' => some .unique | 'n' => some .oneN | _ => none
    let nn := match b with | '1' => some true | '0' => some false | _ => none
    match kind, nn with
    | some k, some b => some ⟨k, b⟩
    | _, _ => none
  | _ => none

def parseRes (s : String) : Option KeyRes :=
  match s.toList with
  | ['E'] => some .attrErr
  | ['N'] => some .none
  | 'o' :: rest => (natOfChars rest).map .one
  | 'l' :: rest => (natsOfChars rest).map .many
  | 's' :: rest =>
    match splitChars ':' rest with
    | [w, es] => match natOfChars w, natsOfChars es with
      | some w, some es => some (.seq w es)
      | _, _ => none
    | _ => none
  | _ => none

def keysOfKeyRes : KeyRes → List Nat
  | .one k => [k]
  | .seq w es => w :: es
  | .many ks => ks
  | _ => []

def commaNats (l : List Nat) : String := ",".intercalate (l.map toString)

def dump (s : DState) : String :=
  let t := s.w.tab
  let objs := s.objs.filter (· ∈ t.objs)
  let extra := t.objs.filter (· ∉ s.objs)      -- cannot happen; shown if it does
  let idxs := (List.range s.defs.length).map (fun i =>
    s!"I{i}:" ++ "|".intercalate ((s.keys.filter (fun k => t.idx i k ≠ [])).map (fun k => s!"{k}={commaNats (t.idx i k)}")))
  let refs := s.objs.filterMap (fun o => (t.refs o).map (fun r =>
    s!"{o}=" ++ ",".intercalate (r.map (fun ik => s!"{ik.1}.{ik.2}"))))
  s!"O:{commaNats (objs ++ extra)} " ++ " ".intercalate idxs ++ " R:" ++ "/".intercalate refs

def errName : Err → String
  | .keyError => "KeyError"
  | .valueError => "ValueError"

def answer (quiet : Bool) (s : DState) (e : Option Err) : String :=
  let res := match e with
    | none => "ok"
    | some e => "err " ++ errName e
  if quiet then res else res ++ " " ++ dump s

def doOp (quiet : Bool) (s : DState) (op : Op) (mention : List Nat) : DState × String :=
  let r := step s.defs s.w op
  let s' := { s with w := r.1, objs := mention.foldl (fun acc o => insertSorted o acc) s.objs }
  (s', answer quiet s' r.2)

/-- a leading `.` word makes a mutating op answer without the dump -/
def stepLine (s : DState) (line : String) : DState × String :=
  let ws := Io.words line
  let quiet := ws.head? == some "."
  let doOp := doOp quiet
  match (if quiet then ws.tail else ws) with
  | "defs" :: ds =>
    match ds.mapM parseDef with
    | some defs => ({ defs := defs, w := World.init, keys := [noneKey], objs := [] }, "ok")
    | none => (s, "bad-op")
  | "set" :: o :: rs =>
    match o.toNat?, rs.mapM parseRes with
    | some o, some rs =>
      let ks := (rs.flatMap keysOfKeyRes).foldl (fun acc k => insertSorted k acc) s.keys
      doOp { s with keys := ks } (.setAttrs o rs) [o]
    | _, _ => (s, "bad-op")
  | ["add", o] => match o.toNat? with | some o => doOp s (.add o) [o] | none => (s, "bad-op")
  | ["rm", o] => match o.toNat? with | some o => doOp s (.remove o) [o] | none => (s, "bad-op")
  | ["upd", o] => match o.toNat? with | some o => doOp s (.update o) [o] | none => (s, "bad-op")
  | ["clear"] => doOp s .clear []
  | "addm" :: os => match Io.parseNats os with | some os => doOp s (.addMany os) os | none => (s, "bad-op")
  | "rmm" :: os => match Io.parseNats os with | some os => doOp s (.removeMany os) os | none => (s, "bad-op")
  | "updm" :: os => match Io.parseNats os with | some os => doOp s (.updateMany os) os | none => (s, "bad-op")
  | "addidx" :: d :: os =>
    -- `add_index` at run time; os = iteration order of the object set as observed on the implementation
    match parseDef d, Io.parseNats os with
    | some d, some os =>
      let r := xstep { defs := s.defs, w := s.w } (.addIndex d os)
      let s' := { s with defs := r.1.defs, w := r.1.w }
      (s', answer quiet s' r.2)
    | _, _ => (s, "bad-op")
  | ["dump"] => (s, dump s)
  | ["get", i, k] =>
    match i.toNat?, k.toNat? with
    | some i, some k => (s, match Multikey.get s.w.tab i k with | none => "none" | some l => commaNats l)
    | _, _ => (s, "bad-op")
  | ["has", i, k] =>
    match i.toNat?, k.toNat? with
    | some i, some k => (s, if contains s.w.tab i k then "true" else "false")
    | _, _ => (s, "bad-op")
  | ["one", i, k, a] =>
    match i.toNat?, k.toNat? with
    | some i, some k =>
      (s, match getOne s.w.tab i k (a == "1") with
          | .ok none => "ok none"
          | .ok (some o) => s!"ok {o}"
          | .error e => "err " ++ errName e)
    | _, _ => (s, "bad-op")
  | _ => (s, "bad-op")

def main : IO Unit := Io.lineLoop stepLine { defs := [], w := World.init, keys := [noneKey], objs := [] }
