import SdcModel.Basic.Io
import SdcModel.Tls
open Sdc Sdc.Tls

/-! model driver for C19.
  `sites pT pS pA cM cS cA ssl` -> scheme/host of every site, accept flag, client/server TLS flags
       (pT,pA,cA ∈ 0|1; pS,cS ∈ own|plain|tls; cM ∈ none|optional|enforced; ssl ∈ T|F|N = `is_ssl_connection`)
  `crun mode ev…` (ev ∈ c1|c0|cx|g<netloc>|s) -> final `is_ssl_connection` and TLS flags of the clients created
  `verify server ca` -> verify mode
  `folder key cert caNamed caPresent` -> result of mk_ssl_contexts_from_folder
  `delivery pT scheme async` -> 1 iff a notification to a subscriber with that NotifyTo scheme is sent with TLS -/

def parseBool : String → Option Bool
  | "1" => some true
  | "0" => some false
  | _ => none

def parseServer : String → Option Server
  | "own" => some .own
  | "plain" => some .sharedPlain
  | "tls" => some .sharedTls
  | _ => none

def parseMode : String → Option ConsMode
  | "none" => some .none
  | "optional" => some .optional
  | "enforced" => some .enforced
  | _ => none

def parseSsl : String → Option (Option Bool)
  | "T" => some (some true)
  | "F" => some (some false)
  | "N" => some none
  | _ => none

def showSsl : Option Bool → String
  | some true => "T"
  | some false => "F"
  | none => "N"

def showScheme : Scheme → String
  | .http => "http"
  | .https => "https"

def showHost : Host → String
  | .ip => "ip"
  | .alt => "alt"

def siteName : Site → String
  | .xaddr => "xaddr" | .hostedEpr => "hostedEpr" | .wsdlLocation => "wsdlLocation"
  | .subscriptionManager => "subscriptionManager" | .subscriptionEndManager => "subscriptionEndManager"
  | .notifyTo => "notifyTo" | .endTo => "endTo"

def showVerify : Verify → String
  | .certNone => "CERT_NONE"
  | .certOptional => "CERT_OPTIONAL"
  | .certRequired => "CERT_REQUIRED"

def b01 (b : Bool) : String := if b then "1" else "0"

def parseEv (w : String) : Option CEv :=
  if w == "c1" then some (.connect .ok)
  else if w == "c0" then some (.connect .sslError)
  else if w == "cx" then some (.connect .otherError)
  else if w == "s" then some .stop
  else if w.startsWith "g" then (w.drop 1).toNat?.map .getClient
  else none

def stepLine (u : Unit) (line : String) : Unit × String :=
  match Io.words line with
  | ["sites", pT, pS, pA, cM, cS, cA, ssl] =>
    match parseBool pT, parseServer pS, parseBool pA, parseMode cM, parseServer cS, parseBool cA, parseSsl ssl with
    | some a, some b, some c, some d, some e, some f, some s =>
      let cfg : Cfg := ⟨a, b, c, d, e, f⟩
      let sites := " ".intercalate (Site.all.map fun st => s!"{siteName st}={showScheme (urlScheme cfg s st)}/{showHost (urlHost cfg st)}")
      (u, s!"{sites} accept={b01 (eventSinkAccepted cfg s)} provClient={b01 (provClientTls cfg)} provServer={b01 (provServerTls cfg)} consServer={b01 (consServerTls cfg s)}")
    | _, _, _, _, _, _, _ => (u, "bad-op")
  | "crun" :: mode :: evs =>
    match parseMode mode, evs.mapM parseEv with
    | some m, some es =>
      let r := crun (CState.init m) es
      (u, s!"ssl={showSsl r.1.ssl} clients=[{" ".intercalate (r.2.map b01)}]")
    | _, _ => (u, "bad-op")
  | ["delivery", pT, scheme, asyncMgr] =>
    match parseBool pT, parseBool asyncMgr with
    | some a, some m =>
      if scheme == "http" || scheme == "https" then
        let cfg : Cfg := ⟨a, .own, false, .none, .own, false⟩
        (u, b01 (deliveryTls cfg (if scheme == "https" then .https else .http) m))
      else (u, "bad-op")
    | _, _ => (u, "bad-op")
  | ["folder", k, c, n, p, cy] =>
    match parseBool k, parseBool c, parseBool n, parseBool p, parseBool cy with
    | some k, some c, some n, some p, some cy =>
      match fromFolderWith k c n p cy with
      | .fileNotFound => (u, "FileNotFoundError")
      | .contexts cl sv => (u, s!"{showVerify cl} {showVerify sv}")
    | _, _, _, _, _ => (u, "bad-op")
  | ["init", mode] => match parseMode mode with
    | some m => (u, showSsl (initSsl m))
    | none => (u, "bad-op")
  | ["verify", server, ca, cy] => match parseBool server, parseBool ca, parseBool cy with
    | some s, some c, some y => (u, showVerify (verifyModeWith s c y))
    | _, _, _ => (u, "bad-op")
  | ["accept", cS, ssl, spelling] => match parseServer cS, parseSsl ssl with
    | some e, some s =>
      if spelling == "http" || spelling == "https" then
        (u, b01 (eventSinkAcceptedFor ⟨true, .own, false, .enforced, e, false⟩ s (if spelling == "https" then .https else .http)))
      else (u, "bad-op")
    | _, _ => (u, "bad-op")
  | _ => (u, "bad-op")

def main : IO Unit := Io.lineLoop stepLine ()
