import SdcModel.Basic.Io
import SdcModel.Basic.HttpIo
import SdcModel.Http
open Sdc Sdc.Http Sdc.HttpIo

/-- toy codec of the correspondence runs (the harness installs the same one in `CompressionHandler.handlers`):
    `enc x = tag :: reverse x`; `dec` rejects anything that does not start with the tag -/
def toyCodec (tag : Nat) : Codec where
  enc x := tag :: x.reverse
  dec
    | t :: y => if t = tag then some y.reverse else none
    | [] => none

structure St where
  w : Nat := 16
  reg : Registry := ⟨[], []⟩

def errName : Err → String
  | .dechunk => "DechunkError" | .decompress => "DecompressError" | .compression => "CompressionError"
  | .codec => "CodecError" | .value => "ValueError" | .type => "TypeError" | .fuel => "FUEL"

def showOptBytes : Option Bytes → String
  | none => "none"
  | some b => hex b

def showCl : Option ClVal → String
  | none => "~" | some .empty => "-" | some .bad => "bad" | some (.val n) => toString n

def showOptStr : Option Str → String
  | none => "~" | some s => showStr s

def showMsg : Except Err (Hdrs × Bytes) → String
  | .error e => "err " ++ errName e
  | .ok (h, wire) => s!"ok te={showOptStr h.transferEncoding} cl={showCl h.contentLength} ce={showOptStr h.contentEncoding} ae={showOptStr h.acceptEncoding} {hex wire}"

def cl? (s : String) : Option (Option ClVal) :=
  if s = "~" then some none else if s = "-" then some (some .empty) else if s = "bad" then some (some .bad)
  else (int? s).map (fun n => some (.val n))

def showBody : Except Err (Option Bytes) → String
  | .error e => "err " ++ errName e
  | .ok b => "ok " ++ showOptBytes b

/-- ops (see harness/props/c17.py):
  `window w` · `handler name tag` · `avail names` · `resetreg`
  `mk n hex` · `dechunk hex` · `wf hex` · `int16 hex` · `ae str` · `choose str names`
  `req te cl ce sup hex` · `resp cl ce sup hex` · `send sup reqencs chunk hex` · `respond sup chunk ae hex` -/
def stepLine (st : St) (line : String) : St × String :=
  match Io.words line with
  | ["window", w] => match w.toNat? with
    | some k => ({ st with w := k }, "ok")
    | none => (st, "bad-op")
  | ["resetreg"] => ({ st with reg := ⟨[], []⟩ }, "ok")
  | ["handler", name, tag] => match str? name, tag.toNat? with
    | some n, some t => ({ st with reg := { st.reg with handlers := st.reg.handlers ++ [(n, toyCodec t)] } }, "ok")
    | _, _ => (st, "bad-op")
  | ["avail", names] => match strList? names with
    | some l => ({ st with reg := { st.reg with available := l } }, "ok")
    | none => (st, "bad-op")
  | ["mk", n, h] => match n.toNat?, unhex h with
    | some n, some b => (st, hex (mkChunks n b))
    | _, _ => (st, "bad-op")
  | ["dechunk", h] => match unhex h with
    | some s => (st, match dechunk st.w s with
      | .ok (b, r) => s!"ok {hex b} {r.length}"
      | .error e => "err " ++ errName e)
    | none => (st, "bad-op")
  | ["wf", h] => match unhex h with
    | some s => (st, toString (isChunkedBody s))
    | none => (st, "bad-op")
  | ["int16", h] => match unhex h with
    | some s => (st, match ChunkHex.pyIntHex s with | some v => s!"ok {v}" | none => "err")
    | none => (st, "bad-op")
  | ["ae", h] => match str? h with
    | some s => (st, showStrList (parseHeader s))
    | none => (st, "bad-op")
  | "hist" :: cfg :: ops => match strList? cfg with
    | none => (st, "bad-op")
    | some cfg0 =>
      let parsed : Option (List CfgOp) := ops.mapM fun o =>
        if o.startsWith "s:" then (strList? (o.drop 2).toString).map CfgOp.setUsed
        else if o.startsWith "r:" then (optStr? (o.drop 2).toString).map CfgOp.request
        else none
      match parsed with
      | none => (st, "bad-op")
      | some l => (st, " ".intercalate ((cfgRun cfg0 l).map fun e => match e.2.2 with | some c => showStr c | none => "none"))
  | ["choose", h, sup] => match optStr? h, strList? sup with
    | some s, some l => (st, match choose (parseHeader (s.getD [])) l with | some c => "ok " ++ showStr c | none => "none")
    | _, _ => (st, "bad-op")
  | ["req", te, cl, ce, sup, wire] => match optStr? te, cl? cl, optStr? ce, strList? sup, unhex wire with
    | some te, some cl, some ce, some sup, some wire =>
      (st, showBody (readRequestBody st.w st.reg sup { transferEncoding := te, contentLength := cl, contentEncoding := ce } wire))
    | _, _, _, _, _ => (st, "bad-op")
  | ["resp", cl, ce, sup, payload] => match cl? cl, optStr? ce, strList? sup, unhex payload with
    | some cl, some ce, some sup, some p =>
      (st, showBody (readResponseBody st.reg sup { contentLength := cl, contentEncoding := ce } p))
    | _, _, _, _ => (st, "bad-op")
  | ["send", sup, reqencs, chunk, xml] => match strList? sup, strList? reqencs, chunk.toNat?, unhex xml with
    | some sup, some re, some c, some x => (st, showMsg (sendRequest st.reg sup re c x))
    | _, _, _, _ => (st, "bad-op")
  | ["respond", sup, chunk, ae, body] => match strList? sup, chunk.toNat?, optStr? ae, unhex body with
    | some sup, some c, some ae, some b => (st, showMsg (respond st.reg sup c ae b))
    | _, _, _, _ => (st, "bad-op")
  | _ => (st, "bad-op")

def main : IO Unit := Io.lineLoop stepLine {}
