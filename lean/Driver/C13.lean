import SdcModel.Basic.Io
import SdcModel.RequestFlow
open Sdc Sdc.RequestFlow

/-- stage outcome: `ok` | `ok:<n>` | `p:<status>:<tag>` (InvalidPathError) | `h:<status>:<tag>` | `o:<cls>` -/
def exc? (s : String) : Option Exc :=
  match s.splitOn ":" with
  | ["p", a, b] => do pure (.invalidPath (← a.toNat?) (← b.toNat?))
  | ["h", a, b] => do pure (.http (← a.toNat?) (← b.toNat?))
  | ["o", a] => do pure (.other (← a.toNat?))
  | _ => none

def unitStage? (s : String) : Option (Stage Unit) :=
  if s = "ok" then some (.ok ()) else (exc? s).map .error

def natStage? (s : String) : Option (Stage Nat) :=
  match s.splitOn ":" with
  | ["ok"] => some (.ok 0)
  | ["ok", n] => n.toNat?.map .ok
  | _ => (exc? s).map .error

def showExc : Exc → String
  | .invalidPath s t => s!"p:{s}:{t}"
  | .http s t => s!"h:{s}:{t}"
  | .other c => s!"o:{c}"

def showReason : Reason → String
  | .ok => "Ok" | .ofExc t => s!"r{t}" | .exception => "exception"

def showBody : Body → String
  | .response i => s!"resp:{i}" | .fault i => s!"fault:{i}" | .reply i => s!"reply:{i}"

def showResp (r : Response) : String := s!"{r.status} {showReason r.reason} {showBody r.body}"

def showGet : GetOut → String
  | .ok i => s!"200 Ok get:{i}" | .error => "500 Exception text"

def showOut : HttpOut → String
  | .plain s r => s!"plain {s} {showReason r}"
  | .soap r => "soap " ++ showResp r
  | .get r => "get " ++ showGet r

/-- component.do_post as seen by do_POST: `ret:<status>` | exception -/
def postOutcome? (s : String) : Option (Nat → Stage Response × Nat) :=
  match s.splitOn ":" with
  | ["ret", st] => st.toNat?.map fun st => fun n => (.ok ⟨st, .ok, .response 0⟩, n + 1)
  | _ => (exc? s).map fun x => fun n => (.error x, n + 1)

/-- ops:
  `post read1 mkFaultMsg serFault dispatch serResp read2 mkReply serReply`  ->  `ret <status> <reason> <body> calls=<n>` | `escape <exc> calls=<n>`
  `get parse handle`
  `POST readBody hasDispatcher lookup post`     `GET hasDispatcher lookup get`   (get = `ok:<n>` | `err` | exception escaping do_get) -/
def item? (s : String) : Option Item :=
  match s.splitOn "=" with
  | [i, o] => do pure ⟨← i.toNat?, ← unitStage? o⟩
  | _ => none

/-- `deferred cap op op …` with op = `<id>=<outcome>` (post) | `w` (one worker pass)  ->  handled ids, queue length, alive, #blocked puts -/
def runDeferred (cap : Nat) (ops : List String) : Option String := do
  let mut s : DState := ⟨[], [], true⟩
  let mut blocked := 0
  for o in ops do
    if o = "w" then
      s := (dstep cap s .work).1
    else
      let it ← item? o
      let r := dstep cap s (.post it)
      s := r.1
      if r.2 then blocked := blocked + 1
  pure s!"handled={Io.natList s.handled} queue={s.queue.length} alive={s.alive} blocked={blocked}"

def stepLine (st : Unit) (line : String) : Unit × String :=
  match Io.words line with
  | "deferred" :: cap :: ops => match cap.toNat? with
    | some c => (st, (runDeferred c ops).getD "bad-op")
    | none => (st, "bad-op")
  | ["post", a, b, c, d, e, f, g, h] =>
    match unitStage? a, unitStage? b, natStage? c, unitStage? d, natStage? e, unitStage? f, unitStage? g, natStage? h with
    | some a, some b, some c, some d, some e, some f, some g, some h =>
      let env : PostEnv Nat := ⟨a, b, c, fun n => (d, n + 1), e, f, g, h⟩
      match doPost env 0 with
      | (.ok r, n) => (st, s!"ret {showResp r} calls={n}")
      | (.error x, n) => (st, s!"escape {showExc x} calls={n}")
    | _, _, _, _, _, _, _, _ => (st, "bad-op")
  | ["get", a, b] =>
    match unitStage? a, natStage? b with
    | some a, some b => (st, match doGet ⟨a, b⟩ with
      | .ok r => "ret " ++ showGet r
      | .error x => "escape " ++ showExc x)
    | _, _ => (st, "bad-op")
  | ["POST", rb, hd, lk, p] =>
    match unitStage? rb, unitStage? lk, postOutcome? p with
    | some rb, some lk, some p =>
      let env : HandlerEnv Nat := ⟨rb, hd == "1", lk, p, .ok (.ok 0)⟩
      match doPOST env 0 with
      | (.ok o, n) => (st, s!"{showOut o} calls={n}")
      | (.error x, n) => (st, s!"escape {showExc x} calls={n}")
    | _, _, _ => (st, "bad-op")
  | ["opburst", cap, queued, n] =>
    match cap.toNat?, queued.toNat?, n.toNat? with
    | some c, some q, some k => (st, " ".intercalate ((opBurst c q k).map fun x => match x with | .wait => "Wait" | .failed => "Fail"))
    | _, _, _ => (st, "bad-op")
  | "CONN" :: envs =>
    let parsed : Option (List (HandlerEnv Nat)) := envs.mapM fun t =>
      match t.splitOn "," with
      | [rb, hd, lk, p] => do
        let rb ← unitStage? rb
        let lk ← unitStage? lk
        let p ← postOutcome? p
        pure ⟨rb, hd == "1", lk, p, .ok (.ok 0)⟩
      | _ => none
    match parsed with
    | none => (st, "bad-op")
    | some l =>
      let r := serveConn l 0
      (st, " ; ".intercalate (r.1.map showOut) ++ s!" calls={r.2}")
  | ["GET", hd, lk, g] =>
    let gs : Option (Stage GetOut) :=
      if g = "err" then some (.ok .error) else match natStage? g with
        | some (.ok n) => some (.ok (.ok n))
        | some (.error x) => some (.error x)
        | none => none
    match unitStage? lk, gs with
    | some lk, some gs =>
      let env : HandlerEnv Nat := ⟨.ok (), hd == "1", lk, fun n => (.error (.other 0), n), gs⟩
      (st, match doGET env with
        | .ok o => showOut o
        | .error x => "escape " ++ showExc x)
    | _, _ => (st, "bad-op")
  | _ => (st, "bad-op")

def main : IO Unit := Io.lineLoop stepLine ()
