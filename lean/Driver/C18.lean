import SdcModel.Basic.Io
import SdcModel.Fp64
import SdcModel.Scalars
import SdcModel.ScalarsDt
open Sdc Sdc.Fp64 Sdc.Scalars

/-! driver of the C18 model. Strings travel as `x<hex of utf-8>`; floats as `<neg 0|1> <m> <e>` (value m·2^e).
    ops: tspy S | tsxml n m e | int S | intxml i | bool S | boolxml 0|1 | decpy S | declistpy S | decxml n c e |
         durstr n m e | durpy S | enum S L1 L2 … | dtpy S | dtstr y mo d hh mm ss FRAC eod tz   -/

def hexVal (c : Char) : Option Nat :=
  if '0' ≤ c ∧ c ≤ '9' then some (c.toNat - 48)
  else if 'a' ≤ c ∧ c ≤ 'f' then some (c.toNat - 87) else none

def hexBytes : List Char → Option (List UInt8)
  | [] => some []
  | [_] => none
  | a :: b :: r => do
    let x ← hexVal a
    let y ← hexVal b
    let t ← hexBytes r
    pure ((x * 16 + y).toUInt8 :: t)

def decodeStr (w : String) : Option Str :=
  match w.toList with
  | 'x' :: r => do
    let bs ← hexBytes r
    let s ← String.fromUTF8? (ByteArray.mk bs.toArray)
    pure (s.toList.map Char.toNat)
  | _ => none

def showStr (s : Str) : String := String.ofList (s.map Char.ofNat)

def showFp (x : Fp) : String := s!"ok {if x.neg then 1 else 0} {x.m} {x.e}"

def showErr : Err → String
  | .value => "err value"
  | .overflow => "err overflow"

def showRes {α} (f : α → String) : Except Err α → String
  | .ok a => f a
  | .error e => showErr e

def parseFp (n m e : String) : Option Fp := do
  let n ← n.toNat?
  let m ← m.toNat?
  let e ← e.toInt?
  pure ⟨n == 1, m, e⟩

/-- dense window `[a, b)`: number of `n` with `tsXml (tsPy n) ≠ n` and a checksum over `(m, e, tsXml)` -/
def tsWindow (a b : Nat) : Nat × UInt64 := Id.run do
  let mut bad := 0
  let mut cs : UInt64 := 0
  for n in [a:b] do
    let x := tsPy n
    let k := tsXml x
    if k ≠ n then bad := bad + 1
    cs := cs + x.m.toUInt64 * (n % 65521 + 1).toUInt64 + ((x.e + 1100).toNat * 31).toUInt64 + (k.toNat * 17).toUInt64
  return (bad, cs)

def showOptNat : Option Nat → String
  | some n => toString n
  | none => "-"

/-- canonical dump of a parsed date/time; the seconds as the float `float('SS.fff')` -/
def showDateInfo (i : DateInfo) : String :=
  let t := match i.time with
    | some (hh, mm, ss, fr) =>
      let x := if fr.isEmpty then rnRat false ss 1 else floatOfDecimal (natStr ss) fr
      s!"{hh} {mm} {if x.neg then 1 else 0}:{x.m}:{x.e}"
    | none => "- - -"
  let tz := match i.tz with | some o => toString o | none => "-"
  s!"ok {i.year} {showOptNat i.month} {showOptNat i.day} {t} {if i.eod then 1 else 0} {tz}"

def parseOptNat (w : String) : Option (Option Nat) := if w == "-" then some none else w.toNat?.map some

def parseDateInfo (ws : List String) : Option DateInfo :=
  match ws with
  | [y, mo, d, hh, mm, ss, fr, eod, tz] => do
    let y ← y.toInt?
    let mo ← parseOptNat mo
    let d ← parseOptNat d
    let hh ← parseOptNat hh
    let mm ← parseOptNat mm
    let ss ← parseOptNat ss
    let fr ← decodeStr fr
    let tz ← (if tz == "-" then some none else tz.toInt?.map some)
    let tm := match hh, mm, ss with
      | some a, some b, some c => some (a, b, c, fr)
      | _, _, _ => none
    pure ⟨y, mo, d, tm, eod == "1", tz⟩
  | _ => none

def stepLine (st : Unit) (line : String) : Unit × String :=
  (st, match Io.words line with
  | ["tspy", s] => match decodeStr s with
    | some s => showRes showFp (tsToPy s)
    | none => "bad-op"
  | ["tswin", a, b] => match a.toNat?, b.toNat? with
    | some a, some b => let r := tsWindow a b; s!"ok {r.1} {r.2}"
    | _, _ => "bad-op"
  | ["tsxml", n, m, e] => match parseFp n m e with
    | some x => "ok " ++ showStr (tsToXml x)
    | none => "bad-op"
  | ["int", s] => match decodeStr s with
    | some s => showRes (fun i => s!"ok {i}") (intToPy s)
    | none => "bad-op"
  | ["intxml", i] => match i.toInt? with
    | some i => "ok " ++ showStr (intToXml i)
    | none => "bad-op"
  | ["bool", s] => match decodeStr s with
    | some s => showRes (fun b => s!"ok {b}") (boolToPy s)
    | none => "bad-op"
  | ["boolxml", b] => "ok " ++ showStr (boolToXml (b == "1"))
  | ["decpy", s] => match decodeStr s with
    | some s => showRes (fun d => s!"ok {if d.neg then 1 else 0} {d.coeff} {d.exp}") (decToPy s)
    | none => "bad-op"
  | ["declistpy", s] => match decodeStr s with
    | some s => showRes (fun ds => "ok" ++ String.join (ds.map fun d => s!" {if d.neg then 1 else 0}:{d.coeff}:{d.exp}")) (decListToPy s)
    | none => "bad-op"
  | ["decxml", n, c, e] => match n.toNat?, c.toNat?, e.toInt? with
    | some n, some c, some e => "ok " ++ showStr (decToXml ⟨n == 1, c, e⟩)
    | _, _, _ => "bad-op"
  | ["durstr", n, m, e] => match parseFp n m e with
    | some x => showRes (fun s => "ok " ++ showStr s) (durationString x)
    | none => "bad-op"
  | ["durpy", s] => match decodeStr s with
    | some s => showRes showFp (parseDuration s)
    | none => "bad-op"
  | ["dtpy", s] => match decodeStr s with
    | some s => showRes showDateInfo (parseDateTime s)
    | none => "bad-op"
  | "dtstr" :: ws => match parseDateInfo ws with
    | some i => "ok " ++ showStr (dateTimeStr i)
    | none => "bad-op"
  | "enum" :: s :: lits => match decodeStr s, lits.mapM decodeStr with
    | some s, some ls => showRes (fun i => s!"ok {i}") (enumToPy ls s)
    | _, _ => "bad-op"
  | _ => "bad-op")

def main : IO Unit := Io.lineLoop stepLine ()
