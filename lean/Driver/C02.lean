import SdcModel.Drivers.MdibDriver
def main : IO Unit := Sdc.Io.lineLoop Sdc.MdibDriver.step {}
