import SdcModel.Basic.Io
import SdcModel.Discovery
open Sdc Sdc.Discovery Sdc.Url Sdc.Hex

/-! line protocol of the C14 model driver (strings `x<hex>`, `-` = None, scope strings carry the flag
    "the real urlsplit accepted it": `1x…` / `0x…`):
  types  = `-` | `t[<ns>:<name>,…]`          scopes = `-` | `s<matchBy|->;[<flag><uri>,…]`      xaddrs = `a[<x>,…]`
  svc    = `<epr> <mv> <inst> <types> <scopes> <xaddrs>`
  `rules <ldap> <uri> <uuid> <strcmp> <allow_missing_app_sequence 0|1>` | `maxlen <n>` | `reset`
  `match <matchBy|-> <flag><a> <flag><b>`            -> `ok True|False` | `err ValueError`
  `mfilter <svc> <types> <scopes>`                   -> `ok True|False` | `err <class>`
  `publish <epr> <types> <scopes> <xaddrs> <inst>`   -> `ok <mv>`
  `clear <epr>`                                      -> `ok` | `err KeyError`
  `hello <app> <svc>` | `pm <app> <n> <svc>…` | `rm <app> <svc>` | `bye <epr>` | `probe <types> <scopes>` |
  `resolve <epr>` | `unknown`                        -> `ok [P:<epr>:<mv> | R:<epr>:<mv>]…` | `err <class>`
  `dg <mid> <message op …>`                          -> `skip` | answer of the message op
  `out <id>`   (an own message with this id was queued: `add_outbound_message`)        -> `ok`
  `dump` | `dumplocal`                               -> `<epr>|<mv>|<inst>|<types>|<scopes>|<xaddrs>` …            -/

structure DState where
  rules : Rules
  maxlen : Nat
  rejected : List Bytes      -- netlocs the real urlsplit rejected (the parameter `chk` of the model)
  node : Node

def errName : Err → String
  | .valueError => "err ValueError"
  | .typeError => "err TypeError"
  | .attributeError => "err AttributeError"

def splitComma (s : String) : List String := if s = "" then [] else s.splitOn ","

def netlocOf (s : Bytes) : Bytes := (splitNetloc (splitScheme (cleanUrl s)).2).1

/-- flagged scope string -> (rejected netloc?, bytes) -/
def parseFlagged (s : String) : Option (Option Bytes × Bytes) :=
  match s.toList with
  | '1' :: cs => (ofArg (String.ofList cs)).map fun b => (none, b)
  | '0' :: cs => (ofArg (String.ofList cs)).map fun b => (some (netlocOf b), b)
  | _ => none

def parseQName (s : String) : Option QName :=
  match s.splitOn ":" with
  | [a, b] => match ofArg a, ofArg b with
    | some a, some b => some ⟨a, b⟩
    | _, _ => none
  | _ => none

def parseTypes (s : String) : Option (Option (List QName)) :=
  if s = "-" then some none
  else match s.toList with
    | 't' :: cs => ((splitComma (String.ofList cs)).mapM parseQName).map some
    | _ => none

def parseScopes (s : String) : Option (List Bytes × Option Scopes) :=
  if s = "-" then some ([], none)
  else match s.toList with
    | 's' :: cs =>
      match (String.ofList cs).splitOn ";" with
      | [m, l] =>
        match ofOptArg m, (splitComma l).mapM parseFlagged with
        | some m, some items => some (items.filterMap (·.1), some ⟨items.map (·.2), m⟩)
        | _, _ => none
      | _ => none
    | _ => none

def parseXaddrs (s : String) : Option (List Bytes) :=
  match s.toList with
  | 'a' :: cs => (splitComma (String.ofList cs)).mapM ofArg
  | _ => none

def parseSvc (ws : List String) : Option (List Bytes × Service) :=
  match ws with
  | [e, mv, inst, t, s, a] =>
    match ofArg e, mv.toNat?, inst.toNat?, parseTypes t, parseScopes s, parseXaddrs a with
    | some e, some mv, some inst, some t, some (rej, s), some a => some (rej, ⟨e, t, s, a, mv, inst⟩)
    | _, _, _, _, _, _ => none
  | _ => none

def parseSvcs : Nat → List String → Option (List Bytes × List Service)
  | 0, [] => some ([], [])
  | 0, _ => none
  | n + 1, e :: mv :: inst :: t :: s :: a :: rest =>
    match parseSvc [e, mv, inst, t, s, a], parseSvcs n rest with
    | some (r1, sv), some (r2, svs) => some (r1 ++ r2, sv :: svs)
    | _, _ => none
  | _ + 1, _ => none

def flag? (s : String) : Option Bool := if s = "1" then some true else if s = "0" then some false else none

/-- message ops -> (rejected netlocs, message) -/
def parseMsg (ws : List String) : Option (List Bytes × Msg) :=
  match ws with
  | "hello" :: app :: rest => match flag? app, parseSvc rest with
    | some app, some (rej, s) => some (rej, .hello app s)
    | _, _ => none
  | ["rm", app, "-"] => (flag? app).map fun app => ([], .resolveMatches app none)
  | "rm" :: app :: rest => match flag? app, parseSvc rest with
    | some app, some (rej, s) => some (rej, .resolveMatches app (some s))
    | _, _ => none
  | "pm" :: app :: n :: rest => match flag? app, n.toNat? with
    | some app, some n => (parseSvcs n rest).map fun (rej, ss) => (rej, .probeMatches app ss)
    | _, _ => none
  | ["bye", e] => (ofArg e).map fun e => ([], .bye e)
  | ["probe", t, s] => match parseTypes t, parseScopes s with
    | some t, some (rej, s) => some (rej, .probe t s)
    | _, _ => none
  | ["resolve", e] => (ofArg e).map fun e => ([], .resolve e)
  | ["unknown"] => some ([], .unknown)
  | _ => none

def showOut : Out → String
  | .probeMatch s => "P:" ++ toArg s.epr ++ ":" ++ toString s.mv
  | .resolveMatch s => "R:" ++ toArg s.epr ++ ":" ++ toString s.mv

def showOuts (o : List Out) : String := "ok " ++ " ".intercalate (o.map showOut)

def showTypes : Option (List QName) → String
  | none => "-"
  | some ts => "t" ++ ",".intercalate (ts.map fun q => toArg q.ns ++ ":" ++ toArg q.name)

def showScopes : Option Scopes → String
  | none => "-"
  | some sc => "s" ++ toOptArg sc.matchBy ++ ";" ++ ",".intercalate (sc.text.map toArg)

def showSvc (s : Service) : String :=
  "|".intercalate [toArg s.epr, toString s.mv, toString s.inst, showTypes s.types, showScopes s.scopes,
    "a" ++ ",".intercalate (s.xaddrs.map toArg)]

def mkChk (rejected : List Bytes) : Bytes → Bool := fun nl => !rejected.contains nl

def initState : DState := ⟨⟨[], [], [], [], false⟩, 200, [], ⟨[], State.empty⟩⟩

def stepLine (d : DState) (line : String) : DState × String :=
  match Io.words line with
  | ["reset"] => ({ d with rejected := [], node := ⟨[], State.empty⟩ }, "ok")
  | ["rules", a, b, c, e, allow] => match ofArg a, ofArg b, ofArg c, ofArg e, flag? allow with
    | some a, some b, some c, some e, some allow => ({ d with rules := ⟨a, b, c, e, allow⟩ }, "ok")
    | _, _, _, _, _ => (d, "bad-op")
  | ["maxlen", n] => match n.toNat? with
    | some n => ({ d with maxlen := n }, "ok")
    | none => (d, "bad-op")
  | ["match", m, a, b] => match ofOptArg m, parseFlagged a, parseFlagged b with
    | some m, some (ra, a), some (rb, b) =>
      let rej := ra.toList ++ rb.toList ++ d.rejected
      ({ d with rejected := rej }, match matchScope (mkChk rej) d.rules a b m with
        | .ok v => if v then "ok True" else "ok False"
        | .error e => errName e)
    | _, _, _ => (d, "bad-op")
  | "mfilter" :: e :: mv :: inst :: t :: s :: a :: [ft, fs] => match parseSvc [e, mv, inst, t, s, a], parseTypes ft, parseScopes fs with
    | some (r1, sv), some ft, some (r2, fs) =>
      let rej := r1 ++ r2 ++ d.rejected
      ({ d with rejected := rej }, match matchesFilter (mkChk rej) d.rules sv ft fs with
        | .ok v => if v then "ok True" else "ok False"
        | .error e => errName e)
    | _, _, _ => (d, "bad-op")
  | ["publish", e, t, s, a, inst] => match ofArg e, parseTypes t, parseScopes s, parseXaddrs a, inst.toNat? with
    | some e, some t, some (rej, s), some a, some inst =>
      let st := publish d.node.st e t s a inst
      ({ d with rejected := rej ++ d.rejected, node := { d.node with st := st } },
        "ok " ++ toString ((st.local_.get e).map (·.mv)).get!)
    | _, _, _, _, _ => (d, "bad-op")
  | ["clear", e] => match ofArg e with
    | some e => match clearService d.node.st e with
      | some st => ({ d with node := { d.node with st := st } }, "ok")
      | none => (d, "err KeyError")
    | none => (d, "bad-op")
  | ["out", id] => ({ d with node := registerOwn d.maxlen d.node id }, "ok")
  | ["dump"] => (d, " ".intercalate (d.node.st.remote.values.map showSvc))
  | ["dumplocal"] => (d, " ".intercalate (d.node.st.local_.values.map showSvc))
  | "dg" :: mid :: rest => match parseMsg rest with
    | some (rej, m) =>
      let rej := rej ++ d.rejected
      let (node, res) := recvDatagram (mkChk rej) d.rules d.maxlen d.node mid m
      ({ d with rejected := rej, node := node }, match res with
        | none => "skip"
        | some (.ok outs) => showOuts outs
        | some (.error e) => errName e)
    | none => (d, "bad-op")
  | ws => match parseMsg ws with
    | some (rej, m) =>
      let rej := rej ++ d.rejected
      match handle (mkChk rej) d.rules d.node.st m with
      | .ok (st, outs) => ({ d with rejected := rej, node := { d.node with st := st } }, showOuts outs)
      | .error e => ({ d with rejected := rej }, errName e)
    | none => (d, "bad-op")

def main : IO Unit := Io.lineLoop stepLine initState
