import SdcModel.Basic.Io
import SdcModel.Query
open Sdc Sdc.Query

/-! ops (handles / refs / languages are opaque tokens, `-` = None):
  `reset` | `d h parent|- 0|1` | `s dh` | `c h dh` | `mdstate 0|1 h…` | `ctx h…`
  `t ref|- lang|- ver|- width|- nol` | `texts refs… | ver|- | langs… | widths… | nols…` | `langs` | `tw name|-` -/

structure DState where
  m : Mdib := ⟨[], [], []⟩
  texts : List Text := []

def opt (s : String) : Option String := if s = "-" then none else some s
def optNat (s : String) : Option (Option Nat) := if s = "-" then some none else s.toNat?.map some

def showSt (s : St) : String := if s.ctx then s!"c:{s.handle}:{s.dh}" else s!"s:{s.dh}"
def showSts (l : List St) : String := " ".intercalate (l.map showSt)

/-- split a word list at the `|` separators -/
def splitBars (ws : List String) : List (List String) := ws.splitOn "|"

def stepLine (st : DState) (line : String) : DState × String :=
  match Io.words line with
  | ["reset"] => ({}, "ok")
  | ["d", h, p, mds] =>
    ({ st with m := { st.m with descrs := st.m.descrs ++ [⟨h, opt p, mds = "1"⟩] } }, "ok")
  | ["s", dh] => ({ st with m := { st.m with states := st.m.states ++ [⟨false, "", dh⟩] } }, "ok")
  | ["c", h, dh] => ({ st with m := { st.m with ctxs := st.m.ctxs ++ [⟨true, h, dh⟩] } }, "ok")
  | "mdstate" :: f :: hs => (st, "ok " ++ showSts (getMdState st.m (f = "1") hs))
  | "ctx" :: hs => (st, "ok " ++ showSts (getContextStates st.m hs))
  | ["t", r, l, v, w, n] =>
    match optNat v, optNat w, n.toNat? with
    | some v, some w, some n =>
      let id := st.texts.length
      ({ st with texts := st.texts ++ [⟨id, opt r, opt l, v, w, n⟩] }, s!"ok {id}")
    | _, _, _ => (st, "bad-op")
  | "texts" :: rest =>
    match splitBars rest with
    | [refs, [v], langs, widths, nols] =>
      match optNat v, Io.parseNats widths, Io.parseNats nols with
      | some v, some ws, some ns => (st, "ok " ++ Io.natList ((filterTexts st.texts refs v langs ws ns).map (·.id)))
      | _, _, _ => (st, "bad-op")
    | _ => (st, "bad-op")
  | ["langs"] => (st, "ok " ++ " ".intercalate (supportedLanguages st.texts))
  | ["tw", n] => (st, match tw2i (opt n) with | some i => s!"ok {i}" | none => "err KeyError")
  | _ => (st, "bad-op")

def main : IO Unit := Io.lineLoop stepLine {}
