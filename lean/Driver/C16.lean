import SdcModel.Basic.Io
import SdcModel.Location
import SdcModel.LocationSearch
open Sdc Sdc.Location Sdc.Url Sdc.Hex

/-! ops (strings as `x<hex of utf-8>`, `-` = None, flag `1`/`0` = did the real `urlsplit` accept the netloc):
  `scope <root> <fac> <bldng> <flr> <poc> <rm> <bed>`      -> `ok <scope string>`
  `pub <root> <fac> … <bed>`                               -> `ok <published scope>` | `err ValueError`
  `parse <flag> <scope>`                                   -> `ok <root> <fac> … <bed>` | `err <class>`
  `match <flag> <root> <fac> … <bed> <scope>`              -> `ok True|False` | `err <class>`
  `filter <root> <fac> … <bed> <svc>*`   svc = `N` | `S` | `S<flag><scope>,<flag><scope>…`  -> `ok <indices>` | `err <class>`
  `search <root> <fac> … <bed> <types> <svc>*`   types = `t<ns>:<name>,…`, svc = `<types|->|<N|S…>`  -> `ok <indices>` | `err <class>`
  `split <flag> <url>`  -> `ok <scheme> <netloc> <path> <query> <fragment>` | `err ValueError`
  `qsl <keep> <qs>`     -> `ok <k>=<v> …`
  `utf8 <bytes>`        -> `valid` | `repaired <bytes>`
  `quote <s>` | `quoteplus <s>` | `quoteslash <s>` | `unquote <s>` -> `ok <s>`            -/

def errName : Err → String
  | .urlScheme => "err UrlSchemeError"
  | .valueError => "err ValueError"

def parseLoc (ws : List String) : Option Loc :=
  match ws with
  | [r, a, b, c, d, e, f] =>
    match ofArg r, ofOptArg a, ofOptArg b, ofOptArg c, ofOptArg d, ofOptArg e, ofOptArg f with
    | some r, some a, some b, some c, some d, some e, some f => some ⟨r, a, b, c, d, e, f⟩
    | _, _, _, _, _, _, _ => none
  | _ => none

def showLoc (l : Loc) : String :=
  " ".intercalate (toArg l.root :: (l.elems.map fun e => toOptArg e.2))

def flag? (s : String) : Option Bool := if s = "1" then some true else if s = "0" then some false else none

/-- `S1x41,0x42` -> scopes with their flags -/
def parseSvc (s : String) : Option (Option (List (Bool × Bytes))) :=
  if s = "N" then some none
  else if s = "S" then some (some [])
  else match s.toList with
    | 'S' :: rest =>
      ((String.ofList rest).splitOn ",").mapM (fun (item : String) =>
        match item.toList with
        | '1' :: cs => (ofArg (String.ofList cs)).map (fun x => (true, x))
        | '0' :: cs => (ofArg (String.ofList cs)).map (fun x => (false, x))
        | _ => none) |>.map some
    | _ => none

/-- netloc the model sees in a url (to turn the per-scope flags into one `chk : netloc → Bool`) -/
def netlocOf (s : Bytes) : Bytes := (splitNetloc (splitScheme (cleanUrl s)).2).1

def filterIdx (self : Loc) (svcs : List (Option (List (Bool × Bytes)))) : Except Err (List Nat) :=
  let rejected : List Bytes := svcs.flatMap fun s => match s with
    | none => []
    | some scs => scs.filterMap fun p => if p.1 then none else some (netlocOf p.2)
  let chk : Bytes → Bool := fun nl => !rejected.contains nl
  let indexed : List (Nat × Option (List Bytes)) := (List.range svcs.length).zip (svcs.map fun s => s.map fun scs => scs.map (·.2))
  (filterInside chk self (fun (p : Nat × Option (List Bytes)) => p.2) indexed).map fun r => r.map (·.1)

def parseQName (s : String) : Option Discovery.QName :=
  match s.splitOn ":" with
  | [a, b] => match ofArg a, ofArg b with
    | some a, some b => some ⟨a, b⟩
    | _, _ => none
  | _ => none

def parseTypes (s : String) : Option (Option (List Discovery.QName)) :=
  if s = "-" then some none
  else match s.toList with
    | 't' :: cs =>
      let body := String.ofList cs
      ((if body = "" then [] else body.splitOn ",").mapM parseQName).map some
    | _ => none

/-- `<types>|<scopes>` -> discovered service (position as epr) with the flags of its scopes -/
def parseSearchSvc (s : String) : Option (Option (List Discovery.QName) × Option (List (Bool × Bytes))) :=
  match s.splitOn "|" with
  | [t, sc] => match parseTypes t, parseSvc sc with
    | some t, some sc => some (t, sc)
    | _, _ => none
  | _ => none

def searchIdx (self : Loc) (types : List Discovery.QName)
    (svcs : List (Option (List Discovery.QName) × Option (List (Bool × Bytes)))) : Except LocationSearch.Err (List Nat) :=
  let rejected : List Bytes := svcs.flatMap fun s => match s.2 with
    | none => []
    | some scs => scs.filterMap fun p => if p.1 then none else some (netlocOf p.2)
  let chk : Bytes → Bool := fun nl => !rejected.contains nl
  let remote : List Discovery.Service := (List.range svcs.length).zip svcs |>.map fun (i, t, sc) =>
    ⟨[i], t, sc.map fun l => ⟨l.map (·.2), none⟩, [], 1, i⟩
  (LocationSearch.searchInLocation chk ⟨[], [], [], [], false⟩ self types remote).map fun r => r.map (·.inst)

/-- ops on the location state of one provider: `lsreset` | `lsupdate <loc>` (container level) | `lstx <loc>` (inside an
    MDIB transaction) -> `ok` | `err ValueError`;  `lspub` -> `ok <scope>` | `err ValueError` -/
def stepState (st : LocState) (ws : List String) : Option (LocState × String) :=
  match ws with
  | ["lsreset"] => some (LocState.fresh, "ok")
  | "lsupdate" :: rest => (parseLoc rest).map fun l =>
      let r := updateFromLocation st l
      (r.1, match r.2 with | none => "ok" | some e => errName e)
  | "lstx" :: rest => (parseLoc rest).map fun l =>
      (txUpdate st l, match (updateFromLocation st l).2 with | none => "ok" | some e => errName e)
  | ["lspub"] => some (st, match publishedOfState st with | .ok s => "ok " ++ toArg s | .error e => errName e)
  | _ => none

def stepLine (st : LocState) (line : String) : LocState × String :=
  match stepState st (Io.words line) with
  | some r => r
  | none =>
  (st, match Io.words line with
  | "scope" :: rest => match parseLoc rest with
    | some l => "ok " ++ toArg (scopeString l)
    | none => "bad-op"
  | "pub" :: rest => match parseLoc rest with
    | some l => match published l with
      | .ok s => "ok " ++ toArg s
      | .error e => errName e
    | none => "bad-op"
  | ["parse", f, s] => match flag? f, ofArg s with
    | some f, some s => match fromScopeString (fun _ => f) s with
      | .ok l => "ok " ++ showLoc l
      | .error e => errName e
    | _, _ => "bad-op"
  | ["match", f, r, a, b, c, d, e, g, s] => match flag? f, parseLoc [r, a, b, c, d, e, g], ofArg s with
    | some f, some l, some s => match scopeStringMatches (fun _ => f) l s with
      | .ok b => if b then "ok True" else "ok False"
      | .error e => errName e
    | _, _, _ => "bad-op"
  | "filter" :: r :: a :: b :: c :: d :: e :: g :: svcs => match parseLoc [r, a, b, c, d, e, g], svcs.mapM parseSvc with
    | some l, some svcs => match filterIdx l svcs with
      | .ok idx => "ok " ++ Io.natList idx
      | .error e => errName e
    | _, _ => "bad-op"
  | "search" :: r :: a :: b :: c :: d :: e :: g :: t :: svcs =>
    match parseLoc [r, a, b, c, d, e, g], parseTypes t, svcs.mapM parseSearchSvc with
    | some l, some (some t), some svcs => match searchIdx l t svcs with
      | .ok idx => "ok " ++ Io.natList idx
      | .error (.discovery .typeError) => "err TypeError"
      | .error (.discovery _) => "err ValueError"
      | .error (.location e) => errName e
    | _, _, _ => "bad-op"
  | ["split", f, s] => match flag? f, ofArg s with
    | some f, some s => match urlsplit (fun _ => f) s with
      | some r => "ok " ++ " ".intercalate [toArg r.scheme, toArg r.netloc, toArg r.path, toArg r.query, toArg r.fragment]
      | none => "err ValueError"
    | _, _ => "bad-op"
  | ["qsl", k, s] => match flag? k, ofArg s with
    | some k, some s => "ok " ++ " ".intercalate ((parseQsl k s).map fun p => toArg p.1 ++ "=" ++ toArg p.2)
    | _, _ => "bad-op"
  | ["utf8", s] => match ofArg s with
    | some s => if Utf8.valid s then "valid" else "repaired " ++ toArg (Utf8.repair s)
    | none => "bad-op"
  | ["quote", s] => match ofArg s with
    | some s => "ok " ++ toArg (Percent.quote s)
    | none => "bad-op"
  | ["quoteplus", s] => match ofArg s with
    | some s => "ok " ++ toArg (Percent.quotePlus s)
    | none => "bad-op"
  | ["quoteslash", s] => match ofArg s with
    | some s => "ok " ++ toArg (Percent.quoteSlash s)
    | none => "bad-op"
  | ["unquote", s] => match ofArg s with
    | some s => "ok " ++ toArg (unquoteStr s)
    | none => "bad-op"
  | _ => "bad-op")

def main : IO Unit := Io.lineLoop stepLine LocState.fresh
