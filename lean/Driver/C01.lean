-- stub: replaced by the model driver of this property
def main : IO Unit := pure ()
