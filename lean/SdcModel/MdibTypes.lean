/-!
# Shared BICEPS content types of the MDIB models (M3)

Abstract content: handles are interned to `Nat` by the harness; `body` is an opaque identifier of the
canonical attribute dump of the real container (everything except the fields spelled out here).
-/
namespace Sdc.Mdib

abbrev Handle := Nat

/-- the state category = which update dict / which report a state travels in -/
inductive Kind | metric | rt | alert | component | operational | context
deriving DecidableEq, Repr, Inhabited

structure Descr where
  handle : Handle
  parent : Option Handle
  kind : Kind
  ver : Nat            -- DescriptorVersion
  body : Nat
  mds : Option Handle  -- source_mds
deriving DecidableEq, Repr, Inhabited

/-- single state: keyed by its descriptor handle -/
structure SState where
  dh : Handle
  dv : Nat             -- DescriptorVersion
  sv : Nat             -- StateVersion
  kind : Kind
  body : Nat
deriving DecidableEq, Repr, Inhabited

inductive Assoc | no | pre | assoc | dis
deriving DecidableEq, Repr, Inhabited

/-- context (multi) state: keyed by its own handle -/
structure CState where
  h : Handle
  dh : Handle
  dv : Nat
  sv : Nat
  body : Nat
  assoc : Assoc
  bindV : Option Nat    -- BindingMdibVersion
  unbindV : Option Nat  -- UnbindingMdibVersion
  bindT : Option Nat    -- BindingStartTime (virtual clock tick)
  unbindT : Option Nat  -- BindingEndTime
deriving DecidableEq, Repr, Inhabited

structure VersionGroup where
  ver : Nat
  seq : Nat             -- SequenceId (interned)
  inst : Option Nat     -- InstanceId
deriving DecidableEq, Repr, Inhabited

inductive ModType | create | update | delete
deriving DecidableEq, Repr, Inhabited

/-- one part of a DescriptionModificationReport -/
structure DescrPart where
  mod : ModType
  descr : Descr
  states : List SState
  cstates : List CState
deriving DecidableEq, Repr, Inhabited

inductive ReportKind | metric | alert | component | context | operational | waveform | description
deriving DecidableEq, Repr, Inhabited

structure Report where
  kind : ReportKind
  vg : VersionGroup
  states : List SState := []
  cstates : List CState := []
  parts : List DescrPart := []
deriving DecidableEq, Repr, Inhabited

def ReportKind.ofKind : Kind → ReportKind
  | .metric => .metric | .rt => .waveform | .alert => .alert
  | .component => .component | .operational => .operational | .context => .context

end Sdc.Mdib
