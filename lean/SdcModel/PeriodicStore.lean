/-!
# M `PeriodicStore` — the store of the fixed-interval periodic reports

`PeriodicReportsHandler._store_for_periodic_report` appends what every commit reports to one list per report kind (under
`_periodic_reports_lock`); `_simple_periodic_reports_send_loop` handles each list once per period: under the lock it takes a copy
(`tmp = reports_list[:]`) and empties the list (`del reports_list[:]`), after releasing the lock it sends `tmp`.

The collector's program is a list of *blocks*: the operations inside one critical section of the store lock form one block
(atomic with respect to the writers, which append under the same lock), every operation outside the lock is a block of its own.
Writers (`put`) interleave arbitrarily between blocks. The program is regenerated from a trace of the real loop on every run
(`Generated/PeriodicStoreProg.lean`).
-/
namespace Sdc.PeriodicStore

inductive Op
  | take    -- tmp = reports_list[:]
  | clear   -- del reports_list[:]
  | send    -- send_func(tmp, …)
deriving DecidableEq, Repr

structure St where
  store : List Nat := []   -- what commits have stored (oldest first)
  tmp : List Nat := []     -- the collector's local copy
  out : List Nat := []     -- what has been sent in periodic reports (oldest first)
  pc : Nat := 0            -- index of the collector's next block
deriving DecidableEq, Repr

def doOp (s : St) : Op → St
  | .take => { s with tmp := s.store }
  | .clear => { s with store := [] }
  | .send => { s with out := s.out ++ s.tmp, tmp := [] }

inductive Ev
  | put (x : Nat)   -- a commit stores x (it holds the store lock for the append)
  | col             -- the collector executes its next block
deriving DecidableEq, Repr

def step (prog : List (List Op)) (s : St) : Ev → St
  | .put x => { s with store := s.store ++ [x] }
  | .col =>
    let s' := (prog.getD s.pc []).foldl doOp s
    { s' with pc := if s.pc + 1 < prog.length then s.pc + 1 else 0 }

def run (prog : List (List Op)) (s : St) (evs : List Ev) : St := evs.foldl (step prog) s

/-- what the commits stored, in order -/
def puts : List Ev → List Nat
  | [] => []
  | .put x :: r => x :: puts r
  | .col :: r => puts r

/-- the program of the pinned tree: copy and empty inside one critical section, send afterwards -/
def good : List (List Op) := [[.take, .clear], [.send]]

end Sdc.PeriodicStore
