import SdcModel.Basic.Hex
/-!
# M5 `Basic.Utf8` — UTF-8 validity and `bytes.decode('utf-8', errors='replace')` at byte level

`repair bs` is the UTF-8 encoding of `bs.decode('utf-8', 'replace')`: every maximal ill-formed subpart is replaced by
U+FFFD (`EF BF BD`), well-formed sequences are kept (CPython's decoder follows the Unicode "maximal subpart" practice).
`valid bs` ⇔ `bs.decode('utf-8')` succeeds. Both are under correspondence (driver op `utf8`).
-/
namespace Sdc.Utf8

def isCont (b : Nat) : Bool := decide (128 ≤ b ∧ b ≤ 191)

/-- admissible second byte after the lead byte `b0` of a 3-byte sequence (no overlong forms, no surrogates) -/
def second3 (b0 b1 : Nat) : Bool :=
  if b0 = 224 then decide (160 ≤ b1 ∧ b1 ≤ 191)
  else if b0 = 237 then decide (128 ≤ b1 ∧ b1 ≤ 159)
  else isCont b1

/-- admissible second byte of a 4-byte sequence (no overlong forms, nothing above U+10FFFF) -/
def second4 (b0 b1 : Nat) : Bool :=
  if b0 = 240 then decide (144 ≤ b1 ∧ b1 ≤ 191)
  else if b0 = 244 then decide (128 ≤ b1 ∧ b1 ≤ 143)
  else isCont b1

def fffd : Bytes := [239, 191, 189]

def valid : Bytes → Bool
  | [] => true
  | b0 :: rest =>
    if b0 < 128 then valid rest
    else if 194 ≤ b0 ∧ b0 ≤ 223 then
      match rest with
      | b1 :: r => isCont b1 && valid r
      | [] => false
    else if 224 ≤ b0 ∧ b0 ≤ 239 then
      match rest with
      | b1 :: b2 :: r => second3 b0 b1 && isCont b2 && valid r
      | _ => false
    else if 240 ≤ b0 ∧ b0 ≤ 244 then
      match rest with
      | b1 :: b2 :: b3 :: r => second4 b0 b1 && isCont b2 && isCont b3 && valid r
      | _ => false
    else false

def repair : Bytes → Bytes
  | [] => []
  | b0 :: rest =>
    if b0 < 128 then b0 :: repair rest
    else if 194 ≤ b0 ∧ b0 ≤ 223 then
      match rest with
      | b1 :: r => if isCont b1 then b0 :: b1 :: repair r else fffd ++ repair (b1 :: r)
      | [] => fffd
    else if 224 ≤ b0 ∧ b0 ≤ 239 then
      match rest with
      | b1 :: r1 =>
        if second3 b0 b1 then
          match r1 with
          | b2 :: r2 => if isCont b2 then b0 :: b1 :: b2 :: repair r2 else fffd ++ repair (b2 :: r2)
          | [] => fffd
        else fffd ++ repair (b1 :: r1)
      | [] => fffd
    else if 240 ≤ b0 ∧ b0 ≤ 244 then
      match rest with
      | b1 :: r1 =>
        if second4 b0 b1 then
          match r1 with
          | b2 :: r2 =>
            if isCont b2 then
              match r2 with
              | b3 :: r3 => if isCont b3 then b0 :: b1 :: b2 :: b3 :: repair r3 else fffd ++ repair (b3 :: r3)
              | [] => fffd
            else fffd ++ repair (b2 :: r2)
          | [] => fffd
        else fffd ++ repair (b1 :: r1)
      | [] => fffd
    else fffd ++ repair rest

/-! ## lemmas -/

theorem isCont_lt {b : Nat} (h : isCont b = true) : b < 256 := by
  simp only [isCont, decide_eq_true_eq] at h; omega

theorem second3_lt {a b : Nat} (h : second3 a b = true) : b < 256 := by
  unfold second3 at h
  split at h
  · simp only [decide_eq_true_eq] at h; omega
  · split at h
    · simp only [decide_eq_true_eq] at h; omega
    · exact isCont_lt h

theorem second4_lt {a b : Nat} (h : second4 a b = true) : b < 256 := by
  unfold second4 at h
  split at h
  · simp only [decide_eq_true_eq] at h; omega
  · split at h
    · simp only [decide_eq_true_eq] at h; omega
    · exact isCont_lt h

private theorem valid_aux (n : Nat) : ∀ bs : Bytes, bs.length ≤ n → valid bs = true →
    repair bs = bs ∧ ∀ b ∈ bs, b < 256 := by
  induction n with
  | zero =>
    intro bs hl _
    have : bs = [] := List.eq_nil_of_length_eq_zero (by omega)
    subst this
    exact ⟨by simp [repair], by simp⟩
  | succ n ih =>
    intro bs hl hv
    match bs, hl, hv with
    | [], _, _ => exact ⟨by simp [repair], by simp⟩
    | b0 :: rest, hl, hv =>
      simp only [List.length_cons] at hl
      unfold valid at hv
      unfold repair
      split at hv
      · rename_i h0
        have ⟨e, l⟩ := ih rest (by omega) hv
        simp only [h0, if_true, e]
        refine ⟨trivial, ?_⟩
        intro b hb
        rcases List.mem_cons.mp hb with rfl | hb
        · omega
        · exact l b hb
      · rename_i h0
        split at hv
        · rename_i h1
          match rest, hl, hv with
          | [], _, hv => simp at hv
          | b1 :: r, hl, hv =>
            simp only [Bool.and_eq_true] at hv
            simp only [List.length_cons] at hl
            have ⟨e, l⟩ := ih r (by omega) hv.2
            simp only [h0, if_false, h1, and_self, if_true, hv.1, e]
            refine ⟨trivial, ?_⟩
            intro b hb
            simp only [List.mem_cons] at hb
            rcases hb with rfl | rfl | hb
            · omega
            · exact isCont_lt hv.1
            · exact l b hb
        · rename_i h1
          split at hv
          · rename_i h2
            match rest, hl, hv with
            | [], _, hv => simp at hv
            | [_], _, hv => simp at hv
            | b1 :: b2 :: r, hl, hv =>
              simp only [Bool.and_eq_true] at hv
              simp only [List.length_cons] at hl
              have ⟨e, l⟩ := ih r (by omega) hv.2
              simp only [h0, if_false, h1, h2, and_self, if_true, hv.1.1, hv.1.2, e]
              refine ⟨trivial, ?_⟩
              intro b hb
              simp only [List.mem_cons] at hb
              rcases hb with rfl | rfl | rfl | hb
              · omega
              · exact second3_lt hv.1.1
              · exact isCont_lt hv.1.2
              · exact l b hb
          · rename_i h2
            split at hv
            · rename_i h3
              match rest, hl, hv with
              | [], _, hv => simp at hv
              | [_], _, hv => simp at hv
              | [_, _], _, hv => simp at hv
              | b1 :: b2 :: b3 :: r, hl, hv =>
                simp only [Bool.and_eq_true] at hv
                simp only [List.length_cons] at hl
                have ⟨e, l⟩ := ih r (by omega) hv.2
                simp only [h0, if_false, h1, h2, h3, and_self, if_true, hv.1.1.1, hv.1.1.2, hv.1.2, e]
                refine ⟨trivial, ?_⟩
                intro b hb
                simp only [List.mem_cons] at hb
                rcases hb with rfl | rfl | rfl | rfl | hb
                · omega
                · exact second4_lt hv.1.1.1
                · exact isCont_lt hv.1.1.2
                · exact isCont_lt hv.1.2
                · exact l b hb
            · simp at hv

/-- decoding valid UTF-8 with `errors='replace'` and encoding again changes nothing -/
theorem repair_of_valid {bs : Bytes} (h : valid bs = true) : repair bs = bs :=
  (valid_aux bs.length bs (Nat.le_refl _) h).1

/-- valid UTF-8 consists of bytes -/
theorem lt_of_valid {bs : Bytes} (h : valid bs = true) : ∀ b ∈ bs, b < 256 :=
  (valid_aux bs.length bs (Nat.le_refl _) h).2

end Sdc.Utf8
