/-!
# M5 `Basic.Hex` — bytes, hex digits, hex transport encoding of the line protocol

Byte strings are `List Nat` (every element `< 256` wherever it matters; UTF-8 validity, `Basic/Utf8.lean`,
implies it). Python `str` values are represented by their UTF-8 encoding.
-/
namespace Sdc

abbrev Bytes := List Nat

namespace Hex

/-- upper-case hex digit (as a byte) of a value `< 16` — what `'%{:02X}'.format` produces -/
def hexU (n : Nat) : Nat := if n < 10 then 48 + n else 55 + n

/-- lower-case hex digit -/
def hexL (n : Nat) : Nat := if n < 10 then 48 + n else 87 + n

/-- value of a hex digit byte, both cases accepted (`_hexdig = '0123456789ABCDEFabcdef'`) -/
def hexVal? (b : Nat) : Option Nat :=
  if 48 ≤ b ∧ b ≤ 57 then some (b - 48)
  else if 97 ≤ b ∧ b ≤ 102 then some (b - 87)
  else if 65 ≤ b ∧ b ≤ 70 then some (b - 55)
  else none

theorem hexVal_hexU (n : Nat) (h : n < 16) : hexVal? (hexU n) = some n := by
  unfold hexVal? hexU
  split <;> split <;> first | (congr 1; omega) | (split <;> first | (congr 1; omega) | (split <;> first | (congr 1; omega) | omega))

theorem hexVal_hexL (n : Nat) (h : n < 16) : hexVal? (hexL n) = some n := by
  unfold hexVal? hexL
  split <;> split <;> first | (congr 1; omega) | (split <;> first | (congr 1; omega) | (split <;> first | (congr 1; omega) | omega))

theorem hexU_lt (n : Nat) (h : n < 16) : hexU n < 128 := by unfold hexU; split <;> omega

/-! ## transport encoding used by the drivers: `x` followed by lower-case hex pairs (`x` alone = empty string) -/

def decodePairs : List Char → Option Bytes
  | [] => some []
  | [_] => none
  | a :: b :: rest =>
    match hexVal? a.toNat, hexVal? b.toNat, decodePairs rest with
    | some x, some y, some r => some ((x * 16 + y) :: r)
    | _, _, _ => none

/-- `x4a6f` -> bytes; anything else -> none -/
def ofArg (s : String) : Option Bytes :=
  match s.toList with
  | 'x' :: cs => decodePairs cs
  | _ => none

/-- `-` -> `none` (Python `None`), `x…` -> `some bytes` -/
def ofOptArg (s : String) : Option (Option Bytes) :=
  if s = "-" then some none else (ofArg s).map some

def toArg (bs : Bytes) : String :=
  String.ofList ('x' :: bs.flatMap (fun b => [Char.ofNat (hexL (b / 16 % 16)), Char.ofNat (hexL (b % 16))]))

def toOptArg : Option Bytes → String
  | none => "-"
  | some bs => toArg bs

end Hex
end Sdc
