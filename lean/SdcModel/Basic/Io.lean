/-! line protocol shared by all model drivers: one op per input line, one canonical answer line per op -/
namespace Sdc.Io

partial def lineLoop {σ : Type} (step : σ → String → σ × String) (s : σ) : IO Unit := do
  let stdin ← IO.getStdin
  let stdout ← IO.getStdout
  let rec go (s : σ) : IO Unit := do
    let line ← stdin.getLine
    if line.isEmpty then
      stdout.flush
      return ()
    let l := if line.back == '\n' then (line.dropEnd 1).toString else line
    let (s', out) := step s l
    stdout.putStrLn out
    go s'
  go s

def words (s : String) : List String := (s.splitOn " ").filter (· ≠ "")

def natList (l : List Nat) : String := " ".intercalate (l.map toString)

def parseNats (ws : List String) : Option (List Nat) := ws.mapM String.toNat?

end Sdc.Io
