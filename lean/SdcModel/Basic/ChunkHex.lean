/-!
# hex helpers of the HTTP chunk framing (C17)

`toHexBytes n` = `f'{n:x}'.encode()` (lower-case, no prefix, "0" for zero);
`pyIntHex bs` = `int(bs.strip(), 16)` of CPython for a `bytes` argument, with the complete literal grammar
(ASCII white space, one sign, `0x`/`0X` prefix followed by at most one `_`, single underscores between digits).
Bytes are `Nat`s below 256. Core Lean only.
-/
namespace Sdc.ChunkHex

def hexDigitL (d : Nat) : Nat := if d < 10 then 48 + d else 87 + d

/-- value of one ASCII hex digit (`0-9a-fA-F`) -/
def hexValB? (b : Nat) : Option Nat :=
  if 48 ≤ b ∧ b ≤ 57 then some (b - 48)
  else if 97 ≤ b ∧ b ≤ 102 then some (b - 87)
  else if 65 ≤ b ∧ b ≤ 70 then some (b - 55) else none

/-- digits, least significant first -/
def toHexRev : Nat → Nat → List Nat
  | 0, _ => []
  | f+1, n => if n < 16 then [hexDigitL n] else hexDigitL (n % 16) :: toHexRev f (n / 16)

/-- `f'{n:x}'` as bytes -/
def toHexBytes (n : Nat) : List Nat := (toHexRev (n+1) n).reverse

/-- `bytes.isspace` / `Py_ISSPACE`: space, \t \n \v \f \r -/
def isSpaceB (b : Nat) : Bool := b == 32 || (9 ≤ b && b ≤ 13)

/-- `bytes.strip()` -/
def stripB (bs : List Nat) : List Nat := ((bs.dropWhile isSpaceB).reverse.dropWhile isSpaceB).reverse

/-- digits with single underscores in between; `us` = the previous byte was an underscore (or nothing was read yet) -/
def hexDigitsUS (acc : Nat) (us : Bool) : List Nat → Option Nat
  | [] => if us then none else some acc
  | b :: r =>
    if b = 95 then (if us then none else hexDigitsUS acc true r)
    else match hexValB? b with
      | some d => hexDigitsUS (acc * 16 + d) false r
      | none => none

/-- remove a `0x` / `0X` prefix and the one underscore allowed behind it -/
def dropHexPrefix : List Nat → List Nat
  | 48 :: x :: r =>
    if x = 120 ∨ x = 88 then (match r with | 95 :: r' => r' | _ => r) else 48 :: x :: r
  | s => s

/-- `int(bs.strip(), 16)`; `none` = ValueError -/
def pyIntHex (bs : List Nat) : Option Int :=
  match stripB bs with
  | 45 :: r => (hexDigitsUS 0 true (dropHexPrefix r)).map (fun v => - (v : Int))
  | 43 :: r => (hexDigitsUS 0 true (dropHexPrefix r)).map (fun v => (v : Int))
  | s => (hexDigitsUS 0 true (dropHexPrefix s)).map (fun v => (v : Int))

/-! ## lemmas -/

theorem hexValB_hexDigitL (d : Nat) (h : d < 16) : hexValB? (hexDigitL d) = some d := by
  unfold hexValB? hexDigitL
  by_cases h10 : d < 10
  · simp only [h10, if_true]
    have : 48 ≤ 48 + d ∧ 48 + d ≤ 57 := by omega
    simp only [this, and_self, if_true]; congr 1; omega
  · simp only [h10, if_false]
    have h1 : ¬ (48 ≤ 87 + d ∧ 87 + d ≤ 57) := by omega
    have h2 : 97 ≤ 87 + d ∧ 87 + d ≤ 102 := by omega
    simp only [h1, if_false, h2, and_self, if_true]; congr 1; omega

/-- a lower-case hex digit byte: `0-9` or `a-f` -/
def IsLowerHex (b : Nat) : Prop := (48 ≤ b ∧ b ≤ 57) ∨ (97 ≤ b ∧ b ≤ 102)

theorem hexDigitL_lower (d : Nat) (h : d < 16) : IsLowerHex (hexDigitL d) := by
  unfold IsLowerHex hexDigitL; split <;> omega

theorem toHexRev_lower (f n : Nat) : ∀ b ∈ toHexRev f n, IsLowerHex b := by
  induction f generalizing n with
  | zero => intro b hb; cases hb
  | succ f ih =>
    intro b hb
    unfold toHexRev at hb
    split at hb
    · simp at hb; subst hb; exact hexDigitL_lower _ (by omega)
    · simp only [List.mem_cons] at hb
      rcases hb with h | h
      · subst h; exact hexDigitL_lower _ (by omega)
      · exact ih _ b h

theorem toHexBytes_lower (n : Nat) : ∀ b ∈ toHexBytes n, IsLowerHex b := by
  intro b hb
  unfold toHexBytes at hb
  exact toHexRev_lower _ _ b (by simpa using hb)

theorem toHexRev_ne_nil (f n : Nat) (h : 0 < f) : toHexRev f n ≠ [] := by
  cases f with
  | zero => omega
  | succ f => unfold toHexRev; split <;> simp

theorem toHexBytes_ne_nil (n : Nat) : toHexBytes n ≠ [] := by
  unfold toHexBytes
  simpa using toHexRev_ne_nil (n+1) n (by omega)

/-- value of a least-significant-first digit list (digits that are not hex count as 0) -/
def valRev : List Nat → Nat
  | [] => 0
  | b :: bs => valRev bs * 16 + (hexValB? b).getD 0

theorem valRev_toHexRev (f n : Nat) (h : n < f) : valRev (toHexRev f n) = n := by
  induction f generalizing n with
  | zero => omega
  | succ f ih =>
    unfold toHexRev
    split
    · rename_i h16
      simp [valRev, hexValB_hexDigitL n h16]
    · rename_i h16
      have hlt : n / 16 < f := by omega
      simp only [valRev, hexValB_hexDigitL (n % 16) (by omega), ih (n / 16) hlt, Option.getD_some]
      omega

/-- length bound: n < 16^k → at most k digits (k ≥ 1) -/
theorem toHexRev_length (f n k : Nat) (hk : 0 < k) (h : n < 16 ^ k) : (toHexRev f n).length ≤ k := by
  induction f generalizing n k with
  | zero => simp [toHexRev]
  | succ f ih =>
    unfold toHexRev
    split
    · simp; omega
    · rename_i h16
      simp only [List.length_cons]
      cases k with
      | zero => omega
      | succ k =>
        cases k with
        | zero => simp at h; omega
        | succ k =>
          have : n / 16 < 16 ^ (k+1) := by
            rw [Nat.div_lt_iff_lt_mul (by omega)]
            calc n < 16 ^ (k+1+1) := h
              _ = 16 ^ (k+1) * 16 := by rw [Nat.pow_succ]
          have := ih (n / 16) (k+1) (by omega) this
          omega

theorem toHexBytes_length (n k : Nat) (hk : 0 < k) (h : n < 16 ^ k) : (toHexBytes n).length ≤ k := by
  unfold toHexBytes; simp only [List.length_reverse]
  exact toHexRev_length _ _ k hk h

/-- on plain hex digits the underscore-aware scanner is the positional value -/
theorem hexDigitsUS_plain (l : List Nat) (hl : ∀ b ∈ l, IsLowerHex b) (acc : Nat) :
    hexDigitsUS acc false l = some (l.foldl (fun a b => a * 16 + (hexValB? b).getD 0) acc) := by
  induction l generalizing acc with
  | nil => simp [hexDigitsUS]
  | cons b r ih =>
    have hb := hl b (List.mem_cons_self ..)
    have h95 : b ≠ 95 := by unfold IsLowerHex at hb; omega
    obtain ⟨d, hd⟩ : ∃ d, hexValB? b = some d := by
      unfold IsLowerHex at hb
      unfold hexValB?
      rcases hb with h | h
      · exact ⟨b - 48, by simp [h]⟩
      · have : ¬ (48 ≤ b ∧ b ≤ 57) := by omega
        exact ⟨b - 87, by simp [this, h]⟩
    simp only [hexDigitsUS, h95, if_false, hd, List.foldl_cons, Option.getD_some]
    exact ih (fun x hx => hl x (List.mem_cons_of_mem _ hx)) _

theorem hexDigitsUS_start (l : List Nat) (hl : ∀ b ∈ l, IsLowerHex b) (hne : l ≠ []) :
    hexDigitsUS 0 true l = some (l.foldl (fun a b => a * 16 + (hexValB? b).getD 0) 0) := by
  cases l with
  | nil => exact absurd rfl hne
  | cons b r =>
    have hb := hl b (List.mem_cons_self ..)
    have h95 : b ≠ 95 := by unfold IsLowerHex at hb; omega
    obtain ⟨d, hd⟩ : ∃ d, hexValB? b = some d := by
      unfold IsLowerHex at hb
      unfold hexValB?
      rcases hb with h | h
      · exact ⟨b - 48, by simp [h]⟩
      · have : ¬ (48 ≤ b ∧ b ≤ 57) := by omega
        exact ⟨b - 87, by simp [this, h]⟩
    simp only [hexDigitsUS, h95, if_false, hd, List.foldl_cons, Option.getD_some]
    exact hexDigitsUS_plain r (fun x hx => hl x (List.mem_cons_of_mem _ hx)) _

theorem foldl_eq_valRev (l : List Nat) :
    l.reverse.foldl (fun a b => a * 16 + (hexValB? b).getD 0) 0 = valRev l := by
  induction l with
  | nil => rfl
  | cons b r ih => simp [List.foldl_append, valRev, ih]

theorem stripB_of_lower (l : List Nat) (hl : ∀ b ∈ l, IsLowerHex b) : stripB l = l := by
  have hns : ∀ b, IsLowerHex b → isSpaceB b = false := by
    intro b hb; unfold IsLowerHex at hb; unfold isSpaceB
    have h1 : (b == 32) = false := by simp; omega
    have h2 : (9 ≤ b && b ≤ 13) = false := by simp; omega
    simp [h1, h2]
  have hdw : ∀ l : List Nat, (∀ b ∈ l, IsLowerHex b) → l.dropWhile isSpaceB = l := by
    intro l hl
    cases l with
    | nil => rfl
    | cons b r => simp [List.dropWhile, hns b (hl b (List.mem_cons_self ..))]
  unfold stripB
  rw [hdw l hl, hdw l.reverse (by intro b hb; exact hl b (by simpa using hb))]
  simp

theorem dropHexPrefix_of_lower (l : List Nat) (hl : ∀ b ∈ l, IsLowerHex b) : dropHexPrefix l = l := by
  match l, hl with
  | [], _ => rfl
  | [_], _ => simp [dropHexPrefix]
  | a :: x :: r, hl =>
    have hx : IsLowerHex x := hl x (by simp)
    have : ¬ (x = 120 ∨ x = 88) := by unfold IsLowerHex at hx; omega
    unfold dropHexPrefix
    split
    · rename_i heq
      injection heq with h1 h2
      injection h2 with h2 h3
      subst h2 h3
      simp [this, h1]
    · rfl

/-- the reader's integer parser inverts the writer's formatting, for every chunk length -/
theorem pyIntHex_toHexBytes (n : Nat) : pyIntHex (toHexBytes n) = some (n : Int) := by
  have hl := toHexBytes_lower n
  have hne := toHexBytes_ne_nil n
  unfold pyIntHex
  rw [stripB_of_lower _ hl]
  have hval : hexDigitsUS 0 true (dropHexPrefix (toHexBytes n)) = some n := by
    rw [dropHexPrefix_of_lower _ hl, hexDigitsUS_start _ hl hne]
    unfold toHexBytes
    rw [foldl_eq_valRev, valRev_toHexRev _ _ (by omega)]
  split
  · rename_i r heq
    have := hl 45 (by rw [heq]; simp)
    unfold IsLowerHex at this; omega
  · rename_i r heq
    have := hl 43 (by rw [heq]; simp)
    unfold IsLowerHex at this; omega
  · rw [hval]; rfl

end Sdc.ChunkHex
