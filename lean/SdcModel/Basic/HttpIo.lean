import SdcModel.Basic.Io
/-! argument codecs of the C17 / C13 drivers: byte strings as lower-case hex (`-` = empty), Python `str`s as
    comma separated decimal code points (`-` = empty, `~` = None) -/
namespace Sdc.HttpIo

def hexNib (c : Char) : Option Nat :=
  if '0' ≤ c ∧ c ≤ '9' then some (c.toNat - 48)
  else if 'a' ≤ c ∧ c ≤ 'f' then some (c.toNat - 87) else none

def unhexL : List Char → Option (List Nat)
  | [] => some []
  | a :: b :: r => do
    let x ← hexNib a
    let y ← hexNib b
    let t ← unhexL r
    pure ((x * 16 + y) :: t)
  | _ => none

def unhex (s : String) : Option (List Nat) := if s = "-" then some [] else unhexL s.toList

def nibC (n : Nat) : Char := Char.ofNat (if n < 10 then 48 + n else 87 + n)

def hex (bs : List Nat) : String :=
  if bs.isEmpty then "-" else String.ofList (bs.flatMap fun b => [nibC (b / 16 % 16), nibC (b % 16)])

/-- `str`: `-` empty, else decimal code points separated by commas -/
def str? (s : String) : Option (List Nat) :=
  if s = "-" then some [] else (s.splitOn ",").mapM String.toNat?

/-- optional `str`: `~` is None -/
def optStr? (s : String) : Option (Option (List Nat)) :=
  if s = "~" then some none else (str? s).map some

def showStr (s : List Nat) : String := if s.isEmpty then "-" else ",".intercalate (s.map toString)

/-- list of `str`s separated by `;` (`~` = empty list) -/
def strList? (s : String) : Option (List (List Nat)) :=
  if s = "~" then some [] else (s.splitOn ";").mapM str?

def showStrList (l : List (List Nat)) : String := if l.isEmpty then "~" else ";".intercalate (l.map showStr)

def int? (s : String) : Option Int :=
  if s.startsWith "-" then (s.drop 1).toNat?.map (fun n => - (n : Int)) else s.toNat?.map (fun n => (n : Int))

end Sdc.HttpIo
