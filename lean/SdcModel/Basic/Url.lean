import SdcModel.Basic.Percent
import SdcModel.Basic.Utf8
/-!
# M5 `Basic.Url` — byte-level models of `urllib.parse.urlsplit`, `unquote` (on `str`), `parse_qsl`, `str.split`, `str.join`

`str` values are represented by their UTF-8 bytes; all delimiters are ASCII, so splitting at bytes is splitting at
characters. The two checks of `urlsplit` that live in other libraries (`ipaddress` for a bracketed host, NFKC
normalisation of a non-ASCII netloc) are a parameter `chk : Bytes → Bool` ("the library accepts this netloc");
theorems quantify over every `chk`, the harness passes what the real `urlsplit` did.
-/
deriving instance DecidableEq for Except

namespace Sdc.Url
open Sdc.Percent

/-! ## `str.split(sep)` for a one-byte separator, `sep.join(parts)`, split at the first occurrence -/

/-- `s.split(chr(d))` -/
def splitOn (d : Nat) : Bytes → List Bytes
  | [] => [[]]
  | b :: bs =>
    if b = d then [] :: splitOn d bs
    else match splitOn d bs with
      | h :: t => (b :: h) :: t
      | [] => [[b]]

/-- `sep.join(parts)` -/
def join (sep : Bytes) : List Bytes → Bytes
  | [] => []
  | [x] => x
  | x :: y :: r => x ++ sep ++ join sep (y :: r)

/-- `s.split(chr(d), 1)` when `d` occurs: (before, after); `none` when it does not occur -/
def splitFirst (d : Nat) : Bytes → Option (Bytes × Bytes)
  | [] => none
  | b :: bs =>
    if b = d then some ([], bs)
    else match splitFirst d bs with
      | some (x, y) => some (b :: x, y)
      | none => none

/-! ## `urlsplit` -/

structure Split where
  scheme : Bytes
  netloc : Bytes
  path : Bytes
  query : Bytes
  fragment : Bytes
deriving DecidableEq, Repr

def isAlpha (b : Nat) : Bool := decide ((65 ≤ b ∧ b ≤ 90) ∨ (97 ≤ b ∧ b ≤ 122))
def isDigit (b : Nat) : Bool := decide (48 ≤ b ∧ b ≤ 57)
/-- `scheme_chars` -/
def isSchemeChar (b : Nat) : Bool := isAlpha b || isDigit b || b == 43 || b == 45 || b == 46
/-- ASCII part of `str.lower()` (non-ASCII case folding is outside the model, see harness notes) -/
def asciiLower (b : Nat) : Nat := if 65 ≤ b ∧ b ≤ 90 then b + 32 else b
def lower (bs : Bytes) : Bytes := bs.map asciiLower

/-- `url.lstrip(_WHATWG_C0_CONTROL_OR_SPACE)` then removal of tab, CR, LF -/
def cleanUrl (url : Bytes) : Bytes :=
  (url.dropWhile (fun b => decide (b ≤ 32))).filter (fun b => !(b == 9 || b == 10 || b == 13))

/-- scheme detection: `i = url.find(':')`, `i > 0`, first char ASCII letter, all of `url[:i]` in `scheme_chars` -/
def splitScheme (url : Bytes) : Bytes × Bytes :=
  match splitFirst 58 url with
  | some (pre, post) =>
    match pre with
    | c :: _ => if isAlpha c && pre.all isSchemeChar then (lower pre, post) else ([], url)
    | [] => ([], url)
  | none => ([], url)

def isNetlocDelim (b : Nat) : Bool := b == 47 || b == 63 || b == 35

/-- `_splitnetloc(url, 2)` for a url that starts with `//` -/
def splitNetloc (url : Bytes) : Bytes × Bytes :=
  match url with
  | a :: b :: rest => if a = 47 ∧ b = 47 then rest.span (fun b => !isNetlocDelim b) else ([], url)
  | _ => ([], url)

/-- netloc accepted? bracket mismatch is always a `ValueError`; a bracketed host and a non-ASCII netloc are checked
    by `ipaddress` / `unicodedata` = the parameter `chk` -/
def netlocOk (chk : Bytes → Bool) (netloc : Bytes) : Bool :=
  let open_ := netloc.contains 91
  let close := netloc.contains 93
  if open_ != close then false
  else if open_ || netloc.any (fun b => decide (128 ≤ b)) then chk netloc
  else true

/-- `urlsplit(url)`; `none` = `ValueError` -/
def urlsplit (chk : Bytes → Bool) (url : Bytes) : Option Split :=
  let url := cleanUrl url
  let (scheme, url) := splitScheme url
  let (netloc, url) := splitNetloc url
  if netlocOk chk netloc then
    let (url, fragment) := match splitFirst 35 url with
      | some (a, b) => (a, b)
      | none => (url, [])
    let (url, query) := match splitFirst 63 url with
      | some (a, b) => (a, b)
      | none => (url, [])
    some ⟨scheme, netloc, url, query, fragment⟩
  else none

/-! ## `unquote` on `str`, `parse_qsl` -/

/-- `unquote(s)` for a `str` `s` (UTF-8 bytes in, UTF-8 bytes out): unchanged without `%`, else percent-decoded and
    decoded with `errors='replace'` -/
def unquoteStr (bs : Bytes) : Bytes :=
  if bs.contains 37 then Utf8.repair (unquoteBytes bs) else bs

/-- `parse_qsl(qs, keep_blank_values=keep)` (`strict_parsing=False`, `separator='&'`) -/
def parseQsl (keep : Bool) (qs : Bytes) : List (Bytes × Bytes) :=
  if qs = [] then []
  else (splitOn 38 qs).filterMap fun nv =>
    if nv = [] then none
    else match splitFirst 61 nv with
      | some (n, v) =>
        if v ≠ [] || keep then some (unquoteStr (plusToSpace n), unquoteStr (plusToSpace v)) else none
      | none =>
        if keep then some (unquoteStr (plusToSpace nv), unquoteStr (plusToSpace [])) else none

/-- `dict(pairs).get(k)`: the last pair with key `k` wins -/
def dictGet (ps : List (Bytes × Bytes)) (k : Bytes) : Option Bytes :=
  ps.foldl (fun acc p => if p.1 = k then some p.2 else acc) none

/-- `urlencode(pairs)` with `quote_via = q` (`quote_plus` by default, `quote` in scopesfactory) -/
def urlencode (q : Bytes → Bytes) (ps : List (Bytes × Bytes)) : Bytes :=
  join [38] (ps.map fun p => q p.1 ++ 61 :: q p.2)

/-! ## lemmas: splitting -/

theorem splitFirst_none {d : Nat} {bs : Bytes} (h : d ∉ bs) : splitFirst d bs = none := by
  induction bs with
  | nil => rfl
  | cons b bs ih =>
    simp only [List.mem_cons, not_or] at h
    simp [splitFirst, show ¬ b = d from fun e => h.1 e.symm, ih h.2]

theorem splitFirst_append {d : Nat} {a : Bytes} (b : Bytes) (h : d ∉ a) :
    splitFirst d (a ++ d :: b) = some (a, b) := by
  induction a with
  | nil => simp [splitFirst]
  | cons x a ih =>
    simp only [List.mem_cons, not_or] at h
    simp [splitFirst, show ¬ x = d from fun e => h.1 e.symm, ih h.2]

theorem splitOn_ne_nil (d : Nat) (bs : Bytes) : splitOn d bs ≠ [] := by
  cases bs with
  | nil => simp [splitOn]
  | cons b bs =>
    simp only [splitOn]
    split
    · simp
    · split <;> simp

theorem splitOn_of_not_mem {d : Nat} {bs : Bytes} (h : d ∉ bs) : splitOn d bs = [bs] := by
  induction bs with
  | nil => rfl
  | cons b bs ih =>
    simp only [List.mem_cons, not_or] at h
    simp [splitOn, show ¬ b = d from fun e => h.1 e.symm, ih h.2]

theorem splitOn_append {d : Nat} {a : Bytes} (b : Bytes) (h : d ∉ a) :
    splitOn d (a ++ d :: b) = a :: splitOn d b := by
  induction a with
  | nil => simp [splitOn]
  | cons x a ih =>
    simp only [List.mem_cons, not_or] at h
    simp [splitOn, show ¬ x = d from fun e => h.1 e.symm, ih h.2]

/-- `d.join(parts).split(d) == parts` when no part contains `d` and there is at least one part -/
theorem splitOn_join {d : Nat} (x : Bytes) (xs : List Bytes) (h : ∀ y ∈ x :: xs, d ∉ y) :
    splitOn d (join [d] (x :: xs)) = x :: xs := by
  induction xs generalizing x with
  | nil => simpa [join] using splitOn_of_not_mem (h x (List.mem_cons_self ..))
  | cons y ys ih =>
    have hx := h x (List.mem_cons_self ..)
    have := ih y (fun z hz => h z (List.mem_cons_of_mem _ hz))
    simp only [join, List.append_assoc, List.singleton_append]
    rw [splitOn_append _ hx, this]

theorem mem_join {sep : Bytes} {xs : List Bytes} {b : Nat} (h : b ∈ join sep xs) :
    b ∈ sep ∨ ∃ x ∈ xs, b ∈ x := by
  induction xs with
  | nil => simp [join] at h
  | cons x xs ih =>
    cases xs with
    | nil => exact Or.inr ⟨x, List.mem_cons_self .., by simpa [join] using h⟩
    | cons y ys =>
      simp only [join, List.append_assoc, List.mem_append] at h
      rcases h with h | h | h
      · exact Or.inr ⟨x, List.mem_cons_self .., h⟩
      · exact Or.inl h
      · rcases ih h with h | ⟨z, hz, hb⟩
        · exact Or.inl h
        · exact Or.inr ⟨z, List.mem_cons_of_mem _ hz, hb⟩

theorem join_eq_nil_cons {sep : Bytes} {x : Bytes} {xs : List Bytes} (hx : x ≠ []) : join sep (x :: xs) ≠ [] := by
  cases xs with
  | nil => simpa [join] using hx
  | cons y ys => simp [join, hx]

/-! ## lemmas: `unquote`, `parse_qsl ∘ urlencode` -/

/-- `unquote(quote(s, safe='')) == s` for every (valid UTF-8) string -/
theorem unquoteStr_quote {bs : Bytes} (h : Utf8.valid bs = true) : unquoteStr (quote bs) = bs := by
  have hlt := Utf8.lt_of_valid h
  unfold unquoteStr
  split
  · rw [unquote_quote bs hlt, Utf8.repair_of_valid h]
  · rename_i hc
    have hn : 37 ∉ quote bs := by simpa using hc
    have := unquote_quote bs hlt
    rw [unquoteBytes_of_not_mem _ hn] at this
    exact this

/-- `unquote(quote_plus(s).replace('+', ' ')) == s` -/
theorem unquoteStr_plus_quotePlus {bs : Bytes} (h : Utf8.valid bs = true) :
    unquoteStr (plusToSpace (quotePlus bs)) = bs := by
  have hlt := Utf8.lt_of_valid h
  unfold unquoteStr
  split
  · rw [unquote_plus_quotePlus bs hlt, Utf8.repair_of_valid h]
  · rename_i hc
    have hn : 37 ∉ plusToSpace (quotePlus bs) := by simpa using hc
    have := unquote_plus_quotePlus bs hlt
    rw [unquoteBytes_of_not_mem _ hn] at this
    exact this

theorem unquoteStr_plus_quote {bs : Bytes} (h : Utf8.valid bs = true) :
    unquoteStr (plusToSpace (quote bs)) = bs := by
  rw [plusToSpace_quote bs (Utf8.lt_of_valid h)]; exact unquoteStr_quote h

/-- a quoting function whose output never contains `&` or `=` and which `parse_qsl` undoes -/
structure QuoteOk (q : Bytes → Bytes) : Prop where
  noAmp : ∀ bs, Utf8.valid bs = true → 38 ∉ q bs
  noEq : ∀ bs, Utf8.valid bs = true → 61 ∉ q bs
  undo : ∀ bs, Utf8.valid bs = true → unquoteStr (plusToSpace (q bs)) = bs

theorem quoteOk_quote : QuoteOk quote where
  noAmp bs h := fun hm => quoted_ne (quote_quoted bs (Utf8.lt_of_valid h) 38 hm) (by decide) rfl
  noEq bs h := fun hm => quoted_ne (quote_quoted bs (Utf8.lt_of_valid h) 61 hm) (by decide) rfl
  undo _ h := unquoteStr_plus_quote h

theorem quoteOk_quotePlus : QuoteOk quotePlus where
  noAmp bs h := fun hm => by
    rcases quotePlus_bytes bs (Utf8.lt_of_valid h) 38 hm with h | h
    · exact quoted_ne h (by decide) rfl
    · exact absurd h (by decide)
  noEq bs h := fun hm => by
    rcases quotePlus_bytes bs (Utf8.lt_of_valid h) 61 hm with h | h
    · exact quoted_ne h (by decide) rfl
    · exact absurd h (by decide)
  undo _ h := unquoteStr_plus_quotePlus h

def PairsValid (ps : List (Bytes × Bytes)) : Prop := ∀ p ∈ ps, Utf8.valid p.1 = true ∧ Utf8.valid p.2 = true

private theorem filterMap_of_some {α : Type} {f : α → Option α} {l : List α} (h : ∀ x ∈ l, f x = some x) :
    l.filterMap f = l := by
  induction l with
  | nil => rfl
  | cons x l ih =>
    rw [List.filterMap_cons, h x (List.mem_cons_self ..)]
    exact congrArg _ (ih (fun y hy => h y (List.mem_cons_of_mem _ hy)))

private theorem parse_piece {q : Bytes → Bytes} (hq : QuoteOk q) (keep : Bool) (p : Bytes × Bytes)
    (hp : Utf8.valid p.1 = true ∧ Utf8.valid p.2 = true) (hkeep : keep = true ∨ p.2 ≠ []) (hq0 : ∀ bs, q bs = [] → bs = []) :
    (fun nv : Bytes => if nv = [] then none
      else match splitFirst 61 nv with
        | some (n, v) =>
          if v ≠ [] || keep then some (unquoteStr (plusToSpace n), unquoteStr (plusToSpace v)) else none
        | none =>
          if keep then some (unquoteStr (plusToSpace nv), unquoteStr (plusToSpace [])) else none)
      (q p.1 ++ 61 :: q p.2) = some p := by
  have hne : q p.1 ++ 61 :: q p.2 ≠ [] := by simp
  have hk : (decide (q p.2 ≠ []) || keep) = true := by
    rcases hkeep with h | h
    · simp [h]
    · have : q p.2 ≠ [] := fun e => h (hq0 _ e)
      simp [this]
  simp only [hne, if_false, splitFirst_append _ (hq.noEq _ hp.1), hq.undo _ hp.1, hq.undo _ hp.2, hk, if_true]

/-- `parse_qsl(urlencode(pairs), keep_blank_values=keep) == pairs` (no blank values unless `keep`) -/
theorem parseQsl_urlencode {q : Bytes → Bytes} (hq : QuoteOk q) (hq0 : ∀ bs, q bs = [] → bs = []) (keep : Bool)
    (ps : List (Bytes × Bytes)) (hv : PairsValid ps) (hkeep : keep = true ∨ ∀ p ∈ ps, p.2 ≠ []) :
    parseQsl keep (urlencode q ps) = ps := by
  cases ps with
  | nil => simp [urlencode, join, parseQsl]
  | cons p ps =>
    have hne : urlencode q (p :: ps) ≠ [] := by
      unfold urlencode; simp only [List.map_cons]; exact join_eq_nil_cons (by simp)
    unfold parseQsl
    simp only [hne, if_false]
    have hsplit : splitOn 38 (urlencode q (p :: ps)) = (p :: ps).map (fun p => q p.1 ++ 61 :: q p.2) := by
      unfold urlencode
      simp only [List.map_cons]
      apply splitOn_join
      intro y hy
      rw [← List.map_cons (f := fun p : Bytes × Bytes => q p.1 ++ 61 :: q p.2)] at hy
      obtain ⟨r, hr, rfl⟩ := List.mem_map.mp hy
      have := hv r hr
      simp only [List.mem_append, List.mem_cons, not_or]
      exact ⟨hq.noAmp _ this.1, by decide, hq.noAmp _ this.2⟩
    rw [hsplit, List.filterMap_map]
    have : ∀ r ∈ p :: ps, ((fun nv : Bytes => if nv = [] then none
      else match splitFirst 61 nv with
        | some (n, v) =>
          if v ≠ [] || keep then some (unquoteStr (plusToSpace n), unquoteStr (plusToSpace v)) else none
        | none =>
          if keep then some (unquoteStr (plusToSpace nv), unquoteStr (plusToSpace [])) else none) ∘
        (fun p : Bytes × Bytes => q p.1 ++ 61 :: q p.2)) r = some r := by
      intro r hr
      exact parse_piece hq keep r (hv r hr) (hkeep.imp id (fun h => h r hr)) hq0
    exact filterMap_of_some this

theorem quotePlus_eq_nil {bs : Bytes} (h : quotePlus bs = []) : bs = [] := by
  cases bs with
  | nil => rfl
  | cons b bs =>
    simp only [quotePlus] at h
    split at h
    · simp at h
    · split at h <;> simp [esc] at h

end Sdc.Url
