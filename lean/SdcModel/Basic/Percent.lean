import SdcModel.Basic.Hex
/-!
# M5 `Basic.Percent` — byte-level percent-encoding

`urllib.parse.quote(s, safe=…)` (`quoteWith`, `quote` = `safe=''`), `quote_plus` (what `urlencode` uses by default),
`_unquote_impl` = `unquote_to_bytes` (`unquoteBytes`), the `'+' -> ' '` replacement of `parse_qsl`, with the
round-trip lemmas. Core Lean only.
-/
namespace Sdc.Percent
open Sdc.Hex

/-- RFC 3986 unreserved bytes (`_ALWAYS_SAFE`): what `quote` never escapes -/
def unreserved (b : Nat) : Bool :=
  decide ((48 ≤ b ∧ b ≤ 57) ∨ (65 ≤ b ∧ b ≤ 90) ∨ (97 ≤ b ∧ b ≤ 122) ∨ b = 45 ∨ b = 46 ∨ b = 95 ∨ b = 126)

/-- `%XX`, upper-case hex -/
def esc (b : Nat) : Bytes := [37, hexU (b / 16), hexU (b % 16)]

/-- `quote_from_bytes(bs, safe)`: `safe` = the additional ASCII bytes left alone -/
def quoteWith (safe : Nat → Bool) : Bytes → Bytes
  | [] => []
  | b :: bs => if unreserved b || safe b then b :: quoteWith safe bs else esc b ++ quoteWith safe bs

/-- `quote(s, safe='')` -/
def quote : Bytes → Bytes := quoteWith (fun _ => false)

/-- `quote(s)` with the default `safe='/'` -/
def quoteSlash : Bytes → Bytes := quoteWith (fun b => b == 47)

/-- `quote_plus(s)`: space becomes `+`, everything else as `quote(s, safe='')` -/
def quotePlus : Bytes → Bytes
  | [] => []
  | b :: bs => if b = 32 then 43 :: quotePlus bs
               else if unreserved b then b :: quotePlus bs else esc b ++ quotePlus bs

/-- `_unquote_impl`: `%` followed by two hex digits (either case) is one byte, every other `%` stays -/
def pctHead (b : Nat) (rest : Bytes) : Option Nat :=
  if b = 37 then
    match rest with
    | x :: y :: _ =>
      match hexVal? x, hexVal? y with
      | some u, some v => some (u * 16 + v)
      | _, _ => none
    | _ => none
  else none

/-- `skip` = number of bytes already consumed as hex digits of the preceding `%` -/
def unquoteAux : Nat → Bytes → Bytes
  | _, [] => []
  | k + 1, _ :: rest => unquoteAux k rest
  | 0, b :: rest =>
    match pctHead b rest with
    | some v => v :: unquoteAux 2 rest
    | none => b :: unquoteAux 0 rest

def unquoteBytes (bs : Bytes) : Bytes := unquoteAux 0 bs

/-- `s.replace('+', ' ')` -/
def plusToSpace (bs : Bytes) : Bytes := bs.map (fun b => if b = 43 then 32 else b)

/-- bytes that may occur in the output of `quote(…, safe='')`: unreserved or `%` -/
def quoted (b : Nat) : Bool := unreserved b || b == 37

/-! ## lemmas -/

theorem unreserved_iff (b : Nat) : unreserved b = true ↔
    ((48 ≤ b ∧ b ≤ 57) ∨ (65 ≤ b ∧ b ≤ 90) ∨ (97 ≤ b ∧ b ≤ 122) ∨ b = 45 ∨ b = 46 ∨ b = 95 ∨ b = 126) := by
  simp only [unreserved, decide_eq_true_eq]

theorem unreserved_lt {b : Nat} (h : unreserved b = true) : b < 128 := by
  rw [unreserved_iff] at h; omega

theorem unreserved_hexU (n : Nat) (h : n < 16) : unreserved (hexU n) = true := by
  rw [unreserved_iff]; unfold hexU
  split <;> omega

theorem unreserved_ne {b d : Nat} (h : unreserved b = true) (hd : unreserved d = false) : b ≠ d := by
  intro e; subst e; simp [h] at hd

theorem quoted_of_unreserved {b : Nat} (h : unreserved b = true) : quoted b = true := by simp [quoted, h]

theorem esc_quoted (b : Nat) (hb : b < 256) : ∀ c ∈ esc b, quoted c = true := by
  intro c hc
  simp only [esc, List.mem_cons, List.not_mem_nil, or_false] at hc
  rcases hc with rfl | rfl | rfl
  · decide
  · exact quoted_of_unreserved (unreserved_hexU _ (by omega))
  · exact quoted_of_unreserved (unreserved_hexU _ (by omega))

/-- every byte of `quote bs` is unreserved or `%` -/
theorem quote_quoted (bs : Bytes) (h : ∀ b ∈ bs, b < 256) : ∀ c ∈ quote bs, quoted c = true := by
  induction bs with
  | nil => intro c hc; simp [quote, quoteWith] at hc
  | cons b bs ih =>
    have ih' := ih (fun x hx => h x (List.mem_cons_of_mem _ hx))
    intro c hc
    simp only [quote, quoteWith, Bool.or_false] at hc
    split at hc
    · rename_i hu
      rcases List.mem_cons.mp hc with rfl | hc
      · exact quoted_of_unreserved hu
      · exact ih' c hc
    · rcases List.mem_append.mp hc with hc | hc
      · exact esc_quoted b (h b (List.mem_cons_self ..)) c hc
      · exact ih' c hc

/-- every byte of `quote_plus bs` is unreserved, `%` or `+` -/
theorem quotePlus_bytes (bs : Bytes) (h : ∀ b ∈ bs, b < 256) : ∀ c ∈ quotePlus bs, quoted c = true ∨ c = 43 := by
  induction bs with
  | nil => intro c hc; simp [quotePlus] at hc
  | cons b bs ih =>
    have ih' := ih (fun x hx => h x (List.mem_cons_of_mem _ hx))
    intro c hc
    simp only [quotePlus] at hc
    split at hc
    · rcases List.mem_cons.mp hc with rfl | hc
      · exact Or.inr rfl
      · exact ih' c hc
    · split at hc
      · rename_i hu
        rcases List.mem_cons.mp hc with rfl | hc
        · exact Or.inl (quoted_of_unreserved hu)
        · exact ih' c hc
      · rcases List.mem_append.mp hc with hc | hc
        · exact Or.inl (esc_quoted b (h b (List.mem_cons_self ..)) c hc)
        · exact ih' c hc

theorem quote_eq_nil {bs : Bytes} (h : quote bs = []) : bs = [] := by
  cases bs with
  | nil => rfl
  | cons b bs =>
    simp only [quote, quoteWith, Bool.or_false] at h
    split at h <;> simp [esc] at h

theorem unquoteBytes_nil : unquoteBytes [] = [] := by simp [unquoteBytes, unquoteAux]

theorem unquoteBytes_cons_ne (b : Nat) (rest : Bytes) (h : b ≠ 37) :
    unquoteBytes (b :: rest) = b :: unquoteBytes rest := by
  simp [unquoteBytes, unquoteAux, pctHead, h]

theorem unquoteBytes_esc (b : Nat) (hb : b < 256) (rest : Bytes) :
    unquoteBytes (esc b ++ rest) = b :: unquoteBytes rest := by
  have h1 := hexVal_hexU (b / 16) (by omega)
  have h2 := hexVal_hexU (b % 16) (by omega)
  simp only [esc, List.cons_append, List.nil_append, unquoteBytes, unquoteAux, pctHead, if_true, h1, h2]
  congr 1; omega

/-- `unquote_to_bytes(quote(bs, safe='')) == bs` -/
theorem unquote_quote (bs : Bytes) (h : ∀ b ∈ bs, b < 256) : unquoteBytes (quote bs) = bs := by
  induction bs with
  | nil => exact unquoteBytes_nil
  | cons b bs ih =>
    have hb : b < 256 := h b (List.mem_cons_self ..)
    have ih' := ih (fun x hx => h x (List.mem_cons_of_mem _ hx))
    simp only [quote, quoteWith, Bool.or_false]
    split
    · rename_i hu
      have : b ≠ 37 := unreserved_ne hu (by decide)
      rw [unquoteBytes_cons_ne _ _ this]; exact congrArg _ ih'
    · rw [unquoteBytes_esc b hb]; exact congrArg _ ih'

/-- the output of `quote` has no `+`, so the `+ -> space` step of `parse_qsl` leaves it alone -/
theorem plusToSpace_of_not_mem (bs : Bytes) (h : 43 ∉ bs) : plusToSpace bs = bs := by
  induction bs with
  | nil => rfl
  | cons b bs ih =>
    simp only [List.mem_cons, not_or] at h
    simp only [plusToSpace, List.map_cons]
    have : b ≠ 43 := fun e => h.1 e.symm
    simp only [this, if_false]
    exact congrArg _ (ih h.2)

theorem quoted_ne {c d : Nat} (h : quoted c = true) (hd : quoted d = false) : c ≠ d := by
  intro e; subst e; simp [h] at hd

theorem plusToSpace_quote (bs : Bytes) (h : ∀ b ∈ bs, b < 256) : plusToSpace (quote bs) = quote bs :=
  plusToSpace_of_not_mem _ (fun hm => quoted_ne (quote_quoted bs h 43 hm) (by decide) rfl)

theorem plusToSpace_esc (b : Nat) (hb : b < 256) : plusToSpace (esc b) = esc b :=
  plusToSpace_of_not_mem _ (fun hm => quoted_ne (esc_quoted b hb 43 hm) (by decide) rfl)

theorem plusToSpace_append (a b : Bytes) : plusToSpace (a ++ b) = plusToSpace a ++ plusToSpace b := by
  simp [plusToSpace]

/-- `unquote_to_bytes(quote_plus(bs).replace('+', ' ')) == bs` : the value path of `urlencode` / `parse_qsl` -/
theorem unquote_plus_quotePlus (bs : Bytes) (h : ∀ b ∈ bs, b < 256) :
    unquoteBytes (plusToSpace (quotePlus bs)) = bs := by
  induction bs with
  | nil => exact unquoteBytes_nil
  | cons b bs ih =>
    have hb : b < 256 := h b (List.mem_cons_self ..)
    have ih' := ih (fun x hx => h x (List.mem_cons_of_mem _ hx))
    simp only [quotePlus]
    split
    · rename_i h32
      subst h32
      simp only [plusToSpace, List.map_cons, if_true]
      rw [unquoteBytes_cons_ne _ _ (by decide)]
      exact congrArg _ ih'
    · split
      · rename_i hu
        have h37 : b ≠ 37 := unreserved_ne hu (by decide)
        have h43 : b ≠ 43 := unreserved_ne hu (by decide)
        simp only [plusToSpace, List.map_cons, h43, if_false]
        rw [unquoteBytes_cons_ne _ _ h37]
        exact congrArg _ ih'
      · rw [plusToSpace_append, plusToSpace_esc b hb, unquoteBytes_esc b hb]
        exact congrArg _ ih'

/-- without a `%` there is nothing to decode -/
theorem unquoteBytes_of_not_mem (bs : Bytes) (h : 37 ∉ bs) : unquoteBytes bs = bs := by
  induction bs with
  | nil => exact unquoteBytes_nil
  | cons b bs ih =>
    simp only [List.mem_cons, not_or] at h
    rw [unquoteBytes_cons_ne _ _ (fun e => h.1 e.symm)]
    exact congrArg _ (ih h.2)

end Sdc.Percent
