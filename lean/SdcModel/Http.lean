import SdcModel.Basic.ChunkHex
/-!
# M `Http` — chunked framing, Accept-Encoding negotiation, content coding (C17; readers reused by C13)

Transcription of
* `httpreader.mk_chunks`, `HTTPReader._read_until`, `HTTPReader._read_dechunk` (repaired: EOF inside a chunk,
  a missing CRLF and a negative size raise `DechunkError`), `HTTPReader.read_request_body`, `read_response_body`;
* `compression.CompressionHandler.parse_header` (repaired: codings with `q <= 0` are left out),
  `get_handler`, `compress_payload`, `decompress_payload`;
* the coding choice of `DispatchingRequestHandler._compress_if_supported` and `SoapClient._send_soap_request`.

Bytes and code points are `Nat`s; a `str` is the list of its code points. zlib / lz4 are a parameter (`Codec`).
-/
namespace Sdc.Http
open Sdc.ChunkHex

abbrev Bytes := List Nat
/-- a Python `str` as code points -/
abbrev Str := List Nat

def CRLF : Bytes := [13, 10]

inductive Err
  | dechunk      -- httpreader.DechunkError
  | decompress   -- httpreader.DecompressError (coding not enabled)
  | compression  -- compression.CompressionError (no handler registered)
  | codec        -- whatever the codec raises on corrupt input (zlib.error, RuntimeError of lz4)
  | value        -- ValueError of int(content-length)
  | type         -- TypeError (codec called with None)
  | fuel         -- model artefact: loop bound exhausted (`dechunk_total`: never happens)
deriving DecidableEq, Repr

deriving instance DecidableEq for Except

/-! ## chunk writer -/

/-- the `while True` loop of `mk_chunks(body, chunk_size)`; first argument of the recursion = loop bound -/
def mkChunksF (n : Nat) : Nat → Bytes → Bytes
  | 0, _ => []
  | f+1, tail =>
    toHexBytes (tail.take n).length ++ CRLF ++ tail.take n ++ CRLF ++
      (if (tail.take n).isEmpty then [] else mkChunksF n f (tail.drop n))

def mkChunks (n : Nat) (body : Bytes) : Bytes := mkChunksF n (body.length + 1) body

/-! ## chunk reader -/

/-- `_read_until(stream, CRLF, max_bytes)`: at most `max_bytes` single-byte reads; result = header without
    the delimiter and the rest of the stream; `none` on EOF or when the window is exhausted -/
def readUntil : Nat → Bytes → Bytes → Option (Bytes × Bytes)
  | 0, _, _ => none
  | _+1, _, [] => none
  | f+1, acc, b :: s =>
    match b :: acc with
    | 10 :: 13 :: hdrRev => some (hdrRev.reverse, s)
    | acc' => readUntil f acc' s

/-- one pass of the `while True` body of `_read_dechunk`: (chunk data, rest of the stream, was it the last chunk) -/
def readChunk (w : Nat) (s : Bytes) : Except Err (Bytes × Bytes × Bool) :=
  match readUntil w [] s with
  | none => .error .dechunk                         -- chunk_header is None
  | some (hdr, rest) =>
    match pyIntHex (hdr.takeWhile (· != 59)) with   -- split(b';')[0]; int(.strip(), 16)
    | none => .error .dechunk
    | some len =>
      if len < 0 then .error .dechunk
      else if rest.length < len.toNat then .error .dechunk              -- EOF inside the chunk
      else if (rest.drop len.toNat).take 2 ≠ CRLF then .error .dechunk  -- no CR+LF at the end of chunk
      else .ok (rest.take len.toNat, (rest.drop len.toNat).drop 2, len.toNat == 0)

/-- `_read_dechunk` with an explicit loop bound: (body, unread rest of the stream) -/
def dechunkF (w : Nat) : Nat → Bytes → Except Err (Bytes × Bytes)
  | 0, _ => .error .fuel
  | f+1, s =>
    match readChunk w s with
    | .error e => .error e
    | .ok (dat, rest, last) =>
      if last then .ok ([], rest)
      else match dechunkF w f rest with
        | .ok (more, r) => .ok (dat ++ more, r)
        | .error e => .error e

/-- `_read_dechunk(stream)`; `w` = `max_bytes` of `_read_until` (16) -/
def dechunk (w : Nat) (s : Bytes) : Except Err (Bytes × Bytes) := dechunkF w (s.length + 1) s

/-! ## RFC 7230 4.1 chunked-body (without chunk-ext and trailer-part) as a recogniser

    chunked-body = *chunk last-chunk trailer-part CRLF ;  chunk = chunk-size CRLF chunk-data CRLF ;
    chunk-size = 1*HEXDIG ;  last-chunk = 1*"0" CRLF -/

def isHexDig (b : Nat) : Bool := (hexValB? b).isSome

def hexVal (ds : Bytes) : Nat := ds.foldl (fun a b => a * 16 + (hexValB? b).getD 0) 0

def isChunkedF : Nat → Bytes → Bool
  | 0, _ => false
  | f+1, s =>
    let ds := s.takeWhile isHexDig
    let r := (s.dropWhile isHexDig).drop 2
    !ds.isEmpty && (s.dropWhile isHexDig).take 2 == CRLF &&
      (if hexVal ds = 0 then r == CRLF
       else hexVal ds + 2 ≤ r.length && (r.drop (hexVal ds)).take 2 == CRLF &&
            isChunkedF f ((r.drop (hexVal ds)).drop 2))

def isChunkedBody (s : Bytes) : Bool := isChunkedF (s.length + 1) s

/-! ## Accept-Encoding -/

/-- `str.split(sep)` for a one-character separator -/
def splitAt (sep : Nat) : Str → List Str
  | [] => [[]]
  | c :: r =>
    if c = sep then [] :: splitAt sep r
    else match splitAt sep r with
      | h :: t => (c :: h) :: t
      | [] => [[c]]

/-- `str.isspace` of one character -/
def isSpaceU (c : Nat) : Bool :=
  (9 ≤ c && c ≤ 13) || (28 ≤ c && c ≤ 32) || c == 133 || c == 160 || c == 5760 ||
  (8192 ≤ c && c ≤ 8202) || c == 8232 || c == 8233 || c == 8239 || c == 8287 || c == 12288

/-- `str.strip()` -/
def stripU (s : Str) : Str := ((s.dropWhile isSpaceU).reverse.dropWhile isSpaceU).reverse

/-- a q-value: `± mant / 10 ^ scale` -/
structure Q where
  neg : Bool
  mant : Nat
  scale : Nat
deriving DecidableEq, Repr

def Q.one : Q := ⟨false, 1, 0⟩

/-- `float(..) > 0` -/
def Q.pos (q : Q) : Bool := !q.neg && q.mant != 0

def Q.num (q : Q) : Int := if q.neg then - (q.mant : Int) else q.mant

/-- `a < b` as numbers -/
def Q.lt (a b : Q) : Bool := a.num * (10 : Int) ^ b.scale < b.num * (10 : Int) ^ a.scale

def isDigit (c : Nat) : Bool := 48 ≤ c && c ≤ 57

def decVal (ds : Str) : Nat := ds.foldl (fun a c => a * 10 + (c - 48)) 0

/-- `float(s)` on the plain decimal forms `[ws][+-](d+[.d*] | .d+)[ws]` (ASCII white space); `none` = ValueError.
    Exponents, underscores, inf/nan and non-ASCII digits/spaces are outside the model (see harness domain check). -/
def parseDec (s : Str) : Option Q :=
  let t := stripB s
  let neg := t.head? == some 45
  let u := if t.head? == some 45 || t.head? == some 43 then t.drop 1 else t
  let ip := u.takeWhile isDigit
  match u.dropWhile isDigit with
  | [] => if ip.isEmpty then none else some ⟨neg, decVal ip, 0⟩
  | 46 :: fr =>
    if fr.all isDigit && !(ip.isEmpty && fr.isEmpty) then some ⟨neg, decVal (ip ++ fr), fr.length⟩ else none
  | _ => none

/-- one comma separated element: `(alg[0].strip(), float(alg[1].split('=')[1]) or 1)` -/
def parseElem (x : Str) : Str × Q :=
  match splitAt 59 x with
  | name :: p1 :: _ =>
    (stripU name,
      match splitAt 61 p1 with
      | _ :: v :: _ => (parseDec v).getD Q.one     -- ValueError suppressed
      | _ => Q.one)                                -- IndexError suppressed
  | name :: [] => (stripU name, Q.one)
  | [] => ([], Q.one)

/-- `OrderedDict.__setitem__`: a known key keeps its position -/
def odSet (d : List (Str × Q)) (k : Str) (v : Q) : List (Str × Q) :=
  if d.any (fun e => e.1 == k) then d.map (fun e => if e.1 == k then (k, v) else e) else d ++ [(k, v)]

def elements (h : Str) : List (Str × Q) := if h.isEmpty then [] else (splitAt 44 h).map parseElem

def headerDict (h : Str) : List (Str × Q) := (elements h).foldl (fun d e => odSet d e.1 e.2) []

/-- insertion into a list sorted by descending weight, in front of equal weights -/
def insertDesc (e : Str × Q) : List (Str × Q) → List (Str × Q)
  | [] => [e]
  | x :: r => if Q.lt e.2 x.2 then x :: insertDesc e r else e :: x :: r

/-- `sorted(items, key=weight, reverse=True)` (stable) -/
def sortDesc (l : List (Str × Q)) : List (Str × Q) := l.foldr insertDesc []

/-- `CompressionHandler.parse_header(header)`; `none`/empty header gives `[]` -/
def parseHeader (h : Str) : List Str := ((sortDesc (headerDict h)).filter (fun e => e.2.pos)).map (·.1)

/-- `for enc in accepted: if enc in supported: … break` -/
def choose (accepted supported : List Str) : Option Str := accepted.find? (fun a => supported.contains a)

/-- what the header declares for coding `c`: the weight of the last element naming it -/
def weightOf (h : Str) (c : Str) : Option Q := ((elements h).reverse.find? (fun e => e.1 == c)).map (·.2)

/-! ## content coding -/

structure Codec where
  enc : Bytes → Bytes
  dec : Bytes → Option Bytes     -- `none`: the codec raises

structure Registry where
  handlers : List (Str × Codec)  -- CompressionHandler.handlers
  available : List Str           -- CompressionHandler.available_encodings

def asciiLower (c : Nat) : Nat := if 65 ≤ c ∧ c ≤ 90 then c + 32 else c

/-- `get_handler(algorithm)`: `handlers.get(algorithm.lower())` -/
def Registry.getHandler (r : Registry) (alg : Str) : Except Err Codec :=
  match r.handlers.find? (fun e => e.1 == alg.map asciiLower) with
  | some e => .ok e.2
  | none => .error .compression

def Registry.compress (r : Registry) (alg : Str) (x : Bytes) : Except Err Bytes :=
  match r.getHandler alg with
  | .ok c => .ok (c.enc x)
  | .error e => .error e

/-- `decompress_payload(alg, payload)`; payload `none` = Python `None` -/
def Registry.decompress (r : Registry) (alg : Str) (x : Option Bytes) : Except Err Bytes :=
  match r.getHandler alg with
  | .error e => .error e
  | .ok c =>
    match x with
    | none => .error .type
    | some b => match c.dec b with
      | some y => .ok y
      | none => .error .codec

/-- value of the Content-Length header as the reader sees it -/
inductive ClVal
  | empty            -- header present but ''
  | bad              -- int(..) raises ValueError
  | val (n : Int)
deriving DecidableEq, Repr

structure Hdrs where
  transferEncoding : Option Str := none
  contentLength : Option ClVal := none
  contentEncoding : Option Str := none
  acceptEncoding : Option Str := none

def chunkedStr : Str := [99, 104, 117, 110, 107, 101, 100]   -- "chunked"

def Hdrs.isChunked (h : Hdrs) : Bool :=
  match h.transferEncoding with
  | some te => te.map asciiLower == chunkedStr
  | none => false

/-- `BytesIO.read(n)` / `rfile.read(n)` up to EOF -/
def pyRead (s : Bytes) (n : Int) : Bytes := if n < 0 then s else s.take n.toNat

/-- `supported_encodings or CompressionHandler.available_encodings` -/
def Registry.effective (r : Registry) (sup : List Str) : List Str := if sup.isEmpty then r.available else sup

/-- the content-coding part shared by `read_request_body` and `read_response_body` -/
def decodeBody (r : Registry) (sup : List Str) (h : Hdrs) (body : Option Bytes) : Except Err (Option Bytes) :=
  match h.contentEncoding with
  | none => .ok body
  | some enc =>
    if enc.isEmpty then .ok body
    else if (r.effective sup).contains enc then
      match r.decompress enc body with
      | .ok y => .ok (some y)
      | .error e => .error e
    else .error .decompress

/-- `HTTPReader.read_request_body(http_message, supported_encodings)`; `wire` = content of `rfile` -/
def readRequestBody (w : Nat) (r : Registry) (sup : List Str) (h : Hdrs) (wire : Bytes) :
    Except Err (Option Bytes) :=
  if h.isChunked then
    match dechunk w wire with
    | .ok (b, _) => decodeBody r sup h (some b)
    | .error e => .error e
  else match h.contentLength with
    | none => decodeBody r sup h none
    | some .empty => .error .value                -- repaired: int('') raises (was: treated like a missing header)
    | some .bad => .error .value
    | some (.val n) =>
      if n < 0 then .error .value            -- repaired: a negative length is rejected (was: read until the peer closes)
      else decodeBody r sup h (some (pyRead wire n))

/-- `HTTPReader.read_response_body(http_response, supported_encodings)`; `payload` = what `http_response.read`
    delivers (http.client has already removed the chunked framing) -/
def readResponseBody (r : Registry) (sup : List Str) (h : Hdrs) (payload : Bytes) : Except Err (Option Bytes) :=
  match h.contentLength with
  | some .bad => .error .value
  | some (.val n) => decodeBody r sup h (some (pyRead payload n))
  | _ => decodeBody r sup h (some payload)

def joinWith (sep : Str) : List Str → Str
  | [] => []
  | [a] => a
  | a :: b :: r => a ++ sep ++ joinWith sep (b :: r)

/-- common tail of `_send_soap_request` (candidates = `request_encodings`) and of `do_POST`/`do_GET` +
    `_compress_if_supported` (candidates = `parse_header(Accept-Encoding)`): headers and wire bytes -/
def encodeMessage (r : Registry) (candidates supported : List Str) (chunk : Nat) (body : Bytes) :
    Except Err (Hdrs × Bytes) :=
  let coded : Except Err (Option Str × Bytes) :=
    match choose candidates supported with
    | some c => match r.compress c body with
      | .ok z => .ok (some c, z)
      | .error e => .error e
    | none => .ok (none, body)
  match coded with
  | .error e => .error e
  | .ok (ce, z) =>
    if chunk > 0 then .ok ({ transferEncoding := some chunkedStr, contentEncoding := ce }, mkChunks chunk z)
    else .ok ({ contentLength := some (.val z.length), contentEncoding := ce }, z)

/-- `SoapClient._send_soap_request`: Accept-Encoding announced + coded / framed request -/
def sendRequest (r : Registry) (supported requestEncs : List Str) (chunk : Nat) (xml : Bytes) :
    Except Err (Hdrs × Bytes) :=
  match encodeMessage r requestEncs supported chunk xml with
  | .ok (h, wire) =>
    .ok ({ h with acceptEncoding := if supported.isEmpty then none else some (joinWith [44] supported) }, wire)
  | .error e => .error e

/-- a notification (or SubscriptionEnd) to a subscriber: the provider's soap client is created with
    `request_encodings = parse_header(Accept-Encoding of the Subscribe request)` and the provider's live list of enabled codings -/
def notify (r : Registry) (enabled : List Str) (chunk : Nat) (subscribeAcceptEncoding : Option Str) (report : Bytes) :
    Except Err (Hdrs × Bytes) :=
  sendRequest r enabled (parseHeader (subscribeAcceptEncoding.getD [])) chunk report

/-- `DispatchingRequestHandler.do_POST` after the component returned `body`: coded / framed response -/
def respond (r : Registry) (serverSupported : List Str) (chunk : Nat) (acceptEncoding : Option Str) (body : Bytes) :
    Except Err (Hdrs × Bytes) :=
  encodeMessage r (parseHeader (acceptEncoding.getD [])) serverSupported chunk body

/-- what `http.client.HTTPResponse.read` hands to `read_response_body` (stdlib, assumed to implement RFC 7230) -/
def clientTransport (w : Nat) (h : Hdrs) (wire : Bytes) : Except Err Bytes :=
  if h.isChunked then (match dechunk w wire with | .ok (b, _) => .ok b | .error e => .error e) else .ok wire

/-! ## configuration histories: `set_used_compression` while the server is running

`SdcProvider` / `SdcConsumer` hand their live list `_compression_methods` to the http server; `set_used_compression(*names)`
replaces its content in place, and `_compress_if_supported` reads `server.supported_encodings` for every response. -/

inductive CfgOp
  | setUsed (names : List Str)       -- set_used_compression(*names)
  | request (ae : Option Str)        -- one request with this Accept-Encoding header (none = header absent)
deriving DecidableEq, Repr

/-- for every request of the history: (codings enabled at that time, its Accept-Encoding, Content-Encoding of its response) -/
def cfgRun (cfg : List Str) : List CfgOp → List (List Str × Option Str × Option Str)
  | [] => []
  | .setUsed ns :: r => cfgRun ns r
  | .request ae :: r => (cfg, ae, choose (parseHeader (ae.getD [])) cfg) :: cfgRun cfg r

/-- the codec assumption: every registered handler decodes what it encoded (zlib / lz4 are trusted to satisfy it) -/
def CodecsLossless (r : Registry) : Prop := ∀ e ∈ r.handlers, ∀ x, e.2.dec (e.2.enc x) = some x

/-- no coding is registered under the empty name (an empty Content-Encoding header means "not coded") -/
def NamesNonEmpty (r : Registry) : Prop := ∀ e ∈ r.handlers, e.1 ≠ []

end Sdc.Http
