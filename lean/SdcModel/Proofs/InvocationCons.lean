import SdcModel.Invocation
/-!
Helper lemmas for C09, consumer side (`OperationsManager`): what the future of one call is completed with, for an
arbitrary event list around its response.
-/
set_option linter.unusedSimpArgs false
namespace Sdc.Invocation

/-- all `set_result` calls on future `fut` -/
def doneOf (fut : Nat) (c : Cons) : List Result := c.done.filter (fun r => r.fut = fut)

/-- no registered transaction references the future -/
def NoPendingFut (c : Cons) (fut : Nat) : Prop := ∀ k d, c.trans k = some d → d.fut ≠ fut

/-- a part of another transaction (used with `dropWhile`: the window starts at the first own part) -/
def other (tx : Nat) (p : Part) : Bool := p.tx != tx

/-- the own parts buffered in the deque -/
def ownIn (tx : Nat) (l : List Part) : List Part := l.filter (fun p => p.tx = tx)

/-- the non-final parts before the first final one, and that final part -/
def splitFinal : List Part → Option (List Part × Part)
  | [] => none
  | p :: ps => if p.st.isFinal then some ([], p) else (splitFinal ps).map (fun r => (p :: r.1, r.2))

theorem setT_same (f : Nat → Option Pending) (k : Nat) (v : Option Pending) : setT f k v k = v := by simp [setT]
theorem setT_other (f : Nat → Option Pending) (k j : Nat) (v : Option Pending) (h : j ≠ k) : setT f k v j = f j := by
  simp [setT, h]

theorem doneOf_append_other (fut : Nat) (c : Cons) (r : Result) (h : r.fut ≠ fut) (c' : Cons)
    (hc : c'.done = c.done ++ [r]) : doneOf fut c' = doneOf fut c := by
  simp [doneOf, hc, List.filter_append, h]

theorem doneOf_append_self (fut : Nat) (c : Cons) (r : Result) (h : r.fut = fut) (c' : Cons)
    (hc : c'.done = c.done ++ [r]) : doneOf fut c' = doneOf fut c ++ [r] := by
  simp [doneOf, hc, List.filter_append, h]

theorem foreign_response {fut tx f t : Nat} {st : St} (h : (CEv.response f t st).foreign fut tx = true) :
    f ≠ fut ∧ t ≠ tx := by
  simpa [CEv.foreign] using h

theorem foreign_drop {fut tx f : Nat} (h : (CEv.drop f).foreign fut tx = true) : f ≠ fut := by
  simpa [CEv.foreign] using h

/-! ### closed phase: the transaction is not registered, no pending entry references the future -/

theorem closed_step (c : Cons) (fut tx : Nat) (e : CEv) (hn : NoPendingFut c fut) (ht : c.trans tx = none)
    (hf : e.foreign fut tx = true) :
    NoPendingFut (cstep c e) fut ∧ (cstep c e).trans tx = none ∧ doneOf fut (cstep c e) = doneOf fut c ∧
      (cstep c e).dropped.filter (· = fut) = c.dropped.filter (· = fut) := by
  cases e with
  | response f t st =>
    obtain ⟨hf1, hf2⟩ := foreign_response hf
    simp only [cstep]
    split
    · exact ⟨hn, ht, doneOf_append_other fut c _ hf1 _ rfl, rfl⟩
    · split
      · exact ⟨hn, ht, doneOf_append_other fut c _ hf1 _ rfl, rfl⟩
      · refine ⟨?_, ?_, rfl, rfl⟩
        · intro k d hk
          by_cases hkt : k = t
          · subst hkt; simp only [setT_same] at hk; injection hk with hk; subst hk; exact hf1
          · simp only [setT_other _ _ _ _ hkt] at hk; exact hn k d hk
        · simp only [setT_other _ _ _ _ (Ne.symm hf2)]; exact ht
  | part p =>
    simp only [cstep]
    cases hp : c.trans p.tx with
    | none => exact ⟨hn, ht, rfl, rfl⟩
    | some d =>
      have hd : d.fut ≠ fut := hn p.tx d hp
      have hne : tx ≠ p.tx := by intro h; rw [h] at ht; rw [ht] at hp; cases hp
      simp only
      split
      · have hnp : NoPendingFut { c with trans := setT c.trans p.tx none } fut := by
          intro k d' hk
          by_cases hkt : k = p.tx
          · subst hkt; simp [setT_same] at hk
          · simp only [setT_other _ _ _ _ hkt] at hk; exact hn k d' hk
        split
        · exact ⟨hnp, by simp only [setT_other _ _ _ _ hne]; exact ht, rfl, rfl⟩
        · exact ⟨hnp, by simp only [setT_other _ _ _ _ hne]; exact ht, doneOf_append_other fut c _ hd _ rfl, rfl⟩
      · refine ⟨?_, by simp only [setT_other _ _ _ _ hne]; exact ht, rfl, rfl⟩
        intro k d' hk
        by_cases hkt : k = p.tx
        · subst hkt; simp only [setT_same] at hk; injection hk with hk; subst hk; exact hd
        · simp only [setT_other _ _ _ _ hkt] at hk; exact hn k d' hk
  | drop f =>
    have := foreign_drop hf
    simp only [cstep]
    exact ⟨hn, ht, rfl, by simp [List.filter_cons, this]⟩

theorem closed_run (evs : List CEv) (c : Cons) (fut tx : Nat) (hn : NoPendingFut c fut) (ht : c.trans tx = none)
    (hf : ∀ e ∈ evs, e.foreign fut tx = true) :
    NoPendingFut (crun c evs) fut ∧ (crun c evs).trans tx = none ∧ doneOf fut (crun c evs) = doneOf fut c ∧
      (crun c evs).dropped.filter (· = fut) = c.dropped.filter (· = fut) := by
  induction evs generalizing c with
  | nil => exact ⟨hn, ht, rfl, rfl⟩
  | cons e es ih =>
    obtain ⟨h1, h2, h3, h4⟩ := closed_step c fut tx e hn ht (hf e (by simp))
    obtain ⟨i1, i2, i3, i4⟩ := ih (cstep c e) h1 h2 (fun e' he' => hf e' (by simp [he']))
    exact ⟨i1, i2, by simpa [crun, h3] using i3, by simpa [crun, h4] using i4⟩

/-! ### the bounded buffer keeps the own parts as long as the window since the first own part fits -/

theorem ownIn_append (tx : Nat) (a b : List Part) : ownIn tx (a ++ b) = ownIn tx a ++ ownIn tx b := by
  simp [ownIn]

theorem ownIn_nil_of_other (tx : Nat) (l : List Part) (h : ∀ p ∈ l, other tx p = true) : ownIn tx l = [] := by
  simp only [ownIn, List.filter_eq_nil_iff]
  intro p hp
  have := h p hp
  simpa [other] using this

theorem takeWhile_other (tx : Nat) (l : List Part) : ∀ p ∈ l.takeWhile (other tx), other tx p = true := by
  have h : (l.takeWhile (other tx)).all (other tx) = true := List.all_takeWhile
  rw [List.all_eq_true] at h
  exact h

theorem ownIn_dropWhile (tx : Nat) (l : List Part) : ownIn tx (l.dropWhile (other tx)) = ownIn tx l := by
  conv => rhs; rw [← List.takeWhile_append_dropWhile (p := other tx) (l := l)]
  rw [ownIn_append, ownIn_nil_of_other tx _ (takeWhile_other tx l), List.nil_append]

/-- a list that starts with an own part is its own window -/
theorem dropWhile_self_of_head (tx : Nat) (w : List Part) (h : ∀ p, w.head? = some p → other tx p = false) :
    w.dropWhile (other tx) = w := by
  cases w with
  | nil => rfl
  | cons a t => simp [List.dropWhile_cons, h a rfl]

theorem head_dropWhile (tx : Nat) (l : List Part) : ∀ p, (l.dropWhile (other tx)).head? = some p → other tx p = false := by
  intro p hp
  induction l with
  | nil => simp at hp
  | cons a t ih =>
    by_cases ha : other tx a = true
    · simp only [List.dropWhile_cons_of_pos ha] at hp; exact ih hp
    · simp only [List.dropWhile_cons_of_neg ha] at hp
      simp at hp; subst hp; simpa using ha

/-- `deque.append` when the window (own parts and everything after the first of them) still fits -/
theorem push_keeps (maxlen tx : Nat) (r : List Part) (x : Part)
    (hw : (((r.dropWhile (other tx)) ++ [x]).dropWhile (other tx)).length ≤ maxlen) :
    ownIn tx (push maxlen r x) = ownIn tx r ++ ownIn tx [x] ∧
    (push maxlen r x).dropWhile (other tx) = ((r.dropWhile (other tx)) ++ [x]).dropWhile (other tx) := by
  have hsplit : r = r.takeWhile (other tx) ++ r.dropWhile (other tx) := List.takeWhile_append_dropWhile.symm
  generalize hj : r.takeWhile (other tx) = junk at hsplit
  generalize hwd : r.dropWhile (other tx) = w at hsplit hw
  have hjunk : ∀ p ∈ junk, other tx p = true := by rw [← hj]; exact takeWhile_other tx r
  have hhead : ∀ p, w.head? = some p → other tx p = false := by rw [← hwd]; exact head_dropWhile tx r
  subst hsplit
  by_cases hcase : w = [] ∧ other tx x = true
  · -- nothing of the transaction seen so far: everything in the buffer is foreign
    obtain ⟨hw0, hx⟩ := hcase
    subst hw0
    have hall : ∀ p ∈ junk ++ [] ++ [x], other tx p = true := by
      intro p hp; simp at hp; rcases hp with hp | hp
      · exact hjunk p hp
      · subst hp; exact hx
    have hall' : ∀ p ∈ push maxlen (junk ++ []) x, other tx p = true := by
      intro p hp; exact hall p (List.mem_of_mem_drop hp)
    refine ⟨?_, ?_⟩
    · rw [ownIn_nil_of_other tx _ hall', ownIn_append, ownIn_nil_of_other tx junk hjunk]
      have hx' : ¬ x.tx = tx := by simpa [other] using hx
      simp [ownIn, hx']
    · have h1 : ([] ++ [x]).dropWhile (other tx) = [] := by simp [hx]
      rw [h1]
      have := List.dropWhile_append_of_pos (p := other tx) (l₂ := []) hall'
      simpa using this
  · -- the window `w ++ [x]` starts with an own part
    have hwin : (w ++ [x]).dropWhile (other tx) = w ++ [x] := by
      apply dropWhile_self_of_head
      intro p hp
      cases w with
      | nil =>
        simp at hp; subst hp
        have : ¬ other tx x = true := by intro h; exact hcase ⟨rfl, h⟩
        simpa using this
      | cons a t => simp at hp; subst hp; exact hhead a rfl
    rw [hwin] at hw ⊢
    have hlen : (w ++ [x]).length ≤ maxlen := hw
    have hd : (junk ++ w ++ [x]).length - maxlen ≤ junk.length := by
      simp only [List.length_append, List.length_cons, List.length_nil] at hlen ⊢; omega
    have hpush : push maxlen (junk ++ w) x = junk.drop ((junk ++ w ++ [x]).length - maxlen) ++ (w ++ [x]) := by
      simp only [push]
      rw [List.append_assoc junk w [x]]
      rw [List.drop_append_of_le_length (by simpa [List.append_assoc] using hd)]
    have hjd : ∀ p ∈ junk.drop ((junk ++ w ++ [x]).length - maxlen), other tx p = true :=
      fun p hp => hjunk p (List.mem_of_mem_drop hp)
    refine ⟨?_, ?_⟩
    · rw [hpush, ownIn_append, ownIn_nil_of_other tx _ hjd, List.nil_append, ownIn_append, ownIn_append,
        ownIn_nil_of_other tx junk hjunk, List.nil_append]
    · rw [hpush, List.dropWhile_append_of_pos hjd, hwin]

/-- monotonicity used to pass the window bound down the event list -/
theorem window_prefix_le (tx : Nat) (w : List Part) (x : Part) (rest : List Part)
    (hhead : ∀ p, w.head? = some p → other tx p = false) :
    ((w ++ [x]).dropWhile (other tx)).length ≤ ((w ++ x :: rest).dropWhile (other tx)).length := by
  cases w with
  | nil =>
    by_cases hx : other tx x = true
    · simp [hx]
    · simp [hx]
  | cons a t =>
    have ha := hhead a rfl
    simp [List.dropWhile_cons, ha]

theorem window_skip_le (tx : Nat) (w : List Part) (x : Part) (rest : List Part)
    (hhead : ∀ p, w.head? = some p → other tx p = false) (hx : other tx x = true) :
    ((w ++ rest).dropWhile (other tx)).length ≤ ((w ++ x :: rest).dropWhile (other tx)).length := by
  cases w with
  | nil => simp [hx]
  | cons a t =>
    have ha := hhead a rfl
    simp [List.dropWhile_cons, ha]

theorem window_assoc (tx : Nat) (w : List Part) (x : Part) (rest : List Part)
    (hhead : ∀ p, w.head? = some p → other tx p = false) :
    (((w ++ [x]).dropWhile (other tx)) ++ rest).dropWhile (other tx) = (w ++ x :: rest).dropWhile (other tx) := by
  cases w with
  | nil =>
    by_cases hx : other tx x = true
    · simp [hx]
    · simp [hx]
  | cons a t =>
    have ha := hhead a rfl
    simp [List.dropWhile_cons, ha]

/-- before the response: own parts are buffered and stay buffered while the window fits -/
theorem buffered_run (evs : List CEv) (c : Cons) (fut tx : Nat) (ht : c.trans tx = none) (hn : NoPendingFut c fut)
    (hf : ∀ e ∈ evs, e.foreign fut tx = true)
    (hw : (((c.recent.dropWhile (other tx)) ++ allParts evs).dropWhile (other tx)).length ≤ c.maxlen) :
    ownIn tx (crun c evs).recent = ownIn tx c.recent ++ ownParts tx evs := by
  induction evs generalizing c with
  | nil => simp [crun, ownParts]
  | cons e es ih =>
    obtain ⟨h1, h2, _, _⟩ := closed_step c fut tx e hn ht (hf e (by simp))
    have hf' : ∀ e' ∈ es, e'.foreign fut tx = true := fun e' he' => hf e' (by simp [he'])
    have hhead := head_dropWhile tx c.recent
    cases e with
    | response f t st =>
      have hrec : (cstep c (.response f t st)).recent = c.recent := by
        simp only [cstep]; split
        · rfl
        · split <;> rfl
      have hmax : (cstep c (.response f t st)).maxlen = c.maxlen := by
        simp only [cstep]; split
        · rfl
        · split <;> rfl
      have := ih (cstep c (.response f t st)) h2 h1 hf' (by rw [hrec, hmax]; simpa [allParts] using hw)
      simpa [crun, ownParts, hrec] using this
    | drop f =>
      have := ih (cstep c (.drop f)) h2 h1 hf' (by simpa [cstep, allParts] using hw)
      simpa [crun, ownParts, cstep] using this
    | part p =>
      simp only [allParts] at hw
      cases hp : c.trans p.tx with
      | some d =>
        have hne : p.tx ≠ tx := by intro h; rw [h] at hp; rw [ht] at hp; cases hp
        have hoth : other tx p = true := by simp [other, hne]
        have hrec : (cstep c (.part p)).recent = c.recent := by
          simp only [cstep, hp]; split
          · split <;> rfl
          · rfl
        have hmax : (cstep c (.part p)).maxlen = c.maxlen := by
          simp only [cstep, hp]; split
          · split <;> rfl
          · rfl
        have := ih (cstep c (.part p)) h2 h1 hf' (by
          rw [hrec, hmax]
          exact Nat.le_trans (window_skip_le tx _ p _ hhead hoth) hw)
        simpa [crun, ownParts, hrec, hne] using this
      | none =>
        have hrec : (cstep c (.part p)).recent = push c.maxlen c.recent p := by simp only [cstep, hp]
        have hmax : (cstep c (.part p)).maxlen = c.maxlen := by simp only [cstep, hp]
        have hw1 : (((c.recent.dropWhile (other tx)) ++ [p]).dropWhile (other tx)).length ≤ c.maxlen :=
          Nat.le_trans (window_prefix_le tx _ p _ hhead) hw
        obtain ⟨k1, k2⟩ := push_keeps c.maxlen tx c.recent p hw1
        have := ih (cstep c (.part p)) h2 h1 hf' (by
          rw [hrec, hmax, k2, window_assoc tx _ p _ hhead]; exact hw)
        rw [hrec, k1] at this
        by_cases hptx : p.tx = tx
        · simpa [crun, ownParts, hptx, ownIn, List.append_assoc] using this
        · simpa [crun, ownParts, hptx, ownIn] using this

/-! ### registered phase: the transaction is registered for the future with the parts collected so far -/

structure Registered (c : Cons) (fut tx : Nat) (acc : List Part) : Prop where
  reg : c.trans tx = some ⟨fut, acc⟩
  uniq : ∀ k d, c.trans k = some d → d.fut = fut → k = tx
  alive : fut ∉ c.dropped

theorem registered_foreign_step (c : Cons) (fut tx : Nat) (acc : List Part) (e : CEv) (hr : Registered c fut tx acc)
    (hf : e.foreign fut tx = true) (hown : ∀ p, e = .part p → p.tx ≠ tx) :
    Registered (cstep c e) fut tx acc ∧ doneOf fut (cstep c e) = doneOf fut c := by
  obtain ⟨hreg, huniq, halive⟩ := hr
  cases e with
  | response f t st =>
    obtain ⟨hf1, hf2⟩ := foreign_response hf
    simp only [cstep]
    split
    · exact ⟨⟨hreg, huniq, halive⟩, doneOf_append_other fut c _ hf1 _ rfl⟩
    · split
      · exact ⟨⟨hreg, huniq, halive⟩, doneOf_append_other fut c _ hf1 _ rfl⟩
      · refine ⟨⟨?_, ?_, halive⟩, rfl⟩
        · simp only [setT_other _ _ _ _ (Ne.symm hf2)]; exact hreg
        · intro k d hk hd
          by_cases hkt : k = t
          · subst hkt; simp only [setT_same] at hk; injection hk with hk; subst hk; exact absurd hd hf1
          · simp only [setT_other _ _ _ _ hkt] at hk; exact huniq k d hk hd
  | drop f =>
    have := foreign_drop hf
    simp only [cstep]
    refine ⟨⟨hreg, huniq, ?_⟩, rfl⟩
    simp only [List.mem_cons, not_or]
    exact ⟨Ne.symm this, halive⟩
  | part p =>
    have hne : p.tx ≠ tx := hown p rfl
    simp only [cstep]
    cases hp : c.trans p.tx with
    | none => exact ⟨⟨hreg, huniq, halive⟩, rfl⟩
    | some d =>
      have hd : d.fut ≠ fut := fun h => hne (huniq p.tx d hp h)
      simp only
      split
      · have hreg' : setT c.trans p.tx none tx = some ⟨fut, acc⟩ := by
          simp only [setT_other _ _ _ _ (Ne.symm hne)]; exact hreg
        have huniq' : ∀ k d', setT c.trans p.tx none k = some d' → d'.fut = fut → k = tx := by
          intro k d' hk hd'
          by_cases hkt : k = p.tx
          · subst hkt; simp [setT_same] at hk
          · simp only [setT_other _ _ _ _ hkt] at hk; exact huniq k d' hk hd'
        split
        · exact ⟨⟨hreg', huniq', halive⟩, rfl⟩
        · exact ⟨⟨hreg', huniq', halive⟩, doneOf_append_other fut c _ hd _ rfl⟩
      · refine ⟨⟨?_, ?_, halive⟩, rfl⟩
        · simp only [setT_other _ _ _ _ (Ne.symm hne)]; exact hreg
        · intro k d' hk hd'
          by_cases hkt : k = p.tx
          · subst hkt; simp only [setT_same] at hk; injection hk with hk; subst hk; exact absurd hd' hd
          · simp only [setT_other _ _ _ _ hkt] at hk; exact huniq k d' hk hd'

/-- after the registration: parts are collected; the first final one completes the future, with everything collected -/
theorem registered_run (evs : List CEv) (c : Cons) (fut tx : Nat) (acc : List Part) (hr : Registered c fut tx acc)
    (hf : ∀ e ∈ evs, e.foreign fut tx = true) :
    doneOf fut (crun c evs) = doneOf fut c ++
      (match splitFinal (ownParts tx evs) with
       | some (ns, f) => [⟨fut, f.st, true, acc ++ ns ++ [f]⟩]
       | none => []) := by
  induction evs generalizing c acc with
  | nil => simp [crun, ownParts, splitFinal]
  | cons e es ih =>
    have hf' : ∀ e' ∈ es, e'.foreign fut tx = true := fun e' he' => hf e' (by simp [he'])
    by_cases hown : ∃ p, e = .part p ∧ p.tx = tx
    · obtain ⟨p, he, hp⟩ := hown
      subst he
      obtain ⟨hreg, huniq, halive⟩ := hr
      have hreg' : c.trans p.tx = some ⟨fut, acc⟩ := by rw [hp]; exact hreg
      by_cases hfin : p.st.isFinal = true
      · -- the final part: the future is completed, the transaction is closed
        have hstep : cstep c (.part p) = { c with trans := setT c.trans p.tx none,
                                                    done := c.done ++ [⟨fut, p.st, true, acc ++ [p]⟩] } := by
          simp only [cstep, hreg', hfin, if_true, halive, if_false]
        have hnp : NoPendingFut (cstep c (.part p)) fut := by
          rw [hstep]
          intro k d hk hd
          by_cases hkt : k = p.tx
          · subst hkt; simp [setT_same] at hk
          · simp only [setT_other _ _ _ _ hkt] at hk
            have := huniq k d hk hd
            exact hkt (by rw [this, hp])
        have hnone : (cstep c (.part p)).trans tx = none := by
          rw [hstep, ← hp]; simp [setT_same]
        obtain ⟨_, _, hdone, _⟩ := closed_run es (cstep c (.part p)) fut tx hnp hnone hf'
        simp only [crun, hdone, ownParts, hp, if_true, splitFinal, hfin]
        rw [doneOf_append_self fut c ⟨fut, p.st, true, acc ++ [p]⟩ rfl _ (by rw [hstep])]
        simp
      · -- a non-final part is collected
        have hfin' : p.st.isFinal = false := by simpa using hfin
        have hstep : cstep c (.part p) = { c with trans := setT c.trans p.tx (some ⟨fut, acc ++ [p]⟩) } := by
          simp only [cstep, hreg', hfin']; simp
        have hr' : Registered (cstep c (.part p)) fut tx (acc ++ [p]) := by
          rw [hstep]
          refine ⟨by rw [← hp]; simp [setT_same], ?_, halive⟩
          intro k d hk hd
          by_cases hkt : k = p.tx
          · rw [hkt, hp]
          · simp only [setT_other _ _ _ _ hkt] at hk; exact huniq k d hk hd
        have := ih (cstep c (.part p)) (acc ++ [p]) hr' hf'
        simp only [crun, ownParts, hp, if_true, splitFinal, hfin]
        rw [this]
        have hd : doneOf fut (cstep c (.part p)) = doneOf fut c := by rw [hstep]; rfl
        rw [hd]
        cases splitFinal (ownParts tx es) with
        | none => simp
        | some r => simp [List.append_assoc]
    · -- an event that is not about the observed transaction
      have hown' : ∀ p, e = .part p → p.tx ≠ tx := fun p he hp => hown ⟨p, he, hp⟩
      obtain ⟨hr', hd⟩ := registered_foreign_step c fut tx acc e hr (hf e (by simp)) hown'
      have := ih (cstep c e) acc hr' hf'
      have hparts : ownParts tx (e :: es) = ownParts tx es := by
        cases e with
        | part p => simp [ownParts, hown' p rfl]
        | response f t st => simp [ownParts]
        | drop f => simp [ownParts]
      simp only [crun, hparts]
      rw [this, hd]

theorem splitFinal_none_iff (l : List Part) : splitFinal l = none ↔ l.find? (fun p => p.st.isFinal) = none := by
  induction l with
  | nil => simp [splitFinal]
  | cons a t ih =>
    by_cases ha : a.st.isFinal = true
    · simp [splitFinal, ha]
    · simp [splitFinal, ha, ih]

theorem splitFinal_legal (ns : List Part) (f : Part) (hns : ∀ n ∈ ns, n.st.isFinal = false) (hf : f.st.isFinal = true) :
    splitFinal (ns ++ [f]) = some (ns, f) := by
  induction ns with
  | nil => simp [splitFinal, hf]
  | cons a t ih =>
    have ha : a.st.isFinal = false := hns a (by simp)
    simp [splitFinal, ha, ih (fun n hn => hns n (by simp [hn]))]

theorem find_legal (ns : List Part) (f : Part) (hns : ∀ n ∈ ns, n.st.isFinal = false) (hf : f.st.isFinal = true) :
    (ns ++ [f]).find? (fun p => p.st.isFinal) = some f := by
  induction ns with
  | nil => simp [hf]
  | cons a t ih =>
    have ha : a.st.isFinal = false := hns a (by simp)
    simp [List.find?_cons, ha, ih (fun n hn => hns n (by simp [hn]))]

theorem crun_append (c : Cons) (a b : List CEv) : crun c (a ++ b) = crun (crun c a) b := by
  induction a generalizing c with
  | nil => rfl
  | cons e es ih => simp [crun, ih]

theorem ownParts_append (tx : Nat) (a b : List CEv) : ownParts tx (a ++ b) = ownParts tx a ++ ownParts tx b := by
  induction a with
  | nil => rfl
  | cons e es ih =>
    cases e with
    | part p => by_cases h : p.tx = tx <;> simp [ownParts, h, ih]
    | response f t st => simp [ownParts, ih]
    | drop f => simp [ownParts, ih]


theorem dropWhile_nil_of_ownIn_nil (tx : Nat) (l : List Part) (h : ownIn tx l = []) : l.dropWhile (other tx) = [] := by
  have hall : ∀ p ∈ l, other tx p = true := by
    intro p hp
    simp only [ownIn, List.filter_eq_nil_iff] at h
    have := h p hp
    simpa [other] using this
  have := List.dropWhile_append_of_pos (p := other tx) (l₂ := []) hall
  simpa using this

/-- what `splitFinal` finds is the first final part; everything before it is non-final -/
theorem splitFinal_some (l : List Part) (ns : List Part) (f : Part) (h : splitFinal l = some (ns, f)) :
    ∃ rest, l = ns ++ [f] ++ rest ∧ l.find? (fun p => p.st.isFinal) = some f ∧ f.st.isFinal = true ∧
      ∀ n ∈ ns, n.st.isFinal = false := by
  induction l generalizing ns with
  | nil => simp [splitFinal] at h
  | cons a t ih =>
    by_cases ha : a.st.isFinal = true
    · simp [splitFinal, ha] at h
      obtain ⟨h1, h2⟩ := h
      subst h1 h2
      exact ⟨t, by simp, by simp [ha], ha, by simp⟩
    · have ha' : a.st.isFinal = false := by simpa using ha
      simp only [splitFinal, ha', Bool.false_eq_true, if_false, Option.map_eq_some_iff] at h
      obtain ⟨⟨n', f'⟩, h1, h2⟩ := h
      simp only [Prod.mk.injEq] at h2
      obtain ⟨h2a, h2b⟩ := h2
      subst h2a h2b
      obtain ⟨rest, e1, e2, e3, e4⟩ := ih n' h1
      refine ⟨rest, by rw [e1]; simp, by simp [List.find?_cons, ha', e2], e3, ?_⟩
      intro n hn
      simp at hn
      rcases hn with hn | hn
      · subst hn; exact ha'
      · exact e4 n hn

theorem splitFinal_append (a b : List Part) :
    splitFinal (a ++ b) = match splitFinal a with
      | some r => some r
      | none => (splitFinal b).map (fun r => (a ++ r.1, r.2)) := by
  induction a with
  | nil =>
    simp only [List.nil_append, splitFinal]
    cases splitFinal b with
    | none => rfl
    | some r => simp
  | cons x t ih =>
    by_cases hx : x.st.isFinal = true
    · simp [splitFinal, hx]
    · have hx' : x.st.isFinal = false := by simpa using hx
      simp only [List.cons_append, splitFinal, hx', Bool.false_eq_true, if_false, ih]
      cases splitFinal t with
      | some r => simp
      | none =>
        simp only [Option.map_none]
        cases splitFinal b with
        | none => rfl
        | some r => simp

theorem not_mem_of_filter_nil (fut : Nat) (l : List Nat) (h : l.filter (· = fut) = []) : fut ∉ l := by
  intro hm
  simp only [List.filter_eq_nil_iff] at h
  have := h fut hm
  simp at this

theorem filter_nil_of_not_mem (fut : Nat) (l : List Nat) (h : fut ∉ l) : l.filter (· = fut) = [] := by
  simp only [List.filter_eq_nil_iff]
  intro a ha
  simp only [decide_eq_true_eq]
  intro hx; subst hx; exact h ha

end Sdc.Invocation
