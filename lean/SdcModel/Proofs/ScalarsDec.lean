import SdcModel.Scalars
import SdcModel.Proofs.ScalarsStr
import Mathlib.Tactic.Set
/-! string level lemmas about `DecimalConverter.to_xml / to_py` (core Lean only); values in `Proofs/ScalarsDecVal.lean` -/
namespace Sdc.Scalars

/-- sign prefix written by `format(d, 'f')` -/
def sg (neg : Bool) : Str := if neg then [45] else []

theorem takeWhile_append_stop {p : Nat → Bool} (a : Str) (b : Nat) (r : Str) (ha : ∀ c ∈ a, p c = true) (hb : p b = false) :
    (a ++ b :: r).takeWhile p = a ∧ (a ++ b :: r).dropWhile p = b :: r := by
  induction a with
  | nil => simp [hb]
  | cons c a ih =>
    have hc := ha c (by simp)
    have := ih (fun c hc => ha c (by simp [hc]))
    simp [hc, this.1, this.2]

theorem takeWhile_all {p : Nat → Bool} (a : Str) (ha : ∀ c ∈ a, p c = true) :
    a.takeWhile p = a ∧ a.dropWhile p = [] := by
  induction a with
  | nil => simp
  | cons c a ih =>
    have hc := ha c (by simp)
    have := ih (fun c hc => ha c (by simp [hc]))
    simp [hc, this.1, this.2]

/-! ### the strip loop -/

theorem stripRev_no_dot (l : Str) (h : 46 ∉ l) : stripRev l = l := by
  cases l with
  | nil => rfl
  | cons c r => unfold stripRev; simp [h]

theorem stripRev_dot (l : Str) (h : 46 ∉ l) : stripRev (46 :: l) = l := by
  unfold stripRev; simp [stripRev_no_dot l h]

theorem stripRev_stop (c : Nat) (l : Str) (h1 : c ≠ 48) (h2 : c ≠ 46) : stripRev (c :: l) = c :: l := by
  unfold stripRev; simp [h1, h2]

theorem stripRev_cons (c : Nat) (r : Str) :
    stripRev (c :: r) = if (c = 48 ∨ c = 46) ∧ 46 ∈ (c :: r) then stripRev r else c :: r := by
  rw [stripRev]

theorem stripRev_zeros (j : Nat) (l : Str) (h : 46 ∈ l) : stripRev (List.replicate j 48 ++ l) = stripRev l := by
  induction j with
  | zero => simp
  | succ j ih =>
    rw [List.replicate_succ, List.cons_append, stripRev_cons]
    have : 46 ∈ 48 :: (List.replicate j 48 ++ l) := by simp [h]
    simp only [true_or, this, and_self, if_true]
    exact ih

theorem takeWhile_zeros (l : Str) : l.takeWhile (· == 48) = List.replicate (l.takeWhile (· == 48)).length 48 := by
  induction l with
  | nil => rfl
  | cons c l ih =>
    by_cases h : c = 48
    · subst h; simp only [List.takeWhile_cons, beq_self_eq_true, if_true, List.length_cons, List.replicate_succ]
      rw [← ih]
    · simp [h]

/-- `fp = rstrip0 fp ++ zeros` -/
theorem rstrip0_spec (fp : Str) : ∃ j, fp = rstrip0 fp ++ List.replicate j 48 := by
  refine ⟨(fp.reverse.takeWhile (· == 48)).length, ?_⟩
  unfold rstrip0
  have h := List.takeWhile_append_dropWhile (p := (· == 48)) (l := fp.reverse)
  have h2 := congrArg List.reverse h
  rw [List.reverse_reverse, List.reverse_append] at h2
  have h3 : (fp.reverse.takeWhile (· == 48)).reverse = List.replicate (fp.reverse.takeWhile (· == 48)).length 48 := by
    rw [takeWhile_zeros fp.reverse]; simp
  rw [h3] at h2
  exact h2.symm

theorem rstrip0_digits (fp : Str) (h : ∀ c ∈ fp, isDigit c = true) : ∀ c ∈ rstrip0 fp, isDigit c = true := by
  intro c hc
  unfold rstrip0 at hc
  rw [List.mem_reverse] at hc
  have := (List.dropWhile_sublist (· == 48) (l := fp.reverse)).subset hc
  exact h c (by simpa using this)

/-- what the loop leaves of `pre.fp` (no dot in `pre`, `fp` digits) -/
theorem strip_spec (pre fp : Str) (hpre : 46 ∉ pre) (hfp : ∀ c ∈ fp, isDigit c = true) :
    (stripRev (pre ++ [46] ++ fp).reverse).reverse = pre ++ (if rstrip0 fp = [] then [] else 46 :: rstrip0 fp) := by
  have hrev : (pre ++ [46] ++ fp).reverse = fp.reverse ++ 46 :: pre.reverse := by simp
  rw [hrev]
  have hsplit := List.takeWhile_append_dropWhile (p := (· == 48)) (l := fp.reverse)
  have hpre' : 46 ∉ pre.reverse := by simpa using hpre
  rw [← hsplit, takeWhile_zeros fp.reverse, List.append_assoc]
  rw [stripRev_zeros _ _ (by simp)]
  have hr : rstrip0 fp = (fp.reverse.dropWhile (· == 48)).reverse := rfl
  cases hd : fp.reverse.dropWhile (· == 48) with
  | nil =>
    rw [hr, hd]
    simp [stripRev_dot _ hpre']
  | cons c rest =>
    have hc48 : c ≠ 48 := by
      have := List.head_dropWhile_not (· == 48) (l := fp.reverse) (by rw [hd]; simp)
      simp only [hd, List.head_cons] at this
      simpa using this
    have hcd : isDigit c = true := by
      have : c ∈ fp.reverse.dropWhile (· == 48) := by rw [hd]; simp
      have := (List.dropWhile_sublist (· == 48) (l := fp.reverse)).subset this
      exact hfp c (by simpa using this)
    have hc46 : c ≠ 46 := by rw [isDigit_iff] at hcd; omega
    rw [hr, hd, List.cons_append, stripRev_stop c _ hc48 hc46]
    simp

/-! ### the digit cap -/

theorem lstrip_len_sg (neg : Bool) (ip : Str) : (lstripSignZero (sg neg ++ ip)).length ≤ ip.length := by
  unfold lstripSignZero sg
  cases neg
  · simpa using (List.dropWhile_sublist _ (l := ip)).length_le
  · simp only [if_true, List.cons_append, List.nil_append]
    rw [List.dropWhile_cons]
    simpa using (List.dropWhile_sublist _ (l := ip)).length_le

theorem lstrip_zero (neg : Bool) : lstripSignZero (sg neg ++ [48]) = [] := by
  cases neg <;> simp [lstripSignZero, sg]

theorem sg_no_dot (neg : Bool) (ip : Str) (h : ∀ c ∈ ip, isDigit c = true) : 46 ∉ sg neg ++ ip := by
  intro hm
  rw [List.mem_append] at hm
  rcases hm with hm | hm
  · cases neg <;> simp [sg] at hm
  · have := (isDigit_iff 46).mp (h 46 hm); omega

theorem limitDigits_spec (pre fp : Str) (hpre : 46 ∉ pre) (hfp : ∀ c ∈ fp, isDigit c = true) (hne : fp ≠ [])
    (hcap : (lstripSignZero pre).length + fp.length ≤ 18) :
    limitDigits (pre ++ [46] ++ fp) = pre ++ (if rstrip0 fp = [] then [] else 46 :: rstrip0 fp) := by
  unfold limitDigits
  have hmem : 46 ∈ pre ++ [46] ++ fp := by simp
  have hp : ∀ c ∈ pre, (decide (c ≠ 46)) = true := by
    intro c hc; simp only [decide_eq_true_eq]; intro h; subst h; exact hpre hc
  have hsplit := takeWhile_append_stop (p := fun c => decide (c ≠ 46)) pre 46 fp hp (by simp)
  have hx : pre ++ [46] ++ fp = pre ++ 46 :: fp := by simp
  simp only [hmem, if_true]
  rw [hx, hsplit.1, hsplit.2]
  simp only [List.drop_succ_cons, List.drop_zero]
  have hslice : pySliceTo fp (18 - ((lstripSignZero pre).length : Int)) = fp := by
    unfold pySliceTo
    have : (0:Int) ≤ 18 - ((lstripSignZero pre).length : Int) := by omega
    simp only [this, if_true]
    apply List.take_of_length_le
    omega
  rw [hslice]
  have : fp.isEmpty = false := by cases fp with | nil => exact absurd rfl hne | cons _ _ => rfl
  simp only [this, Bool.false_eq_true, if_false]
  have := strip_spec pre fp hpre hfp
  rw [hx] at this
  simpa using this

theorem limitDigits_no_dot (x : Str) (h : 46 ∉ x) : limitDigits x = x := by
  unfold limitDigits; simp [h]

/-! ### `format(d, 'f')` -/

/-- shape of `format(d, 'f')` for a negative exponent -/
theorem decFormatF_frac (d : Dec) (h : d.exp < 0) :
    ∃ ip fp, decFormatF d = sg d.neg ++ ip ++ [46] ++ fp ∧ ip ≠ [] ∧ (∀ c ∈ ip, isDigit c = true) ∧
      (∀ c ∈ fp, isDigit c = true) ∧ fp.length = (-d.exp).toNat ∧ digitsVal (ip ++ fp) = d.coeff ∧
      (lstripSignZero (sg d.neg ++ ip)).length + fp.length ≤ max (natStr d.coeff).length (-d.exp).toNat := by
  have hd := natStr_digits d.coeff
  have hne := natStr_ne_nil d.coeff
  have hv := digitsVal_natStr d.coeff
  have hnot : ¬ (0 ≤ d.exp) := by omega
  set ds := natStr d.coeff with hds
  set k := (-d.exp).toNat with hk
  by_cases hlen : k < ds.length
  · refine ⟨ds.take (ds.length - k), ds.drop (ds.length - k), ?_, ?_, ?_, ?_, ?_, ?_, ?_⟩
    · unfold decFormatF sg
      simp only [hnot, if_false, ← hds, ← hk, hlen, if_true]
    · intro h0
      have : (ds.take (ds.length - k)).length = 0 := by rw [h0]; rfl
      rw [List.length_take] at this; omega
    · intro c hc; exact hd c (List.mem_of_mem_take hc)
    · intro c hc; exact hd c (List.mem_of_mem_drop hc)
    · rw [List.length_drop]; omega
    · rw [List.take_append_drop]; exact hv
    · have h1 := lstrip_len_sg d.neg (ds.take (ds.length - k))
      rw [List.length_take] at h1
      rw [List.length_drop]
      omega
  · refine ⟨[48], List.replicate (k - ds.length) 48 ++ ds, ?_, ?_, ?_, ?_, ?_, ?_, ?_⟩
    · unfold decFormatF sg
      simp only [hnot, if_false, ← hds, ← hk, hlen]
      simp
    · simp
    · intro c hc; simp at hc; subst hc; rfl
    · intro c hc
      rw [List.mem_append] at hc
      rcases hc with hc | hc
      · rw [List.mem_replicate] at hc; rw [hc.2]; rfl
      · exact hd c hc
    · rw [List.length_append, List.length_replicate]; omega
    · have : [48] ++ (List.replicate (k - ds.length) 48 ++ ds) = List.replicate (k - ds.length + 1) 48 ++ ds := by
        rw [List.replicate_succ]; simp
      rw [this, digitsVal_zeros_append]; exact hv
    · rw [lstrip_zero, List.length_append, List.length_replicate]
      simp only [List.length_nil]
      omega

/-- parsing back a plain decimal string -/
theorem decToPy_plain (neg : Bool) (ip fr : Str) (hip : ip ≠ []) (hdi : ∀ c ∈ ip, isDigit c = true)
    (hdf : ∀ c ∈ fr, isDigit c = true) :
    decToPy (sg neg ++ ip ++ (if fr = [] then [] else 46 :: fr)) = .ok ⟨neg, digitsVal (ip ++ fr), -(fr.length : Int)⟩ := by
  set tail : Str := if fr = [] then [] else 46 :: fr with htail
  have hws : ∀ c ∈ sg neg ++ ip ++ tail, isWs c = false := by
    intro c hc
    simp only [List.mem_append] at hc
    rcases hc with (hc | hc) | hc
    · cases neg <;> simp [sg] at hc; subst hc; rfl
    · exact not_ws_of_digit c (hdi c hc)
    · by_cases hfr : fr = []
      · simp [htail, hfr] at hc
      · simp only [htail, hfr, if_false, List.mem_cons] at hc
        rcases hc with hc | hc
        · subst hc; rfl
        · exact not_ws_of_digit c (hdf c hc)
  obtain ⟨c0, ip', rfl⟩ : ∃ c0 ip', ip = c0 :: ip' := by
    cases ip with
    | nil => exact absurd rfl hip
    | cons c r => exact ⟨c, r, rfl⟩
  have hss : splitSign (sg neg ++ c0 :: ip' ++ tail) = (neg, c0 :: ip' ++ tail) := by
    cases neg
    · simp only [sg, Bool.false_eq_true, if_false, List.nil_append]
      exact splitSign_digit c0 _ (hdi c0 (by simp))
    · simp only [sg, if_true, List.cons_append, List.nil_append]
      exact splitSign_minus _
  unfold decToPy
  rw [xmlStrip_id _ hws]
  unfold decLex
  rw [hss]
  by_cases hfr : fr = []
  · subst hfr
    have ht : tail = [] := by simp [htail]
    have := takeWhile_all (p := isDigit) (c0 :: ip') hdi
    simp only [ht, List.append_nil, this.1, this.2]
    simp
  · have ht : tail = 46 :: fr := by simp [htail, hfr]
    have := takeWhile_append_stop (p := isDigit) (c0 :: ip') 46 fr hdi (by decide)
    simp only [ht, this.1, this.2]
    have hall : fr.all isDigit = true := all_digits fr hdf
    simp [hall]

end Sdc.Scalars
