import SdcModel.Proofs.MdibDCommit
/-!
# `_update_corresponding_state` re-establishes the version links of the states of a descriptor whose version changed
-/
set_option linter.unusedSimpArgs false
namespace Sdc.Mdib

def ucStep (d : Descr) (tx : DTx) (cs : CState) : DTx :=
  match dictGet tx.cItems cs.h with
  | some ⟨_, none⟩ => tx
  | some ⟨o, some n⟩ => { tx with cItems := dictSet tx.cItems cs.h ⟨o, some { n with sv := n.sv + 1, dv := d.ver }⟩ }
  | none => { tx with cItems := dictSet tx.cItems cs.h ⟨some cs, some { cs with sv := cs.sv + 1, dv := d.ver }⟩ }

def ucSingle (c : DCommit) (d : Descr) : DCommit :=
  match dictGet c.tx.sItems d.handle with
  | some it => { c with tx := { c.tx with sItems := dictSet c.tx.sItems d.handle { it with new := { it.new with dv := d.ver } } } }
  | none =>
    match findS c.t d.handle with
    | none => c
    | some s => { c with tx := { c.tx with sItems := dictSet c.tx.sItems d.handle ⟨some s, { s with dv := d.ver, sv := s.sv + 1 }⟩ } }

theorem updCorresponding_eq (c : DCommit) (d : Descr) :
    updCorresponding c d =
      if d.kind == .context then { c with tx := (ctxOf c.t d.handle).foldl (ucStep d) c.tx } else ucSingle c d := by
  rfl

variable {t₀ : Tables} {tx₀ : DTx} {del : List Handle} {pend : List (Handle × DItem)} {T : Tables}

/-- the loop over the context states of a context descriptor -/
theorem uc_loop {d : Descr} (hd : d ∈ T.descrs) (hk : d.kind = .context) (hnd : d.handle ∉ del)
    (hcK : (T.ctx.map (·.h)).Nodup) :
    ∀ (L : List CState) (X : DTx) (stc : Handle → Handle → Prop), (∀ x ∈ L, x ∈ T.ctx ∧ x.dh = d.handle) →
      (X.cItems.map (·.1)).Nodup → (∀ p ∈ X.cItems, CIok tx₀ del pend stc T p) → (∀ x ∈ T.ctx, CRef stc T X x) →
      ((L.foldl (ucStep d) X).cItems.map (·.1)).Nodup ∧
      (∀ p ∈ (L.foldl (ucStep d) X).cItems,
        CIok tx₀ del pend (fun a k => stc a k ∧ ¬ (a = d.handle ∧ k ∈ L.map (·.h))) T p) ∧
      (∀ x ∈ T.ctx, CRef (fun a k => stc a k ∧ ¬ (a = d.handle ∧ k ∈ L.map (·.h))) T (L.foldl (ucStep d) X) x) ∧
      (L.foldl (ucStep d) X).sItems = X.sItems ∧ (L.foldl (ucStep d) X).descr = X.descr ∧
      (∀ p ∈ (L.foldl (ucStep d) X).cItems, p.2.old = none → p ∈ X.cItems) ∧
      (∀ p ∈ (L.foldl (ucStep d) X).cItems, p.2.new = none → p ∈ X.cItems) := by
  intro L
  induction L with
  | nil =>
    intro X stc _ hK hci hcr
    refine ⟨hK, ?_, ?_, rfl, rfl, fun p hp _ => hp, fun p hp _ => hp⟩
    · intro p hp
      have := hci p hp
      refine ⟨this.old, this.odh, ?_, this.fresh⟩
      intro n hn
      obtain ⟨a, b, c, e, f⟩ := this.new n hn
      refine ⟨a, b, c, e, ?_⟩
      rcases f with ⟨d', hd', e1, e2, e3⟩ | r
      · exact .inl ⟨d', hd', e1, e2, fun hx => e3 (fun hs => hx ⟨hs, by simp⟩)⟩
      · exact .inr r
    · intro x hx
      obtain ⟨d', hd', e1, e2, e3⟩ := hcr x hx
      exact ⟨d', hd', e1, e2, fun a hs => e3 a (fun h => hs ⟨h, by simp⟩)⟩
  | cons cs rest ih =>
    intro X stc hL hK hci hcr
    obtain ⟨hcsT, hcsd⟩ := hL cs (by simp)
    have hfc : findC T cs.h = some cs := find_of_mem_nodup (fun c : CState => c.h) hcK hcsT
    simp only [List.foldl_cons]
    -- one step
    have step : ((ucStep d X cs).cItems.map (·.1)).Nodup ∧
        (∀ p ∈ (ucStep d X cs).cItems, CIok tx₀ del pend (fun a k => stc a k ∧ ¬ (a = d.handle ∧ k = cs.h)) T p) ∧
        (∀ x ∈ T.ctx, CRef (fun a k => stc a k ∧ ¬ (a = d.handle ∧ k = cs.h)) T (ucStep d X cs) x) ∧
        (ucStep d X cs).sItems = X.sItems ∧ (ucStep d X cs).descr = X.descr ∧
        (∀ p ∈ (ucStep d X cs).cItems, p.2.old = none → p ∈ X.cItems) ∧
        (∀ p ∈ (ucStep d X cs).cItems, p.2.new = none → p ∈ X.cItems) := by
      -- items with another key and context states with another handle are not affected
      have hother : ∀ p ∈ X.cItems, p.1 ≠ cs.h → CIok tx₀ del pend (fun a k => stc a k ∧ ¬ (a = d.handle ∧ k = cs.h)) T p := by
        intro p hp hne
        have := hci p hp
        refine ⟨this.old, this.odh, ?_, this.fresh⟩
        intro n hn
        obtain ⟨a, b, c, e, f⟩ := this.new n hn
        refine ⟨a, b, c, e, ?_⟩
        rcases f with ⟨d', hd', e1, e2, e3⟩ | r
        · exact .inl ⟨d', hd', e1, e2, fun hx => e3 (fun hs => hx ⟨hs, fun h => hne h.2⟩)⟩
        · exact .inr r
      have hcr' : ∀ (X' : DTx), (∀ k, k ∈ X.cItems.map (·.1) → k ∈ X'.cItems.map (·.1)) → cs.h ∈ X'.cItems.map (·.1) →
          ∀ x ∈ T.ctx, CRef (fun a k => stc a k ∧ ¬ (a = d.handle ∧ k = cs.h)) T X' x := by
        intro X' hsub hin x hx
        obtain ⟨d', hd', e1, e2, e3⟩ := hcr x hx
        refine ⟨d', hd', e1, e2, ?_⟩
        intro hk' hs
        by_cases e : x.h = cs.h
        · exact absurd (e ▸ hin) hk'
        · exact e3 (fun h => hk' (hsub _ h)) (fun h => hs ⟨h, fun h' => e h'.2⟩)
      -- the new item for `cs`
      have hnew : ∀ (o : Option CState) (n : CState), o = some cs → n.h = cs.h → n.dh = cs.dh → cs.sv < n.sv → n.dv = d.ver →
          CIok tx₀ del pend (fun a k => stc a k ∧ ¬ (a = d.handle ∧ k = cs.h)) T (cs.h, ⟨o, some n⟩) := by
        intro o n ho h1 h2 h3 h4
        subst ho
        refine ⟨hfc.symm, ?_, ?_, by simp⟩
        · intro o ho; cases ho; rw [hcsd]; exact hnd
        · intro n' hn'; cases hn'
          refine ⟨h1, by rw [h2, hcsd]; exact hnd, ?_, ⟨?_, by simp [hfc]⟩, .inl ⟨d, hd, by rw [h2, hcsd], hk, fun _ => h4.symm⟩⟩
          · intro o ho; cases ho; exact h2.symm
          · intro o ho; rw [hfc] at ho; cases ho; exact h3
      unfold ucStep
      cases hg : dictGet X.cItems cs.h with
      | none =>
        simp only
        have hnk := dictGet_none_iff.1 hg
        refine ⟨dictSet_keys_nodup hK _ _, ?_, ?_, (by first | rfl | trivial), (by first | rfl | trivial), ?_, ?_⟩
        rotate_left 2
        · intro p hp ho
          rcases mem_dictSet hp with rfl | ⟨_, hp⟩
          · simp at ho
          · exact hp
        · intro p hp ho
          rcases mem_dictSet hp with rfl | ⟨_, hp⟩
          · simp at ho
          · exact hp
        · intro p hp
          rcases mem_dictSet hp with rfl | ⟨hne, hp⟩
          · exact hnew _ _ rfl rfl rfl (by simp) rfl
          · exact hother p hp hne
        · refine hcr' _ ?_ ?_
          · intro k hk'
            obtain ⟨q, hq, rfl⟩ := List.mem_map.1 hk'
            exact List.mem_map.2 ⟨q, mem_dictSet_of_ne _ hq (fun e => hnk (e ▸ hk')), rfl⟩
          · exact List.mem_map.2 ⟨_, mem_dictSet_self _ _ _, rfl⟩
      | some it =>
        obtain ⟨o, new⟩ := it
        have hm := dictGet_some_mem hg
        have hin : cs.h ∈ X.cItems.map (·.1) := List.mem_map.2 ⟨_, hm, rfl⟩
        have hit := hci _ hm
        cases new with
        | none =>
          simp only
          refine ⟨hK, ?_, hcr' X (fun _ h => h) hin, (by first | rfl | trivial), (by first | rfl | trivial), fun p hp _ => hp, fun p hp _ => hp⟩
          intro p hp
          by_cases e : p.1 = cs.h
          · have : p = (cs.h, ⟨o, none⟩) := by
              obtain ⟨k, it'⟩ := p
              simp only at e; subst e
              have := dictGet_of_mem_nodup hK hp
              rw [hg] at this; cases this; rfl
            subst this
            exact ⟨hit.old, hit.odh, by simp, hit.fresh⟩
          · exact hother p hp e
        | some n =>
          simp only
          have ho : o = some cs := by have := hit.old; simp only at this; rw [hfc] at this; exact this
          obtain ⟨a, b, c, e, f⟩ := hit.new n rfl
          refine ⟨by rw [dictSet_keys_of_mem hin]; exact hK, ?_, ?_, (by first | rfl | trivial), (by first | rfl | trivial), ?_, ?_⟩
          rotate_left 2
          · intro p hp ho'
            rcases mem_dictSet hp with rfl | ⟨_, hp⟩
            · rw [ho] at ho'; simp at ho'
            · exact hp
          · intro p hp ho'
            rcases mem_dictSet hp with rfl | ⟨_, hp⟩
            · simp at ho'
            · exact hp
          · intro p hp
            rcases mem_dictSet hp with rfl | ⟨hne, hp⟩
            · refine hnew _ _ ho a (c cs (by rw [ho]; rfl)).symm ?_ rfl
              have := e.1 cs hfc
              simp only; omega
            · exact hother p hp hne
          · refine hcr' _ ?_ ?_
            · intro k hk'; rw [dictSet_keys_of_mem hin]; exact hk'
            · rw [dictSet_keys_of_mem hin]; exact hin
    obtain ⟨s1, s2, s3, s4, s5, s6, s7⟩ := step
    obtain ⟨r1, r2, r3, r4, r5, r6, r7⟩ := ih (ucStep d X cs) _ (fun x hx => hL x (by simp [hx])) s1 s2 s3
    refine ⟨r1, ?_, ?_, r4.trans s4, r5.trans s5, fun p hp ho => s6 p (r6 p hp ho) ho, fun p hp ho => s7 p (r7 p hp ho) ho⟩
    · intro p hp
      have := r2 p hp
      refine ⟨this.old, this.odh, ?_, this.fresh⟩
      intro n hn
      obtain ⟨a, b, c, e, f⟩ := this.new n hn
      refine ⟨a, b, c, e, ?_⟩
      rcases f with ⟨d', hd', e1, e2, e3⟩ | r
      · refine .inl ⟨d', hd', e1, e2, fun hx => e3 (fun hs => hx ⟨hs.1.1, ?_⟩)⟩
        intro h
        simp only [List.map_cons, List.mem_cons] at h
        rcases h.2 with h' | h'
        · exact hs.1.2 ⟨h.1, h'⟩
        · exact hs.2 ⟨h.1, h'⟩
      · exact .inr r
    · intro x hx
      obtain ⟨d', hd', e1, e2, e3⟩ := r3 x hx
      refine ⟨d', hd', e1, e2, fun a hx' => e3 a (fun hs => hx' ⟨hs.1.1, ?_⟩)⟩
      intro h
      simp only [List.map_cons, List.mem_cons] at h
      rcases h.2 with h' | h'
      · exact hs.1.2 ⟨h.1, h'⟩
      · exact hs.2 ⟨h.1, h'⟩


variable {st : Handle → Prop}

/-- `_update_corresponding_state(d)`: afterwards the states of `d` are no longer stale -/
theorem CInv.updCorr {c : DCommit} {d : Descr} (h : CInv t₀ tx₀ del pend (fun x => st x ∨ x = d.handle) c.t c.tx)
    (hd : d ∈ c.t.descrs) (hnd : d.handle ∉ del)
    (hfresh : ∀ p ∈ c.tx.cItems, p.2.old = none → ∀ n ∈ p.2.new, n.dh = d.handle → n.dv = d.ver) :
    CInv t₀ tx₀ del pend st (updCorresponding c d).t (updCorresponding c d).tx ∧
      (updCorresponding c d).tx.descr = c.tx.descr ∧ (updCorresponding c d).res = c.res := by
  have huniq : ∀ d' ∈ c.t.descrs, d'.handle = d.handle → d' = d := fun d' hd' e => mem_unique h.dKeys hd' hd e
  have hnopend : ∀ n, (d.handle, (⟨none, some n⟩ : DItem)) ∉ pend := by
    intro n hm; exact h.pendFresh _ hm rfl (List.mem_map_of_mem hd)
  rw [updCorresponding_eq]
  by_cases hk : d.kind = .context
  · -- context descriptor: single states are not concerned
    simp only [hk, beq_self_eq_true, if_true]
    have hL : ∀ x ∈ ctxOf c.t d.handle, x ∈ c.t.ctx ∧ x.dh = d.handle := by
      intro x hx; simpa [ctxOf, List.mem_filter] using hx
    have hLn : ∀ x ∈ c.t.ctx, x.dh = d.handle → x.h ∈ (ctxOf c.t d.handle).map (·.h) := by
      intro x hx e; exact List.mem_map_of_mem (by simp [ctxOf, List.mem_filter, hx, e])
    obtain ⟨r1, r2, r3, r4, r5, r6, r7⟩ := uc_loop (tx₀ := tx₀) (pend := pend) hd hk hnd h.cKeys (ctxOf c.t d.handle) c.tx
      (fun a _ => st a ∨ a = d.handle) hL h.ciKeys h.ci h.cRef
    refine ⟨⟨h.dKeys, h.sKeys, h.cKeys, h.dOld, h.dSurv, h.dUp, h.dPar, h.pendFresh, h.creDone, ?_, ?_, ?_, ?_, r1, ?_, h.seen, by simp only [r4]; exact h.siOld0,
      fun p hp ho => h.ciOld0 p (r6 p hp ho) ho,
      fun h0 p hp hn => h.ciNoDel h0 p (r7 p hp hn) hn⟩, r5, (by first | rfl | trivial)⟩
    · intro s hs
      obtain ⟨k, d', hd', e1, e2, e3⟩ := h.sRef s hs
      refine ⟨k, d', hd', e1, e2, ?_⟩
      simp only [r4]
      intro hk' hst
      refine e3 hk' (fun hx => hx.elim hst (fun e => ?_))
      exact e2 (by rw [huniq d' hd' (e1.trans e)]; exact hk)
    · intro x hx
      obtain ⟨d', hd', e1, e2, e3⟩ := r3 x hx
      refine ⟨d', hd', e1, e2, fun a hst => e3 a ?_⟩
      rintro ⟨hs, hn⟩
      rcases hs with hs | hs
      · exact hst hs
      · exact hn ⟨hs, hLn x hx hs⟩
    · simp only [r4]; exact h.siKeys
    · simp only [r4]
      intro p hp
      have := h.si p hp
      refine ⟨this.dh, this.old, this.kind, this.nd, this.bump, ?_⟩
      rcases this.ref with ⟨d', hd', e1, e2, e3⟩ | r
      · refine .inl ⟨d', hd', e1, e2, fun hst => e3 (fun hx => hx.elim hst (fun e => ?_))⟩
        exact e2 (by rw [huniq d' hd' (e1.trans e)]; exact hk)
      · exact .inr r
    · intro p hp
      have := r2 p hp
      refine ⟨this.old, this.odh, ?_, this.fresh⟩
      intro n hn
      obtain ⟨a, b, c', e, f⟩ := this.new n hn
      refine ⟨a, b, c', e, ?_⟩
      rcases f with ⟨d', hd', e1, e2, e3⟩ | r
      · refine .inl ⟨d', hd', e1, e2, fun hst => ?_⟩
        by_cases hnd' : n.dh = d.handle
        · -- a state of `d`
          have hd'' := huniq d' hd' (e1.trans hnd')
          by_cases hin : p.1 ∈ (ctxOf c.t d.handle).map (·.h)
          · exact e3 (fun hx => hx.2 ⟨hnd', hin⟩)
          · -- not a live state of `d`: new in this transaction
            have hold : p.2.old = none := by
              cases ho : p.2.old with
              | none => rfl
              | some o =>
                have hf := this.old; rw [ho] at hf
                have ho' := findC_some hf.symm
                exact absurd (ho'.1 ▸ hLn o ho'.2 ((c' o ho).trans hnd')) hin
            rw [hd'']; exact (hfresh p (r6 p hp hold) hold n hn hnd').symm
        · exact e3 (fun hx => hx.1.elim hst hnd')
      · exact .inr r
  · -- single state descriptor: context states are not concerned
    simp only [hk, beq_iff_eq, if_false]
    have hcr : ∀ x ∈ c.t.ctx, CRef (fun a _ => st a) c.t c.tx x := by
      intro x hx
      obtain ⟨d', hd', e1, e2, e3⟩ := h.cRef x hx
      refine ⟨d', hd', e1, e2, fun a hst => e3 a (fun hx' => hx'.elim hst (fun e => ?_))⟩
      exact hk (by rw [← huniq d' hd' (e1.trans e)]; exact e2)
    have hci : ∀ p ∈ c.tx.cItems, CIok tx₀ del pend (fun a _ => st a) c.t p := by
      intro p hp
      have := h.ci p hp
      refine ⟨this.old, this.odh, ?_, this.fresh⟩
      intro n hn
      obtain ⟨a, b, c', e, f⟩ := this.new n hn
      refine ⟨a, b, c', e, ?_⟩
      rcases f with ⟨d', hd', e1, e2, e3⟩ | r
      · refine .inl ⟨d', hd', e1, e2, fun hst => e3 (fun hx => hx.elim hst (fun e => ?_))⟩
        exact hk (by rw [← huniq d' hd' (e1.trans e)]; exact e2)
      · exact .inr r
    -- items and states of other descriptors
    have hsi : ∀ p ∈ c.tx.sItems, p.1 ≠ d.handle → SIok del pend st c.t p := by
      intro p hp hne
      have := h.si p hp
      refine ⟨this.dh, this.old, this.kind, this.nd, this.bump, ?_⟩
      rcases this.ref with ⟨d', hd', e1, e2, e3⟩ | r
      · exact .inl ⟨d', hd', e1, e2, fun hst => e3 (fun hx => hx.elim hst hne)⟩
      · exact .inr r
    unfold ucSingle
    cases hg : dictGet c.tx.sItems d.handle with
    | some it =>
      simp only
      have hm := dictGet_some_mem hg
      have hin : d.handle ∈ c.tx.sItems.map (·.1) := List.mem_map.2 ⟨_, hm, rfl⟩
      have hit := h.si _ hm
      refine ⟨⟨h.dKeys, h.sKeys, h.cKeys, h.dOld, h.dSurv, h.dUp, h.dPar, h.pendFresh, h.creDone, ?_, hcr, ?_, ?_, h.ciKeys, hci, h.seen, ?_, h.ciOld0, h.ciNoDel⟩,
        (by first | rfl | trivial), (by first | rfl | trivial)⟩
      · intro s hs
        obtain ⟨k, d', hd', e1, e2, e3⟩ := h.sRef s hs
        refine ⟨k, d', hd', e1, e2, ?_⟩
        simp only [dictSet_keys_of_mem hin]
        intro hk' hst
        exact e3 hk' (fun hx => hx.elim hst (fun e => hk' (e ▸ hin)))
      · simp only [dictSet_keys_of_mem hin]; exact h.siKeys
      · intro p hp
        rcases mem_dictSet hp with rfl | ⟨hne, hp⟩
        · refine ⟨hit.dh, hit.old, hit.kind, hit.nd, hit.bump, .inl ⟨d, hd, rfl, hk, fun _ => rfl⟩⟩
        · exact hsi p hp hne
      · intro p hp ho
        rcases mem_dictSet hp with rfl | ⟨_, hp⟩
        · exact h.siOld0 (d.handle, it) hm ho
        · exact h.siOld0 p hp ho
    | none =>
      simp only
      have hnk := dictGet_none_iff.1 hg
      cases hf : findS c.t d.handle with
      | none =>
        simp only
        refine ⟨⟨h.dKeys, h.sKeys, h.cKeys, h.dOld, h.dSurv, h.dUp, h.dPar, h.pendFresh, h.creDone, ?_, hcr, h.siKeys, ?_, h.ciKeys, hci, h.seen, h.siOld0, h.ciOld0, h.ciNoDel⟩,
          (by first | rfl | trivial), (by first | rfl | trivial)⟩
        · intro s hs
          obtain ⟨k, d', hd', e1, e2, e3⟩ := h.sRef s hs
          refine ⟨k, d', hd', e1, e2, fun hk' hst => e3 hk' (fun hx => hx.elim hst (fun e => ?_))⟩
          have := find_of_mem_nodup (fun s : SState => s.dh) h.sKeys hs
          simp only [e] at this
          rw [show findS c.t d.handle = _ from this] at hf; cases hf
        · intro p hp
          exact hsi p hp (fun e => hnk (e ▸ List.mem_map_of_mem hp))
      | some s =>
        simp only
        have hs' := findS_some hf
        obtain ⟨ks, _⟩ := h.sRef s hs'.2
        refine ⟨⟨h.dKeys, h.sKeys, h.cKeys, h.dOld, h.dSurv, h.dUp, h.dPar, h.pendFresh, h.creDone, ?_, hcr,
          dictSet_keys_nodup h.siKeys _ _, ?_, h.ciKeys, hci, h.seen, ?_, h.ciOld0, h.ciNoDel⟩, (by first | rfl | trivial), (by first | rfl | trivial)⟩
        · intro s' hs''
          obtain ⟨k, d', hd', e1, e2, e3⟩ := h.sRef s' hs''
          refine ⟨k, d', hd', e1, e2, ?_⟩
          intro hk' hst
          have hne : s'.dh ≠ d.handle := fun e => hk' (List.mem_map.2 ⟨_, mem_dictSet_self _ _ _, e.symm⟩)
          refine e3 (fun hx => hk' ?_) (fun hx => hx.elim hst hne)
          obtain ⟨q, hq, e⟩ := List.mem_map.1 hx
          exact List.mem_map.2 ⟨q, mem_dictSet_of_ne _ hq (fun e' => hne (e ▸ e')), e⟩
        · intro p hp
          rcases mem_dictSet hp with rfl | ⟨hne, hp⟩
          · refine ⟨hs'.1, hf.symm, ks, hnd, ⟨?_, by simp [hf]⟩, .inl ⟨d, hd, rfl, hk, fun _ => rfl⟩⟩
            intro o ho; rw [hf] at ho; cases ho; simp
          · exact hsi p hp hne
        · intro p hp ho
          rcases mem_dictSet hp with rfl | ⟨_, hp⟩
          · cases ho
          · exact h.siOld0 p hp ho

end Sdc.Mdib
