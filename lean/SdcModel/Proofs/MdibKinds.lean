import SdcModel.Proofs.MdibWFm
/-!
# the kind discipline `KOK` is kept by state and context transactions
(state transactions: under the hypothesis that the script does not write single states of the context kind / to context
descriptors - the real API has no such transaction)
-/
set_option linter.unusedSimpArgs false
namespace Sdc.Mdib

theorem KOK.of_ver {t : Tables} (h : KOK t) (v : Nat) : KOK { t with ver := v } := ⟨h.1, h.2, h.3⟩

theorem KOK.putState {t : Tables} (hk : KOK t) {h : Handle} {n : SState} (hn : n.dh = h) (h1 : n.kind ≠ .context)
    (h2 : ∀ d ∈ t.descrs, d.handle = h → d.kind ≠ .context) : KOK (putState t h n) := by
  refine ⟨?_, ?_, by simpa using hk.kCD⟩
  · intro s hs
    rcases mem_putState hs with rfl | ⟨hs, _⟩
    · exact h1
    · exact hk.kS s hs
  · intro s hs d hd e
    simp only [putState_descrs] at hd
    rcases mem_putState hs with rfl | ⟨hs, _⟩
    · exact h2 d hd (e.trans hn)
    · exact hk.kSD s hs d hd e

theorem KOK.putCtx {t : Tables} (hk : KOK t) {h : Handle} {n : Option CState}
    (h2 : ∀ x ∈ n, ∀ d ∈ t.descrs, d.handle = x.dh → d.kind = .context) : KOK (putCtx t h n) := by
  refine ⟨by simpa using hk.kS, by simpa using hk.kSD, ?_⟩
  intro c hc d hd e
  simp only [putCtx_descrs] at hd
  rcases mem_putCtx hc with e' | ⟨hc, _⟩
  · exact h2 c e'.symm d hd e
  · exact hk.kCD c hc d hd e

/-! ## state transactions -/

/-- the script writes no single state of the context kind and none to a context descriptor (`write_entity` of a
    `MultiStateEntity` is rejected by the real state transactions: `multi = true`) -/
def sCallKindOK (t : Tables) : SCall → Bool
  | .write h _ _ _ false => decide (∀ d ∈ findD t h, d.kind ≠ .context)
  | _ => true

def SKindOK (t : Tables) (s : SScript) : Prop := s.kind ≠ .context ∧ ∀ c ∈ s.calls, sCallKindOK t c = true

instance (t : Tables) (s : SScript) : Decidable (SKindOK t s) := by unfold SKindOK; infer_instance

structure SItemsKind (t : Tables) (items : List (Handle × SItem)) : Prop where
  k : ∀ p ∈ items, p.2.new.kind ≠ .context ∧ ∀ d ∈ t.descrs, d.handle = p.1 → d.kind ≠ .context

theorem sCall_kind {t : Tables} (hw : WF t) (hk : KOK t) {tx tx' : STx} {c : SCall} (htk : tx.kind ≠ .context)
    (hc : sCallKindOK t c = true)
    (hi : SItemsKind t tx.items) (h : sCall t tx c = .ok tx') : tx'.kind = tx.kind ∧ SItemsKind t tx'.items := by
  cases c with
  | get h0 =>
    simp only [sCall] at h
    split at h; · cases h
    split at h; · cases h
    rename_i s hs
    split at h; · cases h
    cases h
    have hs' := findS_some hs
    refine ⟨rfl, ⟨forall_dictSet hi.k ⟨hk.kS s hs'.2, ?_⟩⟩⟩
    intro d hd e; exact hk.kSD s hs'.2 d hd (e.trans hs'.1.symm)
  | unget h0 =>
    simp only [sCall, Except.ok.injEq] at h; cases h
    exact ⟨rfl, ⟨forall_dictDel hi.k h0⟩⟩
  | setBody h0 b =>
    simp only [sCall] at h
    split at h; · cases h
    rename_i it hit
    cases h
    exact ⟨rfl, ⟨forall_dictSet hi.k (hi.k (h0, it) (dictGet_some_mem hit))⟩⟩
  | write h0 kind sv b multi =>
    simp only [sCall] at h
    split at h; · cases h
    rename_i hm
    split at h; · cases h
    rename_i hkk
    split at h; · cases h
    rename_i d hd
    cases h
    have : multi = false := by simpa using hm
    subst this
    have hkk' : kind = tx.kind := by simpa using hkk
    refine ⟨rfl, ⟨forall_dictSet hi.k ⟨by simp only; rw [hkk']; exact htk, ?_⟩⟩⟩
    intro d' hd' e
    have := hw.findD_of_mem hd'
    rw [e, hd] at this
    cases this
    simp only [sCallKindOK, decide_eq_true_eq] at hc
    exact hc d hd

theorem sCalls_kind {t : Tables} (hw : WF t) (hk : KOK t) {s : SScript} (hs : SKindOK t s) {tx : STx}
    (h : runCalls (sCall t) s.catchErrors { kind := s.kind } s.calls = .ok tx) : SItemsKind t tx.items := by
  have := runCalls_inv_of (fun tx : STx => tx.kind = s.kind ∧ SItemsKind t tx.items)
    (fun c => sCallKindOK t c = true)
    (fun tx c tx' hg hp hc => by
      obtain ⟨a, b⟩ := sCall_kind hw hk (hp.1 ▸ hs.1) hg hp.2 hc
      exact ⟨a.trans hp.1, b⟩) s.catchErrors s.calls { kind := s.kind } tx hs.2 ⟨rfl, ⟨by simp⟩⟩ h
  exact this.2

theorem applySItems_kok {t : Tables} {items : List (Handle × SItem)} (hk : KOK t) (hi : SItemsOK t items)
    (hik : SItemsKind t items) : KOK (applySItems t items).1 := by
  induction items generalizing t with
  | nil => exact hk
  | cons p rest ih =>
    obtain ⟨h, it⟩ := p
    rw [applySItems_cons hi]
    have h0 := hik.k (h, it) (by simp)
    refine ih (hk.putState (hi.dh (h, it) (by simp)) h0.1 h0.2) hi.tail ⟨?_⟩
    intro p hp; simpa using hik.k p (by simp [hp])

theorem runS_kok {t : Tables} (hw : WF t) (hk : KOK t) (s : SScript) (hs : SKindOK t s) : KOK (runS t s).1 := by
  unfold runS
  split
  · exact hk
  · rename_i tx htx
    split
    · exact hk
    · have hi := sCalls_ok hw htx
      have hik := sCalls_kind hw hk hs htx
      have key : KOK (commitS t tx).1 := by
        unfold commitS; split
        · exact hk
        · exact applySItems_kok (hk.of_ver _) (hi.of_ver _) ⟨hik.k⟩
      split <;> (rename_i heq; rw [heq] at key; exact key)

/-! ## context transactions -/

/-- where the new state of an item hangs: on the descriptor of a live context state, or on a context descriptor -/
structure CItemsKind (t : Tables) (items : List (Handle × CItem)) : Prop where
  k : ∀ p ∈ items, ∀ n ∈ p.2.new, (∃ c ∈ t.ctx, c.dh = n.dh) ∨ (∃ d ∈ t.descrs, d.handle = n.dh ∧ d.kind = .context)

theorem cGet_kind {t : Tables} {tx tx1 : CTx} {h : Handle} {c1 : CState} (hi : CItemsKind t tx.items)
    (hg : cGet t tx h = .ok (tx1, c1)) : CItemsKind t tx1.items ∧ ∃ c ∈ t.ctx, c.dh = c1.dh := by
  simp only [cGet] at hg
  split at hg; · cases hg
  split at hg; · cases hg
  rename_i c hc
  simp only [Except.ok.injEq, Prod.mk.injEq] at hg
  obtain ⟨rfl, rfl⟩ := hg
  have hc' := findC_some hc
  refine ⟨⟨forall_dictSet hi.k ?_⟩, c, hc'.2, rfl⟩
  intro n hn; cases hn; exact .inl ⟨c, hc'.2, rfl⟩

theorem disassocLoop_kind {t : Tables} (now : Nat) (ignored : Option Handle) :
    ∀ (cs : List CState) (tx tx' : CTx), CItemsKind t tx.items →
      disassocLoop t now ignored tx cs = .ok tx' → CItemsKind t tx'.items := by
  intro cs
  induction cs with
  | nil => intro tx tx' hi h; simp only [disassocLoop, Except.ok.injEq] at h; exact h ▸ hi
  | cons c rest ih =>
    intro tx tx' hi h
    simp only [disassocLoop] at h
    split at h
    · exact ih tx tx' hi h
    · split at h
      · split at h; · cases h
        rename_i tx1 c1 hg
        obtain ⟨hi1, c0, hc0, e0⟩ := cGet_kind hi hg
        refine ih _ tx' ⟨forall_dictSet hi1.k ?_⟩ h
        intro n hn
        simp only [Option.mem_def, Option.some.injEq] at hn
        subst hn
        left
        refine ⟨c0, hc0, ?_⟩
        rw [e0]; split <;> rfl
      · exact ih tx tx' hi h

theorem cCall_kind {t : Tables} {tx tx' : CTx} {c : CCall} (hi : CItemsKind t tx.items)
    (h : cCall t tx c = .ok tx') : CItemsKind t tx'.items := by
  cases c with
  | get h0 =>
    simp only [cCall] at h
    cases hg : cGet t tx h0 with
    | error e => simp [hg, Except.map] at h
    | ok r =>
      obtain ⟨tx1, c1⟩ := r
      simp only [hg, Except.map, Except.ok.injEq] at h
      subst h
      exact (cGet_kind hi hg).1
  | mk dh h0 explicit assoc body now =>
    simp only [cCall] at h
    split at h; · cases h
    split at h; · cases h
    rename_i d hd
    split at h; · cases h
    rename_i hkind
    split at h; · cases h
    cases h
    have hd' := findD_some hd
    refine ⟨forall_dictSet hi.k ?_⟩
    intro n hn; simp only [Option.mem_def, Option.some.injEq] at hn; subst hn
    exact .inr ⟨d, hd'.2, hd'.1, by simpa using hkind⟩
  | setBody h0 b =>
    simp only [cCall] at h
    split at h
    · rename_i o c hit
      cases h
      refine ⟨forall_dictSet hi.k ?_⟩
      intro n hn; simp only [Option.mem_def, Option.some.injEq] at hn; subst hn
      exact hi.k _ (dictGet_some_mem hit) c rfl
    · cases h
  | setAssoc h0 a =>
    simp only [cCall] at h
    split at h
    · rename_i o c hit
      cases h
      refine ⟨forall_dictSet hi.k ?_⟩
      intro n hn; simp only [Option.mem_def, Option.some.injEq] at hn; subst hn
      exact hi.k _ (dictGet_some_mem hit) c rfl
    · cases h
  | disassociateAll dh ignored now =>
    simp only [cCall] at h
    exact disassocLoop_kind now ignored _ tx tx' hi h
  | del h0 =>
    simp only [cCall] at h
    split at h; · cases h
    cases h
    exact ⟨forall_dictSet hi.k (by simp)⟩

theorem applyCItems_kok {strict : Bool} {t : Tables} {items : List (Handle × CItem)} (hw : WF t) (hk : KOK t)
    (hi : CItemsOK strict t items)
    (hik : ∀ p ∈ items, ∀ n ∈ p.2.new, ∀ d ∈ t.descrs, d.handle = n.dh → d.kind = .context) :
    KOK (applyCItems t items).1 := by
  induction items generalizing t with
  | nil => exact hk
  | cons p rest ih =>
    obtain ⟨h, it⟩ := p
    have hh := hi.h (h, it) (by simp)
    have hik' : ∀ p ∈ rest, ∀ n ∈ p.2.new, ∀ d ∈ t.descrs, d.handle = n.dh → d.kind = .context :=
      fun p hp => hik p (by simp [hp])
    by_cases hex : it.old = findC t h
    · rw [applyCItems_cons hh hex]
      exact ih (hw.putCtx hh (hi.ref (h, it) (by simp))) (hk.putCtx (hik (h, it) (by simp))) hi.tail (by simpa using hik')
    · have hold : it.old = none := ((hi.old (h, it) (by simp)).resolve_left hex).2
      rw [applyCItems, hold]
      simp only []
      split
      · exact ih hw hk hi.tail_same hik'
      · split
        · exact hk
        · rename_i n hn _ t2 hadd
          -- cannot happen: the handle is in the table, `add_object` raises
          obtain ⟨hnone, _⟩ := addCtx_ok_iff.1 hadd
          rw [hh n hn] at hnone
          exact absurd (hold.trans hnone.symm) hex

theorem runC_kok {t : Tables} (hw : WF t) (hk : KOK t) (s : CScript) : KOK (runC t s).1 := by
  unfold runC
  split
  · exact hk
  · rename_i tx htx
    split
    · exact hk
    · have hi := cCalls_wk hw htx
      have hik := runCalls_inv (fun tx : CTx => CItemsKind t tx.items) (fun _ _ _ hp hc => cCall_kind hp hc) _ _ _ _
        ⟨by simp⟩ htx
      have hik' : ∀ p ∈ tx.items, ∀ n ∈ p.2.new, ∀ d ∈ t.descrs, d.handle = n.dh → d.kind = .context := by
        intro p hp n hn d hd e
        rcases hik.k p hp n hn with ⟨c, hc, e'⟩ | ⟨d', hd', e', k⟩
        · exact hk.kCD c hc d hd (e.trans e'.symm)
        · rw [mem_unique hw.dKeys hd hd' (e.trans e'.symm)]; exact k
      have key : KOK (commitC t tx).1 := by
        unfold commitC; split
        · exact hk
        · exact applyCItems_kok (hw.of_ver _) (hk.of_ver _) (hi.of_ver _) hik'
      split <;> (rename_i heq; rw [heq] at key; exact key)

end Sdc.Mdib
