import SdcModel.Proofs.MdibLinkDescribe
/-!
# state and context transactions satisfy the consumer contract
-/
set_option linter.unusedSimpArgs false
namespace Sdc.Mdib
open Sdc.Consumer

/-! ## state transactions -/

theorem pfacts_state {t t' : Mdib.Tables} {r : TxResult} (hw : WF t) {s : SScript} (hk : s.kind ≠ .context)
    (h : runS t s = (t', r, .committed)) : PFacts t t' r := by
  have htr := result_truthful_S hw h
  have hco := result_complete_S hw hk h
  have hwf' : WF t' := by have := (runS_ok hw s).2; rw [h] at this; exact this
  obtain ⟨items, hi, rfl, rfl, hne⟩ := runS_committed hw h
  have hfr := applySItems_frame { t with ver := t.ver + 1 } items
  have hfD : ∀ k, findD (applySItems { t with ver := t.ver + 1 } items).1 k = findD t k := fun k => by simp [findD, hfr.1]
  have hfC : ∀ k, findC (applySItems { t with ver := t.ver + 1 } items).1 k = findC t k := fun k => by simp [findC, hfr.2.1]
  have hlists : (({} : TxResult).putStates s.kind (items.map (·.2.new))).descrCreated = [] ∧
      (({} : TxResult).putStates s.kind (items.map (·.2.new))).descrUpdated = [] ∧
      (({} : TxResult).putStates s.kind (items.map (·.2.new))).descrDeleted = [] ∧
      (({} : TxResult).putStates s.kind (items.map (·.2.new))).ctx = [] := by
    cases s.kind <;> exact ⟨rfl, rfl, rfl, rfl⟩
  obtain ⟨l1, l2, l3, l4⟩ := hlists
  rw [allS_putStates _ _ hk] at htr hco
  refine ⟨?_, hw, hwf', .inl (by rw [allS_putStates _ _ hk]; simpa using hne), by simp [l1, l2, l3], by simp [l1], by simp [l2], by simp [l3],
    ?_, ?_, ?_, ?_, ?_, ?_, ?_, by simp [l4], by simp [l4], ?_, ?_, ?_, by simp [l2]⟩
  · rw [applySItems_ver]; simp
  · intro d hd; rw [hfr.1] at hd; exact .inl (hw.findD_of_mem hd)
  · intro d hd; rw [hfD]; exact .inl (by rw [hw.findD_of_mem hd]; rfl)
  · intro q i; simp [resParts, l1, l2, l3, flatDeletes]
  · rw [allS_putStates _ _ hk]; exact htr.1
  · rw [allS_putStates _ _ hk]
    intro x hx old ho
    obtain ⟨p, hp, rfl⟩ := List.mem_map.1 hx
    rw [hi.dh p hp] at ho
    exact (hi.bump p hp).1 old ho
  · rw [allS_putStates _ _ hk]
    intro x hx
    by_cases e : findS t x.dh = some x
    · exact .inl e
    · right
      have hx' := hwf'.findS_of_mem hx
      obtain ⟨y, hy, e'⟩ := hco x.dh (by rw [hx']; exact fun e'' => e e''.symm)
      have := htr.1 y hy
      rw [e', hx'] at this
      exact (Option.some.inj this) ▸ hy
  · intro x hx
    left
    rw [applySItems_findS hi]
    cases dictGet items x.dh <;> simp [hw.findS_of_mem hx]
  · intro c hc; rw [hfr.2.1] at hc; exact .inl (hw.findC_of_mem hc)
  · intro c hc; rw [hfC]; exact .inl (by rw [hw.findC_of_mem hc]; rfl)
  · intro c hc old ho
    rw [hfr.2.1] at hc
    rw [hw.findC_of_mem hc] at ho; cases ho; rfl


/-! ## context transactions -/

def CCall.isDel : CCall → Bool
  | .del _ => true
  | _ => false

/-- the script deletes no context state (`write_entity` with a state removed from the entity): a deleted context state
    cannot be reported -/
def NoDel (s : CScript) : Prop := ∀ c ∈ s.calls, c.isDel = false
instance (s : CScript) : Decidable (NoDel s) := by unfold NoDel; infer_instance

/-- a new state stays with the descriptor of the old one, and nothing is deleted -/
structure CItemsX (items : List (Handle × CItem)) : Prop where
  dh : ∀ p ∈ items, ∀ o ∈ p.2.old, ∀ n ∈ p.2.new, o.dh = n.dh
  nodel : ∀ p ∈ items, p.2.new ≠ none

theorem CItemsX.set {items : List (Handle × CItem)} (hi : CItemsX items) {h : Handle} {it : CItem}
    (h1 : ∀ o ∈ it.old, ∀ n ∈ it.new, o.dh = n.dh) (h2 : it.new ≠ none) : CItemsX (dictSet items h it) :=
  ⟨forall_dictSet hi.dh h1, forall_dictSet hi.nodel h2⟩

theorem cGet_x {t : Mdib.Tables} {tx tx1 : CTx} {h : Handle} {c1 : CState} (hi : CItemsX tx.items)
    (hg : cGet t tx h = .ok (tx1, c1)) : CItemsX tx1.items ∧ ∃ c, findC t h = some c ∧ c1 = { c with sv := c.sv + 1 } := by
  simp only [cGet] at hg
  split at hg; · cases hg
  split at hg; · cases hg
  rename_i c hc
  simp only [Except.ok.injEq, Prod.mk.injEq] at hg
  obtain ⟨rfl, rfl⟩ := hg
  refine ⟨hi.set ?_ (by simp), c, hc, rfl⟩
  intro o ho n hn; cases ho; cases hn; rfl

theorem disassocLoop_x {t : Mdib.Tables} (hw : WF t) (now : Nat) (ignored : Option Handle) :
    ∀ (cs : List CState) (tx tx' : CTx), (∀ c ∈ cs, c ∈ t.ctx) → CItemsX tx.items →
      disassocLoop t now ignored tx cs = .ok tx' → CItemsX tx'.items := by
  intro cs
  induction cs with
  | nil => intro tx tx' _ hi h; simp only [disassocLoop, Except.ok.injEq] at h; exact h ▸ hi
  | cons c rest ih =>
    intro tx tx' hm hi h
    have hm' : ∀ c ∈ rest, c ∈ t.ctx := fun x hx => hm x (by simp [hx])
    have hc : c ∈ t.ctx := hm c (by simp)
    simp only [disassocLoop] at h
    split at h
    · exact ih tx tx' hm' hi h
    · split at h
      · split at h; · cases h
        rename_i tx1 c1 hg
        obtain ⟨hi1, c0, hc0, rfl⟩ := cGet_x hi hg
        have e0 : c0 = c := by
          have := hw.findC_of_mem hc; rw [hc0] at this; exact Option.some.inj this
        subst e0
        refine ih _ tx' hm' (hi1.set ?_ (by simp)) h
        intro o ho n hn
        simp only [Option.mem_def, Option.some.injEq] at ho hn
        subst ho; subst hn
        split <;> rfl
      · exact ih tx tx' hm' hi h

theorem cCall_x {t : Mdib.Tables} (hw : WF t) {tx tx' : CTx} {c : CCall} (hd : c.isDel = false) (hi : CItemsX tx.items)
    (h : cCall t tx c = .ok tx') : CItemsX tx'.items := by
  cases c with
  | get h0 =>
    simp only [cCall] at h
    cases hg : cGet t tx h0 with
    | error e => simp [hg, Except.map] at h
    | ok r =>
      obtain ⟨tx1, c1⟩ := r
      simp only [hg, Except.map, Except.ok.injEq] at h
      subst h
      exact (cGet_x hi hg).1
  | mk dh h0 explicit assoc body now =>
    simp only [cCall] at h
    split at h; · cases h
    split at h; · cases h
    split at h; · cases h
    split at h; · cases h
    cases h
    exact hi.set (by simp) (by simp)
  | setBody h0 b =>
    simp only [cCall] at h
    split at h
    · rename_i o c hit
      cases h
      have hm := dictGet_some_mem hit
      refine hi.set ?_ (by simp)
      intro o' ho n hn; simp only [Option.mem_def, Option.some.injEq] at hn; subst hn
      exact hi.dh _ hm o' ho c rfl
    · cases h
  | setAssoc h0 a =>
    simp only [cCall] at h
    split at h
    · rename_i o c hit
      cases h
      have hm := dictGet_some_mem hit
      refine hi.set ?_ (by simp)
      intro o' ho n hn; simp only [Option.mem_def, Option.some.injEq] at hn; subst hn
      exact hi.dh _ hm o' ho c rfl
    · cases h
  | disassociateAll dh ignored now =>
    simp only [cCall] at h
    refine disassocLoop_x hw now ignored _ tx tx' ?_ hi h
    intro c hc; simp only [ctxOf, List.mem_filter] at hc; exact hc.1
  | del h0 => cases hd

theorem pfacts_context {t t' : Mdib.Tables} {r : TxResult} (hw : WF t) {s : CScript} (hf : FreshUuids t s) (hnd : NoDel s)
    (h : runC t s = (t', r, .committed)) : PFacts t t' r := by
  have htr := result_truthful_C hw hf h
  have hco := result_complete_C hw hf h
  have hwf' : WF t' := by have := runC_wf hw s; rw [h] at this; exact this
  -- the extra facts about the items
  have hx : ∃ items : List (Handle × CItem), CItemsOK true { t with ver := t.ver + 1 } items ∧ CItemsX items ∧
      t' = (applyCItems { t with ver := t.ver + 1 } items).1 ∧ r = { ctx := items.filterMap (·.2.new) } ∧ items ≠ [] := by
    have h' := h
    unfold runC at h'
    split at h'
    · cases h'
    · rename_i tx htx
      have hX := runCalls_inv_of (fun tx : CTx => CItemsX tx.items) (fun c => c.isDel = false)
        (fun _ _ _ hg hp hc => cCall_x hw hg hp hc) s.catchErrors s.calls { newVer := t.ver + 1 } tx (fun c hc => hnd c hc)
        ⟨by simp, by simp⟩ htx
      obtain ⟨items, hi, e1, e2, e3⟩ := runC_committed hw hf h
      -- the items of `runC_committed` are those of `tx`
      split at h'
      · cases h'
      · have hi' := (cCalls_ok hw hf htx).of_ver (t.ver + 1)
        unfold commitC at h'
        by_cases he : tx.items.isEmpty
        · simp [he] at h'
        · simp only [he, Bool.false_eq_true, if_false] at h'
          have hups := applyCItems_ups hi'
          generalize hres : applyCItems { t with ver := t.ver + 1 } tx.items = res at h' hups
          obtain ⟨t1, ups, e⟩ := res
          simp only at hups
          cases e with
          | some e => simp at h'
          | none =>
            simp only [Prod.mk.injEq] at h'
            exact ⟨tx.items, hi', hX, by rw [hres]; exact h'.1.symm, by rw [← h'.2.1, hups], fun e => he (by simp [e])⟩
  obtain ⟨items, hi, hX, rfl, rfl, hne⟩ := hx
  have hfr := applyCItems_frame { t with ver := t.ver + 1 } items
  have hfD : ∀ k, findD (applyCItems { t with ver := t.ver + 1 } items).1 k = findD t k := fun k => by simp [findD, hfr.1]
  have hfS : ∀ k, findS (applyCItems { t with ver := t.ver + 1 } items).1 k = findS t k := fun k => by simp [findS, hfr.2.1]
  have hfC := applyCItems_findC hi
  have hctxne : items.filterMap (·.2.new) ≠ [] := by
    cases hit : items with
    | nil => exact absurd hit hne
    | cons p rest =>
      have := hX.nodel p (by simp [hit])
      cases hn : p.2.new with
      | none => exact absurd hn this
      | some n => simp [List.filterMap_cons, hn]
  refine ⟨?_, hw, hwf', .inr (.inl hctxne), by simp, by simp, by simp, by simp, ?_, ?_, ?_, by simp [TxResult.allS],
    by simp [TxResult.allS], ?_, ?_, htr.1, ?_, ?_, ?_, ?_, by simp⟩
  · rw [applyCItems_ver]; simp
  · intro d hd; rw [hfr.1] at hd; exact .inl (hw.findD_of_mem hd)
  · intro d hd; rw [hfD]; exact .inl (by rw [hw.findD_of_mem hd]; rfl)
  · intro q i; simp [resParts, flatDeletes]
  · intro x hx; rw [hfr.2.1] at hx; exact .inl (hw.findS_of_mem hx)
  · intro x hx; rw [hfS]; exact .inl (by rw [hw.findS_of_mem hx]; rfl)
  · intro c hc old ho
    simp only [List.mem_filterMap] at hc
    obtain ⟨p, hp, e⟩ := hc
    rw [hi.h p hp c e] at ho
    exact ((hi.bump rfl p hp c e).1 old ho)
  · intro c hc
    by_cases e : findC t c.h = some c
    · exact .inl e
    · right
      have hc' := hwf'.findC_of_mem hc
      rcases hco c.h (by rw [hc']; exact fun e'' => e e''.symm) with ⟨y, hy, e'⟩ | hn
      · have := htr.1 y hy
        rw [e', hc'] at this
        exact (Option.some.inj this) ▸ hy
      · rw [hc'] at hn; cases hn
  · intro c hc
    left
    rw [hfC]
    cases hg : dictGet items c.h with
    | none =>
      have := hw.findC_of_mem hc
      simp only [findC] at this ⊢
      simp [this]
    | some it =>
      simp only
      cases hn : it.new with
      | none => exact absurd hn (hX.nodel _ (dictGet_some_mem hg))
      | some n => rfl
  · intro c hc old ho
    have hc' := hwf'.findC_of_mem hc
    rw [hfC] at hc'
    cases hg : dictGet items c.h with
    | none =>
      rw [hg] at hc'; simp only at hc'
      have hc'' : findC t c.h = some c := hc'
      rw [ho] at hc''; cases hc''; rfl
    | some it =>
      rw [hg] at hc'; simp only at hc'
      have hm := dictGet_some_mem hg
      have hold := hi.exact _ hm
      simp only at hold
      have ho' : findC { t with ver := t.ver + 1 } c.h = some old := ho
      exact hX.dh _ hm old (by rw [hold, ho']; rfl) c hc'

end Sdc.Mdib
