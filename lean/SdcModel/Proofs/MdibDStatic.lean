import SdcModel.Proofs.MdibDCalls
import SdcModel.Proofs.MdibSubtree
/-!
# what the consistency check of a descriptor commit guarantees about the set of handles that will disappear
-/
set_option linter.unusedSimpArgs false
namespace Sdc.Mdib

structure DStatic (t₀ : Tables) (tx : DTx) (del : List Handle) : Prop where
  delSub : ∀ h ∈ del, ∃ d ∈ t₀.descrs, d.handle = h
  delClosed : ∀ q ∈ del, ∀ d ∈ t₀.descrs, d.parent = some q → d.handle ∈ del
  delRoot : ∀ p ∈ tx.descr, ∀ o, p.2 = ⟨some o, none⟩ → p.1 ∈ del
  updNotDel : ∀ p ∈ tx.descr, ∀ o n, p.2 = ⟨some o, some n⟩ → p.1 ∉ del
  crePar : ∀ p ∈ tx.descr, ∀ n, p.2 = ⟨none, some n⟩ → ∀ q ∈ n.parent,
    (∃ m, (q, ⟨none, some m⟩) ∈ tx.descr) ∨ (q ∉ del ∧ ∃ d ∈ t₀.descrs, d.handle = q)

theorem mem_toDelOf {tx : DTx} {h : Handle} :
    h ∈ toDelOf tx ↔ ∃ p ∈ tx.descr, ∃ o, p.2 = ⟨some o, none⟩ ∧ o.handle = h := by
  simp only [toDelOf, List.mem_filterMap]
  constructor
  · rintro ⟨p, hp, hm⟩
    obtain ⟨k, ⟨old, new⟩⟩ := p
    cases old <;> cases new <;> simp at hm
    exact ⟨_, hp, _, rfl, hm⟩
  · rintro ⟨p, hp, o, e, rfl⟩
    exact ⟨p, hp, by rw [e]⟩

theorem mem_toCreateOf {tx : DTx} {h : Handle} :
    h ∈ toCreateOf tx ↔ ∃ p ∈ tx.descr, ∃ n, p.2 = ⟨none, some n⟩ ∧ n.handle = h := by
  simp only [toCreateOf, List.mem_filterMap]
  constructor
  · rintro ⟨p, hp, hm⟩
    obtain ⟨k, ⟨old, new⟩⟩ := p
    cases old <;> cases new <;> simp at hm
    exact ⟨_, hp, _, rfl, hm⟩
  · rintro ⟨p, hp, n, e, rfl⟩
    exact ⟨p, hp, by rw [e]⟩

theorem mem_toUpdateOf {tx : DTx} {h : Handle} :
    h ∈ toUpdateOf tx ↔ ∃ p ∈ tx.descr, ∃ o n, p.2 = ⟨some o, some n⟩ ∧ n.handle = h := by
  simp only [toUpdateOf, List.mem_filterMap]
  constructor
  · rintro ⟨p, hp, hm⟩
    obtain ⟨k, ⟨old, new⟩⟩ := p
    cases old <;> cases new <;> simp at hm
    exact ⟨_, hp, _, _, rfl, hm⟩
  · rintro ⟨p, hp, o, n, e, rfl⟩
    exact ⟨p, hp, by rw [e]⟩

theorem mem_deletedHandles {t : Tables} {tx : DTx} {x : Handle} :
    x ∈ deletedHandles t tx ↔
      ∃ h ∈ toDelOf tx, x = h ∨ ∃ d ∈ subtreeBelow t (t.descrs.length + 1) h, d.handle = x := by
  simp only [deletedHandles, List.mem_flatMap, List.mem_append, List.mem_map, List.mem_singleton]
  constructor
  · rintro ⟨h, hh, hx | hx⟩
    · exact ⟨h, hh, .inr hx⟩
    · exact ⟨h, hh, .inl hx⟩
  · rintro ⟨h, hh, hx | hx⟩
    · exact ⟨h, hh, .inr hx⟩
    · exact ⟨h, hh, .inl hx⟩

theorem dStatic {t : Tables} (hw : WF t) {tx : DTx} (hi : DTxOK t tx) (hc : consistentD t tx = true) :
    DStatic t tx (deletedHandles t tx) := by
  -- the roots are descriptors of the table
  have hroot : ∀ h ∈ toDelOf tx, ∃ o ∈ t.descrs, o.handle = h := by
    intro h hh
    obtain ⟨p, hp, o, e, rfl⟩ := mem_toDelOf.1 hh
    have := hi.dOld p hp
    rw [e] at this
    exact ⟨o, (findD_some this.symm).2, rfl⟩
  have hcons := hc
  unfold consistentD at hcons
  simp only [List.all_eq_true] at hcons
  refine ⟨?_, ?_, ?_, ?_, ?_⟩
  · intro x hx
    obtain ⟨h, hh, rfl | ⟨d, hd, rfl⟩⟩ := mem_deletedHandles.1 hx
    · exact hroot x hh
    · exact ⟨d, subtreeBelow_sub t _ h d hd, rfl⟩
  · intro q hq d hd hpar
    obtain ⟨h, hh, hx⟩ := mem_deletedHandles.1 hq
    obtain ⟨o, ho, rfl⟩ := hroot h hh
    refine mem_deletedHandles.2 ⟨o.handle, hh, .inr ⟨d, ?_, rfl⟩⟩
    rcases hx with rfl | ⟨q', hq', rfl⟩
    · exact subtree_closed hw.dKeys _ (q := o) (.inl rfl) (mem_childrenOf.2 ⟨hd, hpar⟩)
    · exact subtree_closed hw.dKeys _ (q := q') (.inr hq') (mem_childrenOf.2 ⟨hd, hpar⟩)
  · intro p hp o e
    have := hi.dOld p hp
    rw [e] at this
    exact mem_deletedHandles.2 ⟨p.1, mem_toDelOf.2 ⟨p, hp, o, e, (findD_some this.symm).1⟩, .inl rfl⟩
  · intro p hp o n e
    have := hcons p hp
    rw [e] at this
    simpa using this
  · intro p hp n e q hq
    have := hcons p hp
    rw [e] at this
    simp only [Option.mem_def] at hq
    simp only [hq, Bool.or_eq_true, Bool.and_eq_true, Bool.not_eq_true', List.contains_eq_mem, decide_eq_true_eq,
      decide_eq_false_iff_not] at this
    rcases this with h1 | ⟨h2, h3⟩
    · obtain ⟨p', hp', m, e', em⟩ := mem_toCreateOf.1 h1
      left
      refine ⟨m, ?_⟩
      have := hi.dNew p' hp' m (by rw [e']; rfl)
      obtain ⟨k, it⟩ := p'
      simp only at e' this
      subst e'; rw [← em, this]; exact hp'
    · right
      refine ⟨by simpa using h2, ?_⟩
      cases hf : findD t q with
      | none => simp [hf] at h3
      | some d => exact ⟨d, (findD_some hf).2, (findD_some hf).1⟩

end Sdc.Mdib
