import SdcModel.PeriodicStore
/-! conservation for the periodic store: sent ++ held ++ stored is always exactly what was put, in order -/
namespace Sdc.PeriodicStore

def Inv (s : St) (h : List Nat) : Prop :=
  s.out ++ s.tmp ++ s.store = h ∧ s.pc < 2 ∧ (s.pc = 0 → s.tmp = [])

theorem puts_append (a b : List Ev) : puts (a ++ b) = puts a ++ puts b := by
  induction a with
  | nil => rfl
  | cons e r ih => cases e <;> simp [puts, ih]

theorem step_inv (s : St) (h : List Nat) (e : Ev) (hi : Inv s h) : Inv (step good s e) (h ++ puts [e]) := by
  obtain ⟨h1, h2, h3⟩ := hi
  cases e with
  | put x =>
    refine ⟨?_, h2, h3⟩
    simp only [step, puts]
    rw [← h1]; simp [List.append_assoc]
  | col =>
    have hp : s.pc = 0 ∨ s.pc = 1 := by omega
    rcases hp with hp | hp
    · have ht := h3 hp
      refine ⟨?_, ?_, ?_⟩
      · simp [step, good, hp, puts, doOp, ← h1, ht]
      · simp [step, good, hp]
      · simp [step, good, hp]
    · refine ⟨?_, ?_, ?_⟩
      · simp [step, good, hp, puts, doOp, ← h1, List.append_assoc]
      · simp [step, good, hp]
      · intro _; simp [step, good, hp, doOp]

theorem run_inv (evs : List Ev) (s : St) (h : List Nat) (hi : Inv s h) : Inv (run good s evs) (h ++ puts evs) := by
  induction evs generalizing s h with
  | nil => simpa [run, puts] using hi
  | cons e r ih =>
    have := ih (step good s e) (h ++ puts [e]) (step_inv s h e hi)
    simpa [run, List.append_assoc, ← puts_append] using this

theorem inv_init : Inv {} [] := by simp [Inv]

end Sdc.PeriodicStore

namespace Sdc.PeriodicStore

theorem run_append (p : List (List Op)) (s : St) (a b : List Ev) : run p s (a ++ b) = run p (run p s a) b := by
  simp [run, List.foldl_append]

/-- three more collector blocks without a put in between have sent everything -/
theorem flush (s : St) (h : List Nat) (hi : Inv s h) : (run good s [.col, .col, .col]).out = h := by
  obtain ⟨h1, h2, h3⟩ := hi
  have hp : s.pc = 0 ∨ s.pc = 1 := by omega
  rcases hp with hp | hp
  · have ht := h3 hp
    simp [run, step, good, hp, doOp, ← h1, ht]
  · simp [run, step, good, hp, doOp, ← h1, List.append_assoc]

end Sdc.PeriodicStore
