import SdcModel.Scalars
import SdcModel.Proofs.ScalarsDecLex
import SdcModel.Proofs.ScalarsDur
/-! lexical space accepted by `parse_duration` (core Lean only) -/
namespace Sdc.Scalars

/-- the SDPi duration pattern `PT(\d+H)?(\d+M)?(\d+(\.\d+)?S)?` with at least one component, as a grammar -/
def DurationLex (t : Str) : Prop :=
  ∃ (oh om : Option Str) (os : Option (Str × Str)),
    (∀ d, oh = some d → DigitsNE d) ∧ (∀ d, om = some d → DigitsNE d) ∧
    (∀ d f, os = some (d, f) → DigitsNE d ∧ ∀ c ∈ f, isDigit c = true) ∧
    (oh.isSome ∨ om.isSome ∨ os.isSome) ∧
    t = 80 :: 84 :: (renderH oh ++ (renderM om ++ renderS os))

theorem takeComp_some (t : Nat) (s d r : Str) (h : takeComp t s = some (d, r)) : s = d ++ t :: r ∧ DigitsNE d := by
  unfold takeComp at h
  dsimp only at h
  have hsplit := List.takeWhile_append_dropWhile (p := isDigit) (l := s)
  have htw := mem_takeWhile (p := isDigit) s
  cases hdw : s.dropWhile isDigit with
  | nil => rw [hdw] at h; cases h
  | cons c r' =>
    rw [hdw] at h hsplit
    simp only at h
    split at h
    · rename_i hc
      simp only [Option.some.injEq, Prod.mk.injEq] at h
      obtain ⟨h1, h2⟩ := h
      subst h1 h2
      refine ⟨by rw [← hc.1]; exact hsplit.symm, ?_, htw⟩
      intro h0; apply hc.2; rw [h0]; rfl
    · cases h

theorem takeSeconds_some (s d f r : Str) (h : takeSeconds s = some (d, f, r)) :
    s = d ++ (if f = [] then 83 :: r else 46 :: (f ++ 83 :: r)) ∧ DigitsNE d ∧ ∀ c ∈ f, isDigit c = true := by
  unfold takeSeconds at h
  dsimp only at h
  have hsplit := List.takeWhile_append_dropWhile (p := isDigit) (l := s)
  have htw := mem_takeWhile (p := isDigit) s
  split at h
  · cases h
  · rename_i hne
    have hne' : s.takeWhile isDigit ≠ [] := by intro h0; apply hne; rw [h0]; rfl
    cases hdw : s.dropWhile isDigit with
    | nil => rw [hdw] at h; cases h
    | cons c r' =>
      rw [hdw] at h hsplit
      simp only at h
      split at h
      · rename_i hc
        simp only [Option.some.injEq, Prod.mk.injEq] at h
        obtain ⟨h1, h2, h3⟩ := h
        subst h1 h2 h3 hc
        exact ⟨by simpa using hsplit.symm, ⟨hne', htw⟩, by intro c hc; cases hc⟩
      · split at h
        · rename_i hc46
          cases htc : takeComp 83 r' with
          | none => rw [htc] at h; cases h
          | some fr =>
            obtain ⟨f', rr⟩ := fr
            rw [htc] at h
            simp only [Option.some.injEq, Prod.mk.injEq] at h
            obtain ⟨h1, h2, h3⟩ := h
            subst h1 h2 h3 hc46
            obtain ⟨hr, hfne, hfd⟩ := takeComp_some 83 r' f' rr htc
            refine ⟨?_, ⟨hne', htw⟩, hfd⟩
            simp only [hfne, if_false]
            rw [← hr]; exact hsplit.symm
        · cases h

theorem durationBody_some (s r : Str) (h : durationBody s = some r) : dropNewline s = 80 :: 84 :: r := by
  unfold durationBody at h
  cases hd : dropNewline s with
  | nil => rw [hd] at h; cases h
  | cons p rest =>
    rw [hd] at h
    cases rest with
    | nil => cases h
    | cons t r' =>
      simp only at h
      split at h
      · rename_i hc
        injection h with h; subst h; rw [hc.1, hc.2]
      · cases h

def renderC (t : Nat) (o : Option Str) : Str := match o with | some d => d ++ [t] | none => []

theorem renderH_eq (o : Option Str) : renderH o = renderC 72 o := by cases o <;> rfl
theorem renderM_eq (o : Option Str) : renderM o = renderC 77 o := by cases o <;> rfl

theorem optComp_spec (t : Nat) (s : Str) :
    ∃ o, (optComp t s).1 = o ∧ (∀ d, o = some d → DigitsNE d) ∧
      s = renderC t o ++ (optComp t s).2 := by
  unfold optComp renderC
  cases h : takeComp t s with
  | none => exact ⟨none, rfl, (by intro d hd; cases hd), (by simp)⟩
  | some dr =>
    obtain ⟨d, r⟩ := dr
    obtain ⟨h1, h2⟩ := takeComp_some t s d r h
    exact ⟨some d, rfl, (by intro d' hd; injection hd with hd; subst hd; exact h2), (by simpa using h1)⟩

theorem optSeconds_spec (s : Str) :
    ∃ o, (optSeconds s).1 = o ∧ (∀ d f, o = some (d, f) → DigitsNE d ∧ ∀ c ∈ f, isDigit c = true) ∧
      s = renderS o ++ (optSeconds s).2 := by
  unfold optSeconds
  cases h : takeSeconds s with
  | none => exact ⟨none, rfl, (by intro d f hd; cases hd), (by simp [renderS])⟩
  | some dfr =>
    obtain ⟨d, f, r⟩ := dfr
    obtain ⟨h1, h2, h3⟩ := takeSeconds_some s d f r h
    refine ⟨some (d, f), rfl, ?_, ?_⟩
    · intro d' f' hd; injection hd with hd; injection hd with ha hb; subst ha hb; exact ⟨h2, h3⟩
    · simp only [renderS]
      rw [h1]
      by_cases hf : f = []
      · simp [hf]
      · simp [hf]

/-- what `parse_duration` accepts is in the lexical space … -/
theorem durationGroups_sound (s : Str) (g) (h : durationGroups s = some g) : DurationLex (dropNewline s) := by
  unfold durationGroups at h
  cases hb : durationBody s with
  | none => rw [hb] at h; cases h
  | some r =>
    rw [hb] at h
    simp only at h
    have hbody := durationBody_some s r hb
    obtain ⟨oh, e1, w1, s1⟩ := optComp_spec 72 r
    obtain ⟨om, e2, w2, s2⟩ := optComp_spec 77 (optComp 72 r).2
    obtain ⟨os, e3, w3, s3⟩ := optSeconds_spec (optComp 77 (optComp 72 r).2).2
    split at h
    · rename_i hc
      have hr3 : (optSeconds (optComp 77 (optComp 72 r).2).2).2 = [] := by
        cases hx : (optSeconds (optComp 77 (optComp 72 r).2).2).2 with
        | nil => rfl
        | cons _ _ => rw [hx] at hc; simp at hc
      rw [hr3, List.append_nil] at s3
      have hr : r = renderH oh ++ (renderM om ++ renderS os) := by
        rw [renderH_eq, renderM_eq, ← s3, ← s2]; exact s1
      refine ⟨oh, om, os, w1, w2, w3, ?_, by rw [hbody, hr]⟩
      -- something was matched because r is not empty
      by_cases hh : oh.isSome
      · exact Or.inl hh
      · by_cases hm : om.isSome
        · exact Or.inr (Or.inl hm)
        · right; right
          cases os with
          | some _ => rfl
          | none =>
            exfalso
            have h1 : oh = none := by cases oh with | none => rfl | some _ => simp at hh
            have h2 : om = none := by cases om with | none => rfl | some _ => simp at hm
            rw [h1, h2] at hr
            simp [renderH, renderM, renderS] at hr
            rw [hr] at hc; simp at hc
    · cases h

/-- … so anything outside is rejected with `ValueError` -/
theorem parseDurationUs_reject (s : Str) (h : ¬ DurationLex (dropNewline s)) : parseDurationUs s = .error .value := by
  unfold parseDurationUs
  cases hg : durationGroups s with
  | none => rfl
  | some g => exact absurd (durationGroups_sound s g hg) h

end Sdc.Scalars
