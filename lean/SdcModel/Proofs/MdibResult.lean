import SdcModel.Proofs.MdibHist
import SdcModel.Reports
/-!
# the TransactionResult of a state / context transaction is exactly what the commit wrote
-/
set_option linter.unusedSimpArgs false
namespace Sdc.Mdib

/-! ## state transactions -/

theorem applySItems_ups {t : Tables} {items : List (Handle × SItem)} (hi : SItemsOK t items) :
    (applySItems t items).2.1 = items.map (·.2.new) := by
  induction items generalizing t with
  | nil => rfl
  | cons p rest ih => obtain ⟨h, it⟩ := p; rw [applySItems_cons hi]; simp [ih hi.tail]

theorem sCall_kindEq {t : Tables} {tx tx' : STx} {c : SCall} (h : sCall t tx c = .ok tx') : tx'.kind = tx.kind := by
  cases c with
  | get h0 =>
    simp only [sCall] at h
    split at h; · cases h
    split at h; · cases h
    split at h; · cases h
    cases h; rfl
  | unget h0 => simp only [sCall, Except.ok.injEq] at h; cases h; rfl
  | setBody h0 b =>
    simp only [sCall] at h
    split at h; · cases h
    cases h; rfl
  | write h0 kind sv b multi =>
    simp only [sCall] at h
    split at h; · cases h
    split at h; · cases h
    split at h; · cases h
    cases h; rfl

theorem allS_putStates (k : Kind) (l : List SState) (hk : k ≠ .context) : (({} : TxResult).putStates k l).allS = l := by
  cases k <;> simp [TxResult.putStates, TxResult.allS] at hk ⊢

theorem allS_putStates_sub (k : Kind) (l : List SState) : ∀ x ∈ (({} : TxResult).putStates k l).allS, x ∈ l := by
  cases k <;> simp [TxResult.putStates, TxResult.allS]

/-- a committed state transaction: the items, the tables and the result -/
theorem runS_committed {t t' : Tables} {r : TxResult} (hw : WF t) {s : SScript} (h : runS t s = (t', r, .committed)) :
    ∃ items : List (Handle × SItem), SItemsOK { t with ver := t.ver + 1 } items ∧
      t' = (applySItems { t with ver := t.ver + 1 } items).1 ∧ r = ({} : TxResult).putStates s.kind (items.map (·.2.new)) ∧
      items ≠ [] := by
  unfold runS at h
  split at h
  · cases h
  · rename_i tx htx
    split at h
    · cases h
    · have hi := (sCalls_ok hw htx).of_ver (t.ver + 1)
      have hkind : tx.kind = s.kind :=
        runCalls_inv (fun tx : STx => tx.kind = s.kind) (fun _ _ _ hp hc => (sCall_kindEq hc).trans hp) _ _ _ _ rfl htx
      unfold commitS at h
      by_cases he : tx.items.isEmpty
      · simp [he] at h
      · simp only [he, Bool.false_eq_true, if_false] at h
        have hups := applySItems_ups hi
        generalize hres : applySItems { t with ver := t.ver + 1 } tx.items = res at h hups
        obtain ⟨t1, ups, e⟩ := res
        simp only at hups
        cases e with
        | some e => simp at h
        | none =>
          simp only [Prod.mk.injEq] at h
          refine ⟨tx.items, hi, by rw [hres]; exact h.1.symm, ?_, fun e => he (by simp [e])⟩
          rw [← h.2.1, hups, hkind]

theorem items_new_dh_nodup {t : Tables} {items : List (Handle × SItem)} (hi : SItemsOK t items) :
    ((items.map (·.2.new)).map (·.dh)).Nodup := by
  have : (items.map (·.2.new)).map (·.dh) = items.map (·.1) := by
    rw [List.map_map]; apply List.map_congr_left; intro p hp; exact hi.dh p hp
  rw [this]; exact hi.keys

theorem result_truthful_S {t t' : Tables} {r : TxResult} (hw : WF t) {s : SScript} (h : runS t s = (t', r, .committed)) :
    (∀ x ∈ r.allS, findS t' x.dh = some x) ∧ (r.allS.map (·.dh)).Nodup := by
  obtain ⟨items, hi, rfl, rfl, _⟩ := runS_committed hw h
  constructor
  · intro x hx
    have hx' := allS_putStates_sub _ _ x hx
    obtain ⟨p, hp, rfl⟩ := List.mem_map.1 hx'
    rw [applySItems_findS hi, hi.dh p hp, dictGet_of_mem_nodup hi.keys (show (p.1, p.2) ∈ items from hp)]
  · by_cases hk : s.kind = .context
    · rw [hk]; simp [TxResult.putStates, TxResult.allS]
    · rw [allS_putStates _ _ hk]; exact items_new_dh_nodup hi

theorem result_complete_S {t t' : Tables} {r : TxResult} (hw : WF t) {s : SScript} (hk : s.kind ≠ .context)
    (h : runS t s = (t', r, .committed)) (k : Handle) (hne : findS t' k ≠ findS t k) : ∃ x ∈ r.allS, x.dh = k := by
  obtain ⟨items, hi, rfl, rfl, _⟩ := runS_committed hw h
  rw [allS_putStates _ _ hk]
  rw [applySItems_findS hi] at hne
  cases hg : dictGet items k with
  | none => rw [hg] at hne; exact absurd rfl hne
  | some it =>
    have hm := dictGet_some_mem hg
    exact ⟨it.new, List.mem_map.2 ⟨_, hm, rfl⟩, hi.dh _ hm⟩

/-! ## context transactions -/

theorem applyCItems_ups {t : Tables} {items : List (Handle × CItem)} (hi : CItemsOK true t items) :
    (applyCItems t items).2.1 = items.filterMap (·.2.new) := by
  induction items generalizing t with
  | nil => rfl
  | cons p rest ih =>
    obtain ⟨h, it⟩ := p
    rw [applyCItems_cons (hi.h (h, it) (by simp)) (hi.exact (h, it) (by simp))]
    simp only [ih hi.tail, List.filterMap_cons]
    cases it.new <;> simp

theorem runC_committed {t t' : Tables} {r : TxResult} (hw : WF t) {s : CScript} (hf : FreshUuids t s)
    (h : runC t s = (t', r, .committed)) :
    ∃ items : List (Handle × CItem), CItemsOK true { t with ver := t.ver + 1 } items ∧
      t' = (applyCItems { t with ver := t.ver + 1 } items).1 ∧ r = { ctx := items.filterMap (·.2.new) } ∧ items ≠ [] := by
  unfold runC at h
  split at h
  · cases h
  · rename_i tx htx
    split at h
    · cases h
    · have hi := (cCalls_ok hw hf htx).of_ver (t.ver + 1)
      unfold commitC at h
      by_cases he : tx.items.isEmpty
      · simp [he] at h
      · simp only [he, Bool.false_eq_true, if_false] at h
        have hups := applyCItems_ups hi
        generalize hres : applyCItems { t with ver := t.ver + 1 } tx.items = res at h hups
        obtain ⟨t1, ups, e⟩ := res
        simp only at hups
        cases e with
        | some e => simp at h
        | none =>
          simp only [Prod.mk.injEq] at h
          refine ⟨tx.items, hi, by rw [hres]; exact h.1.symm, ?_, fun e => he (by simp [e])⟩
          rw [← h.2.1, hups]

theorem result_truthful_C {t t' : Tables} {r : TxResult} (hw : WF t) {s : CScript} (hf : FreshUuids t s)
    (h : runC t s = (t', r, .committed)) :
    (∀ x ∈ r.ctx, findC t' x.h = some x) ∧ (r.ctx.map (·.h)).Nodup ∧ r.allS = [] := by
  obtain ⟨items, hi, rfl, rfl, _⟩ := runC_committed hw hf h
  refine ⟨?_, ?_, rfl⟩
  · intro x hx
    simp only [List.mem_filterMap] at hx
    obtain ⟨p, hp, e⟩ := hx
    have hh := hi.h p hp x e
    rw [applyCItems_findC hi, hh, dictGet_of_mem_nodup hi.keys (show (p.1, p.2) ∈ items from hp)]
    exact e
  · have hsub : ∀ (l : List (Handle × CItem)), (∀ p ∈ l, ∀ n ∈ p.2.new, n.h = p.1) →
        ((l.filterMap (·.2.new)).map (·.h)).Sublist (l.map (·.1)) := by
      intro l
      induction l with
      | nil => intro _; simp
      | cons p rest ih =>
        intro hl
        have ih' := ih (fun q hq => hl q (by simp [hq]))
        simp only [List.filterMap_cons]
        cases hn : p.2.new with
        | none => simp only [List.map_cons]; exact ih'.cons _
        | some n =>
          simp only [List.map_cons]
          rw [hl p (by simp) n hn]
          exact ih'.cons_cons _
    exact (hsub items hi.h).nodup hi.keys

theorem result_complete_C {t t' : Tables} {r : TxResult} (hw : WF t) {s : CScript} (hf : FreshUuids t s)
    (h : runC t s = (t', r, .committed)) (k : Handle) (hne : findC t' k ≠ findC t k) :
    (∃ x ∈ r.ctx, x.h = k) ∨ findC t' k = none := by
  obtain ⟨items, hi, rfl, rfl, _⟩ := runC_committed hw hf h
  rw [applyCItems_findC hi] at hne ⊢
  cases hg : dictGet items k with
  | none => rw [hg] at hne; exact absurd rfl hne
  | some it =>
    have hm := dictGet_some_mem hg
    simp only
    cases hn : it.new with
    | none => exact .inr rfl
    | some n =>
      left
      exact ⟨n, List.mem_filterMap.2 ⟨_, hm, hn⟩, hi.h _ hm n hn⟩

end Sdc.Mdib
