import SdcModel.UdpRepeat
/-! helper lemmas for C15 (schedule shape, bounded id window) -/
namespace Sdc.UdpRepeat

/-- gap number `i` of a list of send times -/
def gap (ts : List Nat) (i : Nat) : Option Nat :=
  match ts[i]?, ts[i+1]? with
  | some a, some b => some (b - a)
  | _, _ => none

theorem times_length (t : Nat) (gs : List Nat) : (times t gs).length = gs.length + 1 := by
  induction gs generalizing t with
  | nil => rfl
  | cons g gs ih => simp [times, ih]

theorem gaps_length (u d n : Nat) : (gaps u d n).length = n := by
  induction n generalizing d with
  | zero => rfl
  | succ n ih => simp [gaps, ih]

theorem times_head (t : Nat) (gs : List Nat) : (times t gs)[0]? = some t := by
  cases gs <;> simp [times]

theorem times_sorted_get (t : Nat) (gs : List Nat) (i : Nat) (g : Nat) (h : gs[i]? = some g) :
    gap (times t gs) i = some g := by
  induction gs generalizing t i with
  | nil => simp at h
  | cons g' gs ih =>
    cases i with
    | zero =>
      simp at h; subst h
      simp [gap, times, times_head]
    | succ i =>
      simp at h
      have := ih (t + g') i h
      simpa [gap, times] using this

theorem gaps_get_zero (u d n : Nat) (h : 0 < n) : (gaps u d n)[0]? = some d := by
  cases n with
  | zero => omega
  | succ n => simp [gaps]

theorem gaps_get_succ (u d n i g : Nat) (h : (gaps u d n)[i]? = some g) (hi : i + 1 < n) :
    (gaps u d n)[i+1]? = some (min (2 * g) u) := by
  induction n generalizing d i with
  | zero => omega
  | succ n ih =>
    cases i with
    | zero =>
      simp [gaps] at h; subst h
      have : 0 < n := by omega
      simpa [gaps] using gaps_get_zero u _ n this
    | succ i =>
      simp only [gaps, List.getElem?_cons_succ] at h ⊢
      exact ih _ i h (by omega)

theorem mem_take_push (maxlen k : Nat) (id x : String) (l : List String)
    (h : id ∈ l.take k) (hk : k + 1 ≤ maxlen) : id ∈ (push maxlen x l).take (k + 1) := by
  unfold push
  rw [List.take_take]
  have : min (k + 1) maxlen = k + 1 := by omega
  rw [this, List.take_succ_cons]
  exact List.mem_cons_of_mem _ h

theorem mem_take_succ (id : String) (l : List String) (k : Nat) (h : id ∈ l.take k) : id ∈ l.take (k + 1) := by
  induction l generalizing k with
  | nil => simp at h
  | cons x xs ih =>
    cases k with
    | zero => simp at h
    | succ k =>
      rw [List.take_succ_cons] at h ⊢
      rcases List.mem_cons.mp h with h | h
      · exact List.mem_cons.mpr (Or.inl h)
      · exact List.mem_cons_of_mem _ (ih k h)

theorem step_keeps (maxlen k : Nat) (id : String) (known : List String) (e : Ev)
    (h : id ∈ known.take k) (hk : k + 1 ≤ maxlen) : id ∈ ((step maxlen known e).1).take (k + 1) := by
  cases e with
  | out x => exact mem_take_push maxlen k id x known h hk
  | recv x =>
    simp only [step]
    split
    · exact mem_take_succ id known k h
    · exact mem_take_push maxlen k id x known h hk

theorem run_keeps (maxlen : Nat) (id : String) (evs : List Ev) (known : List String) (k : Nat)
    (h : id ∈ known.take k) (hk : k + evs.length ≤ maxlen) : id ∈ run maxlen known evs := by
  induction evs generalizing known k with
  | nil => exact List.mem_of_mem_take h
  | cons e es ih =>
    simp only [run]
    have hk' : k + 1 ≤ maxlen := by simp at hk; omega
    exact ih _ (k + 1) (step_keeps maxlen k id known e h hk') (by simp at hk; omega)

end Sdc.UdpRepeat
