import SdcModel.Location
/-! helper lemmas for Properties/C16.lean (core Lean only) -/
namespace Sdc.Location
open Sdc.Percent Sdc.Url

/-- bytes that can occur in the scope strings the library builds -/
def urlSafe (b : Nat) : Bool := quoted b || b == 43 || b == 61 || b == 38 || b == 47

theorem urlSafe_of_quoted {b : Nat} (h : quoted b = true) : urlSafe b = true := by simp [urlSafe, h]

theorem quoted_facts {b : Nat} (h : quoted b = true) :
    32 < b ∧ b < 128 ∧ b ≠ 9 ∧ b ≠ 10 ∧ b ≠ 13 ∧ b ≠ 35 ∧ b ≠ 63 ∧ b ≠ 58 ∧ b ≠ 47 ∧ b ≠ 38 ∧ b ≠ 61 ∧ b ≠ 43 := by
  simp only [quoted, Bool.or_eq_true, beq_iff_eq, unreserved_iff] at h
  omega

theorem urlSafe_facts {b : Nat} (h : urlSafe b = true) :
    32 < b ∧ b < 128 ∧ b ≠ 9 ∧ b ≠ 10 ∧ b ≠ 13 ∧ b ≠ 35 ∧ b ≠ 63 ∧ b ≠ 58 := by
  simp only [urlSafe, quoted, Bool.or_eq_true, beq_iff_eq, unreserved_iff] at h
  omega

theorem not_mem_of_safe {bs : Bytes} {d : Nat} (h : ∀ b ∈ bs, urlSafe b = true) (hd : urlSafe d = false) : d ∉ bs :=
  fun hm => by have := h d hm; simp [hd] at this

theorem cleanUrl_plain (c : Nat) (bs : Bytes) (h : ∀ b ∈ c :: bs, 32 < b) : cleanUrl (c :: bs) = c :: bs := by
  have hc := h c (List.mem_cons_self ..)
  unfold cleanUrl
  rw [List.dropWhile_cons]
  have : decide (c ≤ 32) = false := by simp; omega
  simp only [this]
  apply List.filter_eq_self.mpr
  intro b hb
  have := h b hb
  simp only [Bool.not_eq_true', Bool.or_eq_false_iff, beq_eq_false_iff_ne]
  omega

theorem scheme_safe : ∀ b ∈ scheme, urlSafe b = true := by decide

theorem splitFirst_opt {d : Nat} {a : Bytes} (q : Bytes) (ha : d ∉ a) :
    (match splitFirst d (a ++ if q = [] then [] else d :: q) with
      | some (x, y) => (x, y)
      | none => (a ++ if q = [] then [] else d :: q, [])) = (a, q) := by
  by_cases hq : q = []
  · subst hq
    simp [splitFirst_none ha]
  · simp only [hq, if_false, splitFirst_append _ ha]

theorem splitScheme_of (c : Nat) (t post : Bytes) (h58 : 58 ∉ c :: t)
    (ha : (isAlpha c && (c :: t).all isSchemeChar) = true) :
    splitScheme ((c :: t) ++ 58 :: post) = (lower (c :: t), post) := by
  unfold splitScheme
  rw [splitFirst_append _ h58]
  simp only [ha, if_true]

/-- `urlsplit` of a string the library assembled itself: no netloc, no fragment, path and query come back -/
theorem urlsplit_unparse (chk : Bytes → Bool) (c : Nat) (rest query : Bytes) (hc : c ≠ 47)
    (hp : ∀ b ∈ 47 :: c :: rest, urlSafe b = true) (hq : ∀ b ∈ query, urlSafe b = true) :
    urlsplit chk (unparse scheme (47 :: c :: rest) query) = some ⟨scheme, [], 47 :: c :: rest, query, []⟩ := by
  have hall : ∀ b ∈ unparse scheme (47 :: c :: rest) query, 32 < b := by
    intro b hb
    unfold unparse at hb
    simp only [List.mem_append, List.mem_cons] at hb
    rcases hb with hb | rfl | hb
    · exact (urlSafe_facts (scheme_safe b hb)).1
    · omega
    · rcases hb with hb | hb
      · exact (urlSafe_facts (hp b (by simpa using hb))).1
      · by_cases hq0 : query = []
        · simp [hq0] at hb
        · simp only [hq0, if_false, List.mem_cons] at hb
          rcases hb with rfl | hb
          · omega
          · exact (urlSafe_facts (hq b hb)).1
  have h58 : (58 : Nat) ∉ scheme := by decide
  have h35p : (35 : Nat) ∉ 47 :: c :: rest := not_mem_of_safe hp (by decide)
  have h63p : (63 : Nat) ∉ 47 :: c :: rest := not_mem_of_safe hp (by decide)
  have h35q : (35 : Nat) ∉ query := not_mem_of_safe hq (by decide)
  have hclean : cleanUrl (unparse scheme (47 :: c :: rest) query) = unparse scheme (47 :: c :: rest) query := by
    have : unparse scheme (47 :: c :: rest) query = 115 :: (unparse scheme (47 :: c :: rest) query).tail := by
      simp [unparse, scheme]
    rw [this]; rw [this] at hall
    exact cleanUrl_plain _ _ hall
  have hscheme : splitScheme (unparse scheme (47 :: c :: rest) query)
      = (scheme, 47 :: c :: rest ++ if query = [] then [] else 63 :: query) := by
    unfold unparse
    have e2 : lower scheme = scheme := by decide
    have := splitScheme_of 115 scheme.tail (47 :: c :: rest ++ if query = [] then [] else 63 :: query)
      (by decide) (by decide)
    rw [show (115 :: scheme.tail) = scheme from rfl] at this
    rw [e2] at this
    exact this
  have hnet : splitNetloc (47 :: c :: rest ++ if query = [] then [] else 63 :: query)
      = ([], 47 :: c :: rest ++ if query = [] then [] else 63 :: query) := by
    simp [splitNetloc, hc]
  unfold urlsplit
  simp only [hclean, hscheme, hnet]
  have hok : netlocOk chk [] = true := by simp [netlocOk]
  simp only [hok, if_true]
  have hfrag : splitFirst 35 (47 :: c :: rest ++ if query = [] then [] else 63 :: query) = none := by
    apply splitFirst_none
    by_cases hq0 : query = []
    · simpa [hq0] using h35p
    · simp only [hq0, if_false, List.mem_append, List.mem_cons, not_or]
      simp only [List.mem_cons, not_or] at h35p
      exact ⟨⟨h35p.1, h35p.2.1, h35p.2.2⟩, by omega, h35q⟩
  simp only [hfrag]
  by_cases hq0 : query = []
  · subst hq0
    simp only [if_true, List.append_nil, splitFirst_none h63p]
  · simp only [hq0, if_false, splitFirst_append _ h63p]
/-! ### validity of the parts of a location -/

theorem optValid_getD {o : Option Bytes} (h : optValid o = true) : Utf8.valid (o.getD []) = true := by
  cases o with
  | none => rfl
  | some v => exact h

theorem valid_parts {l : Loc} (h : l.valid = true) :
    Utf8.valid l.root = true ∧ optValid l.fac = true ∧ optValid l.bldng = true ∧ optValid l.flr = true ∧
      optValid l.poc = true ∧ optValid l.rm = true ∧ optValid l.bed = true := by
  simp only [Loc.valid, Bool.and_eq_true] at h
  exact ⟨h.1.1.1.1.1.1, h.1.1.1.1.1.2, h.1.1.1.1.2, h.1.1.1.2, h.1.1.2, h.1.2, h.2⟩

theorem elems_valid {l : Loc} (h : l.valid = true) : ∀ e ∈ l.elems, Utf8.valid e.1 = true ∧ optValid e.2 = true := by
  have ⟨_, h1, h2, h3, h4, h5, h6⟩ := valid_parts h
  intro e he
  simp only [Loc.elems, List.mem_cons, List.not_mem_nil, or_false] at he
  rcases he with rfl | rfl | rfl | rfl | rfl | rfl
  · exact ⟨show Utf8.valid kFac = true by decide, h1⟩
  · exact ⟨show Utf8.valid kBldng = true by decide, h2⟩
  · exact ⟨show Utf8.valid kFlr = true by decide, h3⟩
  · exact ⟨show Utf8.valid kPoc = true by decide, h4⟩
  · exact ⟨show Utf8.valid kRm = true by decide, h5⟩
  · exact ⟨show Utf8.valid kBed = true by decide, h6⟩

theorem present_valid {es : List (Bytes × Option Bytes)}
    (h : ∀ e ∈ es, Utf8.valid e.1 = true ∧ optValid e.2 = true) : PairsValid (present es) := by
  intro p hp
  simp only [present, List.mem_filterMap] at hp
  obtain ⟨e, he, hpe⟩ := hp
  have := h e he
  cases hv : e.2 with
  | none => simp [hv] at hpe
  | some v =>
    simp only [hv, Option.map_some, Option.some.injEq] at hpe
    subst hpe
    rw [hv] at this
    exact ⟨this.1, this.2⟩

/-! ### bytes of the assembled strings -/

theorem quoted_elems_safe {l : Loc} (h : l.valid = true) :
    ∀ x ∈ l.elems.map (fun e => quote (e.2.getD [])), ∀ b ∈ x, quoted b = true := by
  intro x hx b hb
  obtain ⟨e, he, rfl⟩ := List.mem_map.mp hx
  exact quote_quoted _ (Utf8.lt_of_valid (optValid_getD (elems_valid h e he).2)) b hb

theorem join_quoted {sep : Bytes} {xs : List Bytes} (hs : ∀ b ∈ sep, quoted b = true)
    (hx : ∀ x ∈ xs, ∀ b ∈ x, quoted b = true) : ∀ b ∈ join sep xs, quoted b = true := by
  intro b hb
  rcases mem_join hb with h | ⟨x, hxm, hbx⟩
  · exact hs b h
  · exact hx x hxm b hbx

theorem urlencode_safe {q : Bytes → Bytes} (hq : ∀ bs, Utf8.valid bs = true → ∀ b ∈ q bs, quoted b = true ∨ b = 43)
    {ps : List (Bytes × Bytes)} (hv : PairsValid ps) : ∀ b ∈ urlencode q ps, urlSafe b = true := by
  intro b hb
  unfold urlencode at hb
  have safe_of : ∀ c, (quoted c = true ∨ c = 43) → urlSafe c = true := by
    intro c hc
    rcases hc with hc | rfl
    · exact urlSafe_of_quoted hc
    · decide
  rcases mem_join hb with h | ⟨x, hxm, hbx⟩
  · simp only [List.mem_cons, List.not_mem_nil, or_false] at h; subst h; decide
  · obtain ⟨p, hp, rfl⟩ := List.mem_map.mp hxm
    have := hv p hp
    simp only [List.mem_append, List.mem_cons] at hbx
    rcases hbx with h | rfl | h
    · exact safe_of _ (hq _ this.1 b h)
    · decide
    · exact safe_of _ (hq _ this.2 b h)

theorem quote_bytes' (bs : Bytes) (h : Utf8.valid bs = true) : ∀ b ∈ quote bs, quoted b = true ∨ b = 43 :=
  fun b hb => Or.inl (quote_quoted bs (Utf8.lt_of_valid h) b hb)

theorem quotePlus_bytes' (bs : Bytes) (h : Utf8.valid bs = true) : ∀ b ∈ quotePlus bs, quoted b = true ∨ b = 43 :=
  quotePlus_bytes bs (Utf8.lt_of_valid h)

/-- a path `/<q1>/<q2>` whose two segments consist of quoted bytes, the first one non-empty -/
theorem path_shape (q1 q2 : Bytes) (h1 : q1 ≠ []) (hq1 : ∀ b ∈ q1, quoted b = true) (hq2 : ∀ b ∈ q2, quoted b = true) :
    (∃ c rest, 47 :: (q1 ++ (47 :: q2)) = 47 :: c :: rest ∧ c ≠ 47) ∧
      (∀ b ∈ 47 :: (q1 ++ (47 :: q2)), urlSafe b = true) ∧
      splitOn 47 (47 :: (q1 ++ (47 :: q2))) = [[], q1, q2] := by
  have n1 : (47 : Nat) ∉ q1 := fun hm => quoted_ne (hq1 47 hm) (by decide) rfl
  have n2 : (47 : Nat) ∉ q2 := fun hm => quoted_ne (hq2 47 hm) (by decide) rfl
  refine ⟨?_, ?_, ?_⟩
  · cases q1 with
    | nil => exact absurd rfl h1
    | cons c t =>
      refine ⟨c, t ++ (47 :: q2), rfl, ?_⟩
      exact (quoted_facts (hq1 c (List.mem_cons_self ..))).2.2.2.2.2.2.2.2.1
  · intro b hb
    simp only [List.mem_cons, List.mem_append] at hb
    rcases hb with rfl | hb | rfl | hb
    · decide
    · exact urlSafe_of_quoted (hq1 b hb)
    · decide
    · exact urlSafe_of_quoted (hq2 b hb)
  · have : splitOn 47 (47 :: (q1 ++ (47 :: q2))) = [] :: splitOn 47 (q1 ++ (47 :: q2)) := by simp [splitOn]
    rw [this, splitOn_append _ n1, splitOn_of_not_mem n2]

/-- `dict(present elements).get(k)` gives back every element: the six keys are distinct -/
theorem ofLookup_present (r : Bytes) (l : Loc) :
    ofLookup r (dictGet (present l.elems)) = { l with root := r } := by
  rcases l with ⟨root, _ | a, _ | b, _ | c, _ | d, _ | e, _ | f⟩ <;>
    simp [ofLookup, dictGet, present, Loc.elems, kFac, kBldng, kFlr, kPoc, kRm, kBed]

/-- parsing a scope assembled from a root segment, an arbitrary quoted second segment and the query of `l` -/
theorem parse_assembled (chk : Bytes → Bool) (q : Bytes → Bytes) (hqok : QuoteOk q) (hq0 : ∀ bs, q bs = [] → bs = [])
    (hqb : ∀ bs, Utf8.valid bs = true → ∀ b ∈ q bs, quoted b = true ∨ b = 43)
    (root q2 : Bytes) (l : Loc) (hv : l.valid = true) (hroot : Utf8.valid root = true) (hne : root ≠ [])
    (hq2 : ∀ b ∈ q2, quoted b = true) :
    fromScopeString chk (unparse scheme (47 :: (quote root ++ (47 :: q2))) (urlencode q (present l.elems)))
      = .ok { l with root := root } := by
  have hpv := present_valid (elems_valid hv)
  have hq1 : ∀ b ∈ quote root, quoted b = true := quote_quoted root (Utf8.lt_of_valid hroot)
  have hq1ne : quote root ≠ [] := fun e => hne (quote_eq_nil e)
  obtain ⟨⟨c, rest, hshape, hc⟩, hsafe, hsplit⟩ := path_shape (quote root) q2 hq1ne hq1 hq2
  have hquery := urlencode_safe hqb hpv
  unfold fromScopeString
  rw [hshape] at hsafe hsplit ⊢
  rw [urlsplit_unparse chk c rest _ hc hsafe hquery]
  have e2 : lower scheme = scheme := by decide
  simp only [e2, ne_eq, not_true_eq_false, if_false, hsplit]
  rw [parseQsl_urlencode hqok hq0 true _ hpv (Or.inl rfl), unquoteStr_quote hroot, ofLookup_present]

/-! ### containment -/

theorem elemOk_iff (mine other : Option Bytes) : elemOk mine other = true ↔ (mine = none ∨ mine = other) := by
  cases mine with
  | none => simp [elemOk]
  | some v =>
    simp only [elemOk, beq_iff_eq, reduceCtorEq, false_or]
    exact ⟨fun h => h.symm, fun h => h.symm⟩

/-- `enc` encloses `l`: same root, and every element `enc` specifies has the same value in `l` -/
def Encloses (enc l : Loc) : Prop :=
  enc.root = l.root ∧ (enc.fac = none ∨ enc.fac = l.fac) ∧ (enc.bldng = none ∨ enc.bldng = l.bldng) ∧
    (enc.flr = none ∨ enc.flr = l.flr) ∧ (enc.poc = none ∨ enc.poc = l.poc) ∧ (enc.rm = none ∨ enc.rm = l.rm) ∧
    (enc.bed = none ∨ enc.bed = l.bed)

theorem contains_iff (self other : Loc) : contains self other = true ↔ Encloses self other := by
  simp only [contains, Bool.and_eq_true, beq_iff_eq, elemOk_iff, Encloses, and_assoc]

/-! ### the extension segment of the published scope -/

theorem join6 (a b c d e f : Bytes) :
    join [47] [a, b, c, d, e, f] = a ++ 47 :: (b ++ 47 :: (c ++ 47 :: (d ++ 47 :: (e ++ 47 :: f)))) := by
  simp [join]

theorem quote_getD_eq_nil {o : Option Bytes} : quote (o.getD []) = [] ↔ (o = none ∨ o = some []) := by
  constructor
  · intro h
    have := quote_eq_nil h
    cases o with
    | none => exact Or.inl rfl
    | some v => exact Or.inr (by simpa using this)
  · rintro (rfl | rfl) <;> rfl

/-- all elements absent or empty (then `_loc_extension_segment` raises) -/
def AllEmpty (l : Loc) : Prop :=
  (l.fac = none ∨ l.fac = some []) ∧ (l.bldng = none ∨ l.bldng = some []) ∧ (l.flr = none ∨ l.flr = some []) ∧
    (l.poc = none ∨ l.poc = some []) ∧ (l.rm = none ∨ l.rm = some []) ∧ (l.bed = none ∨ l.bed = some [])

theorem ext_eq_slashes_iff {l : Loc} (h : l.valid = true) :
    join [47] (l.elems.map fun e => quote (e.2.getD [])) = [47, 47, 47, 47, 47] ↔ AllEmpty l := by
  have hs := quoted_elems_safe h
  have n47 : ∀ x ∈ l.elems.map (fun e => quote (e.2.getD [])), (47 : Nat) ∉ x :=
    fun x hx hm => quoted_ne (hs x hx 47 hm) (by decide) rfl
  constructor
  · intro e
    simp only [Loc.elems, List.map_cons, List.map_nil] at e n47
    have h1 := splitOn_join (d := 47) _ _ n47
    rw [e] at h1
    have h2 : splitOn 47 [47, 47, 47, 47, 47] = [[], [], [], [], [], []] := by decide
    rw [h2] at h1
    simp only [List.cons.injEq, and_true] at h1
    obtain ⟨e1, e2, e3, e4, e5, e6⟩ := h1
    exact ⟨quote_getD_eq_nil.mp e1.symm, quote_getD_eq_nil.mp e2.symm, quote_getD_eq_nil.mp e3.symm,
      quote_getD_eq_nil.mp e4.symm, quote_getD_eq_nil.mp e5.symm, quote_getD_eq_nil.mp e6.symm⟩
  · rintro ⟨h1, h2, h3, h4, h5, h6⟩
    simp only [Loc.elems, List.map_cons, List.map_nil, quote_getD_eq_nil.mpr h1, quote_getD_eq_nil.mpr h2,
      quote_getD_eq_nil.mpr h3, quote_getD_eq_nil.mpr h4, quote_getD_eq_nil.mpr h5, quote_getD_eq_nil.mpr h6]
    decide

theorem ext_ne_nil (l : Loc) : join [47] (l.elems.map fun e => quote (e.2.getD [])) ≠ [] := by
  simp only [Loc.elems, List.map_cons, List.map_nil, join6]
  simp

theorem ext_lt {l : Loc} (h : l.valid = true) :
    ∀ b ∈ join [47] (l.elems.map fun e => quote (e.2.getD [])), b < 256 := by
  intro b hb
  rcases mem_join hb with h' | ⟨x, hx, hbx⟩
  · simp only [List.mem_cons, List.not_mem_nil, or_false] at h'; omega
  · have := (quoted_facts (quoted_elems_safe h x hx b hbx)).2.1; omega

theorem contextScope_eq (root ext query : Bytes) (he : ext ≠ []) :
    contextScope scheme root ext query = unparse scheme (47 :: (quote root ++ (47 :: quote ext))) query := by
  simp [contextScope, unparse, he]

end Sdc.Location
