import SdcModel.Http
/-! helper lemmas for Properties/C17.lean (and the reader termination used by C13). Core Lean only. -/
namespace Sdc.Http
open Sdc.ChunkHex

/-! ## `_read_until` -/

theorem readUntil_hdr (hdr rest acc : Bytes) (f : Nat)
    (hh : ∀ b ∈ hdr, b ≠ 10) (ha : ∀ b ∈ acc, b ≠ 10) (hf : hdr.length + 2 ≤ f) :
    readUntil f acc (hdr ++ CRLF ++ rest) = some (acc.reverse ++ hdr, rest) := by
  induction hdr generalizing acc f with
  | nil =>
    cases f with
    | zero => simp at hf
    | succ f =>
      cases f with
      | zero => simp at hf
      | succ f =>
        simp only [List.nil_append, CRLF, List.cons_append, readUntil]
        simp
  | cons h hdr ih =>
    cases f with
    | zero => simp at hf
    | succ f =>
      have hne : h ≠ 10 := hh h (List.mem_cons_self ..)
      simp only [List.cons_append, readUntil]
      split
      · rename_i heq; injection heq with h1 _; exact absurd h1 hne
      · rw [ih (h :: acc) f (fun b hb => hh b (List.mem_cons_of_mem _ hb))
            (by intro b hb; simp only [List.mem_cons] at hb; rcases hb with e | e; · subst e; exact hne
                exact ha b e)
            (by simp at hf; omega)]
        simp

/-- every successful `_read_until` consumed at least one byte -/
theorem readUntil_consumes (f : Nat) (acc s hdr rest : Bytes) (h : readUntil f acc s = some (hdr, rest)) :
    rest.length < s.length := by
  induction f generalizing acc s with
  | zero => simp [readUntil] at h
  | succ f ih =>
    cases s with
    | nil => simp [readUntil] at h
    | cons b s =>
      simp only [readUntil] at h
      split at h
      · injection h with h; injection h with _ h2; subst h2; simp
      · have := ih _ _ h; simp only [List.length_cons]; omega

/-! ## one chunk -/

theorem takeWhile_semicolon_lower (l : Bytes) (hl : ∀ b ∈ l, IsLowerHex b) : l.takeWhile (· != 59) = l := by
  induction l with
  | nil => rfl
  | cons b r ih =>
    have hb := hl b (List.mem_cons_self ..)
    have : (b != 59) = true := by unfold IsLowerHex at hb; simp; omega
    simp only [List.takeWhile_cons, this, if_true]
    rw [ih (fun x hx => hl x (List.mem_cons_of_mem _ hx))]

theorem lower_no_lf (l : Bytes) (hl : ∀ b ∈ l, IsLowerHex b) : ∀ b ∈ l, b ≠ 10 := by
  intro b hb; have := hl b hb; unfold IsLowerHex at this; omega

/-- the reader takes one chunk written by `mk_chunks` off the stream -/
theorem readChunk_written (w : Nat) (dat tail : Bytes) (hw : (toHexBytes dat.length).length + 2 ≤ w) :
    readChunk w (toHexBytes dat.length ++ CRLF ++ dat ++ CRLF ++ tail) = .ok (dat, tail, dat.length == 0) := by
  have hl := toHexBytes_lower dat.length
  have hru : readUntil w [] (toHexBytes dat.length ++ CRLF ++ dat ++ CRLF ++ tail)
      = some (toHexBytes dat.length, dat ++ CRLF ++ tail) := by
    have := readUntil_hdr (toHexBytes dat.length) (dat ++ CRLF ++ tail) [] w
      (lower_no_lf _ hl) (by intro b hb; cases hb) hw
    simpa [List.append_assoc] using this
  unfold readChunk
  rw [hru]
  simp only [takeWhile_semicolon_lower _ hl, pyIntHex_toHexBytes]
  have h0 : ¬ ((dat.length : Int) < 0) := by omega
  have hlen : ¬ ((dat ++ CRLF ++ tail).length < dat.length) := by simp
  have hdrop : (dat ++ CRLF ++ tail).drop dat.length = CRLF ++ tail := by
    rw [List.append_assoc, List.drop_left]
  have htake : (dat ++ CRLF ++ tail).take dat.length = dat := by
    rw [List.append_assoc, List.take_left]
  simp only [h0, if_false, Int.toNat_natCast, hlen, hdrop, htake]
  simp [CRLF]

theorem readChunk_consumes (w : Nat) (s dat rest : Bytes) (l : Bool) (h : readChunk w s = .ok (dat, rest, l)) :
    rest.length < s.length := by
  unfold readChunk at h
  split at h
  · cases h
  · rename_i hdr r hru
    have hc := readUntil_consumes _ _ _ _ _ hru
    split at h
    · cases h
    · split at h
      · cases h
      · split at h
        · cases h
        · split at h
          · cases h
          · injection h with h
            injection h with _ h
            injection h with h _
            subst h
            simp only [List.length_drop]; omega

theorem readChunk_err (w : Nat) (s : Bytes) (e : Err) (h : readChunk w s = .error e) : e = .dechunk := by
  unfold readChunk at h
  repeat' split at h
  all_goals first | (injection h with h; exact h.symm) | cases h

/-! ## the loop -/

theorem dechunkF_mono (w f g : Nat) (s : Bytes) (r : Bytes × Bytes) (h : dechunkF w f s = .ok r) (hfg : f ≤ g) :
    dechunkF w g s = .ok r := by
  induction f generalizing g s r with
  | zero => simp [dechunkF] at h
  | succ f ih =>
    cases g with
    | zero => omega
    | succ g =>
      simp only [dechunkF] at h ⊢
      split at h
      · cases h
      · rename_i dat rest last hrc
        split at h
        · rename_i hl; simpa [hl] using h
        · rename_i hl
          simp only [hl]
          split at h
          · rename_i more r' hrec
            rw [ih g rest _ hrec (by omega)]
            exact h
          · cases h

theorem dechunkF_err (w f : Nat) (s : Bytes) (e : Err) (h : dechunkF w f s = .error e) : e = .dechunk ∨ e = .fuel := by
  induction f generalizing s e with
  | zero => simp [dechunkF] at h; exact Or.inr h.symm
  | succ f ih =>
    simp only [dechunkF] at h
    split at h
    · rename_i e' hrc
      injection h with h; subst h
      exact Or.inl (readChunk_err _ _ _ hrc)
    · split at h
      · cases h
      · split at h
        · cases h
        · rename_i e' hrec
          injection h with h; subst h
          exact ih _ _ hrec

/-- the loop bound `stream length + 1` is never exhausted: every pass consumes at least the CRLF of its size line -/
theorem dechunkF_no_fuel (w f : Nat) (s : Bytes) (hf : s.length < f) : dechunkF w f s ≠ .error .fuel := by
  induction f generalizing s with
  | zero => omega
  | succ f ih =>
    intro h
    simp only [dechunkF] at h
    split at h
    · rename_i e' hrc
      injection h with h; subst h
      have := readChunk_err _ _ _ hrc
      cases this
    · rename_i dat rest last hrc
      have hc := readChunk_consumes _ _ _ _ _ hrc
      split at h
      · cases h
      · split at h
        · cases h
        · rename_i e' hrec
          injection h with h; subst h
          exact ih rest (by omega) hrec

/-- reading back what the writer produced, with any pipelined data behind it -/
theorem dechunkF_mkChunksF (w n : Nat) (hn : 1 ≤ n) (hw : 2 ≤ w) (hn' : n < 16 ^ (w - 2)) (f : Nat) (body tail : Bytes)
    (hf : body.length < f) : dechunkF w f (mkChunksF n f body ++ tail) = .ok (body, tail) := by
  induction f generalizing body with
  | zero => omega
  | succ f ih =>
    have hlen_take : (body.take n).length ≤ n := by simp [List.length_take]; omega
    have hk : (body.take n).length < 16 ^ (w - 2) := by omega
    have hwin : (toHexBytes (body.take n).length).length + 2 ≤ w := by
      have hpos : 0 < w - 2 := by
        rcases Nat.eq_zero_or_pos (w - 2) with h0 | h0
        · rw [h0] at hn'; simp at hn'; omega
        · exact h0
      have := toHexBytes_length _ (w - 2) hpos hk
      omega
    simp only [mkChunksF, dechunkF]
    have hshape : toHexBytes (body.take n).length ++ CRLF ++ body.take n ++ CRLF ++
          (if (body.take n).isEmpty then [] else mkChunksF n f (body.drop n)) ++ tail
        = toHexBytes (body.take n).length ++ CRLF ++ body.take n ++ CRLF ++
          ((if (body.take n).isEmpty then [] else mkChunksF n f (body.drop n)) ++ tail) := by
      simp [List.append_assoc]
    rw [hshape, readChunk_written w _ _ hwin]
    simp only
    by_cases he : (body.take n).length = 0
    · have hb : body = [] := by
        cases body with
        | nil => rfl
        | cons a l => cases n with
          | zero => omega
          | succ n => simp at he
      subst hb; simp
    · have hne : (body.take n).isEmpty = false := by
        cases hbt : body.take n with
        | nil => simp [hbt] at he
        | cons a l => rfl
      have hb0 : ((body.take n).length == 0) = false := by rw [beq_eq_false_iff_ne]; exact he
      simp only [hb0, hne, Bool.false_eq_true, if_false]
      have hshort : (body.drop n).length < f := by
        have : 0 < (body.take n).length := by omega
        have hpos : 0 < body.length := by
          cases body with
          | nil => simp at this
          | cons a l => simp
        simp only [List.length_drop]; omega
      rw [ih (body.drop n) hshort]
      simp [List.take_append_drop]

theorem mkChunksF_length_ge (n f : Nat) (body : Bytes) (hf : body.length < f) (hn : 1 ≤ n) :
    body.length ≤ (mkChunksF n f body).length := by
  induction f generalizing body with
  | zero => omega
  | succ f ih =>
    simp only [mkChunksF]
    by_cases he : (body.take n).isEmpty
    · have : body = [] := by
        cases body with
        | nil => rfl
        | cons a l => cases n with
          | zero => omega
          | succ n => simp at he
      subst this; simp
    · simp only [he, Bool.false_eq_true, if_false]
      have hshort : (body.drop n).length < f := by
        have hpos : 0 < body.length := by
          cases body with
          | nil => simp at he
          | cons a l => simp
        simp only [List.length_drop]; omega
      have := ih (body.drop n) hshort
      simp only [List.length_append, List.length_take, List.length_drop] at this ⊢
      omega

/-! ## RFC 7230 recogniser -/

theorem isHexDig_lower (b : Nat) (h : IsLowerHex b) : isHexDig b = true := by
  unfold isHexDig hexValB?
  unfold IsLowerHex at h
  rcases h with h | h
  · simp [h]
  · have : ¬ (48 ≤ b ∧ b ≤ 57) := by omega
    simp [this, h]

theorem takeWhile_hex_append (l rest : Bytes) (hl : ∀ b ∈ l, IsLowerHex b) :
    (l ++ CRLF ++ rest).takeWhile isHexDig = l ∧ (l ++ CRLF ++ rest).dropWhile isHexDig = CRLF ++ rest := by
  induction l with
  | nil =>
    have : isHexDig 13 = false := by decide
    simp [CRLF, this]
  | cons b r ih =>
    have hb := isHexDig_lower b (hl b (List.mem_cons_self ..))
    have := ih (fun x hx => hl x (List.mem_cons_of_mem _ hx))
    simp only [List.cons_append, List.takeWhile_cons, List.dropWhile_cons, hb, if_true]
    exact ⟨by rw [this.1], this.2⟩

theorem hexVal_toHexBytes (k : Nat) : hexVal (toHexBytes k) = k := by
  unfold hexVal toHexBytes
  rw [foldl_eq_valRev, valRev_toHexRev _ _ (by omega)]

theorem isChunkedF_mono (f g : Nat) (s : Bytes) (h : isChunkedF f s = true) (hfg : f ≤ g) : isChunkedF g s = true := by
  induction f generalizing g s with
  | zero => simp [isChunkedF] at h
  | succ f ih =>
    cases g with
    | zero => omega
    | succ g =>
      simp only [isChunkedF, Bool.and_eq_true] at h ⊢
      refine ⟨h.1, ?_⟩
      have h2 := h.2
      split
      · rename_i h0; simp only [h0, if_true] at h2; exact h2
      · rename_i h0
        simp only [h0, if_false, Bool.and_eq_true] at h2 ⊢
        exact ⟨h2.1, ih g _ h2.2 (by omega)⟩

theorem isChunkedF_step (f k : Nat) (rest : Bytes) :
    isChunkedF (f + 1) (toHexBytes k ++ CRLF ++ rest) =
      (if k = 0 then rest == CRLF
       else decide (k + 2 ≤ rest.length) && (rest.drop k).take 2 == CRLF && isChunkedF f ((rest.drop k).drop 2)) := by
  have hl := toHexBytes_lower k
  have htw := takeWhile_hex_append (toHexBytes k) rest hl
  have h1 : (toHexBytes k).isEmpty = false := by
    cases h : toHexBytes k with
    | nil => exact absurd h (toHexBytes_ne_nil k)
    | cons a l => rfl
  have ht2 : (CRLF ++ rest).take 2 = CRLF := by simp [CRLF]
  have hd2 : (CRLF ++ rest).drop 2 = rest := by simp [CRLF]
  simp only [isChunkedF, htw.1, htw.2, hexVal_toHexBytes, h1, ht2, hd2]
  simp

theorem isChunkedF_mkChunksF (n : Nat) (hn : 1 ≤ n) (f : Nat) (body : Bytes) (hf : body.length < f) :
    isChunkedF f (mkChunksF n f body) = true := by
  induction f generalizing body with
  | zero => omega
  | succ f ih =>
    have hshape : mkChunksF n (f + 1) body
        = toHexBytes (body.take n).length ++ CRLF ++ (body.take n ++ CRLF ++
          (if (body.take n).isEmpty then [] else mkChunksF n f (body.drop n))) := by
      simp [mkChunksF, List.append_assoc]
    rw [hshape, isChunkedF_step]
    by_cases he : (body.take n).length = 0
    · have hb : body = [] := by
        cases body with
        | nil => rfl
        | cons a l => cases n with
          | zero => omega
          | succ n => simp at he
      subst hb; simp [CRLF]
    · have hne : (body.take n).isEmpty = false := by
        cases hbt : body.take n with
        | nil => simp [hbt] at he
        | cons a l => rfl
      have hshort : (body.drop n).length < f := by
        have : 0 < (body.take n).length := by omega
        have hpos : 0 < body.length := by
          cases body with
          | nil => simp at this
          | cons a l => simp
        simp only [List.length_drop]; omega
      simp only [he, if_false, hne, Bool.false_eq_true]
      have hdrop : (body.take n ++ CRLF ++ mkChunksF n f (body.drop n)).drop (body.take n).length
          = CRLF ++ mkChunksF n f (body.drop n) := by
        rw [List.append_assoc, List.drop_left]
      rw [hdrop]
      have hd3 : (CRLF ++ mkChunksF n f (body.drop n)).drop 2 = mkChunksF n f (body.drop n) := by simp [CRLF]
      have ht3 : (CRLF ++ mkChunksF n f (body.drop n)).take 2 = CRLF := by simp [CRLF]
      rw [hd3, ht3, ih _ hshort]
      simp [CRLF]

/-! ## Accept-Encoding -/

theorem mem_insertDesc (e x : Str × Q) (l : List (Str × Q)) : x ∈ insertDesc e l ↔ x = e ∨ x ∈ l := by
  induction l with
  | nil => simp [insertDesc]
  | cons y r ih =>
    simp only [insertDesc]
    split
    · simp only [List.mem_cons, ih]
      constructor
      · rintro (h | h | h)
        · exact Or.inr (Or.inl h)
        · exact Or.inl h
        · exact Or.inr (Or.inr h)
      · rintro (h | h | h)
        · exact Or.inr (Or.inl h)
        · exact Or.inl h
        · exact Or.inr (Or.inr h)
    · simp [List.mem_cons]

theorem mem_sortDesc (x : Str × Q) (l : List (Str × Q)) : x ∈ sortDesc l ↔ x ∈ l := by
  induction l with
  | nil => simp [sortDesc]
  | cons y r ih =>
    have : sortDesc (y :: r) = insertDesc y (sortDesc r) := rfl
    rw [this, mem_insertDesc, ih]; simp [List.mem_cons]

theorem mem_odSet (d : List (Str × Q)) (k0 k : Str) (v0 v : Q) (h : (k, v) ∈ odSet d k0 v0) :
    (k = k0 ∧ v = v0) ∨ (k ≠ k0 ∧ (k, v) ∈ d) := by
  unfold odSet at h
  split at h
  · rw [List.mem_map] at h
    obtain ⟨e, he, hf⟩ := h
    by_cases hk : e.1 == k0
    · simp only [hk, if_true] at hf
      injection hf with h1 h2
      exact Or.inl ⟨h1.symm, h2.symm⟩
    · simp only [hk] at hf
      subst hf
      refine Or.inr ⟨?_, he⟩
      intro hkk; exact hk (by simp [hkk])
  · rename_i hany
    rw [List.mem_append] at h
    rcases h with h | h
    · refine Or.inr ⟨?_, h⟩
      intro hkk
      apply hany
      rw [List.any_eq_true]
      exact ⟨(k, v), h, by simp [hkk]⟩
    · simp only [List.mem_singleton] at h
      injection h with h1 h2
      exact Or.inl ⟨h1, h2⟩

/-- the weight the last element naming `k` gives it -/
def lookLast (es : List (Str × Q)) (k : Str) : Option Q := (es.reverse.find? (fun e => e.1 == k)).map (·.2)

theorem lookLast_snoc (es : List (Str × Q)) (e : Str × Q) (k : Str) :
    lookLast (es ++ [e]) k = if e.1 == k then some e.2 else lookLast es k := by
  unfold lookLast
  simp only [List.reverse_append, List.reverse_cons, List.reverse_nil, List.nil_append, List.cons_append,
    List.find?_cons]
  split <;> simp_all

theorem dict_sound_aux (es pre : List (Str × Q)) (d : List (Str × Q))
    (hd : ∀ k v, (k, v) ∈ d → lookLast pre k = some v) :
    ∀ k v, (k, v) ∈ es.foldl (fun d e => odSet d e.1 e.2) d → lookLast (pre ++ es) k = some v := by
  induction es generalizing pre d with
  | nil => simpa using hd
  | cons e es ih =>
    intro k v hkv
    simp only [List.foldl_cons] at hkv
    have := ih (pre ++ [e]) (odSet d e.1 e.2) (by
      intro k' v' hm
      rw [lookLast_snoc]
      rcases mem_odSet _ _ _ _ _ hm with ⟨h1, h2⟩ | ⟨h1, h2⟩
      · subst h1 h2; simp
      · have : (e.1 == k') = false := by
          rw [beq_eq_false_iff_ne]; exact fun h => h1 h.symm
        simp only [this]
        exact hd _ _ h2) k v hkv
    simpa [List.append_assoc] using this

theorem headerDict_sound (h : Str) (k : Str) (v : Q) (hm : (k, v) ∈ headerDict h) : weightOf h k = some v := by
  have := dict_sound_aux (elements h) [] [] (by intro k v hm; cases hm) k v hm
  simpa [weightOf, lookLast] using this

theorem mem_parseHeader (h : Str) (c : Str) (hc : c ∈ parseHeader h) : ∃ q, weightOf h c = some q ∧ q.pos = true := by
  unfold parseHeader at hc
  rw [List.mem_map] at hc
  obtain ⟨e, he, hec⟩ := hc
  rw [List.mem_filter] at he
  obtain ⟨hmem, hpos⟩ := he
  rw [mem_sortDesc] at hmem
  subst hec
  exact ⟨e.2, headerDict_sound h e.1 e.2 hmem, hpos⟩

/-! ## content coding -/

theorem getHandler_mem (r : Registry) (alg : Str) (c : Codec) (h : r.getHandler alg = .ok c) :
    ∃ e ∈ r.handlers, e.2 = c ∧ e.1 = alg.map asciiLower := by
  unfold Registry.getHandler at h
  split at h
  · rename_i e hf
    injection h with h
    exact ⟨e, List.mem_of_find?_eq_some hf, h, by simpa using List.find?_some hf⟩
  · cases h

/-- every successful `decodeBody` with a declared coding went through the registered decoder of exactly that coding -/
theorem decodeBody_ok (r : Registry) (sup : List Str) (h : Hdrs) (body b : Option Bytes) (enc : Str)
    (hd : decodeBody r sup h body = .ok b) (he : h.contentEncoding = some enc) (hne : enc ≠ []) :
    (r.effective sup).contains enc = true ∧
      ∃ codec payload y, body = some payload ∧ r.getHandler enc = .ok codec ∧ codec.dec payload = some y ∧ b = some y := by
  unfold decodeBody at hd
  rw [he] at hd
  have hemp : enc.isEmpty = false := by cases enc with | nil => exact absurd rfl hne | cons a l => rfl
  simp only [hemp, Bool.false_eq_true, if_false] at hd
  split at hd
  · rename_i hc
    refine ⟨hc, ?_⟩
    cases hg : r.getHandler enc with
    | error e => simp [Registry.decompress, hg] at hd
    | ok cdc =>
      cases body with
      | none => simp [Registry.decompress, hg] at hd
      | some payload =>
        cases hy : cdc.dec payload with
        | none => simp [Registry.decompress, hg, hy] at hd
        | some y =>
          simp [Registry.decompress, hg, hy] at hd
          exact ⟨cdc, payload, y, rfl, rfl, hy, hd.symm⟩
  · cases hd

theorem readRequestBody_ok (w : Nat) (r : Registry) (sup : List Str) (h : Hdrs) (wire : Bytes) (b : Option Bytes)
    (hr : readRequestBody w r sup h wire = .ok b) : ∃ body, decodeBody r sup h body = .ok b := by
  unfold readRequestBody at hr
  split at hr
  · split at hr
    · exact ⟨_, hr⟩
    · cases hr
  · split at hr
    · exact ⟨_, hr⟩
    · cases hr
    · cases hr
    · split at hr
      · cases hr
      · exact ⟨_, hr⟩

theorem readResponseBody_ok (r : Registry) (sup : List Str) (h : Hdrs) (payload : Bytes) (b : Option Bytes)
    (hr : readResponseBody r sup h payload = .ok b) : ∃ body, decodeBody r sup h body = .ok b := by
  unfold readResponseBody at hr
  split at hr
  · cases hr
  · exact ⟨_, hr⟩
  · exact ⟨_, hr⟩

theorem chunked_isChunked : (chunkedStr.map asciiLower == chunkedStr) = true := by decide

theorem pyRead_all (z : Bytes) : pyRead z (z.length : Int) = z := by
  unfold pyRead
  have : ¬ ((z.length : Int) < 0) := by omega
  simp [this]

/-- shape of a successfully encoded message -/
theorem encodeMessage_ok (r : Registry) (cands sup : List Str) (chunk : Nat) (body : Bytes) (h : Hdrs) (wire : Bytes)
    (he : encodeMessage r cands sup chunk body = .ok (h, wire)) :
    ∃ z, (if chunk > 0 then h.transferEncoding = some chunkedStr ∧ h.contentLength = none ∧ wire = mkChunks chunk z
          else h.transferEncoding = none ∧ h.contentLength = some (.val z.length) ∧ wire = z) ∧
      ((h.contentEncoding = none ∧ z = body ∧ choose cands sup = none) ∨
       (∃ c codec, h.contentEncoding = some c ∧ choose cands sup = some c ∧ r.getHandler c = .ok codec ∧ z = codec.enc body)) := by
  unfold encodeMessage at he
  cases hch : choose cands sup with
  | none =>
    simp only [hch] at he
    refine ⟨body, ?_, Or.inl ?_⟩
    · split
      · rename_i hc; simp only [hc, if_true] at he
        injection he with he; injection he with h1 h2; subst h1 h2; simp
      · rename_i hc; simp only [hc, if_false] at he
        injection he with he; injection he with h1 h2; subst h1 h2; simp
    · split at he
      · injection he with he; injection he with h1 h2; subst h1; simp
      · injection he with he; injection he with h1 h2; subst h1; simp
  | some c =>
    simp only [hch] at he
    unfold Registry.compress at he
    cases hg : r.getHandler c with
    | error e => simp [hg] at he
    | ok codec =>
      simp only [hg] at he
      refine ⟨codec.enc body, ?_, Or.inr ⟨c, codec, ?_, rfl, hg, rfl⟩⟩
      · split
        · rename_i hc; simp only [hc, if_true] at he
          injection he with he; injection he with h1 h2; subst h1 h2; simp
        · rename_i hc; simp only [hc, if_false] at he
          injection he with he; injection he with h1 h2; subst h1 h2; simp
      · split at he
        · injection he with he; injection he with h1 h2; subst h1; simp
        · injection he with he; injection he with h1 h2; subst h1; simp

theorem decode_encoded (r : Registry) (hl : CodecsLossless r) (hne : NamesNonEmpty r)
    (cands supS supR : List Str) (chunk : Nat) (body : Bytes) (h : Hdrs) (wire : Bytes)
    (he : encodeMessage r cands supS chunk body = .ok (h, wire))
    (hacc : ∀ c, h.contentEncoding = some c → (r.effective supR).contains c = true) (z : Bytes)
    (hz : (h.contentEncoding = none ∧ z = body) ∨ ∃ c codec, h.contentEncoding = some c ∧ r.getHandler c = .ok codec ∧ z = codec.enc body) :
    decodeBody r supR h (some z) = .ok (some body) := by
  rcases hz with ⟨h1, h2⟩ | ⟨c, codec, h1, hg, h2⟩
  · subst h2; simp [decodeBody, h1]
  · obtain ⟨e, hem, hec, hen⟩ := getHandler_mem r c codec hg
    have hcne : c ≠ [] := by
      intro hc0; subst hc0
      exact hne e hem (by simpa using hen)
    have hemp : c.isEmpty = false := by cases c with | nil => exact absurd rfl hcne | cons a l => rfl
    have hdec : codec.dec (codec.enc body) = some body := by rw [← hec]; exact hl e hem body
    subst h2
    have hmem : c ∈ r.effective supR := by simpa using hacc c h1
    simp [decodeBody, h1, hemp, hmem, Registry.decompress, hg, hdec]

end Sdc.Http
