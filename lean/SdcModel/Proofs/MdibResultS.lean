import SdcModel.Proofs.MdibResultD
/-!
# the state lists of the TransactionResult of a descriptor commit (`commitStates`)
-/
set_option linter.unusedSimpArgs false
namespace Sdc.Mdib

theorem mem_allS_putStates (r : TxResult) {k : Kind} (hk : k ≠ .context) (l : List SState) (x : SState) :
    x ∈ (r.putStates k l).allS ↔ x ∈ r.allS ∨ x ∈ l := by
  cases k <;> simp [TxResult.putStates, TxResult.allS] at hk ⊢ <;> grind

theorem putStates_frame (r : TxResult) (k : Kind) (l : List SState) :
    (r.putStates k l).descrCreated = r.descrCreated ∧ (r.putStates k l).descrUpdated = r.descrUpdated ∧
    (r.putStates k l).descrDeleted = r.descrDeleted ∧ (r.putStates k l).ctx = r.ctx := by
  cases k <;> exact ⟨rfl, rfl, rfl, rfl⟩

theorem SB.items_ok {L : List (Handle × SItem)} {done : List Kind} {C : Handle → Prop} {T : Tables} (hb : SB L done C T)
    {k : Kind} (hk : k ∉ done) : SItemsOK T (L.filter (fun p => p.2.new.kind == k)) := by
  have hfil : L.filter (fun p => p.2.new.kind == k) =
      (L.filter (fun p => !done.contains p.2.new.kind)).filter (fun p => p.2.new.kind == k) := by
    rw [List.filter_filter]
    apply List.filter_congr
    intro p _
    by_cases e : p.2.new.kind = k
    · subst e; simp [hk]
    · simp [e]
  rw [hfil]; exact hb.ok.sub List.filter_sublist

/-- the state lists of the result between two state dicts -/
structure RB (L : List (Handle × SItem)) (done : List Kind) (c : DCommit) : Prop where
  written : ∀ p ∈ L, p.2.new.kind ∈ done → findS c.t p.1 = some p.2.new
  resS : ∀ x, x ∈ c.res.allS ↔ ∃ p ∈ L, p.2.new.kind ∈ done ∧ x = p.2.new

/-- what the state part leaves alone in the result -/
def ResFrame (r' r : TxResult) : Prop :=
  r'.descrCreated = r.descrCreated ∧ r'.descrUpdated = r.descrUpdated ∧ r'.descrDeleted = r.descrDeleted

theorem RB.kind {L : List (Handle × SItem)} {done : List Kind} {c : DCommit} (hr : RB L done c) (hL : c.tx.sItems = L)
    (hkeys : (L.map (·.1)).Nodup) {k : Kind} (hkc : k ≠ .context)
    (hik : SItemsOK c.t (L.filter (fun p => p.2.new.kind == k))) :
    RB L (k :: done) (applyKind c k).1 ∧ ResFrame (applyKind c k).1.res c.res ∧ (applyKind c k).1.res.ctx = c.res.ctx := by
  simp only [applyKind, hL]
  have hf := applySItems_findS hik
  have hups := applySItems_ups hik
  refine ⟨⟨?_, ?_⟩, ⟨(putStates_frame _ _ _).1, (putStates_frame _ _ _).2.1, (putStates_frame _ _ _).2.2.1⟩, (putStates_frame _ _ _).2.2.2⟩
  · intro p hp hk
    rw [hf]
    by_cases e : p.2.new.kind = k
    · have hm : (p.1, p.2) ∈ L.filter (fun p => p.2.new.kind == k) := List.mem_filter.2 ⟨hp, by simp [e]⟩
      rw [dictGet_of_mem_nodup hik.keys hm]
    · have hnone : dictGet (L.filter (fun p => p.2.new.kind == k)) p.1 = none := by
        apply dictGet_none_iff.2
        intro hm
        obtain ⟨q, hq, eq⟩ := List.mem_map.1 hm
        obtain ⟨hq1, hq2⟩ := List.mem_filter.1 hq
        have a := dictGet_of_mem_nodup hkeys (show (q.1, q.2) ∈ L from hq1)
        have b := dictGet_of_mem_nodup hkeys (show (p.1, p.2) ∈ L from hp)
        rw [eq, b] at a
        have : q.2 = p.2 := (Option.some.inj a).symm
        simp only [beq_iff_eq] at hq2
        exact e (this ▸ hq2)
      rw [hnone]
      simp only [List.mem_cons] at hk
      exact hr.written p hp (hk.resolve_left e)
  · intro x
    rw [mem_allS_putStates _ hkc, hups, hr.resS]
    constructor
    · rintro (⟨p, hp, hk, rfl⟩ | hx)
      · exact ⟨p, hp, by simp [hk], rfl⟩
      · obtain ⟨p, hp, rfl⟩ := List.mem_map.1 hx
        obtain ⟨hp1, hp2⟩ := List.mem_filter.1 hp
        exact ⟨p, hp1, by simp only [beq_iff_eq] at hp2; simp [hp2], rfl⟩
    · rintro ⟨p, hp, hk, rfl⟩
      simp only [List.mem_cons] at hk
      rcases hk with hk | hk
      · exact .inr (List.mem_map.2 ⟨p, List.mem_filter.2 ⟨hp, by simp [hk]⟩, rfl⟩)
      · exact .inl ⟨p, hp, hk, rfl⟩

theorem kindsAllR {L : List (Handle × SItem)} {C : Handle → Prop} (hkeys : (L.map (·.1)).Nodup) :
    ∀ (ks : List Kind) (done : List Kind) (c : DCommit), SB L done C c.t → RB L done c → c.tx.sItems = L → ks.Nodup →
      (∀ k ∈ ks, k ∉ done ∧ k ≠ .context) →
      RB L (ks.reverse ++ done) (applyKinds c ks).1 ∧ ResFrame (applyKinds c ks).1.res c.res ∧
        (applyKinds c ks).1.res.ctx = c.res.ctx := by
  intro ks
  induction ks with
  | nil => intro done c _ hr _ _ _; exact ⟨by simpa [applyKinds] using hr, ⟨rfl, rfl, rfl⟩, rfl⟩
  | cons k ks ih =>
    intro done c hb hr hL hn hd
    simp only [List.nodup_cons] at hn
    obtain ⟨hk1, hk2⟩ := hd k (by simp)
    obtain ⟨e1, b1, t1, _⟩ := hb.kind hL hk1
    obtain ⟨r1, fr1, fc1⟩ := hr.kind hL hkeys hk2 (hb.items_ok hk1)
    simp only [applyKinds]
    generalize applyKind c k = r at e1 b1 t1 r1 fr1 fc1
    obtain ⟨c1, e⟩ := r
    simp only at e1 b1 t1 r1 fr1 fc1; subst e1
    simp only
    obtain ⟨r2, fr2, fc2⟩ := ih (k :: done) c1 b1 r1 (t1 ▸ hL) hn.2 (by
      intro k' hk'
      refine ⟨fun hx => ?_, (hd k' (by simp [hk'])).2⟩
      rcases List.mem_cons.1 hx with rfl | hx
      · exact hn.1 hk'
      · exact (hd k' (by simp [hk'])).1 hx)
    refine ⟨by simpa [List.reverse_cons, List.append_assoc] using r2,
      ⟨fr2.1.trans fr1.1, fr2.2.1.trans fr1.2.1, fr2.2.2.trans fr1.2.2⟩, fc2.trans fc1⟩


variable {t₀ : Tables} {tx₀ : DTx} {del : List Handle}

/-- the facts `commitStates` starts from (as in `commitStates_ok`) -/
theorem CInv.final_facts {c : DCommit} (h : CInv t₀ tx₀ del [] (pendUpd []) c.t c.tx) :
    SB c.tx.sItems [] (fun x => x ∈ c.tx.cItems.map (·.1)) c.t ∧ CItemsOK true c.t c.tx.cItems ∧
    (∀ p ∈ c.tx.cItems, ∀ n ∈ p.2.new, ∀ d ∈ c.t.descrs, d.handle = n.dh → d.kind = .context) ∧
    (∀ p ∈ c.tx.sItems, p.2.new.kind ≠ .context ∧ p.2.new.dh = p.1) := by
  have hnp : ∀ x, ¬ pendUpd [] x := pendUpd_nil
  have huniq : ∀ d ∈ c.t.descrs, ∀ d' ∈ c.t.descrs, d.handle = d'.handle → d = d' := fun d hd d' hd' e => mem_unique h.dKeys hd hd' e
  have hsi : SItemsOK c.t c.tx.sItems := by
    refine ⟨h.siKeys, fun p hp => (h.si p hp).dh, fun p hp => (h.si p hp).old, ?_, fun p hp => (h.si p hp).bump⟩
    intro p hp
    rcases (h.si p hp).ref with ⟨d, hd, e1, _, e3⟩ | ⟨n, hn, _⟩
    · exact ⟨d, hd, e1, e3 (hnp _)⟩
    · cases hn
  have hkinds : ∀ p ∈ c.tx.sItems, p.2.new.kind ≠ .context ∧ ∀ d ∈ c.t.descrs, d.handle = p.1 → d.kind ≠ .context := by
    intro p hp
    refine ⟨(h.si p hp).kind, ?_⟩
    intro d hd e
    rcases (h.si p hp).ref with ⟨d', hd', e1, e2, _⟩ | ⟨n, hn, _⟩
    · rw [huniq d hd d' hd' (e.trans e1.symm)]; exact e2
    · cases hn
  refine ⟨?_, ?_, ?_, fun p hp => ⟨(h.si p hp).kind, (h.si p hp).dh⟩⟩
  · refine ⟨⟨h.dKeys, h.sKeys, h.cKeys, ?_, ?_, ?_⟩, ?_, hkinds⟩
    · intro s hs
      obtain ⟨k, d, hd, e1, e2, e3⟩ := h.sRef s hs
      refine ⟨k, d, hd, e1, e2, fun hS => e3 (fun hx => hS ?_) (hnp _)⟩
      obtain ⟨p, hp, e⟩ := List.mem_map.1 hx
      exact ⟨p, hp, e, by simp⟩
    · intro x hx
      obtain ⟨d, hd, e1, e2, e3⟩ := h.cRef x hx
      exact ⟨d, hd, e1, e2, fun hC => e3 hC (hnp _)⟩
    · intro d hd p hp
      rcases h.dPar d hd p hp with a | ⟨n, hn⟩
      · obtain ⟨q, hq, e⟩ := List.mem_map.1 a; exact ⟨q, hq, e⟩
      · cases hn
    · rw [List.filter_eq_self.2 (fun _ _ => by simp)]; exact hsi
  · refine ⟨h.ciKeys, ?_, fun p hp => .inl (h.ci p hp).old, ?_, ?_⟩
    · intro p hp n hn; exact ((h.ci p hp).new n hn).1
    · intro p hp n hn
      obtain ⟨_, _, _, _, f⟩ := (h.ci p hp).new n hn
      rcases f with ⟨d, hd, e1, _, e3⟩ | ⟨m, hm, _⟩
      · exact ⟨d, hd, e1, e3 (hnp _)⟩
      · cases hm
    · intro _ p hp n hn; exact ((h.ci p hp).new n hn).2.2.2.1
  · intro p hp n hn d hd e
    obtain ⟨_, _, _, _, f⟩ := (h.ci p hp).new n hn
    rcases f with ⟨d', hd', e1, e2, _⟩ | ⟨m, hm, _⟩
    · rw [huniq d hd d' hd' (e.trans e1.symm)]; exact e2
    · cases hm

/-- the state lists of the result after the commit: exactly the new states of the items, as they are in the tables -/
theorem commitStates_res {c : DCommit} (h : CInv t₀ tx₀ del [] (pendUpd []) c.t c.tx) (hS : c.res.allS = []) (hC : c.res.ctx = []) :
    (∀ x ∈ (commitStates c).1.res.allS, findS (commitStates c).1.t x.dh = some x) ∧
    (∀ p ∈ c.tx.sItems, p.2.new ∈ (commitStates c).1.res.allS) ∧
    (∀ x ∈ (commitStates c).1.res.ctx, findC (commitStates c).1.t x.h = some x) ∧
    (∀ p ∈ c.tx.cItems, ∀ n ∈ p.2.new, n ∈ (commitStates c).1.res.ctx) ∧
    ResFrame (commitStates c).1.res c.res ∧
    (∀ x ∈ (commitStates c).1.res.allS, ∃ p ∈ c.tx.sItems, x = p.2.new) ∧
    (∀ x ∈ (commitStates c).1.res.ctx, ∃ p ∈ c.tx.cItems, p.2.new = some x) := by
  obtain ⟨hb0, hci, hck, hsk⟩ := h.final_facts
  have hr0 : RB c.tx.sItems [] c := ⟨by simp, by simp [hS]⟩
  obtain ⟨e1, b1, t1, f1⟩ := SB.kindsAll [.alert, .metric] [] c hb0 rfl (by decide) (by simp)
  obtain ⟨r1, fr1, fc1⟩ := kindsAllR h.siKeys [.alert, .metric] [] c hb0 hr0 rfl (by decide) (by decide)
  unfold commitStates
  generalize applyKinds c [.alert, .metric] = q1 at e1 b1 t1 f1 r1 fr1 fc1
  obtain ⟨c1, x1⟩ := q1
  simp only at e1 b1 t1 f1 r1 fr1 fc1; subst e1
  simp only
  have hci1 : CItemsOK true c1.t c1.tx.cItems := by rw [t1]; exact hci.congr f1.fr.2.1 f1.fr.2.2.2 f1.fr.1
  have hck1 : ∀ p ∈ c1.tx.cItems, ∀ n ∈ p.2.new, ∀ d ∈ c1.t.descrs, d.handle = n.dh → d.kind = .context := by
    rw [t1, f1.fr.1]; exact hck
  obtain ⟨e2, b2, t2, f2⟩ := b1.ctx hci1 hck1
  -- the context stage spelled out
  have hctx : (applyCtx c1).1.t = (applyCItems c1.t c1.tx.cItems).1 ∧
      (applyCtx c1).1.res = { c1.res with ctx := c1.res.ctx ++ (applyCItems c1.t c1.tx.cItems).2.1 } := ⟨rfl, rfl⟩
  generalize applyCtx c1 = q2 at e2 b2 t2 f2 hctx
  obtain ⟨c2, x2⟩ := q2
  simp only at e2 b2 t2 f2 hctx; subst e2
  simp only
  have hups := applyCItems_ups hci1
  have r2 : RB c.tx.sItems [.metric, .alert] c2 := by
    refine ⟨?_, ?_⟩
    · intro p hp hk
      have : findS c2.t p.1 = findS c1.t p.1 := by simp [findS, f2.fr.2.1]
      rw [this]; exact r1.written p hp (by simpa using hk)
    · intro x
      rw [hctx.2]
      have := r1.resS x
      simpa [TxResult.allS] using this
  have hc2 : ∀ x ∈ c2.res.ctx, findC c2.t x.h = some x := by
    intro x hx
    rw [hctx.2] at hx
    simp only [fc1, hC, List.nil_append, hups, List.mem_filterMap] at hx
    obtain ⟨p, hp, e⟩ := hx
    have hh := hci1.h p hp x e
    rw [hctx.1, applyCItems_findC hci1, hh, dictGet_of_mem_nodup hci1.keys (show (p.1, p.2) ∈ c1.tx.cItems from hp)]
    exact e
  have hc2s : ∀ x ∈ c2.res.ctx, ∃ p ∈ c.tx.cItems, p.2.new = some x := by
    intro x hx
    rw [hctx.2] at hx
    simp only [fc1, hC, List.nil_append, hups, List.mem_filterMap] at hx
    obtain ⟨p, hp, e⟩ := hx
    exact ⟨p, by rw [← t1]; exact hp, e⟩
  have hc2' : ∀ p ∈ c.tx.cItems, ∀ n ∈ p.2.new, n ∈ c2.res.ctx := by
    intro p hp n hn
    rw [hctx.2]
    simp only [fc1, hC, List.nil_append, hups, List.mem_filterMap]
    exact ⟨p, by rw [t1]; exact hp, hn⟩
  have fr2 : ResFrame c2.res c1.res := by rw [hctx.2]; exact ⟨rfl, rfl, rfl⟩
  obtain ⟨e3, b3, t3, f3⟩ := SB.kindsAll [.component, .operational, .rt] _ c2 b2 (by rw [t2, t1]) (by decide) (by decide)
  obtain ⟨r3, fr3, fc3⟩ := kindsAllR h.siKeys [.component, .operational, .rt] _ c2 b2 r2 (by rw [t2, t1]) (by decide) (by decide)
  generalize applyKinds c2 [.component, .operational, .rt] = q3 at e3 b3 t3 f3 r3 fr3 fc3
  obtain ⟨c3, x3⟩ := q3
  simp only at e3 b3 t3 f3 r3 fr3 fc3
  refine ⟨?_, ?_, ?_, ?_, ⟨fr3.1.trans (fr2.1.trans fr1.1), fr3.2.1.trans (fr2.2.1.trans fr1.2.1), fr3.2.2.trans (fr2.2.2.trans fr1.2.2)⟩,
    fun x hx => by obtain ⟨p, hp, _, e⟩ := (r3.resS x).1 hx; exact ⟨p, hp, e⟩,
    fun x hx => hc2s x (fc3 ▸ hx)⟩
  · intro x hx
    obtain ⟨p, hp, hk, rfl⟩ := (r3.resS x).1 hx
    rw [(hsk p hp).2]; exact r3.written p hp hk
  · intro p hp
    refine (r3.resS _).2 ⟨p, hp, ?_, rfl⟩
    have := (hsk p hp).1
    revert this
    cases p.2.new.kind <;> simp
  · intro x hx
    rw [fc3] at hx
    have : findC c3.t x.h = findC c2.t x.h := by simp [findC, f3.fr.2.1]
    rw [this]; exact hc2 x hx
  · intro p hp n hn; rw [fc3]; exact hc2' p hp n hn

end Sdc.Mdib
