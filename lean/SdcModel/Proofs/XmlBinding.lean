import SdcModel.XmlBinding
/-!
Helper lemmas for `XmlBinding`, part 1: attributes, children, footprints, frame properties of every descriptor kind.
Core Lean only.
-/
namespace Sdc.XmlBinding

/-! ### attributes -/

theorem getAttr_delAttr_ne (a : Attrs) (k k' : Nat) (h : k' ≠ k) : getAttr (delAttr a k) k' = getAttr a k' := by
  induction a with
  | nil => rfl
  | cons p a ih =>
    simp only [delAttr, List.filter_cons]
    by_cases hp : p.1 = k
    · have : p.1 ≠ k' := by rw [hp]; exact fun e => h e.symm
      simp only [hp, beq_self_eq_true, Bool.not_true, Bool.false_eq_true, if_false]
      simp only [getAttr, List.find?_cons]
      have hb : (p.1 == k') = false := by simpa using this
      rw [hb]; exact ih
    · have hb : (p.1 == k) = false := by simpa using hp
      simp only [hb, Bool.not_false, if_true]
      simp only [getAttr, List.find?_cons]
      by_cases hq : p.1 = k'
      · simp [hq]
      · have hb' : (p.1 == k') = false := by simpa using hq
        simp only [hb']
        exact ih

theorem getAttr_delAttr_self (a : Attrs) (k : Nat) : getAttr (delAttr a k) k = none := by
  induction a with
  | nil => rfl
  | cons p a ih =>
    simp only [delAttr, List.filter_cons]
    by_cases hp : p.1 = k
    · simp only [hp, beq_self_eq_true, Bool.not_true, Bool.false_eq_true, if_false]; exact ih
    · have hb : (p.1 == k) = false := by simpa using hp
      simp only [hb, Bool.not_false, if_true, getAttr, List.find?_cons]
      exact ih

theorem getAttr_append_single (a : Attrs) (k : Nat) (v : String) (k' : Nat) :
    getAttr (a ++ [(k, v)]) k' = match getAttr a k' with
      | some s => some s
      | none => if k = k' then some v else none := by
  induction a with
  | nil => simp [getAttr, List.find?_cons]; split <;> simp_all
  | cons p a ih =>
    simp only [List.cons_append, getAttr, List.find?_cons]
    by_cases hq : p.1 = k'
    · simp [hq]
    · have hb' : (p.1 == k') = false := by simpa using hq
      simp only [hb']
      exact ih

theorem getAttr_setAttr_self (a : Attrs) (k : Nat) (v : String) : getAttr (setAttr a k v) k = some v := by
  rw [setAttr, getAttr_append_single, getAttr_delAttr_self]; simp

theorem getAttr_setAttr_ne (a : Attrs) (k : Nat) (v : String) (k' : Nat) (h : k' ≠ k) : getAttr (setAttr a k v) k' = getAttr a k' := by
  rw [setAttr, getAttr_append_single, getAttr_delAttr_ne _ _ _ h]
  cases getAttr a k' with
  | none => simp; exact fun e => h e.symm
  | some s => rfl

/-! ### children -/

theorem named_append (n : Nat) (a b : List Xml) : named n (a ++ b) = named n a ++ named n b := by
  simp [named]

theorem firstNamed_eq_head (n : Nat) (ks : List Xml) : firstNamed n ks = (named n ks).head? := by
  induction ks with
  | nil => rfl
  | cons k ks ih =>
    simp only [firstNamed, named, List.find?_cons, List.filter_cons] at ih ⊢
    cases h : k.tag == n
    · simp only [Bool.false_eq_true, if_false]; exact ih
    · simp

theorem named_cons (n : Nat) (k : Xml) (ks : List Xml) :
    named n (k :: ks) = if k.tag == n then k :: named n ks else named n ks := by
  simp [named, List.filter_cons]

theorem beq_false_of_ne {a b : Nat} (h : a ≠ b) : (a == b) = false := by simpa using h

theorem named_removeAll_ne (n m : Nat) (h : m ≠ n) (ks : List Xml) : named m (removeAll n ks) = named m ks := by
  induction ks with
  | nil => rfl
  | cons k ks ih =>
    have hc : removeAll n (k :: ks) = if k.tag == n then removeAll n ks else k :: removeAll n ks := by
      simp only [removeAll, List.filter_cons]; cases k.tag == n <;> simp
    rw [hc, named_cons]
    by_cases hk : k.tag = n
    · have hm : (k.tag == m) = false := beq_false_of_ne (by rw [hk]; exact fun e => h e.symm)
      have hn : (k.tag == n) = true := by simp [hk]
      simp only [hn, if_true, hm, Bool.false_eq_true, if_false]
      exact ih
    · simp only [beq_false_of_ne hk, Bool.false_eq_true, if_false, named_cons, ih]

theorem named_removeAll_self (n : Nat) (ks : List Xml) : named n (removeAll n ks) = [] := by
  induction ks with
  | nil => rfl
  | cons k ks ih =>
    have hc : removeAll n (k :: ks) = if k.tag == n then removeAll n ks else k :: removeAll n ks := by
      simp only [removeAll, List.filter_cons]; cases k.tag == n <;> simp
    rw [hc]
    cases hk : k.tag == n
    · simp only [Bool.false_eq_true, if_false, named_cons, hk, ih]
    · simp only [if_true, ih]

theorem named_removeFirst_ne (n m : Nat) (h : m ≠ n) (ks : List Xml) : named m (removeFirst n ks) = named m ks := by
  induction ks with
  | nil => rfl
  | cons k ks ih =>
    simp only [removeFirst]
    by_cases hk : k.tag = n
    · have hm : (k.tag == m) = false := beq_false_of_ne (by rw [hk]; exact fun e => h e.symm)
      have hn : (k.tag == n) = true := by simp [hk]
      simp only [hn, if_true, named_cons, hm, Bool.false_eq_true, if_false]
    · simp only [beq_false_of_ne hk, Bool.false_eq_true, if_false, named_cons, ih]

theorem clean_cons {n : Nat} {k : Xml} {ks : List Xml} (h : named n (k :: ks) = []) :
    (k.tag == n) = false ∧ named n ks = [] := by
  rw [named_cons] at h
  cases hk : k.tag == n
  · simp only [hk, Bool.false_eq_true, if_false] at h; exact ⟨rfl, h⟩
  · simp [hk] at h

theorem removeAll_of_clean (n : Nat) (ks : List Xml) (h : named n ks = []) : removeAll n ks = ks := by
  induction ks with
  | nil => rfl
  | cons k ks ih =>
    obtain ⟨hk, hr⟩ := clean_cons h
    have hc : removeAll n (k :: ks) = k :: removeAll n ks := by
      simp only [removeAll, List.filter_cons, hk]; simp
    rw [hc, ih hr]

theorem removeFirst_of_clean (n : Nat) (ks : List Xml) (h : named n ks = []) : removeFirst n ks = ks := by
  induction ks with
  | nil => rfl
  | cons k ks ih =>
    obtain ⟨hk, hr⟩ := clean_cons h
    simp only [removeFirst, hk, Bool.false_eq_true, if_false, ih hr]

theorem modifyFirst_of_clean (n : Nat) (f : Xml → Xml) (ks : List Xml) (h : named n ks = []) :
    modifyFirst n f ks = ks ++ [f (Xml.empty n)] := by
  induction ks with
  | nil => rfl
  | cons k ks ih =>
    obtain ⟨hk, hr⟩ := clean_cons h
    simp only [modifyFirst, hk, Bool.false_eq_true, if_false, ih hr, List.cons_append]

theorem named_modifyFirst_ne (n m : Nat) (h : m ≠ n) (f : Xml → Xml) (hf : ∀ e, (f e).tag = e.tag) (ks : List Xml) :
    named m (modifyFirst n f ks) = named m ks := by
  induction ks with
  | nil =>
    have : ((f (Xml.empty n)).tag == m) = false := by
      rw [hf]; exact beq_false_of_ne (fun e => h e.symm)
    simp [modifyFirst, named_cons, this, named]
  | cons k ks ih =>
    simp only [modifyFirst]
    by_cases hk : k.tag = n
    · have hm : (k.tag == m) = false := beq_false_of_ne (by rw [hk]; exact fun e => h e.symm)
      have hm' : ((f k).tag == m) = false := by rw [hf]; exact hm
      have hn : (k.tag == n) = true := by simp [hk]
      simp only [hn, if_true, named_cons, hm', hm, Bool.false_eq_true, if_false]
    · simp only [beq_false_of_ne hk, Bool.false_eq_true, if_false, named_cons, ih]

theorem named_self_of_all (n : Nat) (ks : List Xml) (h : ∀ k ∈ ks, k.tag = n) : named n ks = ks := by
  simp only [named, List.filter_eq_self]
  intro k hk; simp [h k hk]

theorem named_ne_of_all (n m : Nat) (hm : m ≠ n) (ks : List Xml) (h : ∀ k ∈ ks, k.tag = n) : named m ks = [] := by
  simp only [named, List.filter_eq_nil_iff]
  intro k hk; simp [h k hk]; exact fun e => hm e.symm

/-! ### accessors -/
section
variable (x : Xml)
@[simp] theorem tag_setAttrs (a) : (x.setAttrs a).tag = x.tag := by cases x; rfl
@[simp] theorem kids_setAttrs (a) : (x.setAttrs a).kids = x.kids := by cases x; rfl
@[simp] theorem text_setAttrs (a) : (x.setAttrs a).text = x.text := by cases x; rfl
@[simp] theorem attrs_setAttrs (a) : (x.setAttrs a).attrs = a := by cases x; rfl
@[simp] theorem tag_setKids (k) : (x.setKids k).tag = x.tag := by cases x; rfl
@[simp] theorem kids_setKids (k) : (x.setKids k).kids = k := by cases x; rfl
@[simp] theorem text_setKids (k) : (x.setKids k).text = x.text := by cases x; rfl
@[simp] theorem attrs_setKids (k) : (x.setKids k).attrs = x.attrs := by cases x; rfl
@[simp] theorem tag_setText (t) : (x.setText t).tag = x.tag := by cases x; rfl
@[simp] theorem kids_setText (t) : (x.setText t).kids = x.kids := by cases x; rfl
@[simp] theorem text_setText (t) : (x.setText t).text = t := by cases x; rfl
@[simp] theorem attrs_setText (t) : (x.setText t).attrs = x.attrs := by cases x; rfl
end
@[simp] theorem tag_empty (n : Nat) : (Xml.empty n).tag = n := rfl
@[simp] theorem kids_empty (n : Nat) : (Xml.empty n).kids = [] := rfl
@[simp] theorem text_empty (n : Nat) : (Xml.empty n).text = "" := rfl
@[simp] theorem attrs_empty (n : Nat) : (Xml.empty n).attrs = [] := rfl

theorem Xml.ext' {x y : Xml} (h1 : x.tag = y.tag) (h2 : x.attrs = y.attrs) (h3 : x.kids = y.kids) (h4 : x.text = y.text) :
    x = y := by
  cases x; cases y; simp_all [Xml.tag, Xml.attrs, Xml.kids, Xml.text]

/-! ### footprints -/

/-- `x` and `y` look the same through footprint `fp` -/
def Agree : Fp → Xml → Xml → Prop
  | .attr n, x, y => getAttr x.attrs n = getAttr y.attrs n
  | .child n, x, y => named n x.kids = named n y.kids
  | .selfText, x, y => x.text = y.text
  | .selfKids, x, y => x.kids = y.kids
  | .whole, x, y => x = y

/-- nothing has been written into footprint `fp` yet -/
def Clean : Fp → Xml → Prop
  | .attr n, x => getAttr x.attrs n = none
  | .child n, x => named n x.kids = []
  | .selfText, x => x.text = ""
  | .selfKids, x => x.kids = []
  | .whole, _ => False

theorem Agree.refl (fp : Fp) (x : Xml) : Agree fp x x := by cases fp <;> simp [Agree]

theorem Agree.trans {fp : Fp} {x y z : Xml} (h1 : Agree fp x y) (h2 : Agree fp y z) : Agree fp x z := by
  cases fp <;> simp_all [Agree]

theorem Agree.symm {fp : Fp} {x y : Xml} (h : Agree fp x y) : Agree fp y x := by
  cases fp <;> simp_all [Agree]

theorem Clean.of_agree {fp : Fp} {x y : Xml} (h : Agree fp x y) (hc : Clean fp x) : Clean fp y := by
  cases fp <;> simp_all [Agree, Clean]

theorem clean_empty (fp : Fp) (h : fp ≠ .whole) (n : Nat) : Clean fp (Xml.empty n) := by
  cases fp <;> simp_all [Clean, getAttr, named]

/-- what an update that touches only attribute `n` preserves -/
theorem agree_of_attr_update {x x' : Xml} {n : Nat} (fp : Fp) (hi : fp.indep (.attr n) = true)
    (hk : x'.kids = x.kids) (ht : x'.text = x.text) (ha : ∀ m, m ≠ n → getAttr x'.attrs m = getAttr x.attrs m) :
    Agree fp x x' := by
  cases fp with
  | attr m => simp [Fp.indep] at hi; simp [Agree, ha m hi]
  | child m => simp [Agree, hk]
  | selfText => simp [Agree, ht]
  | selfKids => simp [Agree, hk]
  | whole => simp [Fp.indep] at hi

/-- what an update that touches only the children named `n` preserves -/
theorem agree_of_child_update {x x' : Xml} {n : Nat} (fp : Fp) (hi : fp.indep (.child n) = true)
    (ha : x'.attrs = x.attrs) (ht : x'.text = x.text) (hk : ∀ m, m ≠ n → named m x'.kids = named m x.kids) :
    Agree fp x x' := by
  cases fp with
  | attr m => simp [Agree, ha]
  | child m => simp [Fp.indep] at hi; simp [Agree, hk m hi]
  | selfText => simp [Agree, ht]
  | selfKids => simp [Fp.indep] at hi
  | whole => simp [Fp.indep] at hi

theorem agree_of_text_update {x x' : Xml} (fp : Fp) (hi : fp.indep .selfText = true)
    (ha : x'.attrs = x.attrs) (hk : x'.kids = x.kids) : Agree fp x x' := by
  cases fp with
  | attr m => simp [Agree, ha]
  | child m => simp [Agree, hk]
  | selfText => simp [Fp.indep] at hi
  | selfKids => simp [Agree, hk]
  | whole => simp [Fp.indep] at hi

theorem agree_of_kids_update {x x' : Xml} (fp : Fp) (hi : fp.indep .selfKids = true)
    (ha : x'.attrs = x.attrs) (ht : x'.text = x.text) : Agree fp x x' := by
  cases fp with
  | attr m => simp [Agree, ha]
  | child m => simp [Fp.indep] at hi
  | selfText => simp [Agree, ht]
  | selfKids => simp [Fp.indep] at hi
  | whole => simp [Fp.indep] at hi

end Sdc.XmlBinding
