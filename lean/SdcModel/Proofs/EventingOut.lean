import SdcModel.Proofs.Eventing
/-!
C08 helper lemmas, part 2: what the invariant says about the messages and answers of a single op.
-/
namespace Sdc.Eventing
set_option linter.unusedSimpArgs false

/-! ### messages of one op, per subscriber -/

theorem filter_flatMap_none (g : Sub → List Msg) (hg : ∀ s, ∀ msg ∈ g s, msg.sub = s.id) (l : List Sub) (j : Nat)
    (hn : ∀ s ∈ l, s.id ≠ j) : (l.flatMap g).filter (fun msg => msg.sub == j) = [] := by
  rw [List.filter_eq_nil_iff]
  intro msg hm
  obtain ⟨s, hs, hm⟩ := List.mem_flatMap.mp hm
  simp [hg s msg hm, hn s hs]

theorem filter_flatMap_single (g : Sub → List Msg) (hg : ∀ s, ∀ msg ∈ g s, msg.sub = s.id) (l : List Sub)
    (hnd : (l.map (·.id)).Nodup) (s : Sub) (hs : s ∈ l) :
    (l.flatMap g).filter (fun msg => msg.sub == s.id) = g s := by
  induction l with
  | nil => cases hs
  | cons x xs ih =>
    simp only [List.map_cons, List.nodup_cons, List.mem_map, not_exists, not_and] at hnd
    simp only [List.flatMap_cons, List.filter_append]
    rcases List.mem_cons.mp hs with rfl | hs'
    · rw [filter_flatMap_none g hg xs s.id (fun t ht h => hnd.1 t ht h), List.append_nil, List.filter_eq_self]
      intro msg hm
      simp [hg s msg hm]
    · have hne : x.id ≠ s.id := fun h => hnd.1 s hs' h.symm
      have : (g x).filter (fun msg => msg.sub == s.id) = [] := by
        rw [List.filter_eq_nil_iff]
        intro msg hm
        simp [hg x msg hm, hne]
      rw [this, List.nil_append]
      exact ih hnd.2 hs'

/-- a record the observer considers alive is still held by the manager, unchanged -/
theorem alive_mem {cfg : Cfg} {st : State} {m : Mon} (h : Sim cfg st m) {i : Nat} {r : Rec}
    (hr : m.recs i = some r) (ha : r.alive cfg st.now) : ∃ s ∈ st.subs, s.id = i ∧ s.repr = r := by
  by_cases hex : ∃ s ∈ st.subs, s.id = i
  · obtain ⟨s, hs, rfl⟩ := hex
    have := (h.recOf s hs).1
    rw [hr] at this
    exact ⟨s, hs, rfl, (Option.some.inj this).symm⟩
  · exact absurd ha (h.dead i r hr (fun s hs hj => hex ⟨s, hs, hj⟩))

theorem flatMap_map_snd (f : Sub → Sub × List Msg) (l : List Sub) :
    (l.map f).flatMap (·.2) = l.flatMap (fun s => (f s).2) := by
  induction l with
  | nil => rfl
  | cons x xs ih => simp [ih]

/-- notifications of one `notify` op that go to subscriber `i` -/
theorem notify_filter {cfg : Cfg} {st : State} {m : Mon} (h : Sim cfg st m) (ov : List (Nat × Outcome)) (a : Str) (i : Nat) :
    ((st.subs.map (deliver cfg st ov a)).flatMap (·.2)).filter (fun msg => msg.sub == i) =
      match m.recs i with
      | some r => if r.alive cfg m.now ∧ suffixMatch r.filter a = true
                  then [⟨.notification a, i, r.notifyTo, st.outcomeFor ov i r.notifyTo, r.notifyRefs⟩] else []
      | none => [] := by
  rw [flatMap_map_snd, h.now_eq]
  have hg : ∀ s : Sub, ∀ msg ∈ (deliver cfg st ov a s).2, msg.sub = s.id := fun s => deliver_msgs_sub
  by_cases hex : ∃ s ∈ st.subs, s.id = i
  · obtain ⟨s, hs, rfl⟩ := hex
    obtain ⟨hr, hc, hst⟩ := h.recOf s hs
    rw [filter_flatMap_single _ hg st.subs h.nodup s hs, hr]
    have hiff := alive_iff cfg st.now s hc hst
    cases hd : deliverable cfg st a s
    · rw [deliver_neg hd]
      have : ¬ (s.repr.alive cfg st.now ∧ suffixMatch s.repr.filter a = true) := by
        rintro ⟨ha, hm⟩
        have := hiff.mp ha
        have hm' : suffixMatch s.filter a = true := hm
        simp [deliverable, this.1, this.2, hm'] at hd
      simp only [this, if_false]
    · rw [deliver_pos hd]
      have hd' := hd
      simp only [deliverable, Bool.and_eq_true, Option.isNone_iff_eq_none] at hd'
      have : s.repr.alive cfg st.now ∧ suffixMatch s.repr.filter a = true :=
        ⟨hiff.mpr ⟨hd'.1.2, hd'.2⟩, hd'.1.1⟩
      simp only [this, and_self, if_true]
      rfl
  · have hn : ∀ s ∈ st.subs, s.id ≠ i := fun s hs hj => hex ⟨s, hs, hj⟩
    rw [filter_flatMap_none _ hg st.subs i hn]
    cases hm : m.recs i with
    | none => rfl
    | some r =>
      have := h.dead i r hm hn
      simp only [this, false_and, if_false]

theorem endMsg_sub {cfg : Cfg} {st : State} {ov : List (Nat × Outcome)} {s : Sub} : ∀ msg ∈ endMsg cfg st ov s, msg.sub = s.id := by
  intro msg hm
  unfold endMsg at hm
  split at hm
  · simp at hm; subst hm; rfl
  · cases hm

/-- SubscriptionEnd messages of one `stop true` op that go to subscriber `i` -/
theorem stop_filter {cfg : Cfg} {st : State} {m : Mon} (h : Sim cfg st m) (ov : List (Nat × Outcome)) (i : Nat) :
    (st.subs.flatMap (endMsg cfg st ov)).filter (fun msg => msg.sub == i) =
      match m.recs i with
      | some r => if r.alive cfg m.now
                  then [⟨.subscriptionEnd, i, r.endTo.getD r.notifyTo, st.outcomeFor ov i (r.endTo.getD r.notifyTo), r.endRefs⟩] else []
      | none => [] := by
  rw [h.now_eq]
  have hg : ∀ s : Sub, ∀ msg ∈ endMsg cfg st ov s, msg.sub = s.id := fun s => endMsg_sub
  by_cases hex : ∃ s ∈ st.subs, s.id = i
  · obtain ⟨s, hs, rfl⟩ := hex
    obtain ⟨hr, hc, hst⟩ := h.recOf s hs
    rw [filter_flatMap_single _ hg st.subs h.nodup s hs, hr]
    have hiff := alive_iff cfg st.now s hc hst
    by_cases ha : s.repr.alive cfg st.now
    · have := hiff.mp ha
      simp only [ha, if_true, endMsg, this.1, this.2, Option.isNone_none, Bool.and_self]
      rfl
    · have hne : ¬ (s.unsubAt.isNone && s.valid cfg st.now) = true := by
        intro hb
        simp only [Bool.and_eq_true, Option.isNone_iff_eq_none] at hb
        exact ha (hiff.mpr ⟨hb.2, hb.1⟩)
      simp only [ha, if_false, endMsg, hne, Bool.false_eq_true]
  · have hn : ∀ s ∈ st.subs, s.id ≠ i := fun s hs hj => hex ⟨s, hs, hj⟩
    rw [filter_flatMap_none _ hg st.subs i hn]
    cases hm : m.recs i with
    | none => rfl
    | some r =>
      have := h.dead i r hm hn
      simp only [this, if_false]

/-! ### answers to requests -/

/-- the observer's notion of "the provider (still) knows subscription `i`" -/
def Mon.known (m : Mon) (i : Nat) : Prop := ∃ r, m.recs i = some r ∧ r.unsub = false ∧ r.ended = false

theorem find_known {cfg : Cfg} {st : State} {m : Mon} (h : Sim cfg st m) {k : Key} {s : Sub}
    (hf : st.find cfg k = some s) :
    cfg.mkKey s.id = k ∧ m.recs s.id = some s.repr ∧ m.known s.id ∧ s.started ≤ st.now := by
  obtain ⟨hs, hk, hu⟩ := find_some hf
  obtain ⟨hr, _, hst⟩ := h.recOf s hs
  exact ⟨hk, hr, ⟨s.repr, hr, by simp [Sub.repr, hu], rfl⟩, hst⟩

theorem find_none_of_unknown {cfg : Cfg} {st : State} {m : Mon} (h : Sim cfg st m) (k : Key)
    (hu : ∀ i, cfg.mkKey i = k → ¬ m.known i) : st.find cfg k = none := by
  cases hf : st.find cfg k with
  | none => rfl
  | some s =>
    obtain ⟨hk, _, hkn, _⟩ := find_known h hf
    exact absurd hkn (hu s.id hk)

theorem find_of_alive {cfg : Cfg} {st : State} {m : Mon} (hw : cfg.WF) (h : Sim cfg st m) {i : Nat} {r : Rec}
    (hr : m.recs i = some r) (ha : r.alive cfg st.now) :
    ∃ s, st.find cfg (cfg.mkKey i) = some s ∧ s.id = i ∧ s.repr = r := by
  obtain ⟨s, hs, rfl, hrep⟩ := alive_mem h hr ha
  obtain ⟨_, hc, hst⟩ := h.recOf s hs
  have hv := (alive_iff cfg st.now s hc hst).mp (hrep ▸ ha)
  have hh : hit cfg (cfg.mkKey s.id) s = true := hit_iff.mpr ⟨rfl, hv.2⟩
  cases hf : st.find cfg (cfg.mkKey s.id) with
  | none => exact absurd hh (by rw [find_none hf s hs]; simp)
  | some s0 =>
    have := hit_of_key hw h hf hs rfl
    subst this
    exact ⟨s, rfl, rfl, hrep⟩


/-! ### runs -/

theorem runBoth_append (cfg : Cfg) (ops1 ops2 : List Op) :
    ∀ sm : State × Mon, runBoth cfg sm (ops1 ++ ops2) = runBoth cfg (runBoth cfg sm ops1) ops2 := by
  induction ops1 with
  | nil => intro sm; rfl
  | cons op ops ih => intro sm; obtain ⟨st, m⟩ := sm; simp only [List.cons_append, runBoth]; exact ih _

theorem reach_append (cfg : Cfg) (ops1 ops2 : List Op) :
    reach cfg (ops1 ++ ops2) = runBoth cfg (reach cfg ops1) ops2 := runBoth_append cfg ops1 ops2 _

theorem reach_snoc (cfg : Cfg) (ops : List Op) (op : Op) :
    reach cfg (ops ++ [op]) =
      ((step cfg (reach cfg ops).1 op).1, (reach cfg ops).2.step cfg op (step cfg (reach cfg ops).1 op).2) := by
  rw [reach_append]; rfl

/-- unsubscribed or ended, as seen by the observer -/
def Mon.gone (m : Mon) (i : Nat) : Prop :=
  match m.recs i with
  | some r => r.unsub = true ∨ r.ended = true
  | none => False

instance (m : Mon) (i : Nat) : Decidable (m.gone i) := by
  unfold Mon.gone; split <;> infer_instance

theorem gone_not_known {m : Mon} {i : Nat} (h : m.gone i) : ¬ m.known i := by
  rintro ⟨r', hr', hu, he⟩
  simp only [Mon.gone, hr'] at h
  rcases h with h | h <;> simp_all

/-- once gone, always gone: no op brings an unsubscribed / ended subscription back -/
theorem gone_step {cfg : Cfg} {st : State} {m : Mon} (h : Sim cfg st m) (op : Op) {i : Nat} (hg : m.gone i) :
    (m.step cfg op (step cfg st op).2).gone i := by
  cases hr : m.recs i with
  | none => simp [Mon.gone, hr] at hg
  | some r =>
  simp only [Mon.gone, hr] at hg
  have hlt : i < st.nextId := by
    rcases Nat.lt_or_ge i st.nextId with hlt | hge
    · exact hlt
    · have := h.fresh i hge; rw [hr] at this; cases this
  cases op with
  | subscribe nt et f d e nr er =>
    cases f with
    | none => simp only [step, Mon.step, Mon.gone, hr]; exact hg
    | some f =>
      by_cases hd : (cfg.checkDialect && !d) = true
      · simp only [step, hd, if_true, Mon.step, Mon.gone, hr]; exact hg
      · have hne : i ≠ st.nextId := by omega
        have hid : (renewed cfg st.now e ⟨st.nextId, nt, et, f, 0, 0, 0, false, none, nr, et.isSome && er⟩).id = st.nextId := rfl
        simp only [step, hd, Bool.false_eq_true, if_false, Mon.step, Mon.gone, hid, hne, hr]; exact hg
  | renew k e =>
    cases hf : st.find cfg k with
    | none => simp only [step, hf, Mon.step, Mon.gone, hr]; exact hg
    | some s0 =>
      by_cases hk : cfg.mkKey i = k
      · simp only [step, hf, Mon.step, Mon.gone, hk, if_true, hr, Option.map_some]; exact hg
      · simp only [step, hf, Mon.step, Mon.gone, hk, if_false, hr]; exact hg
  | getStatus k => cases hf : st.find cfg k <;> simp only [step, hf, Mon.step, Mon.gone, hr] <;> exact hg
  | unsubscribe k =>
    cases hf : st.find cfg k with
    | none => simp only [step, hf, Mon.step, Mon.gone, hr]; exact hg
    | some s0 =>
      by_cases hk : cfg.mkKey i = k
      · simp only [step, hf, Mon.step, Mon.gone, hk, if_true, hr, Option.map_some]; exact Or.inl trivial
      · simp only [step, hf, Mon.step, Mon.gone, hk, if_false, hr]; exact hg
  | notify a ov =>
    simp only [step, Mon.step, Mon.gone, hr, Option.map_some]
    split <;> exact hg
  | tick dt => simp only [step, Mon.step, Mon.gone, hr]; exact hg
  | setOutcome a o => simp only [step, Mon.step, Mon.gone, hr]; exact hg
  | housekeeping => simp only [step, Mon.step, Mon.gone, hr]; exact hg
  | stop b ov => simp only [step, Mon.step, Mon.gone, hr, Option.map_some]; exact Or.inr trivial

theorem gone_runBoth {cfg : Cfg} (hw : cfg.WF) (ops : List Op) {i : Nat} :
    ∀ (st : State) (m : Mon), Sim cfg st m → m.gone i → (runBoth cfg (st, m) ops).2.gone i := by
  induction ops with
  | nil => intro st m _ hg; exact hg
  | cons op ops ih =>
    intro st m h hg
    simp only [runBoth]
    exact ih _ _ (sim_step hw h op) (gone_step h op hg)

end Sdc.Eventing
