import SdcModel.Proofs.MdibWF
/-!
# per-object version counters never decrease (state and context transactions)
`seenX t h` = the version of the live object, or the saved version of the removed one
-/
set_option linter.unusedSimpArgs false
namespace Sdc.Mdib

def seenS (t : Tables) (h : Handle) : Option Nat :=
  match findS t h with | some s => some s.sv | none => savedGet t.sSaved h
def seenC (t : Tables) (h : Handle) : Option Nat :=
  match findC t h with | some c => some c.sv | none => savedGet t.cSaved h
def seenD (t : Tables) (h : Handle) : Option Nat :=
  match findD t h with | some d => some d.ver | none => savedGet t.dSaved h

@[simp] theorem seenS_ver (t : Tables) (v : Nat) (h : Handle) : seenS { t with ver := v } h = seenS t h := rfl
@[simp] theorem seenC_ver (t : Tables) (v : Nat) (h : Handle) : seenC { t with ver := v } h = seenC t h := rfl
@[simp] theorem seenD_ver (t : Tables) (v : Nat) (h : Handle) : seenD { t with ver := v } h = seenD t h := rfl

/-! ## single states -/

theorem seenS_putState_self (t : Tables) {h : Handle} {n : SState} (hn : n.dh = h) : seenS (putState t h n) h = some n.sv := by
  simp [seenS, findS_putState_self t hn]
theorem seenS_putState_ne (t : Tables) {h h' : Handle} {n : SState} (hn : n.dh = h) (hne : h' ≠ h) :
    seenS (putState t h n) h' = seenS t h' := by
  simp [seenS, findS_putState_ne t hn hne, sSaved_rmState_ne t hne]

theorem seenS_le_of_bump {t : Tables} {h : Handle} {v : Nat}
    (hb : (∀ o, findS t h = some o → o.sv < v) ∧ (findS t h = none → savedGet t.sSaved h ≤ some v)) : seenS t h ≤ some v := by
  unfold seenS
  cases hf : findS t h with
  | none => exact hb.2 hf
  | some o => simp only [Option.some_le_some]; exact Nat.le_of_lt (hb.1 o hf)

theorem applySItems_seenS {t : Tables} {items : List (Handle × SItem)} (hi : SItemsOK t items) (h : Handle) :
    seenS t h ≤ seenS (applySItems t items).1 h := by
  induction items generalizing t with
  | nil => exact optLe_refl _
  | cons p rest ih =>
    obtain ⟨h0, it⟩ := p
    rw [applySItems_cons hi]
    have hdh : it.new.dh = h0 := hi.dh (h0, it) (by simp)
    refine optLe_trans ?_ (ih hi.tail)
    by_cases e : h = h0
    · subst e; rw [seenS_putState_self t hdh]; exact seenS_le_of_bump (hi.bump (h, it) (by simp))
    · rw [seenS_putState_ne t hdh e]; exact optLe_refl _

theorem dictGet_cons {α : Type} (h0 h : Handle) (v : α) (l : List (Handle × α)) :
    dictGet ((h0, v) :: l) h = if h0 = h then some v else dictGet l h := by
  by_cases e : h0 = h <;> simp [dictGet, List.find?_cons, e]

/-- the single-state table after the commit: the new state of every item, everything else as before -/
theorem applySItems_findS {t : Tables} {items : List (Handle × SItem)} (hi : SItemsOK t items) (h : Handle) :
    findS (applySItems t items).1 h = match dictGet items h with | some it => some it.new | none => findS t h := by
  induction items generalizing t with
  | nil => rfl
  | cons p rest ih =>
    obtain ⟨h0, it⟩ := p
    rw [applySItems_cons hi, ih hi.tail, dictGet_cons]
    have hdh : it.new.dh = h0 := hi.dh (h0, it) (by simp)
    have hk := hi.keys
    simp only [List.map_cons, List.nodup_cons] at hk
    by_cases e : h0 = h
    · subst e
      rw [dictGet_none_iff.2 hk.1]; simp [findS_putState_self t hdh]
    · simp only [e, if_false]
      rw [findS_putState_ne t hdh (Ne.symm e)]

/-- a state whose published content changed carries a larger StateVersion -/
theorem applySItems_change {t : Tables} {items : List (Handle × SItem)} (hi : SItemsOK t items) {h : Handle} {a b : SState}
    (ha : findS t h = some a) (hb : findS (applySItems t items).1 h = some b) : a = b ∨ a.sv < b.sv := by
  rw [applySItems_findS hi] at hb
  cases hg : dictGet items h with
  | none => rw [hg] at hb; simp only at hb; left; rw [ha] at hb; exact Option.some.inj hb
  | some it =>
    rw [hg] at hb; simp only [Option.some.injEq] at hb
    right; rw [← hb]
    exact (hi.bump (h, it) (dictGet_some_mem hg)).1 a ha

theorem commitS_seenS {t : Tables} {tx : STx} (hi : SItemsOK t tx.items) (h : Handle) : seenS t h ≤ seenS (commitS t tx).1 h := by
  unfold commitS
  split
  · exact optLe_refl _
  · exact applySItems_seenS (hi.of_ver (t.ver + 1)) h

theorem commitS_change {t : Tables} {tx : STx} (hi : SItemsOK t tx.items) {h : Handle} {a b : SState}
    (ha : findS t h = some a) (hb : findS (commitS t tx).1 h = some b) : a = b ∨ a.sv < b.sv := by
  unfold commitS at hb
  split at hb
  · left; rw [ha] at hb; exact Option.some.inj hb
  · exact applySItems_change (hi.of_ver (t.ver + 1)) ha hb

/-- reduce a statement about `(runS t s).1` to the commit of good items (every other outcome returns `t`) -/
theorem runS_cases {t : Tables} (hw : WF t) (s : SScript) :
    (runS t s).1 = t ∨ ∃ tx : STx, SItemsOK t tx.items ∧ (runS t s).1 = (commitS t tx).1 := by
  unfold runS
  split
  · exact .inl rfl
  · rename_i tx htx
    split
    · exact .inl rfl
    · right
      refine ⟨tx, sCalls_ok hw htx, ?_⟩
      split <;> (rename_i heq; rw [heq])

theorem runS_seenS {t : Tables} (hw : WF t) (s : SScript) (h : Handle) : seenS t h ≤ seenS (runS t s).1 h := by
  rcases runS_cases hw s with e | ⟨tx, hi, e⟩
  · rw [e]; exact optLe_refl _
  · rw [e]; exact commitS_seenS hi h

theorem runS_change {t : Tables} (hw : WF t) (s : SScript) {h : Handle} {a b : SState}
    (ha : findS t h = some a) (hb : findS (runS t s).1 h = some b) : a = b ∨ a.sv < b.sv := by
  rcases runS_cases hw s with e | ⟨tx, hi, e⟩
  · rw [e, ha] at hb; exact .inl (Option.some.inj hb)
  · rw [e] at hb; exact commitS_change hi ha hb

/-! ## context states -/

theorem seenC_putCtx_ne (t : Tables) {h h' : Handle} {n : Option CState} (hn : ∀ x ∈ n, x.h = h) (hne : h' ≠ h) :
    seenC (putCtx t h n) h' = seenC t h' := by
  simp [seenC, findC_putCtx_ne t hn hne, cSaved_rmCtx_ne t hne]

/-- a replaced state shows its new version, a deleted one the saved version = its last version -/
theorem seenC_putCtx_self (t : Tables) {h : Handle} {n : Option CState} (hn : ∀ x ∈ n, x.h = h) :
    seenC (putCtx t h n) h = match n with | some x => some x.sv | none => seenC t h := by
  unfold seenC
  rw [findC_putCtx_self t hn]
  cases n with
  | some x => rfl
  | none =>
    simp only [putCtx_cSaved, cSaved_rmCtx_self]
    cases findC t h <;> rfl

theorem applyCItems_seenC {t : Tables} {items : List (Handle × CItem)} (hi : CItemsOK true t items) (h : Handle) :
    seenC t h ≤ seenC (applyCItems t items).1 h := by
  induction items generalizing t with
  | nil => exact optLe_refl _
  | cons p rest ih =>
    obtain ⟨h0, it⟩ := p
    have hh := hi.h (h0, it) (by simp)
    rw [applyCItems_cons hh (hi.exact (h0, it) (by simp))]
    refine optLe_trans ?_ (ih hi.tail)
    by_cases e : h = h0
    · subst e
      rw [seenC_putCtx_self t hh]
      obtain ⟨old, new⟩ := it
      cases new with
      | none => exact optLe_refl _
      | some n =>
        have hb := hi.bump rfl (h, ⟨old, some n⟩) (by simp) n rfl
        simp only
        unfold seenC
        cases hf : findC t h with
        | none => exact hb.2 hf
        | some o => simp only [Option.some_le_some]; exact Nat.le_of_lt (hb.1 o hf)
    · rw [seenC_putCtx_ne t hh e]; exact optLe_refl _

theorem applyCItems_findC {t : Tables} {items : List (Handle × CItem)} (hi : CItemsOK true t items) (h : Handle) :
    findC (applyCItems t items).1 h = match dictGet items h with | some it => it.new | none => findC t h := by
  induction items generalizing t with
  | nil => rfl
  | cons p rest ih =>
    obtain ⟨h0, it⟩ := p
    have hh := hi.h (h0, it) (by simp)
    rw [applyCItems_cons hh (hi.exact (h0, it) (by simp)), ih hi.tail, dictGet_cons]
    have hk := hi.keys
    simp only [List.map_cons, List.nodup_cons] at hk
    by_cases e : h0 = h
    · subst e
      rw [dictGet_none_iff.2 hk.1]; simp [findC_putCtx_self t hh]
    · simp only [e, if_false]
      rw [findC_putCtx_ne t hh (Ne.symm e)]

theorem applyCItems_change {t : Tables} {items : List (Handle × CItem)} (hi : CItemsOK true t items) {h : Handle} {a b : CState}
    (ha : findC t h = some a) (hb : findC (applyCItems t items).1 h = some b) : a = b ∨ a.sv < b.sv := by
  rw [applyCItems_findC hi] at hb
  cases hg : dictGet items h with
  | none => rw [hg] at hb; simp only at hb; left; rw [ha] at hb; exact Option.some.inj hb
  | some it =>
    rw [hg] at hb; simp only at hb
    right
    exact (hi.bump rfl (h, it) (dictGet_some_mem hg) b hb).1 a ha

theorem commitC_seenC {t : Tables} {tx : CTx} (hi : CItemsOK true t tx.items) (h : Handle) : seenC t h ≤ seenC (commitC t tx).1 h := by
  unfold commitC
  split
  · exact optLe_refl _
  · exact applyCItems_seenC (hi.of_ver (t.ver + 1)) h

theorem commitC_change {t : Tables} {tx : CTx} (hi : CItemsOK true t tx.items) {h : Handle} {a b : CState}
    (ha : findC t h = some a) (hb : findC (commitC t tx).1 h = some b) : a = b ∨ a.sv < b.sv := by
  unfold commitC at hb
  split at hb
  · left; rw [ha] at hb; exact Option.some.inj hb
  · exact applyCItems_change (hi.of_ver (t.ver + 1)) ha hb

theorem runC_cases {t : Tables} (hw : WF t) (s : CScript) (hf : FreshUuids t s) :
    (runC t s).1 = t ∨ ∃ tx : CTx, CItemsOK true t tx.items ∧ (runC t s).1 = (commitC t tx).1 := by
  unfold runC
  split
  · exact .inl rfl
  · rename_i tx htx
    split
    · exact .inl rfl
    · right
      refine ⟨tx, cCalls_ok hw hf htx, ?_⟩
      split <;> (rename_i heq; rw [heq])

theorem runC_seenC {t : Tables} (hw : WF t) (s : CScript) (hf : FreshUuids t s) (h : Handle) : seenC t h ≤ seenC (runC t s).1 h := by
  rcases runC_cases hw s hf with e | ⟨tx, hi, e⟩
  · rw [e]; exact optLe_refl _
  · rw [e]; exact commitC_seenC hi h

theorem runC_change {t : Tables} (hw : WF t) (s : CScript) (hf : FreshUuids t s) {h : Handle} {a b : CState}
    (ha : findC t h = some a) (hb : findC (runC t s).1 h = some b) : a = b ∨ a.sv < b.sv := by
  rcases runC_cases hw s hf with e | ⟨tx, hi, e⟩
  · rw [e, ha] at hb; exact .inl (Option.some.inj hb)
  · rw [e] at hb; exact commitC_change hi ha hb

end Sdc.Mdib

namespace Sdc.Mdib

/-! ## frames: a state transaction touches only `states`/`sSaved`, a context transaction only `ctx`/`cSaved` -/

def FrS (t' t : Tables) : Prop := t'.descrs = t.descrs ∧ t'.ctx = t.ctx ∧ t'.dSaved = t.dSaved ∧ t'.cSaved = t.cSaved
def FrC (t' t : Tables) : Prop := t'.descrs = t.descrs ∧ t'.states = t.states ∧ t'.dSaved = t.dSaved ∧ t'.sSaved = t.sSaved

theorem FrS.trans {a b c : Tables} (h1 : FrS a b) (h2 : FrS b c) : FrS a c :=
  ⟨h1.1.trans h2.1, h1.2.1.trans h2.2.1, h1.2.2.1.trans h2.2.2.1, h1.2.2.2.trans h2.2.2.2⟩
theorem FrC.trans {a b c : Tables} (h1 : FrC a b) (h2 : FrC b c) : FrC a c :=
  ⟨h1.1.trans h2.1, h1.2.1.trans h2.2.1, h1.2.2.1.trans h2.2.2.1, h1.2.2.2.trans h2.2.2.2⟩
theorem FrS.rm (t : Tables) (h : Handle) : FrS (rmState t h) t := ⟨by simp, by simp, by simp, by simp⟩
theorem FrC.rm (t : Tables) (h : Handle) : FrC (rmCtx t h) t := ⟨by simp, by simp, by simp, by simp⟩
theorem FrS.add {t t2 : Tables} {n : SState} (h : addState t n = .ok t2) : FrS t2 t := by
  obtain ⟨_, rfl⟩ := addState_ok_iff.1 h; exact ⟨rfl, rfl, rfl, rfl⟩
theorem FrC.add {t t2 : Tables} {n : CState} (h : addCtx t n = .ok t2) : FrC t2 t := by
  obtain ⟨_, rfl⟩ := addCtx_ok_iff.1 h; exact ⟨rfl, rfl, rfl, rfl⟩

theorem applySItems_frame (t : Tables) (items : List (Handle × SItem)) : FrS (applySItems t items).1 t := by
  induction items generalizing t with
  | nil => exact ⟨rfl, rfl, rfl, rfl⟩
  | cons p rest ih =>
    obtain ⟨h, ⟨old, new⟩⟩ := p
    cases old with
    | none =>
      simp only [applySItems]
      split
      · exact ⟨rfl, rfl, rfl, rfl⟩
      · rename_i t2 hadd; exact (ih t2).trans (FrS.add hadd)
    | some o =>
      simp only [applySItems]
      split
      · exact FrS.rm t _
      · rename_i t2 hadd; exact ((ih t2).trans (FrS.add hadd)).trans (FrS.rm t _)

theorem applyCItems_frame (t : Tables) (items : List (Handle × CItem)) : FrC (applyCItems t items).1 t := by
  induction items generalizing t with
  | nil => exact ⟨rfl, rfl, rfl, rfl⟩
  | cons p rest ih =>
    obtain ⟨h, ⟨old, new⟩⟩ := p
    cases old with
    | none =>
      cases new with
      | none => simp only [applyCItems]; exact ih t
      | some n =>
        simp only [applyCItems]
        split
        · exact ⟨rfl, rfl, rfl, rfl⟩
        · rename_i t2 hadd; exact (ih t2).trans (FrC.add hadd)
    | some o =>
      cases new with
      | none => simp only [applyCItems]; exact (ih _).trans (FrC.rm t _)
      | some n =>
        simp only [applyCItems]
        split
        · exact FrC.rm t _
        · rename_i t2 hadd; exact ((ih t2).trans (FrC.add hadd)).trans (FrC.rm t _)

theorem runS_frame (t : Tables) (s : SScript) : FrS (runS t s).1 t := by
  unfold runS
  split
  · exact ⟨rfl, rfl, rfl, rfl⟩
  · rename_i tx _
    split
    · exact ⟨rfl, rfl, rfl, rfl⟩
    · have key : FrS (commitS t tx).1 t := by
        unfold commitS; split
        · exact ⟨rfl, rfl, rfl, rfl⟩
        · exact applySItems_frame _ _
      split <;> (rename_i heq; rw [heq] at key; exact key)

theorem runC_frame (t : Tables) (s : CScript) : FrC (runC t s).1 t := by
  unfold runC
  split
  · exact ⟨rfl, rfl, rfl, rfl⟩
  · rename_i tx _
    split
    · exact ⟨rfl, rfl, rfl, rfl⟩
    · have key : FrC (commitC t tx).1 t := by
        unfold commitC; split
        · exact ⟨rfl, rfl, rfl, rfl⟩
        · exact applyCItems_frame _ _
      split <;> (rename_i heq; rw [heq] at key; exact key)

theorem seenS_congr {t t' : Tables} (h1 : t'.states = t.states) (h2 : t'.sSaved = t.sSaved) (h : Handle) : seenS t' h = seenS t h := by
  simp [seenS, findS, h1, h2]
theorem seenC_congr {t t' : Tables} (h1 : t'.ctx = t.ctx) (h2 : t'.cSaved = t.cSaved) (h : Handle) : seenC t' h = seenC t h := by
  simp [seenC, findC, h1, h2]
theorem seenD_congr {t t' : Tables} (h1 : t'.descrs = t.descrs) (h2 : t'.dSaved = t.dSaved) (h : Handle) : seenD t' h = seenD t h := by
  simp [seenD, findD, h1, h2]

end Sdc.Mdib

namespace Sdc.Mdib

/-! ## removing an object does not change what was seen of its version counter (the version moves to the saved lookup) -/

theorem seenD_rmDescr (t : Tables) (h h' : Handle) : seenD (rmDescr t h) h' = seenD t h' := by
  unfold seenD
  by_cases e : h' = h
  · subst e
    rw [findD_rmDescr_self, dSaved_rmDescr_self]
    cases findD t h' <;> rfl
  · rw [findD_rmDescr_ne t e, dSaved_rmDescr_ne t e]
theorem seenS_rmState (t : Tables) (h h' : Handle) : seenS (rmState t h) h' = seenS t h' := by
  unfold seenS
  by_cases e : h' = h
  · subst e
    rw [findS_rmState_self, sSaved_rmState_self]
    cases findS t h' <;> rfl
  · rw [findS_rmState_ne t e, sSaved_rmState_ne t e]
theorem seenC_rmCtx (t : Tables) (h h' : Handle) : seenC (rmCtx t h) h' = seenC t h' := by
  unfold seenC
  by_cases e : h' = h
  · subst e
    rw [findC_rmCtx_self, cSaved_rmCtx_self]
    cases findC t h' <;> rfl
  · rw [findC_rmCtx_ne t e, cSaved_rmCtx_ne t e]

@[simp] theorem seenD_rmState (t : Tables) (h h' : Handle) : seenD (rmState t h) h' = seenD t h' := by simp [seenD]
@[simp] theorem seenD_rmCtx (t : Tables) (h h' : Handle) : seenD (rmCtx t h) h' = seenD t h' := by simp [seenD]
@[simp] theorem seenS_rmDescr (t : Tables) (h h' : Handle) : seenS (rmDescr t h) h' = seenS t h' := by simp [seenS]
@[simp] theorem seenS_rmCtx (t : Tables) (h h' : Handle) : seenS (rmCtx t h) h' = seenS t h' := by simp [seenS]
@[simp] theorem seenC_rmDescr (t : Tables) (h h' : Handle) : seenC (rmDescr t h) h' = seenC t h' := by simp [seenC]
@[simp] theorem seenC_rmState (t : Tables) (h h' : Handle) : seenC (rmState t h) h' = seenC t h' := by simp [seenC]

theorem seen_foldl_rmCtx (l : List CState) (t : Tables) (h : Handle) :
    seenD (l.foldl (fun t c => rmCtx t c.h) t) h = seenD t h ∧ seenS (l.foldl (fun t c => rmCtx t c.h) t) h = seenS t h ∧
    seenC (l.foldl (fun t c => rmCtx t c.h) t) h = seenC t h := by
  induction l generalizing t with
  | nil => exact ⟨rfl, rfl, rfl⟩
  | cons c cs ih =>
    simp only [List.foldl_cons]
    obtain ⟨a, b, c'⟩ := ih (rmCtx t c.h)
    exact ⟨a.trans (seenD_rmCtx _ _ _), b.trans (seenS_rmCtx _ _ _), c'.trans (seenC_rmCtx _ _ _)⟩

theorem seen_rmDescrAndStates (t : Tables) (d : Descr) (h : Handle) :
    seenD (rmDescrAndStates t d) h = seenD t h ∧ seenS (rmDescrAndStates t d) h = seenS t h ∧
    seenC (rmDescrAndStates t d) h = seenC t h := by
  unfold rmDescrAndStates
  obtain ⟨a, b, c⟩ := seen_foldl_rmCtx (ctxOf (rmState (rmDescr t d.handle) d.handle) d.handle) (rmState (rmDescr t d.handle) d.handle) h
  refine ⟨a.trans ?_, b.trans ?_, c.trans ?_⟩
  · rw [seenD_rmState, seenD_rmDescr]
  · rw [seenS_rmState, seenS_rmDescr]
  · rw [seenC_rmState, seenC_rmDescr]

theorem seen_foldl_rmDescrAndStates (l : List Descr) (t : Tables) (h : Handle) :
    seenD (l.foldl rmDescrAndStates t) h = seenD t h ∧ seenS (l.foldl rmDescrAndStates t) h = seenS t h ∧
    seenC (l.foldl rmDescrAndStates t) h = seenC t h := by
  induction l generalizing t with
  | nil => exact ⟨rfl, rfl, rfl⟩
  | cons d ds ih =>
    simp only [List.foldl_cons]
    obtain ⟨a, b, c⟩ := ih (rmDescrAndStates t d)
    obtain ⟨a', b', c'⟩ := seen_rmDescrAndStates t d h
    exact ⟨a.trans a', b.trans b', c.trans c'⟩

end Sdc.Mdib
