import SdcModel.Scalars
import SdcModel.Proofs.Fp64
/-! timestamps: the two roundings of `n / 1000 * 1000` stay closer than 1/2 to `n`, for every `n < 2^53 / 1000` -/
namespace Sdc.Scalars
open Sdc.Fp64

/-- abstract form: two operations with relative error `u = 2^-53` -/
theorem ts_close (x y : ℚ) (n : ℕ) (hn : (n:ℚ) < 2 ^ 53 / 1000)
    (h1 : |x - (n:ℚ) / 1000| ≤ (n:ℚ) / 1000 * u) (h2 : |y - x * 1000| ≤ x * 1000 * u) :
    |y - n| < 1 / 2 := by
  unfold u at h1 h2
  have hn0 : (0:ℚ) ≤ n := by positivity
  -- |x*1000 - n| ≤ n u
  have e1 : |x * 1000 - n| ≤ (n:ℚ) * (1 / 2 ^ 53) := by
    have : x * 1000 - n = (x - (n:ℚ) / 1000) * 1000 := by ring
    rw [this, abs_mul]
    have : |(1000:ℚ)| = 1000 := by norm_num
    rw [this]
    calc |x - (n:ℚ) / 1000| * 1000 ≤ (n:ℚ) / 1000 * (1 / 2 ^ 53) * 1000 := by nlinarith [h1]
      _ = (n:ℚ) * (1 / 2 ^ 53) := by ring
  have e2 : x * 1000 ≤ (n:ℚ) * (1 + 1 / 2 ^ 53) := by
    have := (abs_le.mp e1).2; linarith
  have e3 : |y - x * 1000| ≤ (n:ℚ) * (1 + 1 / 2 ^ 53) * (1 / 2 ^ 53) := by
    calc |y - x * 1000| ≤ x * 1000 * (1 / 2 ^ 53) := h2
      _ ≤ (n:ℚ) * (1 + 1 / 2 ^ 53) * (1 / 2 ^ 53) := by
        apply mul_le_mul_of_nonneg_right e2; norm_num
  have tri : |y - n| ≤ |y - x * 1000| + |x * 1000 - n| := by
    have : y - n = (y - x * 1000) + (x * 1000 - n) := by ring
    rw [this]; exact abs_add_le _ _
  have bound : (n:ℚ) * (1 + 1 / 2 ^ 53) * (1 / 2 ^ 53) + (n:ℚ) * (1 / 2 ^ 53) < 1 / 2 := by
    have : (n:ℚ) * (1 + 1 / 2 ^ 53) * (1 / 2 ^ 53) + (n:ℚ) * (1 / 2 ^ 53)
        = (n:ℚ) * ((1 + 1 / 2 ^ 53) * (1 / 2 ^ 53) + 1 / 2 ^ 53) := by ring
    rw [this]
    have c : ((1:ℚ) + 1 / 2 ^ 53) * (1 / 2 ^ 53) + 1 / 2 ^ 53 ≤ 3 / 2 ^ 53 := by norm_num
    have : (n:ℚ) * ((1 + 1 / 2 ^ 53) * (1 / 2 ^ 53) + 1 / 2 ^ 53) ≤ (2 ^ 53 / 1000) * (3 / 2 ^ 53) := by
      apply mul_le_mul (le_of_lt hn) c (by positivity) (by positivity)
    have : ((2:ℚ) ^ 53 / 1000) * (3 / 2 ^ 53) < 1 / 2 := by norm_num
    linarith
  linarith

/-- `round(int(n) / 1000 * 1000) = n` on the executable model, for every `n` with `n * 1000 < 2^53` -/
theorem tsXml_tsPy (n : Nat) (h : n * 1000 < 2 ^ 53) : tsXml (tsPy (n : Int)) = (n : Int) := by
  have hneg : decide ((n : Int) < 0) = false := by simp
  have hx : tsPy (n : Int) = rnRat false n 1000 := by
    unfold tsPy; rw [hneg]; simp
  rw [hx]
  unfold tsXml roundInt
  have hn' : (rnMul (rnRat false n 1000) 1000).neg = false := by
    unfold rnMul; rw [rnRat_neg, rnRat_neg]
  rw [hn']
  simp only [Bool.false_eq_true, if_false]
  congr 1
  apply roundHalfEven_near
  have h1 := rnRat_err false n 1000 (by norm_num)
  have h2 := rnMul_err (rnRat false n 1000) 1000
  have hn : (n:ℚ) < 2 ^ 53 / 1000 := by
    rw [lt_div_iff₀ (by norm_num)]; exact_mod_cast h
  push_cast at h1 h2
  exact ts_close _ _ n hn h1 h2

/-- Python → XML → Python: the float that comes back differs by less than one millisecond (`0 ≤ x ≤ 2^41` s) -/
theorem tsPy_tsXml_close (x : Fp) (hpos : x.neg = false) (hx : x.abs ≤ 2 ^ 41) :
    ∃ k : Nat, tsXml x = (k : Int) ∧ |(tsPy (k : Int)).abs - x.abs| < 1 / 1000 := by
  refine ⟨roundHalfEven (rnMul x 1000), ?_, ?_⟩
  · unfold tsXml roundInt
    have : (rnMul x 1000).neg = false := by unfold rnMul; rw [rnRat_neg, hpos]
    rw [this]; simp
  · set y := rnMul x 1000 with hy
    set k := roundHalfEven y with hk
    have hneg : decide ((k : Int) < 0) = false := by simp
    have hz : tsPy (k : Int) = rnRat false k 1000 := by
      unfold tsPy; rw [hneg]; simp
    rw [hz]
    have h1 := rnMul_err x 1000
    have h2 := roundHalfEven_err y
    have h3 := rnRat_err false k 1000 (by norm_num)
    rw [← hy] at h1
    rw [← hk] at h2
    push_cast at h1 h3
    have hx0 := Fp.abs_nonneg x
    unfold u at h1 h3
    set X := x.abs
    set Y := y.abs
    set Z := (rnRat false k 1000).abs
    set K : ℚ := (k : ℚ)
    obtain ⟨h1a, h1b⟩ := abs_le.mp h1
    obtain ⟨h2a, h2b⟩ := abs_le.mp h2
    obtain ⟨h3a, h3b⟩ := abs_le.mp h3
    have hK0 : (0:ℚ) ≤ K := by positivity
    -- A = X * 2^-53 ≤ 2^-12
    have hA : X * (1 / 2 ^ 53) ≤ 1 / 2 ^ 12 := by
      have : X * (1 / 2 ^ 53) ≤ 2 ^ 41 * (1 / 2 ^ 53) := mul_le_mul_of_nonneg_right hx (by positivity)
      norm_num at this ⊢; linarith
    have hKb : K ≤ X * 1000 * (1 + 1 / 2 ^ 53) + 1 / 2 := by linarith
    have hKu : K / 1000 * (1 / 2 ^ 53) ≤ (X * 1000 * (1 + 1 / 2 ^ 53) + 1 / 2) / 1000 * (1 / 2 ^ 53) := by
      apply mul_le_mul_of_nonneg_right _ (by positivity)
      exact div_le_div_of_nonneg_right hKb (by norm_num)
    have hexp : (X * 1000 * (1 + 1 / 2 ^ 53) + 1 / 2) / 1000 * (1 / 2 ^ 53)
        = X * (1 / 2 ^ 53) * (1 + 1 / 2 ^ 53) + 1 / 2000 * (1 / 2 ^ 53) := by ring
    have hAA : X * (1 / 2 ^ 53) * (1 + 1 / 2 ^ 53) ≤ 1 / 2 ^ 12 * (1 + 1 / 2 ^ 53) :=
      mul_le_mul_of_nonneg_right hA (by positivity)
    rw [abs_lt]
    constructor
    · have : (1:ℚ) / 2 ^ 12 * (1 + 1 / 2 ^ 53) + 1 / 2000 * (1 / 2 ^ 53) + 1 / 2000 + 1 / 2 ^ 12 < 1 / 1000 := by norm_num
      linarith
    · have : (1:ℚ) / 2 ^ 12 * (1 + 1 / 2 ^ 53) + 1 / 2000 * (1 / 2 ^ 53) + 1 / 2000 + 1 / 2 ^ 12 < 1 / 1000 := by norm_num
      linarith

end Sdc.Scalars
