import SdcModel.Eventing
/-!
Helper lemmas for C08: the simulation invariant `Sim` between the manager model and the subscriber-side
reference monitor, preserved by every op (core Lean only).
-/
namespace Sdc.Eventing

/-- distinct subscriptions have distinct dispatch identifiers (uuid4 in the code) -/
def Cfg.WF (cfg : Cfg) : Prop := ∀ a b, cfg.mkKey a = cfg.mkKey b → a = b

theorem Dispatch.mkKey_injective (d : Dispatch) : ∀ a b, d.mkKey a = d.mkKey b → a = b := by
  intro a b h
  cases d <;> simp [Dispatch.mkKey] at h <;> exact h

/-- what the observer should know about a subscription held by the manager -/
def Sub.repr (s : Sub) : Rec :=
  ⟨s.notifyTo, s.endTo, s.filter, s.started, s.expire, s.errors, s.unsubAt.isSome, false, s.notifyRef, s.endRef⟩

theorem grant_le_max (cfg : Cfg) (e : Option Nat) : grant cfg e ≤ cfg.maxDur := by
  unfold grant; split <;> omega

theorem grant_le_req (cfg : Cfg) (r : Nat) (h : 0 < r) : grant cfg (some r) ≤ r := by
  cases r with
  | zero => omega
  | succ n => simp only [grant]; omega

theorem grant_zero (cfg : Cfg) : grant cfg (some 0) = cfg.maxDur := rfl
theorem grant_none (cfg : Cfg) : grant cfg none = cfg.maxDur := rfl

theorem renewed_remaining (cfg : Cfg) (now : Nat) (e : Option Nat) (s : Sub) :
    (renewed cfg now e s).remaining now = grant cfg e := by
  simp [renewed, Sub.remaining]

/-- `is_valid` and "not unsubscribed" of the manager's object = `alive` of the observer's record -/
theorem alive_iff (cfg : Cfg) (now : Nat) (s : Sub) (hc : s.closed = false) (hs : s.started ≤ now) :
    s.repr.alive cfg now ↔ (s.valid cfg now = true ∧ s.unsubAt = none) := by
  simp only [Rec.alive, Sub.repr, Sub.valid, Sub.remaining, hc, Bool.not_false, Bool.true_and,
    Bool.and_eq_true, decide_eq_true_eq, Option.isSome_eq_false_iff, Option.isNone_iff_eq_none]
  constructor
  · rintro ⟨h1, _, h3, h4⟩
    exact ⟨⟨decide_eq_true (by omega), h4⟩, h1⟩
  · rintro ⟨⟨h1, h2⟩, h3⟩
    have := of_decide_eq_true h1
    exact ⟨h3, trivial, by omega, h2⟩

theorem not_alive_mono (cfg : Cfg) (r : Rec) (now dt : Nat) (h : ¬ r.alive cfg now) : ¬ r.alive cfg (now + dt) := by
  intro ha
  apply h
  obtain ⟨h1, h2, h3, h4⟩ := ha
  exact ⟨h1, h2, by omega, h4⟩

/-! ### list facts -/

theorem eq_of_id_eq {l : List Sub} (hn : (l.map (·.id)).Nodup) {s t : Sub} (hs : s ∈ l) (ht : t ∈ l)
    (h : s.id = t.id) : s = t := by
  induction l with
  | nil => cases hs
  | cons x xs ih =>
    simp only [List.map_cons, List.nodup_cons, List.mem_map, not_exists, not_and] at hn
    rcases List.mem_cons.mp hs with rfl | hs' <;> rcases List.mem_cons.mp ht with rfl | ht'
    · rfl
    · exact absurd h.symm (hn.1 t ht')
    · exact absurd h (hn.1 s hs')
    · exact ih hn.2 hs' ht'

theorem map_id_of_preserving (f : Sub → Sub) (hf : ∀ s, (f s).id = s.id) (l : List Sub) :
    (l.map f).map (·.id) = l.map (·.id) := by
  simp [List.map_map, Function.comp_def, hf]


/-! ### the simulation invariant -/

structure Sim (cfg : Cfg) (st : State) (m : Mon) : Prop where
  now_eq : m.now = st.now
  nodup : (st.subs.map (·.id)).Nodup
  lt : ∀ s ∈ st.subs, s.id < st.nextId
  fresh : ∀ j, st.nextId ≤ j → m.recs j = none
  recOf : ∀ s ∈ st.subs, m.recs s.id = some s.repr ∧ s.closed = false ∧ s.started ≤ st.now
  dead : ∀ j r, m.recs j = some r → (∀ s ∈ st.subs, s.id ≠ j) → ¬ r.alive cfg st.now

theorem sim_init (cfg : Cfg) : Sim cfg init Mon.init :=
  ⟨rfl, by simp [init], by simp [init], fun _ _ => rfl, by simp [init], by simp [Mon.init]⟩

/-- ops that rewrite the subscriptions in place (ids untouched) -/
theorem Sim.map {cfg : Cfg} {st : State} {m : Mon} (h : Sim cfg st m) (f : Sub → Sub) (recs' : Nat → Option Rec)
    (hid : ∀ s, (f s).id = s.id)
    (h1 : ∀ s ∈ st.subs, recs' s.id = some (f s).repr ∧ (f s).closed = false ∧ (f s).started ≤ st.now)
    (h2 : ∀ j, (∀ s ∈ st.subs, s.id ≠ j) → recs' j = m.recs j) :
    Sim cfg { st with subs := st.subs.map f } { m with recs := recs' } := by
  refine ⟨h.now_eq, ?_, ?_, ?_, ?_, ?_⟩
  · show ((st.subs.map f).map (·.id)).Nodup
    rw [map_id_of_preserving f hid]; exact h.nodup
  · intro s' hs'
    obtain ⟨s, hs, rfl⟩ := List.mem_map.mp hs'
    rw [hid]; exact h.lt s hs
  · intro j hj
    have hj' : st.nextId ≤ j := hj
    have : ∀ s ∈ st.subs, s.id ≠ j := fun s hs => by have := h.lt s hs; omega
    show recs' j = none
    rw [h2 j this]; exact h.fresh j hj'
  · intro s' hs'
    obtain ⟨s, hs, rfl⟩ := List.mem_map.mp hs'
    show recs' (f s).id = _ ∧ _
    rw [hid]; exact h1 s hs
  · intro j r hr hn
    have hn' : ∀ s ∈ st.subs, s.id ≠ j := fun s hs => by
      have := hn (f s) (List.mem_map.mpr ⟨s, hs, rfl⟩); rwa [hid] at this
    have hr' : recs' j = some r := hr
    rw [h2 j hn'] at hr'
    exact h.dead j r hr' hn'

/-! ### lookup -/

theorem find_some {cfg : Cfg} {st : State} {k : Key} {s : Sub} (h : st.find cfg k = some s) :
    s ∈ st.subs ∧ cfg.mkKey s.id = k ∧ s.unsubAt = none := by
  have hp := List.find?_some h
  have hm := List.mem_of_find?_eq_some h
  simp only [hit, Bool.and_eq_true, beq_iff_eq, Option.isNone_iff_eq_none] at hp
  exact ⟨hm, hp.1, hp.2⟩

theorem find_none {cfg : Cfg} {st : State} {k : Key} (h : st.find cfg k = none) :
    ∀ s ∈ st.subs, hit cfg k s = false := by
  intro s hs
  have := List.find?_eq_none.mp h s hs
  simpa using this

theorem hit_iff {cfg : Cfg} {k : Key} {s : Sub} : hit cfg k s = true ↔ (cfg.mkKey s.id = k ∧ s.unsubAt = none) := by
  simp [hit]

/-- with unique ids and injective keys, the subscription found is the only one carrying the key -/
theorem hit_of_key {cfg : Cfg} {st : State} {m : Mon} (hw : cfg.WF) (h : Sim cfg st m) {k : Key} {s0 s : Sub}
    (hf : st.find cfg k = some s0) (hs : s ∈ st.subs) (hk : cfg.mkKey s.id = k) : s = s0 := by
  obtain ⟨hs0, hk0, _⟩ := find_some hf
  exact eq_of_id_eq h.nodup hs hs0 (hw _ _ (hk.trans hk0.symm))

theorem sim_renew {cfg : Cfg} {st : State} {m : Mon} (hw : cfg.WF) (h : Sim cfg st m) (k : Key) (e : Option Nat) :
    Sim cfg (step cfg st (.renew k e)).1 (m.step cfg (.renew k e) (step cfg st (.renew k e)).2) := by
  cases hf : st.find cfg k with
  | none => simp only [step, hf, Mon.step]; exact h
  | some s0 =>
    simp only [step, hf, Mon.step]
    obtain ⟨hs0, hk0, hu0⟩ := find_some hf
    refine h.map _ _ ?_ ?_ ?_
    · intro s; split <;> rfl
    · intro s hs
      obtain ⟨hr, hc, hst⟩ := h.recOf s hs
      by_cases hk : cfg.mkKey s.id = k
      · have := hit_of_key hw h hf hs hk
        subst this
        have hh : hit cfg k s = true := hit_iff.mpr ⟨hk, hu0⟩
        simp only [hk, if_true, hh, hr, Option.map_some, renewed_remaining]
        refine ⟨?_, hc, Nat.le_refl _⟩
        simp [Sub.repr, renewed, h.now_eq]
      · have hh : hit cfg k s = false := by
          cases hx : hit cfg k s with
          | false => rfl
          | true => exact absurd (hit_iff.mp hx).1 hk
        simp only [hk, if_false, hh, Bool.false_eq_true]
        exact ⟨hr, hc, hst⟩
    · intro j hj
      have : cfg.mkKey j ≠ k := fun hk => hj s0 hs0 (hw _ _ (hk0.trans hk.symm))
      simp only [this, if_false]

theorem sim_unsubscribe {cfg : Cfg} {st : State} {m : Mon} (hw : cfg.WF) (h : Sim cfg st m) (k : Key) :
    Sim cfg (step cfg st (.unsubscribe k)).1 (m.step cfg (.unsubscribe k) (step cfg st (.unsubscribe k)).2) := by
  cases hf : st.find cfg k with
  | none => simp only [step, hf, Mon.step]; exact h
  | some s0 =>
    simp only [step, hf, Mon.step]
    obtain ⟨hs0, hk0, hu0⟩ := find_some hf
    refine h.map _ _ ?_ ?_ ?_
    · intro s; split <;> rfl
    · intro s hs
      obtain ⟨hr, hc, hst⟩ := h.recOf s hs
      by_cases hk : cfg.mkKey s.id = k
      · have := hit_of_key hw h hf hs hk
        subst this
        have hh : hit cfg k s = true := hit_iff.mpr ⟨hk, hu0⟩
        simp only [hk, if_true, hh, hr, Option.map_some]
        refine ⟨?_, hc, hst⟩
        simp [Sub.repr]
      · have hh : hit cfg k s = false := by
          cases hx : hit cfg k s with
          | false => rfl
          | true => exact absurd (hit_iff.mp hx).1 hk
        simp only [hk, if_false, hh, Bool.false_eq_true]
        exact ⟨hr, hc, hst⟩
    · intro j hj
      have : cfg.mkKey j ≠ k := fun hk => hj s0 hs0 (hw _ _ (hk0.trans hk.symm))
      simp only [this, if_false]

theorem sim_getStatus {cfg : Cfg} {st : State} {m : Mon} (h : Sim cfg st m) (k : Key) :
    Sim cfg (step cfg st (.getStatus k)).1 (m.step cfg (.getStatus k) (step cfg st (.getStatus k)).2) := by
  cases hf : st.find cfg k <;> simp only [step, hf, Mon.step] <;> exact h

theorem sim_setOutcome {cfg : Cfg} {st : State} {m : Mon} (h : Sim cfg st m) (a : Nat) (o : Outcome) :
    Sim cfg (step cfg st (.setOutcome a o)).1 (m.step cfg (.setOutcome a o) (step cfg st (.setOutcome a o)).2) := by
  simp only [step, Mon.step]
  exact ⟨h.now_eq, h.nodup, h.lt, h.fresh, h.recOf, h.dead⟩

theorem sim_tick {cfg : Cfg} {st : State} {m : Mon} (h : Sim cfg st m) (dt : Nat) :
    Sim cfg (step cfg st (.tick dt)).1 (m.step cfg (.tick dt) (step cfg st (.tick dt)).2) := by
  simp only [step, Mon.step]
  refine ⟨by simp [h.now_eq], h.nodup, h.lt, h.fresh, ?_, ?_⟩
  · intro s hs
    obtain ⟨hr, hc, hst⟩ := h.recOf s hs
    exact ⟨hr, hc, Nat.le_trans hst (Nat.le_add_right _ _)⟩
  · intro j r hr hn
    exact not_alive_mono cfg r st.now dt (h.dead j r hr hn)

theorem sim_stop {cfg : Cfg} {st : State} {m : Mon} (h : Sim cfg st m) (b : Bool) (ov : List (Nat × Outcome)) :
    Sim cfg (step cfg st (.stop b ov)).1 (m.step cfg (.stop b ov) (step cfg st (.stop b ov)).2) := by
  simp only [step, Mon.step]
  refine ⟨h.now_eq, by simp, by simp, ?_, by simp, ?_⟩
  · intro j hj
    show (m.recs j).map _ = none
    rw [h.fresh j hj]; rfl
  · intro j r hr _
    have hr' : (m.recs j).map (fun x => { x with ended := true }) = some r := hr
    cases hm : m.recs j with
    | none => rw [hm] at hr'; cases hr'
    | some r0 =>
      rw [hm] at hr'
      simp only [Option.map_some, Option.some.injEq] at hr'
      subst hr'
      intro ha
      exact absurd ha.2.1 (by simp)

theorem sim_housekeeping {cfg : Cfg} {st : State} {m : Mon} (h : Sim cfg st m) :
    Sim cfg (step cfg st .housekeeping).1 (m.step cfg .housekeeping (step cfg st .housekeeping).2) := by
  simp only [step, Mon.step]
  refine ⟨h.now_eq, ?_, ?_, h.fresh, ?_, ?_⟩
  · exact List.Nodup.sublist (List.Sublist.map _ List.filter_sublist) h.nodup
  · intro s hs; exact h.lt s (List.mem_filter.mp hs).1
  · intro s hs; exact h.recOf s (List.mem_filter.mp hs).1
  · intro j r hr hn
    by_cases hex : ∃ s ∈ st.subs, s.id = j
    · obtain ⟨s, hs, rfl⟩ := hex
      obtain ⟨hr0, hc, hst⟩ := h.recOf s hs
      have hr' : m.recs s.id = some r := hr
      rw [hr0] at hr'
      cases hr'
      have hrem : ¬ ((!(obsolete cfg st.now s && !s.closed)) = true) := fun hp =>
        hn s (List.mem_filter.mpr ⟨hs, hp⟩) rfl
      simp only [hc, Bool.not_false, Bool.and_true, Bool.not_eq_true', Bool.not_eq_false] at hrem
      intro ha
      have hv := (alive_iff cfg st.now s hc hst).mp ha
      simp [obsolete, hv.1, hv.2] at hrem
    · have hn' : ∀ s ∈ st.subs, s.id ≠ j := fun s hs hj => hex ⟨s, hs, hj⟩
      exact h.dead j r hr hn'

theorem sim_subscribe {cfg : Cfg} {st : State} {m : Mon} (h : Sim cfg st m) (nt : Nat) (et : Option Nat)
    (filter : Option (List Str)) (d : Bool) (e : Option Nat) (nr er : Bool) :
    Sim cfg (step cfg st (.subscribe nt et filter d e nr er)).1
      (m.step cfg (.subscribe nt et filter d e nr er) (step cfg st (.subscribe nt et filter d e nr er)).2) := by
  cases filter with
  | none => simp only [step, Mon.step]; exact h
  | some f =>
    by_cases hd : (cfg.checkDialect && !d) = true
    · simp only [step, hd, if_true, Mon.step]; exact h
    · simp only [step, hd, Bool.false_eq_true, if_false, Mon.step, renewed_remaining]
      have hid : (renewed cfg st.now e ⟨st.nextId, nt, et, f, 0, 0, 0, false, none, nr, et.isSome && er⟩).id = st.nextId := rfl
      simp only [hid]
      refine ⟨h.now_eq, ?_, ?_, ?_, ?_, ?_⟩
      · show ((st.subs ++ [_]).map (fun x : Sub => x.id)).Nodup
        simp only [List.map_append, List.map_cons, List.map_nil, hid]
        refine List.nodup_append.mpr ⟨h.nodup, by simp, ?_⟩
        intro a ha b hb
        simp only [List.mem_singleton] at hb
        obtain ⟨s, hs, rfl⟩ := List.mem_map.mp ha
        have := h.lt s hs
        omega
      · intro s hs
        show s.id < st.nextId + 1
        rcases List.mem_append.mp hs with hs | hs
        · have := h.lt s hs; omega
        · simp only [List.mem_singleton] at hs; subst hs; simp [hid]
      · intro j hj
        have hj' : st.nextId + 1 ≤ j := hj
        have : j ≠ st.nextId := by omega
        simp only [this, if_false]
        exact h.fresh j (by omega)
      · intro s hs
        rcases List.mem_append.mp hs with hs | hs
        · have := h.lt s hs
          have hne : s.id ≠ st.nextId := by omega
          simp only [hne, if_false]
          exact h.recOf s hs
        · simp only [List.mem_singleton] at hs; subst hs
          simp only [hid, if_true]
          refine ⟨?_, rfl, Nat.le_refl _⟩
          simp [Sub.repr, renewed, h.now_eq]
      · intro j r hr hn
        have hne : j ≠ st.nextId := fun hj => hn _ (List.mem_append.mpr (Or.inr (List.mem_singleton.mpr rfl))) (by rw [hid, hj])
        simp only [hne, if_false] at hr
        exact h.dead j r hr (fun s hs => hn s (List.mem_append.mpr (Or.inl hs)))

/-! ### notification -/

def deliverable (cfg : Cfg) (st : State) (a : Str) (s : Sub) : Bool :=
  suffixMatch s.filter a && s.valid cfg st.now && s.unsubAt.isNone

theorem deliver_pos {cfg : Cfg} {st : State} {ov : List (Nat × Outcome)} {a : Str} {s : Sub} (h : deliverable cfg st a s = true) :
    deliver cfg st ov a s =
      ({ s with errors := if st.outcomeFor ov s.id s.notifyTo = .ok then 0 else s.errors + 1 },
       [⟨.notification a, s.id, s.notifyTo, st.outcomeFor ov s.id s.notifyTo, s.notifyRefs⟩]) := by
  unfold deliverable at h
  simp [deliver, h]

theorem deliver_neg {cfg : Cfg} {st : State} {ov : List (Nat × Outcome)} {a : Str} {s : Sub} (h : deliverable cfg st a s = false) :
    deliver cfg st ov a s = (s, []) := by
  unfold deliverable at h
  simp [deliver, h]

theorem deliver_id (cfg : Cfg) (st : State) (ov : List (Nat × Outcome)) (a : Str) (s : Sub) : (deliver cfg st ov a s).1.id = s.id := by
  cases h : deliverable cfg st a s
  · rw [deliver_neg h]
  · rw [deliver_pos h]

theorem deliver_msgs_sub {cfg : Cfg} {st : State} {ov : List (Nat × Outcome)} {a : Str} {s : Sub} :
    ∀ msg ∈ (deliver cfg st ov a s).2, msg.sub = s.id := by
  intro msg hm
  cases h : deliverable cfg st a s
  · rw [deliver_neg h] at hm; cases hm
  · rw [deliver_pos h] at hm; simp at hm; subst hm; rfl

theorem find_msgs_none (cfg : Cfg) (st : State) (ov : List (Nat × Outcome)) (a : Str) (l : List Sub) (j : Nat) (hn : ∀ s ∈ l, s.id ≠ j) :
    ((l.map (deliver cfg st ov a)).flatMap (·.2)).find? (fun msg => msg.sub == j) = none := by
  rw [List.find?_eq_none]
  intro msg hm
  simp only [List.mem_flatMap, List.mem_map] at hm
  obtain ⟨_, ⟨s, hs, rfl⟩, hm⟩ := hm
  have := deliver_msgs_sub msg hm
  simp [this, hn s hs]

theorem find_msgs_mem (cfg : Cfg) (st : State) (ov : List (Nat × Outcome)) (a : Str) (l : List Sub) (hnd : (l.map (·.id)).Nodup) (s : Sub)
    (hs : s ∈ l) :
    ((l.map (deliver cfg st ov a)).flatMap (·.2)).find? (fun msg => msg.sub == s.id) = (deliver cfg st ov a s).2.head? := by
  induction l with
  | nil => cases hs
  | cons x xs ih =>
    simp only [List.map_cons, List.nodup_cons, List.mem_map, not_exists, not_and] at hnd
    simp only [List.map_cons, List.flatMap_cons, List.find?_append]
    rcases List.mem_cons.mp hs with rfl | hs'
    · have hrest := find_msgs_none cfg st ov a xs s.id (fun t ht h => hnd.1 t ht h)
      rw [hrest]
      cases h : deliverable cfg st a s
      · rw [deliver_neg h]; rfl
      · rw [deliver_pos h]; simp
    · have hne : x.id ≠ s.id := fun h => hnd.1 s hs' h.symm
      have : (deliver cfg st ov a x).2.find? (fun msg => msg.sub == s.id) = none := by
        rw [List.find?_eq_none]
        intro msg hm
        simp [deliver_msgs_sub msg hm, hne]
      rw [this, Option.none_or]
      exact ih hnd.2 hs'

theorem sim_notify {cfg : Cfg} {st : State} {m : Mon} (h : Sim cfg st m) (a : Str) (ov : List (Nat × Outcome)) :
    Sim cfg (step cfg st (.notify a ov)).1 (m.step cfg (.notify a ov) (step cfg st (.notify a ov)).2) := by
  simp only [step, Mon.step, List.map_map]
  refine h.map (fun s => (deliver cfg st ov a s).1) _ (deliver_id cfg st ov a) ?_ ?_
  · intro s hs
    obtain ⟨hr, hc, hst⟩ := h.recOf s hs
    simp only [hr, Option.map_some, find_msgs_mem cfg st ov a st.subs h.nodup s hs]
    cases hd : deliverable cfg st a s
    · rw [deliver_neg hd]; exact ⟨rfl, hc, hst⟩
    · rw [deliver_pos hd]
      refine ⟨?_, hc, hst⟩
      simp [Sub.repr]
  · intro j hj
    simp only [find_msgs_none cfg st ov a st.subs j hj]
    cases m.recs j <;> rfl

/-! ### every op preserves the invariant -/

theorem sim_step {cfg : Cfg} {st : State} {m : Mon} (hw : cfg.WF) (h : Sim cfg st m) (op : Op) :
    Sim cfg (step cfg st op).1 (m.step cfg op (step cfg st op).2) := by
  cases op with
  | subscribe nt et f d e nr er => exact sim_subscribe h nt et f d e nr er
  | renew k e => exact sim_renew hw h k e
  | getStatus k => exact sim_getStatus h k
  | unsubscribe k => exact sim_unsubscribe hw h k
  | notify a ov => exact sim_notify h a ov
  | tick dt => exact sim_tick h dt
  | setOutcome a o => exact sim_setOutcome h a o
  | housekeeping => exact sim_housekeeping h
  | stop b ov => exact sim_stop h b ov

theorem sim_runBoth {cfg : Cfg} (hw : cfg.WF) (ops : List Op) :
    ∀ (st : State) (m : Mon), Sim cfg st m → Sim cfg (runBoth cfg (st, m) ops).1 (runBoth cfg (st, m) ops).2 := by
  induction ops with
  | nil => intro st m h; exact h
  | cons op ops ih =>
    intro st m h
    simp only [runBoth]
    exact ih _ _ (sim_step hw h op)

/-- the invariant holds in every state reachable from the initial one -/
theorem sim_reach {cfg : Cfg} (hw : cfg.WF) (ops : List Op) : Sim cfg (reach cfg ops).1 (reach cfg ops).2 :=
  sim_runBoth hw ops _ _ (sim_init cfg)

end Sdc.Eventing
