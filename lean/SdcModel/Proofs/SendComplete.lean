import SdcModel.SendOrder
import SdcModel.Proofs.SendOrder
/-! every committed version is handed to the subscription managers (writer interleaving semantics, C04) -/
namespace Sdc.SendOrder

/-- `cs pend prog`: in every critical section of `L` a version write is followed by a send before the next version write
    and before `L` is released (`pend` = a version was written and not sent yet) -/
def cs : Bool → List Act → Bool
  | pend, [] => !pend
  | pend, .acq _ :: r => cs pend r
  | pend, .rel l :: r => if l = L then (!pend && cs false r) else cs pend r
  | pend, .incVer :: r => !pend && cs true r
  | _, .send :: r => cs false r

/-- the program reports every version it commits -/
def Complete (p : List Act) : Prop := cs false p = true
instance (p : List Act) : Decidable (Complete p) := by unfold Complete; infer_instance

/-- coverage invariant relative to the start version `v0` -/
structure Cov (v0 : Nat) (c : Cfg) : Prop where
  thr : ∀ i, cs false (c.thr i).prog = true ∨
             (cs true (c.thr i).prog = true ∧ c.owner L = some i ∧ (c.thr i).mine = c.ver)
  cov : ∀ v, v0 < v → v ≤ c.ver → v ∈ c.log ∨
             (v = c.ver ∧ ∃ i, c.owner L = some i ∧ (c.thr i).mine = c.ver ∧ cs true (c.thr i).prog = true)

theorem cov_init (c : Cfg) (hc : ∀ i, Complete (c.thr i).prog) : Cov c.ver c :=
  ⟨fun i => Or.inl (hc i), fun v h1 h2 => by omega⟩

theorem cs_true_incVer (r : List Act) : cs true (.incVer :: r) = false := by simp [cs]
theorem cs_true_relL (r : List Act) : cs true (.rel L :: r) = false := by simp [cs]

theorem cov_step {v0 : Nat} {c c' : Cfg} (g : Good c) (k : Cov v0 c) (s : Step c c') : Cov v0 c' := by
  cases s with
  | acq i l r hp ho =>
    have hownL : ∀ j, (fun q => if q = l then some i else c.owner q) L = some j → c.owner L = some j ∨ (l = L ∧ j = i) := by
      intro j h
      by_cases hl : L = l
      · right; simp [hl] at h; exact ⟨hl.symm, h.symm⟩
      · left; simpa [hl] using h
    refine ⟨fun j => ?_, fun v h1 h2 => ?_⟩
    · by_cases hj : j = i
      · subst hj
        simp only [setThr_self]
        rcases k.thr j with h | ⟨h1, h2, h3⟩
        · left; rw [hp] at h; simpa [cs] using h
        · -- the thread was the owner of L with a pending send: it cannot acquire L (owner none), so l ≠ L
          right
          rw [hp] at h1
          refine ⟨by simpa [cs] using h1, ?_, h3⟩
          have : L ≠ l := by intro e; rw [← e, h2] at ho; cases ho
          simp [this, h2]
      · simp only [setThr_ne _ _ _ _ hj]
        rcases k.thr j with h | ⟨h1, h2, h3⟩
        · exact Or.inl h
        · right
          refine ⟨h1, ?_, h3⟩
          have : L ≠ l := by intro e; rw [← e, h2] at ho; cases ho
          simp [this, h2]
    · rcases k.cov v h1 h2 with h | ⟨hv, j, hj1, hj2, hj3⟩
      · exact Or.inl h
      · right
        refine ⟨hv, j, ?_, ?_, ?_⟩
        · have : L ≠ l := by intro e; rw [← e, hj1] at ho; cases ho
          simp [this, hj1]
        · by_cases hji : j = i
          · subst hji; simpa [setThr_self] using hj2
          · simpa [setThr_ne _ _ _ _ hji] using hj2
        · by_cases hji : j = i
          · subst hji; rw [hp] at hj3; simpa [setThr_self, cs] using hj3
          · simpa [setThr_ne _ _ _ _ hji] using hj3
  | rel i l r hp ho =>
    by_cases hl : l = L
    · subst hl
      -- the owner releases L: it has nothing pending, nobody else can have
      have hi : cs false (c.thr i).prog = true := by
        rcases k.thr i with h | ⟨h1, _, _⟩
        · exact h
        · rw [hp, cs_true_relL] at h1; cases h1
      refine ⟨fun j => ?_, fun v h1 h2 => ?_⟩
      · left
        by_cases hj : j = i
        · subst hj
          rw [hp] at hi
          simpa [setThr_self, cs] using hi
        · simp only [setThr_ne _ _ _ _ hj]
          rcases k.thr j with h | ⟨_, h2, _⟩
          · exact h
          · rw [ho] at h2; exact absurd (Option.some.inj h2).symm hj
      · rcases k.cov v h1 h2 with h | ⟨_, j, hj1, _, hj3⟩
        · exact Or.inl h
        · rw [ho] at hj1
          have : j = i := (Option.some.inj hj1).symm
          subst this
          rw [hp, cs_true_relL] at hj3; cases hj3
    · have hown : (fun q => if q = l then none else c.owner q) L = c.owner L := by
        have : L ≠ l := fun e => hl e.symm
        simp [this]
      refine ⟨fun j => ?_, fun v h1 h2 => ?_⟩
      · simp only [hown]
        by_cases hj : j = i
        · subst hj
          simp only [setThr_self]
          rcases k.thr j with h | ⟨h1, h2, h3⟩
          · left; rw [hp] at h; simpa [cs, hl] using h
          · right; rw [hp] at h1; exact ⟨by simpa [cs, hl] using h1, h2, h3⟩
        · simp only [setThr_ne _ _ _ _ hj]; exact k.thr j
      · simp only [hown]
        rcases k.cov v h1 h2 with h | ⟨hv, j, hj1, hj2, hj3⟩
        · exact Or.inl h
        · right
          refine ⟨hv, j, hj1, ?_, ?_⟩
          · by_cases hji : j = i
            · subst hji; simpa [setThr_self] using hj2
            · simpa [setThr_ne _ _ _ _ hji] using hj2
          · by_cases hji : j = i
            · subst hji; rw [hp] at hj3; simpa [setThr_self, cs, hl] using hj3
            · simpa [setThr_ne _ _ _ _ hji] using hj3
  | incVer i r hp =>
    have hown : c.owner L = some i := by
      apply Decidable.byContradiction
      intro hne
      have := (g.thr i).2 hne
      rw [hp] at this
      simp [wl] at this
    have hi : cs true r = true := by
      rcases k.thr i with h | ⟨h1, _, _⟩
      · rw [hp] at h; simpa [cs] using h
      · rw [hp, cs_true_incVer] at h1; cases h1
    refine ⟨fun j => ?_, fun v h1 h2 => ?_⟩
    · by_cases hj : j = i
      · subst hj
        right
        refine ⟨?_, hown, ?_⟩
        · simpa [setThr_self] using hi
        · simp [setThr_self]
      · simp only [setThr_ne _ _ _ _ hj]
        rcases k.thr j with h | ⟨_, h2, _⟩
        · exact Or.inl h
        · rw [hown] at h2; exact absurd (Option.some.inj h2).symm hj
    · by_cases hv : v = c.ver + 1
      · right
        refine ⟨hv, i, hown, by simp [setThr_self], by simpa [setThr_self] using hi⟩
      · have h2' : v ≤ c.ver := by simp at h2; omega
        rcases k.cov v h1 h2' with h | ⟨_, j, hj1, _, hj3⟩
        · exact Or.inl h
        · rw [hown] at hj1
          have : j = i := (Option.some.inj hj1).symm
          subst this
          rw [hp, cs_true_incVer] at hj3; cases hj3
  | send i r hp =>
    refine ⟨fun j => ?_, fun v h1 h2 => ?_⟩
    · by_cases hj : j = i
      · subst hj
        left
        simp only [setThr_self]
        rcases k.thr j with h | ⟨h1, _, _⟩
        · rw [hp] at h; simpa [cs] using h
        · rw [hp] at h1; simpa [cs] using h1
      · simp only [setThr_ne _ _ _ _ hj]; exact k.thr j
    · rcases k.cov v h1 h2 with h | ⟨hv, j, hj1, hj2, hj3⟩
      · exact Or.inl (List.mem_append_left _ h)
      · by_cases hji : j = i
        · subst hji
          left
          simp only [List.mem_append, List.mem_singleton]
          right; rw [hv, hj2]
        · right
          exact ⟨hv, j, hj1, by simpa [setThr_ne _ _ _ _ hji] using hj2, by simpa [setThr_ne _ _ _ _ hji] using hj3⟩

theorem cov_reach {c₀ c : Cfg} (g : Good c₀) (k : Cov c₀.ver c₀) (r : Reach c₀ c) : Cov c₀.ver c := by
  induction r with
  | refl => exact k
  | step r' s ih => exact cov_step (good_reach g r') ih s

end Sdc.SendOrder
