import SdcModel.ScalarsDt
import SdcModel.Proofs.ScalarsDec
/-! `parse_date_time (str info) = info` for well-formed date / time information (core Lean + `set`) -/
namespace Sdc.Scalars

theorem take2_pad2 (n : Nat) (r : Str) (h : n < 100) : take2 (pad2 n ++ r) = some (n, r) := by
  unfold take2 pad2
  have h1 : isDigit (48 + n / 10) = true := by rw [isDigit_iff]; omega
  have h2 : isDigit (48 + n % 10) = true := by rw [isDigit_iff]; omega
  simp only [List.cons_append, List.nil_append, h1, h2, and_self, if_true, digitVal]
  congr 2; omega

def TzWF (tz : Option Int) : Prop := ∀ o, tz = some o → -840 ≤ o ∧ o ≤ 840

/-- first character of a rendered time zone -/
theorem tzStr_head (tz : Option Int) :
    tzStr tz = [] ∨ ∃ c r, tzStr tz = c :: r ∧ (c = 90 ∨ c = 43 ∨ c = 45) := by
  unfold tzStr
  cases tz with
  | none => left; rfl
  | some o =>
    right
    by_cases h0 : o = 0
    · exact ⟨90, [], by simp [h0], Or.inl rfl⟩
    · by_cases hp : 0 ≤ o
      · exact ⟨43, pad2 (o.natAbs / 60) ++ [58] ++ pad2 (o.natAbs % 60), by simp [h0, hp], Or.inr (Or.inl rfl)⟩
      · exact ⟨45, pad2 (o.natAbs / 60) ++ [58] ++ pad2 (o.natAbs % 60), by simp [h0, hp], Or.inr (Or.inr rfl)⟩

theorem tzEnd_tzStr (tz : Option Int) (h : ∀ o, tz = some o → -840 ≤ o ∧ o ≤ 840) : tzEnd (tzStr tz) = some tz := by
  cases tz with
  | none => rfl
  | some o =>
    have hb := h o rfl
    unfold tzStr
    by_cases h0 : o = 0
    · subst h0; rfl
    · have hh : o.natAbs / 60 < 100 := by omega
      have hm : o.natAbs % 60 < 100 := by omega
      by_cases hp : 0 ≤ o
      · simp only [h0, if_false, hp, if_true]
        unfold tzEnd
        simp only [List.cons_append, List.nil_append, List.append_assoc]
        rw [take2_pad2 _ _ hh]
        simp only []
        have := take2_pad2 (o.natAbs % 60) [] hm
        rw [List.append_nil] at this
        rw [this]
        have c1 : o.natAbs / 60 ≤ 14 := by omega
        have c2 : o.natAbs % 60 ≤ 59 := by omega
        have c3 : ¬ (o.natAbs / 60 = 14 ∧ o.natAbs % 60 ≠ 0) := by omega
        simp [c1, c2, c3]
        omega
      · simp only [h0, if_false, hp]
        unfold tzEnd
        simp only [List.cons_append, List.nil_append, List.append_assoc]
        rw [take2_pad2 _ _ hh]
        simp only []
        have := take2_pad2 (o.natAbs % 60) [] hm
        rw [List.append_nil] at this
        rw [this]
        have c1 : o.natAbs / 60 ≤ 14 := by omega
        have c2 : o.natAbs % 60 ≤ 59 := by omega
        have c3 : ¬ (o.natAbs / 60 = 14 ∧ o.natAbs % 60 ≠ 0) := by omega
        simp [c1, c2, c3]
        omega

/-! ### behind the day -/

theorem tzEnd_colon (r : Str) : tzEnd (58 :: r) = none := by simp [tzEnd]

theorem takeTime_tzStr (tz : Option Int) : takeTime (tzStr tz) = none := by
  rcases tzStr_head tz with h | ⟨c, r, h, hc⟩
  · rw [h]; rfl
  · rw [h]
    have : c ≠ 84 := by omega
    simp [takeTime, this]

theorem afterDay_of_noTime (s : Str) (h : takeTime s = none) :
    afterDay s = (tzEnd s).map (fun tz => (none, false, tz)) := by
  unfold afterDay; rw [h]; simp

theorem afterDay_tz (tz : Option Int) (h : ∀ o, tz = some o → -840 ≤ o ∧ o ≤ 840) :
    afterDay (tzStr tz) = some (none, false, tz) := by
  rw [afterDay_of_noTime _ (takeTime_tzStr tz), tzEnd_tzStr tz h]; rfl

theorem afterDay_colon (r : Str) : afterDay (58 :: r) = none := by
  have : takeTime (58 :: r) = none := by simp [takeTime]
  rw [afterDay_of_noTime _ this, tzEnd_colon]; rfl

/-- fraction part as written by `secStr` for a canonical fraction -/
def fracPart (fr : Str) : Str := if fr.isEmpty then [] else 46 :: fr

theorem takeTime_time (hh mm ss : Nat) (fr : Str) (tz : Option Int)
    (h1 : hh ≤ 23) (h2 : mm ≤ 59) (h3 : ss ≤ 59) (hd : ∀ c ∈ fr, isDigit c = true) :
    takeTime (84 :: (pad2 hh ++ (58 :: (pad2 mm ++ (58 :: (pad2 ss ++ (fracPart fr ++ tzStr tz)))))))
      = some (some (hh, mm, ss, fr), false, tzStr tz) := by
  unfold takeTime
  simp only [ne_eq, not_true_eq_false, if_false]
  rw [take2_pad2 hh _ (by omega)]
  simp only
  rw [take2_pad2 mm _ (by omega)]
  simp only
  rw [take2_pad2 ss _ (by omega)]
  simp only [not_true_eq_false, or_self, if_false]
  have hfr : takeFrac (fracPart fr ++ tzStr tz) = (fr, tzStr tz) := by
    unfold fracPart takeFrac
    cases fr with
    | nil =>
      simp only [List.isEmpty_nil, if_true, List.nil_append]
      rcases tzStr_head tz with h | ⟨c, r, h, hc⟩
      · rw [h]
      · rw [h]
        have : c ≠ 46 := by omega
        simp [this]
    | cons a fr' =>
      simp only [List.isEmpty_cons, Bool.false_eq_true, if_false, List.cons_append]
      have hsplit : (a :: (fr' ++ tzStr tz)).takeWhile isDigit = a :: fr' ∧ (a :: (fr' ++ tzStr tz)).dropWhile isDigit = tzStr tz := by
        rw [← List.cons_append]
        rcases tzStr_head tz with h | ⟨c, r, h, hc⟩
        · rw [h, List.append_nil]; exact takeWhile_all _ hd
        · rw [h]
          have : isDigit c = false := by
            rcases hc with rfl | rfl | rfl <;> rfl
          exact takeWhile_append_stop _ c r hd this
      simp only [true_and]
      rw [hsplit.1, hsplit.2]
      simp
  rw [hfr]
  simp [h1, h2, h3]

theorem takeFrac_tzStr (tz : Option Int) : takeFrac (tzStr tz) = ([], tzStr tz) := by
  have := takeTime_tzStr tz   -- (only to keep the shape lemma close by)
  unfold takeFrac
  rcases tzStr_head tz with h | ⟨c, r, h, hc⟩
  · rw [h]
  · rw [h]
    have : c ≠ 46 := by omega
    simp [this]

theorem takeTime_eod (tz : Option Int) :
    takeTime ([84, 50, 52, 58, 48, 48, 58, 48, 48] ++ tzStr tz) = some (none, true, tzStr tz) := by
  have e : [84, 50, 52, 58, 48, 48, 58, 48, 48] ++ tzStr tz
      = 84 :: (pad2 24 ++ (58 :: (pad2 0 ++ (58 :: (pad2 0 ++ tzStr tz))))) := by simp [pad2]
  rw [e]
  unfold takeTime
  simp only [ne_eq, not_true_eq_false, if_false]
  rw [take2_pad2 24 _ (by omega)]
  simp only
  rw [take2_pad2 0 _ (by omega)]
  simp only
  rw [take2_pad2 0 _ (by omega)]
  simp only [not_true_eq_false, or_self, if_false]
  rw [takeFrac_tzStr]
  simp

def TimeWF (tm : Option (Nat × Nat × Nat × Str)) (eod : Bool) : Prop :=
  (eod = true → tm = none) ∧
  ∀ hh mm ss fr, tm = some (hh, mm, ss, fr) → hh ≤ 23 ∧ mm ≤ 59 ∧ ss ≤ 59 ∧ (∀ c ∈ fr, isDigit c = true) ∧ rstrip0 fr = fr

theorem afterDay_timeStr (tm : Option (Nat × Nat × Nat × Str)) (eod : Bool) (tz : Option Int)
    (hw : TimeWF tm eod) (htz : TzWF tz) : afterDay (timeStr tm eod ++ tzStr tz) = some (tm, eod, tz) := by
  unfold timeStr
  cases eod with
  | true =>
    have : tm = none := hw.1 rfl
    subst this
    simp only [if_true]
    unfold afterDay
    rw [takeTime_eod]
    simp [tzEnd_tzStr tz htz]
  | false =>
    simp only [Bool.false_eq_true, if_false]
    cases tm with
    | none => simpa using afterDay_tz tz htz
    | some t =>
      obtain ⟨hh, mm, ss, fr⟩ := t
      obtain ⟨h1, h2, h3, hd, hr⟩ := hw.2 hh mm ss fr rfl
      have e : [84] ++ pad2 hh ++ [58] ++ pad2 mm ++ [58] ++ secStr ss fr ++ tzStr tz
          = 84 :: (pad2 hh ++ (58 :: (pad2 mm ++ (58 :: (pad2 ss ++ (fracPart fr ++ tzStr tz)))))) := by
        unfold secStr fracPart
        rw [hr]
        simp [List.append_assoc]
      simp only
      rw [e]
      unfold afterDay
      rw [takeTime_time hh mm ss fr tz h1 h2 h3 hd]
      simp [tzEnd_tzStr tz htz]

/-! ### behind the month / the year -/

theorem takeField_hit (lo hi v : Nat) (r : Str) (h1 : lo ≤ v) (h2 : v ≤ hi) (h3 : v < 100) :
    takeField lo hi (45 :: (pad2 v ++ r)) = some (v, r) := by
  unfold takeField
  simp only [ne_eq, not_true_eq_false, if_false]
  rw [take2_pad2 v r h3]
  simp [h1, h2]

/-- an optional `-NN` group cannot swallow the beginning of a time zone: what follows would start with `:` -/
theorem takeField_tzStr (lo hi : Nat) (tz : Option Int) (htz : TzWF tz) (v : Nat) (r : Str)
    (h : takeField lo hi (tzStr tz) = some (v, r)) : ∃ r', r = 58 :: r' := by
  unfold tzStr at h
  cases tz with
  | none => simp [takeField] at h
  | some o =>
    simp only at h
    by_cases h0 : o = 0
    · simp [h0, takeField] at h
    · by_cases hp : 0 ≤ o
      · simp [h0, hp, takeField] at h
      · simp only [h0, if_false, hp] at h
        unfold takeField at h
        simp only [List.cons_append, List.nil_append, List.append_assoc, ne_eq, not_true_eq_false, if_false] at h
        have hlt : o.natAbs / 60 < 100 := by have := htz o rfl; omega
        rw [take2_pad2 _ _ hlt] at h
        simp only at h
        split at h
        · injection h with h; injection h with ha hb
          exact ⟨_, hb.symm⟩
        · cases h

theorem afterMonth_colon (r : Str) : afterMonth (58 :: r) = none := by
  unfold afterMonth
  have : takeField 1 31 (58 :: r) = none := by simp [takeField]
  rw [this, tzEnd_colon]; rfl

theorem afterMonth_tz (tz : Option Int) (htz : TzWF tz) : afterMonth (tzStr tz) = some (none, none, false, tz) := by
  unfold afterMonth
  have inner : ((takeField 1 31 (tzStr tz)).bind fun x => (afterDay x.2).map fun y => (some x.1, y)) = none := by
    cases hf : takeField 1 31 (tzStr tz) with
    | none => rfl
    | some vr =>
      obtain ⟨v, r⟩ := vr
      obtain ⟨r', hr⟩ := takeField_tzStr 1 31 tz htz v r hf
      simp [hr, afterDay_colon]
  rw [inner, tzEnd_tzStr tz htz]; rfl

theorem afterYear_tz (tz : Option Int) (htz : TzWF tz) : afterYear (tzStr tz) = some (none, none, none, false, tz) := by
  unfold afterYear
  have inner : ((takeField 1 12 (tzStr tz)).bind fun x => (afterMonth x.2).map fun y => (some x.1, y)) = none := by
    cases hf : takeField 1 12 (tzStr tz) with
    | none => rfl
    | some vr =>
      obtain ⟨v, r⟩ := vr
      obtain ⟨r', hr⟩ := takeField_tzStr 1 12 tz htz v r hf
      simp [hr, afterMonth_colon]
  rw [inner, tzEnd_tzStr tz htz]; rfl

theorem afterMonth_render (d : Option Nat) (tm : Option (Nat × Nat × Nat × Str)) (eod : Bool) (tz : Option Int)
    (hd : ∀ v, d = some v → 1 ≤ v ∧ v ≤ 31) (hnd : d = none → tm = none ∧ eod = false)
    (hw : TimeWF tm eod) (htz : TzWF tz) :
    afterMonth (dayStr d ++ (timeStr tm eod ++ tzStr tz)) = some (d, tm, eod, tz) := by
  cases d with
  | none =>
    obtain ⟨h1, h2⟩ := hnd rfl
    subst h1 h2
    simpa [dayStr, timeStr] using afterMonth_tz tz htz
  | some v =>
    obtain ⟨h1, h2⟩ := hd v rfl
    unfold afterMonth
    simp only [dayStr, List.cons_append]
    rw [takeField_hit 1 31 v _ h1 h2 (by omega)]
    simp [afterDay_timeStr tm eod tz hw htz]

theorem afterYear_render (m d : Option Nat) (tm : Option (Nat × Nat × Nat × Str)) (eod : Bool) (tz : Option Int)
    (hm : ∀ v, m = some v → 1 ≤ v ∧ v ≤ 12) (hnm : m = none → d = none)
    (hd : ∀ v, d = some v → 1 ≤ v ∧ v ≤ 31) (hnd : d = none → tm = none ∧ eod = false)
    (hw : TimeWF tm eod) (htz : TzWF tz) :
    afterYear (dayStr m ++ (dayStr d ++ (timeStr tm eod ++ tzStr tz))) = some (m, d, tm, eod, tz) := by
  cases m with
  | none =>
    have h0 := hnm rfl
    subst h0
    obtain ⟨h1, h2⟩ := hnd rfl
    subst h1 h2
    simpa [dayStr, timeStr] using afterYear_tz tz htz
  | some v =>
    obtain ⟨h1, h2⟩ := hm v rfl
    unfold afterYear
    simp only [dayStr, List.cons_append]
    rw [takeField_hit 1 12 v _ h1 h2 (by omega)]
    have := afterMonth_render d tm eod tz hd hnd hw htz
    simp only [dayStr] at this
    simp [this]

/-! ### the year -/

theorem natDigitsRev_last (f n : Nat) (h1 : n < f) (h0 : 0 < n) :
    ∃ l c, natDigitsRev f n = l ++ [c] ∧ c ≠ 48 := by
  induction f generalizing n with
  | zero => omega
  | succ f ih =>
    unfold natDigitsRev
    split
    · exact ⟨[], 48 + n, by simp, by omega⟩
    · obtain ⟨l, c, hl, hc⟩ := ih (n / 10) (by omega) (by omega)
      exact ⟨(48 + n % 10) :: l, c, by rw [hl]; simp, hc⟩

theorem natStr_head (n : Nat) (h0 : 0 < n) : ∃ c r, natStr n = c :: r ∧ c ≠ 48 := by
  obtain ⟨l, c, hl, hc⟩ := natDigitsRev_last (n + 1) n (by omega) h0
  exact ⟨c, l.reverse, by unfold natStr; rw [hl]; simp, hc⟩

theorem natStr_length_ge4 (n : Nat) (h : 1000 ≤ n) : 4 ≤ (natStr n).length := by
  have h1 := digitsVal_lt (natStr n) (natStr_digits n)
  rw [digitsVal_natStr] at h1
  rcases Nat.lt_or_ge (natStr n).length 4 with hlt | hge
  · have : 10 ^ (natStr n).length ≤ 10 ^ 3 := Nat.pow_le_pow_right (by omega) (by omega)
    omega
  · exact hge

theorem year4_digits (n : Nat) : ∀ c ∈ year4 n, isDigit c = true := by
  intro c hc
  unfold year4 at hc
  rw [List.mem_append] at hc
  rcases hc with hc | hc
  · rw [List.mem_replicate] at hc; rw [hc.2]; rfl
  · exact natStr_digits n c hc

theorem digitsVal_year4 (n : Nat) : digitsVal (year4 n) = n := by
  unfold year4; rw [digitsVal_zeros_append, digitsVal_natStr]

theorem yearShape_year4 (n : Nat) : yearShape (year4 n) = true := by
  unfold year4
  rcases Nat.lt_or_ge n 1000 with hlt | hge
  · have hl := natStr_length_le n 3 (by omega) (by omega)
    obtain ⟨k, hk⟩ : ∃ k, 4 - (natStr n).length = k + 1 := ⟨3 - (natStr n).length, by omega⟩
    rw [hk, List.replicate_succ]
    simp only [List.cons_append, yearShape, if_true, List.length_cons, List.length_append, List.length_replicate]
    simp; omega
  · have hl := natStr_length_ge4 n hge
    have : 4 - (natStr n).length = 0 := by omega
    rw [this]
    obtain ⟨c, r, hcr, hc⟩ := natStr_head n (by omega)
    simp only [List.replicate_zero, List.nil_append]
    rw [hcr] at hl ⊢
    simp only [yearShape, hc, if_false]
    simpa using hl

theorem year4_ne_nil (n : Nat) : year4 n ≠ [] := by
  unfold year4
  have := natStr_ne_nil n
  simp [this]

/-! ### the whole string -/

def DateInfo.WF (i : DateInfo) : Prop :=
  (∀ v, i.month = some v → 1 ≤ v ∧ v ≤ 12) ∧ (i.month = none → i.day = none) ∧
  (∀ v, i.day = some v → 1 ≤ v ∧ v ≤ 31) ∧ (i.day = none → i.time = none ∧ i.eod = false) ∧
  TimeWF i.time i.eod ∧ TzWF i.tz

/-- no newline among the characters that are written -/
def NoNl (s : Str) : Prop := ∀ c ∈ s, c ≠ 10

theorem noNl_append (a b : Str) (ha : NoNl a) (hb : NoNl b) : NoNl (a ++ b) := by
  intro c hc; rw [List.mem_append] at hc; rcases hc with h | h
  · exact ha c h
  · exact hb c h

theorem noNl_digits (l : Str) (h : ∀ c ∈ l, isDigit c = true) : NoNl l := by
  intro c hc; have := (isDigit_iff c).mp (h c hc); omega

theorem noNl_pad2 (n : Nat) : NoNl (pad2 n) := by
  intro c hc; unfold pad2 at hc; simp at hc; omega

theorem noNl_dayStr (d : Option Nat) : NoNl (dayStr d) := by
  cases d with
  | none => intro c hc; cases hc
  | some v =>
    intro c hc; simp only [dayStr, List.mem_cons] at hc
    rcases hc with h | h
    · omega
    · exact noNl_pad2 v c h

theorem noNl_tzStr (tz : Option Int) : NoNl (tzStr tz) := by
  unfold tzStr
  cases tz with
  | none => intro c hc; cases hc
  | some o =>
    simp only
    split
    · intro c hc; simp at hc; omega
    · apply noNl_append
      · apply noNl_append
        · apply noNl_append
          · split <;> (intro c hc; simp at hc; omega)
          · exact noNl_pad2 _
        · intro c hc; simp at hc; omega
      · exact noNl_pad2 _

theorem noNl_timeStr (tm : Option (Nat × Nat × Nat × Str)) (eod : Bool) (hw : TimeWF tm eod) : NoNl (timeStr tm eod) := by
  unfold timeStr
  split
  · intro c hc; simp at hc; omega
  · cases tm with
    | none => intro c hc; cases hc
    | some t =>
      obtain ⟨hh, mm, ss, fr⟩ := t
      obtain ⟨_, _, _, hd, hr⟩ := hw.2 hh mm ss fr rfl
      simp only
      have n58 : NoNl [58] := by intro c hc; simp at hc; omega
      have n84 : NoNl [84] := by intro c hc; simp at hc; omega
      refine noNl_append _ _ (noNl_append _ _ (noNl_append _ _ (noNl_append _ _ (noNl_append _ _ n84 (noNl_pad2 _)) n58) (noNl_pad2 _)) n58) ?_
      unfold secStr
      apply noNl_append _ _ (noNl_pad2 _)
      rw [hr]
      split
      · intro c hc; cases hc
      · intro c hc; simp only [List.mem_cons] at hc
        rcases hc with h | h
        · omega
        · exact noNl_digits fr hd c h

theorem dropNewline_id (s : Str) (h : NoNl s) : dropNewline s = s := by
  unfold dropNewline
  have : s.getLast? ≠ some 10 := by
    intro hl
    exact h 10 (List.mem_of_getLast? hl) rfl
  rw [if_neg this]

/-- the tail behind the year is empty or starts with a non-digit -/
theorem tail_head (i : DateInfo) (hw : i.WF) :
    let rest := dayStr i.month ++ (dayStr i.day ++ (timeStr i.time i.eod ++ tzStr i.tz))
    rest = [] ∨ ∃ c r, rest = c :: r ∧ isDigit c = false := by
  obtain ⟨_, hnm, _, hnd, _, _⟩ := hw
  intro rest
  cases hm : i.month with
  | some v => right; exact ⟨45, pad2 v ++ (dayStr i.day ++ (timeStr i.time i.eod ++ tzStr i.tz)), by simp [rest, hm, dayStr], rfl⟩
  | none =>
    have h1 := hnm hm
    obtain ⟨h2, h3⟩ := hnd h1
    have e : rest = tzStr i.tz := by simp [rest, hm, h1, h2, h3, dayStr, timeStr]
    rw [e]
    rcases tzStr_head i.tz with h | ⟨c, r, h, hc⟩
    · left; exact h
    · right; refine ⟨c, r, h, ?_⟩
      rcases hc with rfl | rfl | rfl <;> rfl

/-- `parse_date_time(str(info)) == info` for every well-formed date / time information -/
theorem parseDateTime_dateTimeStr (i : DateInfo) (hw : i.WF) : parseDateTime (dateTimeStr i) = .ok i := by
  have hw' := hw
  obtain ⟨hm, hnm, hd, hnd, htm, htz⟩ := hw
  set rest := dayStr i.month ++ (dayStr i.day ++ (timeStr i.time i.eod ++ tzStr i.tz)) with hrest
  have hnl : NoNl (dateTimeStr i) := by
    unfold dateTimeStr
    apply noNl_append
    · split <;> (intro c hc; simp at hc; try omega)
    · apply noNl_append _ _ (noNl_digits _ (year4_digits _))
      exact noNl_append _ _ (noNl_dayStr _) (noNl_append _ _ (noNl_dayStr _) (noNl_append _ _ (noNl_timeStr _ _ htm) (noNl_tzStr _)))
  have hsplit : (year4 i.year.natAbs ++ rest).takeWhile isDigit = year4 i.year.natAbs ∧
      (year4 i.year.natAbs ++ rest).dropWhile isDigit = rest := by
    rcases tail_head i hw' with h | ⟨c, r, h, hc⟩
    · rw [← hrest] at h; rw [h, List.append_nil]; exact takeWhile_all _ (year4_digits _)
    · rw [← hrest] at h; rw [h]; exact takeWhile_append_stop _ c r (year4_digits _) hc
  have hafter : afterYear rest = some (i.month, i.day, i.time, i.eod, i.tz) :=
    afterYear_render i.month i.day i.time i.eod i.tz hm hnm hd hnd htm htz
  obtain ⟨c0, y', hy⟩ : ∃ c0 y', year4 i.year.natAbs = c0 :: y' := by
    cases hx : year4 i.year.natAbs with
    | nil => exact absurd hx (year4_ne_nil _)
    | cons a b => exact ⟨a, b, rfl⟩
  have hc0 : isDigit c0 = true := year4_digits i.year.natAbs c0 (by rw [hy]; simp)
  have hc45 : (c0 == 45) = false := by
    rw [isDigit_iff] at hc0
    simp; omega
  unfold parseDateTime
  rw [dropNewline_id _ hnl]
  unfold dateTimeStr
  rw [← hrest]
  by_cases hneg : i.year < 0
  · simp only [hneg, if_true, List.cons_append, List.nil_append, beq_self_eq_true, List.drop_succ_cons, List.drop_zero]
    rw [hsplit.1, hsplit.2, yearShape_year4, hafter, digitsVal_year4]
    simp only [if_true]
    have hy' : -(i.year.natAbs : Int) = i.year := by
      have := Int.ofNat_natAbs_of_nonpos (Int.le_of_lt hneg); omega
    rw [hy']
  · simp only [hneg, if_false, List.nil_append]
    rw [hy] at hsplit ⊢
    simp only [List.cons_append, hc45, Bool.false_eq_true, if_false]
    rw [← List.cons_append, hsplit.1, hsplit.2, ← hy, yearShape_year4, hafter, digitsVal_year4]
    simp only [if_true]
    have hy' : (i.year.natAbs : Int) = i.year := Int.natAbs_of_nonneg (by omega)
    rw [hy']

end Sdc.Scalars
