import SdcModel.Proofs.MdibWFm
/-!
# what the calls of a descriptor transaction collect (`DTxOK`), preserved by every `dCall`
-/
set_option linter.unusedSimpArgs false
namespace Sdc.Mdib

/-- the transaction has an item with a new descriptor `m` for handle `H`, and `Q m` -/
def HasNew (L : List (Handle × DItem)) (H : Handle) (Q : Descr → Prop) : Prop := ∃ it m, (H, it) ∈ L ∧ it.new = some m ∧ Q m

theorem HasNew.add {L : List (Handle × DItem)} {H : Handle} {Q : Descr → Prop} (h : HasNew L H Q) {k : Handle}
    (hk : k ∉ L.map (·.1)) (it' : DItem) : HasNew (dictSet L k it') H Q := by
  obtain ⟨it, m, hm, e, q⟩ := h
  refine ⟨it, m, mem_dictSet_of_ne it' hm ?_, e, q⟩
  intro e'; exact hk (e' ▸ List.mem_map_of_mem hm)

theorem HasNew.body {L : List (Handle × DItem)} {H : Handle} {Q : Descr → Prop} (h : HasNew L H Q) (hn : (L.map (·.1)).Nodup)
    {k : Handle} {o : Option Descr} {d : Descr} (hg : dictGet L k = some ⟨o, some d⟩) (b : Nat)
    (hQ : Q d → Q { d with body := b }) : HasNew (dictSet L k ⟨o, some { d with body := b }⟩) H Q := by
  obtain ⟨it, m, hm, e, q⟩ := h
  by_cases e' : H = k
  · subst e'
    have : it = ⟨o, some d⟩ := by
      have := dictGet_of_mem_nodup hn hm
      rw [hg] at this; exact (Option.some.inj this).symm
    subst this
    cases e
    exact ⟨_, _, mem_dictSet_self _ _ _, rfl, hQ q⟩
  · exact ⟨it, m, mem_dictSet_of_ne _ hm e', e, q⟩

theorem HasNew.mono {L : List (Handle × DItem)} {H : Handle} {Q Q' : Descr → Prop} (h : HasNew L H Q) (hq : ∀ m, Q m → Q' m) :
    HasNew L H Q' := by
  obtain ⟨it, m, hm, e, q⟩ := h; exact ⟨it, m, hm, e, hq m q⟩

structure DTxOK (t : Tables) (tx : DTx) : Prop where
  dKeys : (tx.descr.map (·.1)).Nodup
  dOld : ∀ p ∈ tx.descr, p.2.old = findD t p.1
  dNew : ∀ p ∈ tx.descr, ∀ n ∈ p.2.new, n.handle = p.1
  dSome : ∀ p ∈ tx.descr, p.2.old = none → p.2.new ≠ none
  /-- an updated descriptor keeps its kind and has the next version -/
  dUpd : ∀ p ∈ tx.descr, ∀ o ∈ p.2.old, ∀ n ∈ p.2.new, n.kind = o.kind ∧ n.ver = o.ver + 1
  /-- a re-created descriptor continues above the saved version -/
  dCre : ∀ p ∈ tx.descr, p.2.old = none → ∀ n ∈ p.2.new, savedGet t.dSaved p.1 ≤ some n.ver
  sKeys : (tx.sItems.map (·.1)).Nodup
  sDh : ∀ p ∈ tx.sItems, p.2.new.dh = p.1
  sOld : ∀ p ∈ tx.sItems, p.2.old = findS t p.1
  sKind : ∀ p ∈ tx.sItems, p.2.new.kind ≠ .context
  sDescr : ∀ p ∈ tx.sItems, HasNew tx.descr p.1 (fun n => n.kind ≠ .context)
  sBump : ∀ p ∈ tx.sItems, (∀ o, findS t p.1 = some o → o.sv < p.2.new.sv) ∧
    (findS t p.1 = none → savedGet t.sSaved p.1 ≤ some p.2.new.sv)
  cKeys : (tx.cItems.map (·.1)).Nodup
  cOld : ∀ p ∈ tx.cItems, p.2.old = findC t p.1
  cOdh : ∀ p ∈ tx.cItems, ∀ o ∈ p.2.old, HasNew tx.descr o.dh (fun _ => True)
  cNew : ∀ p ∈ tx.cItems, ∀ n ∈ p.2.new, n.h = p.1 ∧ (∀ o ∈ p.2.old, o.dh = n.dh) ∧
    ((∀ o, findC t p.1 = some o → o.sv < n.sv) ∧ (findC t p.1 = none → savedGet t.cSaved p.1 ≤ some n.sv)) ∧
    HasNew tx.descr n.dh (fun m => m.kind = .context ∧ n.dv = m.ver)

theorem DTxOK.init (t : Tables) (v : Nat) : DTxOK t { newVer := v } :=
  ⟨by simp, by simp, by simp, by simp, by simp, by simp, by simp, by simp, by simp, by simp, by simp, by simp, by simp, by simp,
   by simp, by simp⟩

/-- adding a descriptor item under a key that is not yet in the transaction -/
theorem DTxOK.addD {t : Tables} {tx : DTx} (hi : DTxOK t tx) {h : Handle} {it : DItem} (hk : dictGet tx.descr h = none)
    (h1 : it.old = findD t h) (h2 : ∀ n ∈ it.new, n.handle = h) (h3 : it.old = none → it.new ≠ none)
    (h4 : ∀ o ∈ it.old, ∀ n ∈ it.new, n.kind = o.kind ∧ n.ver = o.ver + 1)
    (h5 : it.old = none → ∀ n ∈ it.new, savedGet t.dSaved h ≤ some n.ver) :
    DTxOK t { tx with descr := dictSet tx.descr h it } := by
  have hnk := dictGet_none_iff.1 hk
  refine ⟨dictSet_keys_nodup hi.dKeys h it, forall_dictSet hi.dOld h1, forall_dictSet hi.dNew h2, forall_dictSet hi.dSome h3,
    forall_dictSet hi.dUpd h4, forall_dictSet hi.dCre h5, hi.sKeys, hi.sDh, hi.sOld, hi.sKind, ?_, hi.sBump,
    hi.cKeys, hi.cOld, ?_, ?_⟩
  · intro p hp; exact (hi.sDescr p hp).add hnk it
  · intro p hp o ho; exact (hi.cOdh p hp o ho).add hnk it
  · intro p hp n hn
    obtain ⟨a, b, c, d⟩ := hi.cNew p hp n hn
    exact ⟨a, b, c, d.add hnk it⟩

theorem DTxOK.setS {t : Tables} {tx : DTx} (hi : DTxOK t tx) {h : Handle} {it : SItem}
    (h1 : it.new.dh = h) (h2 : it.old = findS t h) (h3 : it.new.kind ≠ .context)
    (h4 : HasNew tx.descr h (fun n => n.kind ≠ .context))
    (h5 : (∀ o, findS t h = some o → o.sv < it.new.sv) ∧ (findS t h = none → savedGet t.sSaved h ≤ some it.new.sv)) :
    DTxOK t { tx with sItems := dictSet tx.sItems h it } :=
  ⟨hi.dKeys, hi.dOld, hi.dNew, hi.dSome, hi.dUpd, hi.dCre, dictSet_keys_nodup hi.sKeys h it, forall_dictSet hi.sDh h1,
   forall_dictSet hi.sOld h2, forall_dictSet hi.sKind h3, forall_dictSet hi.sDescr h4, forall_dictSet hi.sBump h5,
   hi.cKeys, hi.cOld, hi.cOdh, hi.cNew⟩

theorem DTxOK.setC {t : Tables} {tx : DTx} (hi : DTxOK t tx) {h : Handle} {it : CItem}
    (h1 : it.old = findC t h) (h2 : ∀ o ∈ it.old, HasNew tx.descr o.dh (fun _ => True))
    (h3 : ∀ n ∈ it.new, n.h = h ∧ (∀ o ∈ it.old, o.dh = n.dh) ∧
      ((∀ o, findC t h = some o → o.sv < n.sv) ∧ (findC t h = none → savedGet t.cSaved h ≤ some n.sv)) ∧
      HasNew tx.descr n.dh (fun m => m.kind = .context ∧ n.dv = m.ver)) :
    DTxOK t { tx with cItems := dictSet tx.cItems h it } :=
  ⟨hi.dKeys, hi.dOld, hi.dNew, hi.dSome, hi.dUpd, hi.dCre, hi.sKeys, hi.sDh, hi.sOld, hi.sKind, hi.sDescr, hi.sBump,
   dictSet_keys_nodup hi.cKeys h it, forall_dictSet hi.cOld h1, forall_dictSet hi.cOdh h2, forall_dictSet hi.cNew h3⟩

theorem DTxOK.addDescr {t : Tables} (hw : WF t) {tx : DTx} (hi : DTxOK t tx) (d : Descr) (hnd : dictGet tx.descr d.handle = none)
    (hnf : findD t d.handle = none) (hver : savedGet t.dSaved d.handle ≤ some d.ver) :
    DTxOK t { tx with descr := dictSet tx.descr d.handle ⟨none, some d⟩ } ∧
    (∀ b sv, d.kind ≠ .context → savedGet t.sSaved d.handle ≤ some sv →
      DTxOK t { tx with descr := dictSet tx.descr d.handle ⟨none, some d⟩,
                        sItems := dictSet tx.sItems d.handle ⟨none, ⟨d.handle, d.ver, sv, d.kind, b⟩⟩ }) := by
  have hi1 := hi.addD (h := d.handle) (it := ⟨none, some d⟩)
      hnd hnf.symm (by intro n hn; cases hn; rfl) (by simp) (by simp) (by intro _ n hn; cases hn; exact hver)
  refine ⟨hi1, ?_⟩
  intro b sv hkind hsv
  have hnoS : findS t d.handle = none := by
    cases hf : findS t d.handle with
    | none => rfl
    | some s =>
      obtain ⟨e, hs⟩ := findS_some hf
      obtain ⟨d', hd', e1, _⟩ := hw.sRef s hs
      have := (find_none_iff (fun d : Descr => d.handle)).1 hnf
      exact absurd (by rw [← e, ← e1]; exact List.mem_map_of_mem hd') this
  exact hi1.setS rfl hnoS.symm hkind ⟨_, _, mem_dictSet_self _ _ _, rfl, hkind⟩ ⟨by simp [hnoS], fun _ => hsv⟩

/-! ### `write_entity` -/

/-- what a well-formed `Entity` / `MultiStateEntity` object handed to `DescriptorTransaction.write_entity` looks like:
    its descriptor has the kind of the table's descriptor with that handle (if there is one); a `MultiStateEntity` belongs to a
    context descriptor, its states name this descriptor, and their handles are either states of this descriptor or unused
    (`entity.new_state` generates a fresh handle). The real API produces only such objects (`mdib.entities.by_handle`). -/
def dCallOK (t : Tables) : DCall → Prop
  | .writeEntity d0 _ multi =>
    (∀ o ∈ findD t d0.handle, o.kind = d0.kind) ∧
    (∀ cs ∈ multi, d0.kind = .context ∧ ∀ c ∈ cs, c.dh = d0.handle ∧ ∀ o ∈ findC t c.h, o.dh = d0.handle)
  | _ => True

instance (t : Tables) : DecidablePred (dCallOK t) := fun c => by
  cases c <;> (unfold dCallOK; infer_instance)

/-- every `write_entity` call of the script passes a well-formed entity (`dCallOK`); the classic calls are unrestricted -/
def DScriptOK (t : Tables) (s : DScript) : Prop := ∀ c ∈ s.calls, dCallOK t c
instance (t : Tables) (s : DScript) : Decidable (DScriptOK t s) := by unfold DScriptOK; infer_instance

theorem find_ctxOf {t : Tables} (hw : WF t) {H k : Handle} (hk : ∀ o ∈ findC t k, o.dh = H) :
    (ctxOf t H).find? (fun o => o.h == k) = findC t k := by
  cases hf : findC t k with
  | none =>
    rw [List.find?_eq_none]
    intro x hx
    simp only [ctxOf, List.mem_filter] at hx
    have := (find_none_iff (fun c : CState => c.h)).1 hf
    simp only [beq_iff_eq]
    intro e; exact this (e ▸ List.mem_map_of_mem hx.1)
  | some o =>
    have ho := findC_some hf
    have hmem : o ∈ ctxOf t H := by
      simp only [ctxOf, List.mem_filter, beq_iff_eq]; exact ⟨ho.2, hk o hf⟩
    have hn : ((ctxOf t H).map (·.h)).Nodup := nodup_filter_key _ hw.cKeys _
    have := find_of_mem_nodup (fun c : CState => c.h) hn hmem
    simp only [ho.1] at this
    exact this

/-- the version `write_entity` gives the descriptor -/
def weVer (t : Tables) (d0 : Descr) : Nat :=
  match findD t d0.handle with
  | some o => o.ver + 1
  | none => match savedGet t.dSaved d0.handle with
    | some v => v + 1
    | none => d0.ver

def weCSv (t : Tables) (old : Option CState) (c : CState) : Nat :=
  match old with
  | some o => o.sv + 1
  | none => match savedGet t.cSaved c.h with
    | some v => v + 1
    | none => c.sv

def wePut (t : Tables) (H : Handle) (ver : Nat) (tx : DTx) (c : CState) : DTx :=
  { tx with cItems := (dictSet tx.cItems c.h
      ⟨(ctxOf t H).find? (fun o => o.h == c.h), some { c with dv := ver, sv := weCSv t ((ctxOf t H).find? (fun o => o.h == c.h)) c }⟩) }

def weSSv (t : Tables) (h : Handle) (sv0 : Nat) : Nat :=
  match findS t h with
  | some o => o.sv + 1
  | none => match savedGet t.sSaved h with
    | some v => v + 1
    | none => sv0

/-- `dCall` on `writeEntity`, written with the helper functions above (same code) -/
theorem dCall_writeEntity (t : Tables) (tx : DTx) (d0 : Descr) (single : Option (Nat × Nat)) (multi : Option (List CState)) :
    dCall t tx (.writeEntity d0 single multi) =
      if (dictGet tx.descr d0.handle).isSome then .error .valueError else
      let tx1 : DTx := { tx with descr := dictSet tx.descr d0.handle ⟨findD t d0.handle, some { d0 with ver := weVer t d0 }⟩ }
      match multi with
      | some cs =>
        .ok (((ctxOf t d0.handle).filter (fun o => !(cs.any (fun c => c.h == o.h)))).foldl
          (fun tx o => { tx with cItems := dictSet tx.cItems o.h ⟨some o, none⟩ }) (cs.foldl (wePut t d0.handle (weVer t d0)) tx1))
      | none =>
        match single with
        | none => .ok tx1
        | some (sv0, b) =>
          if d0.kind == .context then .error .notImplemented else
          .ok { tx1 with sItems := (dictSet tx1.sItems d0.handle
                  ⟨findS t d0.handle, ⟨d0.handle, weVer t d0, weSSv t d0.handle sv0, d0.kind, b⟩⟩) } := by
  rfl

theorem weVer_some {t : Tables} {d0 o : Descr} (h : findD t d0.handle = some o) : weVer t d0 = o.ver + 1 := by
  simp [weVer, h]
theorem weVer_none {t : Tables} {d0 : Descr} (h : findD t d0.handle = none) : savedGet t.dSaved d0.handle ≤ some (weVer t d0) := by
  simp only [weVer, h]; cases savedGet t.dSaved d0.handle <;> simp
theorem weCSv_bump (t : Tables) (old : Option CState) (c : CState) :
    (∀ o, old = some o → o.sv < weCSv t old c) ∧ (old = none → savedGet t.cSaved c.h ≤ some (weCSv t old c)) := by
  constructor
  · intro o ho; simp [weCSv, ho]
  · intro ho; simp only [weCSv, ho]; cases savedGet t.cSaved c.h <;> simp
theorem weSSv_bump (t : Tables) (h : Handle) (sv0 : Nat) :
    (∀ o, findS t h = some o → o.sv < weSSv t h sv0) ∧ (findS t h = none → savedGet t.sSaved h ≤ some (weSSv t h sv0)) := by
  constructor
  · intro o ho; simp [weSSv, ho]
  · intro ho; simp only [weSSv, ho]; cases savedGet t.sSaved h <;> simp

theorem put_loop {t : Tables} (hw : WF t) {H : Handle} {ver : Nat} :
    ∀ (cs : List CState) (tx : DTx), DTxOK t tx → HasNew tx.descr H (fun m => m.kind = .context ∧ m.ver = ver) →
      (∀ c ∈ cs, c.dh = H ∧ ∀ o ∈ findC t c.h, o.dh = H) →
      DTxOK t (cs.foldl (wePut t H ver) tx) ∧ (cs.foldl (wePut t H ver) tx).descr = tx.descr := by
  intro cs
  induction cs with
  | nil => intro tx hi _ _; exact ⟨hi, rfl⟩
  | cons c rest ih =>
    intro tx hi hH hcs
    simp only [List.foldl_cons]
    obtain ⟨hc1, hc2⟩ := hcs c (by simp)
    have hfind := find_ctxOf hw hc2
    have hsv := weCSv_bump t ((ctxOf t H).find? (fun o => o.h == c.h)) c
    have hi' : DTxOK t (wePut t H ver tx c) := by
      unfold wePut
      rw [hfind] at hsv ⊢
      refine hi.setC rfl ?_ ?_
      · intro o ho; rw [hc2 o ho]; exact hH.mono (fun _ _ => trivial)
      · intro n hn
        simp only [Option.mem_def, Option.some.injEq] at hn; subst hn
        refine ⟨rfl, fun o ho => (hc2 o ho).trans hc1.symm, hsv, ?_⟩
        simp only [hc1]
        exact hH.mono (fun m hm => ⟨hm.1, hm.2.symm⟩)
    have hd : (wePut t H ver tx c).descr = tx.descr := rfl
    obtain ⟨a, b⟩ := ih (wePut t H ver tx c) hi' (hd ▸ hH) (fun c hc => hcs c (by simp [hc]))
    exact ⟨a, b.trans hd⟩

theorem gone_loop {t : Tables} (hw : WF t) {H : Handle} :
    ∀ (l : List CState) (tx : DTx), (∀ o ∈ l, o ∈ t.ctx ∧ o.dh = H) → DTxOK t tx → HasNew tx.descr H (fun _ => True) →
      DTxOK t (l.foldl (fun tx o => { tx with cItems := dictSet tx.cItems o.h ⟨some o, none⟩ }) tx) := by
  intro l
  induction l with
  | nil => intro tx _ hi _; exact hi
  | cons o rest ih =>
    intro tx hl hi hH
    simp only [List.foldl_cons]
    obtain ⟨ho1, ho2⟩ := hl o (by simp)
    refine ih _ (fun o ho => hl o (by simp [ho])) (hi.setC (hw.findC_of_mem ho1).symm ?_ (by simp)) hH
    intro o' ho'; cases ho'; rw [ho2]; exact hH

theorem dCall_ok {t : Tables} (hw : WF t) (hk : KOK t) {tx tx' : DTx} {c : DCall} (hc : dCallOK t c) (hi : DTxOK t tx)
    (h : dCall t tx c = .ok tx') : DTxOK t tx' := by
  cases c with
  | addDescr d0 st =>
    simp only [dCall] at h
    split at h; · cases h
    rename_i hnd
    split at h; · cases h
    rename_i hnf
    split at h; · cases h
    rename_i m _
    have hnd' : dictGet tx.descr d0.handle = none := by simpa using hnd
    have hnf' : findD t d0.handle = none := by simpa using hnf
    have hsvb : savedGet t.sSaved d0.handle ≤ some (match savedGet t.sSaved d0.handle with | some v => v + 1 | none => 0) := by
      cases savedGet t.sSaved d0.handle <;> simp
    cases hsv : savedGet t.dSaved d0.handle with
    | none =>
      simp only [hsv] at h
      have key := DTxOK.addDescr hw hi { d0 with mds := m } hnd' hnf' (by simp [hsv])
      cases st with
      | none => cases h; exact key.1
      | some b =>
        simp only at h
        split at h; · cases h
        rename_i hkind
        split at h; · cases h
        cases h
        exact key.2 b _ (by simpa using hkind) hsvb
    | some v =>
      simp only [hsv] at h
      have key := DTxOK.addDescr hw hi { d0 with ver := v + 1, mds := m } hnd' hnf' (by simp [hsv])
      cases st with
      | none => cases h; exact key.1
      | some b =>
        simp only at h
        split at h; · cases h
        rename_i hkind
        split at h; · cases h
        cases h
        exact key.2 b _ (by simpa using hkind) hsvb
  | removeDescr h0 =>
    simp only [dCall] at h
    split at h; · cases h
    rename_i hnd
    split at h; · cases h
    rename_i d hd
    cases h
    exact hi.addD (by simpa using hnd) hd.symm (by simp) (by simp) (by simp) (by simp)
  | getDescr h0 =>
    simp only [dCall] at h
    split at h; · cases h
    rename_i hnd
    split at h; · cases h
    rename_i d hd
    cases h
    refine hi.addD (by simpa using hnd) hd.symm ?_ (by simp) ?_ (by simp)
    · intro n hn; cases hn; exact (findD_some hd).1
    · intro o ho n hn; cases ho; cases hn; exact ⟨rfl, rfl⟩
  | getState h0 =>
    simp only [dCall] at h
    split at h; · cases h
    rename_i it hit
    split at h; · cases h
    rename_i d hd
    split at h; · cases h
    rename_i hkind
    split at h; · cases h
    split at h; · cases h
    rename_i s hs
    cases h
    have hs' := findS_some hs
    refine hi.setS hs'.1 hs.symm (hk.kS s hs'.2) ⟨it, d, dictGet_some_mem hit, hd, by simpa using hkind⟩ ?_
    simp [hs]
  | setDescrBody h0 b =>
    simp only [dCall] at h
    split at h
    · rename_i o d hit
      cases h
      have hm := dictGet_some_mem hit
      refine ⟨dictSet_keys_nodup hi.dKeys _ _, forall_dictSet hi.dOld (hi.dOld (h0, ⟨o, some d⟩) hm), forall_dictSet hi.dNew ?_,
        forall_dictSet hi.dSome (by simp), forall_dictSet hi.dUpd ?_, forall_dictSet hi.dCre ?_, hi.sKeys, hi.sDh, hi.sOld,
        hi.sKind, ?_, hi.sBump, hi.cKeys, hi.cOld, ?_, ?_⟩
      · intro n hn; cases hn; exact hi.dNew _ hm d rfl
      · intro o' ho n hn; cases hn; exact hi.dUpd _ hm o' ho d rfl
      · intro ho n hn; cases hn; exact hi.dCre _ hm ho d rfl
      · intro p hp; exact (hi.sDescr p hp).body hi.dKeys hit b (fun q => q)
      · intro p hp o' ho; exact (hi.cOdh p hp o' ho).body hi.dKeys hit b (fun q => q)
      · intro p hp n hn
        obtain ⟨a, b', c, e⟩ := hi.cNew p hp n hn
        exact ⟨a, b', c, e.body hi.dKeys hit b (fun q => q)⟩
    · cases h
  | setStateBody h0 b =>
    simp only [dCall] at h
    split at h
    · rename_i it hit
      cases h
      have hm := dictGet_some_mem hit
      exact hi.setS (hi.sDh _ hm) (hi.sOld _ hm) (hi.sKind _ hm) (hi.sDescr _ hm) (hi.sBump _ hm)
    · cases h
  | writeEntity d0 single multi =>
    rw [dCall_writeEntity] at h
    split at h; · cases h
    rename_i hnd
    have hnd' : dictGet tx.descr d0.handle = none := by simpa using hnd
    obtain ⟨hc1, hc2⟩ := hc
    -- the descriptor item
    have hi1 : DTxOK t { tx with descr := dictSet tx.descr d0.handle ⟨findD t d0.handle, some { d0 with ver := weVer t d0 }⟩ } := by
      refine hi.addD hnd' rfl (by intro n hn; cases hn; rfl) (by simp) ?_ ?_
      · intro o ho n hn; cases hn
        exact ⟨(hc1 o ho).symm, weVer_some ho⟩
      · intro ho n hn; cases hn; exact weVer_none ho
    cases multi with
    | some cs =>
      simp only at h
      cases h
      obtain ⟨hkc, hcs⟩ := hc2 cs rfl
      have hH : HasNew (dictSet tx.descr d0.handle ⟨findD t d0.handle, some { d0 with ver := weVer t d0 }⟩) d0.handle
          (fun m => m.kind = .context ∧ m.ver = weVer t d0) := ⟨_, _, mem_dictSet_self _ _ _, rfl, hkc, rfl⟩
      obtain ⟨hi2, hd2⟩ := put_loop hw (H := d0.handle) (ver := weVer t d0) cs _ hi1 hH hcs
      refine gone_loop hw _ _ ?_ hi2 (by rw [hd2]; exact hH.mono (fun _ _ => trivial))
      intro o ho
      simp only [ctxOf, List.mem_filter, beq_iff_eq] at ho
      exact ho.1
    | none =>
      simp only at h
      cases single with
      | none => cases h; exact hi1
      | some sb =>
        obtain ⟨sv0, b⟩ := sb
        simp only at h
        split at h; · cases h
        rename_i hkind
        cases h
        have hkind' : ¬ d0.kind = .context := by simpa using hkind
        exact hi1.setS (it := ⟨findS t d0.handle, ⟨d0.handle, weVer t d0, weSSv t d0.handle sv0, d0.kind, b⟩⟩) rfl rfl hkind'
          ⟨_, _, mem_dictSet_self _ _ _, rfl, hkind'⟩ (weSSv_bump t d0.handle sv0)

theorem dCalls_ok {t : Tables} (hw : WF t) (hk : KOK t) {s : DScript} (hs : DScriptOK t s) {tx : DTx}
    (h : runCalls (dCall t) s.catchErrors { newVer := t.ver + 1 } s.calls = .ok tx) : DTxOK t tx :=
  runCalls_inv_of (fun tx : DTx => DTxOK t tx) (dCallOK t) (fun _ _ _ hg hp hc => dCall_ok hw hk hg hp hc) _ _ _ _ hs
    (DTxOK.init t _) h

end Sdc.Mdib
