import SdcModel.Proofs.MdibDFinal
/-!
# histories of transactions of all seven kinds
-/
set_option linter.unusedSimpArgs false
namespace Sdc.Mdib

/-- the script stays inside what the real API can be asked to do (see `SKindOK`, `DScriptOK`); `fresh`: the handles generated
    for new context states are unused -/
def StepOK (fresh : Bool) (t : Tables) : Script → Prop
  | .s x => SKindOK t x
  | .c x => fresh = true → FreshUuids t x
  | .d x => DScriptOK t x

instance (fresh : Bool) (t : Tables) (sc : Script) : Decidable (StepOK fresh t sc) := by
  cases sc <;> (unfold StepOK; infer_instance)

def HistOK (fresh : Bool) : Tables → List Script → Prop
  | _, [] => True
  | t, sc :: rest => StepOK fresh t sc ∧ HistOK fresh (runScript t sc).1 rest

instance (fresh : Bool) : ∀ (t : Tables) (h : List Script), Decidable (HistOK fresh t h)
  | _, [] => isTrue trivial
  | t, sc :: rest =>
    have := instDecidableHistOK fresh (runScript t sc).1 rest
    by unfold HistOK; infer_instance

theorem runScript_wfk {fresh : Bool} {t : Tables} (hw : WF t) (hk : KOK t) (sc : Script) (h : StepOK fresh t sc) :
    WF (runScript t sc).1 ∧ KOK (runScript t sc).1 := by
  cases sc with
  | s x => exact ⟨(runS_ok hw x).2, runS_kok hw hk x h⟩
  | c x => exact ⟨runC_wf hw x, runC_kok hw hk x⟩
  | d x => exact (runD_ok hw hk x h).2

theorem runHist_wfk {fresh : Bool} : ∀ (hist : List Script) (t : Tables), WF t → KOK t → HistOK fresh t hist →
    WF (runHist t hist) ∧ KOK (runHist t hist) := by
  intro hist
  induction hist with
  | nil => intro t hw hk _; exact ⟨hw, hk⟩
  | cons sc rest ih =>
    intro t hw hk h
    obtain ⟨a, b⟩ := runScript_wfk hw hk sc h.1
    exact ih _ a b h.2

/-- state and context transactions alone need no side condition -/
def Script.isSC : Script → Bool
  | .d _ => false
  | _ => true

theorem runHist_wf_sc : ∀ (hist : List Script) (t : Tables), WF t → (∀ sc ∈ hist, sc.isSC = true) → WF (runHist t hist) := by
  intro hist
  induction hist with
  | nil => intro t hw _; exact hw
  | cons sc rest ih =>
    intro t hw h
    have h0 := h sc (by simp)
    refine ih _ ?_ (fun x hx => h x (by simp [hx]))
    cases sc with
    | s x => exact (runS_ok hw x).2
    | c x => exact runC_wf hw x
    | d x => cases h0

/-- no transaction of a history dies half-way: a `commitFailed` outcome left the tables as they were -/
theorem runScript_atomic {t : Tables} (hw : WF t) (hk : KOK t) (sc : Script) (h : StepOK true t sc) :
    (runScript t sc).2.2 = .commitFailed → (runScript t sc).1 = t := by
  cases sc with
  | s x => intro hf; exact absurd hf (runS_ok hw x).1
  | c x => intro hf; exact absurd hf (runC_ok hw x (h rfl))
  | d x => exact (runD_ok hw hk x h).1

/-- an empty, aborted or rejected transaction returns the tables it started from -/
theorem runScript_unchanged (t : Tables) (sc : Script)
    (h : (runScript t sc).2.2 = .empty ∨ (runScript t sc).2.2 = .aborted ∨ (runScript t sc).2.2 = .rejected) :
    (runScript t sc).1 = t := by
  revert h
  cases sc with
  | s x =>
    simp only [runScript, runS]
    split
    · simp
    · rename_i tx _
      split
      · simp
      · unfold commitS
        by_cases he : tx.items.isEmpty
        · simp [he]
        · simp only [he, Bool.false_eq_true, if_false]
          split <;> simp
  | c x =>
    simp only [runScript, runC]
    split
    · simp
    · rename_i tx _
      split
      · simp
      · unfold commitC
        by_cases he : tx.items.isEmpty
        · simp [he]
        · simp only [he, Bool.false_eq_true, if_false]
          split <;> simp
  | d x =>
    simp only [runScript, runD]
    split
    · simp
    · rename_i tx _
      split
      · simp
      · by_cases he : tx.descr.isEmpty
        · simp [commitD, he]
        · split
          · simp
          · simp [he]

/-! ## counters over one transaction of any kind and over histories -/

theorem runScript_mono {t : Tables} (hw : WF t) (hk : KOK t) (sc : Script) (h : StepOK true t sc) : DMono t (runScript t sc).1 := by
  cases sc with
  | s x =>
    show DMono t (runS t x).1
    obtain ⟨a, b, c, d⟩ := runS_frame t x
    have fD : ∀ k, findD (runS t x).1 k = findD t k := fun k => by simp [findD, a]
    have fC : ∀ k, findC (runS t x).1 k = findC t k := fun k => by simp [findC, b]
    refine ⟨fun k => by rw [seenD_congr a c]; exact optLe_refl _, runS_seenS hw x, fun k => by rw [seenC_congr b d]; exact optLe_refl _,
      ?_, fun k a' b' => runS_change hw x, ?_⟩
    · intro k a' b' ha hb; rw [fD] at hb; exact .inl (Option.some.inj (ha.symm.trans hb))
    · intro k a' b' ha hb; rw [fC] at hb; exact .inl (Option.some.inj (ha.symm.trans hb))
  | c x =>
    show DMono t (runC t x).1
    obtain ⟨a, b, c, d⟩ := runC_frame t x
    have fD : ∀ k, findD (runC t x).1 k = findD t k := fun k => by simp [findD, a]
    have fS : ∀ k, findS (runC t x).1 k = findS t k := fun k => by simp [findS, b]
    refine ⟨fun k => by rw [seenD_congr a c]; exact optLe_refl _, fun k => by rw [seenS_congr b d]; exact optLe_refl _,
      runC_seenC hw x (h rfl), ?_, ?_, fun k a' b' => runC_change hw x (h rfl)⟩
    · intro k a' b' ha hb; rw [fD] at hb; exact .inl (Option.some.inj (ha.symm.trans hb))
    · intro k a' b' ha hb; rw [fS] at hb; exact .inl (Option.some.inj (ha.symm.trans hb))
  | d x => exact runD_mono hw hk x h

/-- all counters (live or saved) of `t'` are at least those of `t` -/
def SeenLe (t t' : Tables) : Prop := ∀ h, seenD t h ≤ seenD t' h ∧ seenS t h ≤ seenS t' h ∧ seenC t h ≤ seenC t' h

theorem runHist_seen : ∀ (hist : List Script) (t : Tables), WF t → KOK t → HistOK true t hist → SeenLe t (runHist t hist) := by
  intro hist
  induction hist with
  | nil => intro t _ _ _ h; exact ⟨optLe_refl _, optLe_refl _, optLe_refl _⟩
  | cons sc rest ih =>
    intro t hw hk h k
    obtain ⟨a, b⟩ := runScript_wfk hw hk sc h.1
    have m := runScript_mono hw hk sc h.1
    obtain ⟨x, y, z⟩ := ih _ a b h.2 k
    exact ⟨optLe_trans (m.seenD k) x, optLe_trans (m.seenS k) y, optLe_trans (m.seenC k) z⟩

end Sdc.Mdib
