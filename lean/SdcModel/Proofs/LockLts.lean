import SdcModel.LockLts
/-! invariant behind `Properties/C07.lean`: every thread is at a scanner state that matches the lock, and its
observations match the phase of that state -/
namespace Sdc.LockLts

/-- what the observations of a thread must look like, depending on the scanner phase -/
def PhaseOK (c : Cfg) (t : Thr) (s : Scan) : Prop :=
  match s.ph with
  | .before => t.ref = none ∧ t.obsV = [] ∧ t.obsC = [] ∧ t.obsD = []
  | .during => 0 < s.d ∧ (∀ v ∈ t.obsV, v = c.ver) ∧ (∀ r, t.ref = some r → r = c.cur) ∧
      (∀ x ∈ t.obsC, x = c.heap c.cur) ∧ (∀ d ∈ t.obsD, d = c.dsc)
  | .after => ∃ p ∈ c.hist, (∀ v ∈ t.obsV, v = p.1) ∧ (∀ r, t.ref = some r → c.heap r = p.2.2) ∧
      (∀ x ∈ t.obsC, x = p.2.2) ∧ (∀ d ∈ t.obsD, d = p.2.1)
  | .mixed => True

/-- what the flags of the current outermost section say about the shared state, relative to the triple published
    last (`dirty` / `bumped` of the scanner state) -/
def SectOK (c : Cfg) (dirty bumped : Bool) : Prop :=
  ∃ l, c.hist.getLast? = some l ∧ l.1 ≤ c.ver ∧ (bumped = false → c.ver = l.1) ∧ (bumped = true → l.1 < c.ver) ∧
    (dirty = false → c.dsc = l.2.1 ∧ c.heap c.cur = l.2.2)

structure ThrInv (c : Cfg) (j : Nat) (s fin : Scan) : Prop where
  scanTodo : scan s (c.thr j).todo = some fin
  scanProg : scan scan0 (c.thr j).prog = some fin
  finD : fin.d = 0
  noMut : ∀ a ∈ (c.thr j).todo, a.isMutate = false
  free : s.d = 0 → ∀ n, c.owner 0 ≠ some (j, n)
  held : 0 < s.d → c.owner 0 = some (j, s.d)
  refLt : ∀ r, (c.thr j).ref = some r → r < c.next
  phase : PhaseOK c (c.thr j) s
  sect : 0 < s.d → SectOK c s.dirty s.bumped

def ThrOK (c : Cfg) (j : Nat) : Prop := ∃ s fin, ThrInv c j s fin

structure Good (c : Cfg) : Prop where
  curLt : c.cur < c.next
  histNe : c.hist ≠ []
  thr : ∀ j, ThrOK c j
  quiet : c.owner 0 = none → c.hist.getLast? = some (c.ver, c.dsc, c.heap c.cur)
  lastMax : ∀ l, c.hist.getLast? = some l → ∀ p ∈ c.hist, p.1 ≤ l.1

theorem good_init {c : Cfg} (h0 : Init c) (hw : ∀ j, WellLocked (c.thr j).prog ∧ NoMutate (c.thr j).prog) : Good c := by
  obtain ⟨hown, hhist, hcur, hthr⟩ := h0
  refine ⟨hcur, by simp [hhist], fun j => ?_, fun _ => by simp [hhist], ?_⟩
  rotate_left
  · intro l hl p hp
    simp only [hhist, List.getLast?_singleton, Option.some.injEq] at hl
    simp only [hhist, List.mem_singleton] at hp
    subst hl; subst hp; exact Nat.le_refl _
  obtain ⟨hwl, hnm⟩ := hw j
  obtain ⟨htodo, href, hv, hdd, hc⟩ := hthr j
  unfold WellLocked at hwl
  cases hsc : scan scan0 (c.thr j).prog with
  | none => simp [hsc] at hwl
  | some fin =>
    simp only [hsc] at hwl
    refine ⟨scan0, fin, ⟨by rw [htodo, hsc], hsc, hwl, by rw [htodo]; exact hnm, ?_, ?_, ?_, ?_, ?_⟩⟩
    · intro _ n; simp [hown 0]
    · intro h; simp [scan0] at h
    · intro r hr; simp [href] at hr
    · simp [PhaseOK, scan0, href, hv, hc, hdd]
    · intro h; simp [scan0] at h

/-- a thread that does not move keeps its invariant if the mover left alone what the thread depends on -/
theorem thrInv_frame {c c' : Cfg} {j : Nat} {s fin : Scan}
    (hthr : c'.thr j = c.thr j)
    (hown : ∀ n, c'.owner 0 = some (j, n) ↔ c.owner 0 = some (j, n))
    (hkeep : ∀ n, c.owner 0 = some (j, n) →
      c'.ver = c.ver ∧ c'.cur = c.cur ∧ c'.heap c.cur = c.heap c.cur ∧ c'.dsc = c.dsc ∧ c'.hist = c.hist)
    (hhist : ∀ p ∈ c.hist, p ∈ c'.hist)
    (hnext : c.next ≤ c'.next)
    (hheap : ∀ r, r < c.next → c'.heap r = c.heap r)
    (h : ThrInv c j s fin) : ThrInv c' j s fin := by
  refine ⟨by rw [hthr]; exact h.scanTodo, by rw [hthr]; exact h.scanProg, h.finD, by rw [hthr]; exact h.noMut, ?_, ?_, ?_, ?_, ?_⟩
  rotate_right
  · intro hd
    obtain ⟨e1, e2, e3, e4, e5⟩ := hkeep _ (h.held hd)
    obtain ⟨l, h1, h2, h3, h4, h5⟩ := h.sect hd
    exact ⟨l, by rw [e5]; exact h1, by rw [e1]; exact h2, by rw [e1]; exact h3, by rw [e1]; exact h4,
      by rw [e4, e2, e3]; exact h5⟩
  · intro hd n hn; exact h.free hd n ((hown n).1 hn)
  · intro hd; exact (hown _).2 (h.held hd)
  · intro r hr; rw [hthr] at hr; exact Nat.lt_of_lt_of_le (h.refLt r hr) hnext
  · have hp := h.phase
    rw [hthr]
    unfold PhaseOK at hp ⊢
    cases hph : s.ph with
    | before => simpa [hph] using hp
    | during =>
      simp only [hph] at hp ⊢
      obtain ⟨hd, h1, h2, h3, h4⟩ := hp
      obtain ⟨e1, e2, e3, e4, _⟩ := hkeep _ (h.held hd)
      refine ⟨hd, ?_, ?_, ?_, ?_⟩
      · rw [e1]; exact h1
      · rw [e2]; exact h2
      · rw [e2, e3]; exact h3
      · rw [e4]; exact h4
    | after =>
      simp only [hph] at hp ⊢
      obtain ⟨p, hpm, h1, h2, h3⟩ := hp
      refine ⟨p, hhist p hpm, h1, ?_, h3⟩
      intro r hr
      rw [hheap r (h.refLt r hr)]
      exact h2 r hr
    | mixed => simp

theorem scan_cons {s fin : Scan} {a : Act} {rest : List Act} (h : scan s (a :: rest) = some fin) :
    ∃ s', stepScan s a = some s' ∧ scan s' rest = some fin := by
  simp only [scan] at h
  cases hs : stepScan s a with
  | none => simp [hs] at h
  | some s' => exact ⟨s', rfl, by simpa [hs] using h⟩

/-! ### what one scanner step does (field by field) -/

theorem stepScan_other {s s' : Scan} {a : Act} {l : Nat} (hl : l ≠ 0) (ha : a = .acq l ∨ a = .rel l)
    (h : stepScan s a = some s') : s' = s := by
  rcases ha with rfl | rfl <;> simp [stepScan, hl] at h <;> exact h.symm

theorem stepScan_acq0 {s s' : Scan} (h : stepScan s (.acq 0) = some s') :
    s'.d = s.d + 1 ∧ s'.ph = s.ph ∧ s'.ok = s.ok ∧
    (0 < s.d → s'.dirty = s.dirty ∧ s'.bumped = s.bumped) ∧ (s.d = 0 → s'.dirty = false ∧ s'.bumped = false) := by
  simp only [stepScan, if_true] at h
  by_cases hd : s.d = 0
  · simp only [hd, if_true, Option.some.injEq] at h
    subst h; simp [hd]
  · simp only [hd, if_false, Option.some.injEq] at h
    subst h; simp [hd]

theorem stepScan_rel0 {s s' : Scan} (h : stepScan s (.rel 0) = some s') :
    0 < s.d ∧ s'.d = s.d - 1 ∧ s'.ph = (if s.d = 1 ∧ s.ph = .during then .after else s.ph) ∧
    s'.dirty = s.dirty ∧ s'.bumped = s.bumped ∧
    s'.ok = (if s.d = 1 then s.ok && (!s.dirty || s.bumped) else s.ok) := by
  simp only [stepScan, if_true] at h
  by_cases hd : s.d = 0
  · simp [hd] at h
  · simp only [hd, if_false, Option.some.injEq] at h
    subst h
    exact ⟨Nat.pos_of_ne_zero hd, rfl, rfl, rfl, rfl, rfl⟩

theorem stepScan_read {s s' : Scan} {a : Act} (ha : a = .rdV ∨ a = .rdC ∨ a = .rdD) (h : stepScan s a = some s') :
    0 < s.d ∧ s'.d = s.d ∧ s'.dirty = s.dirty ∧ s'.bumped = s.bumped ∧ s'.ok = s.ok ∧
      ((s.ph = .before ∨ s.ph = .during) ∧ s'.ph = .during ∨ s.ph = .mixed ∧ s'.ph = .mixed) := by
  have hd : s.d ≠ 0 := by
    intro hd
    rcases ha with rfl | rfl | rfl <;> simp [stepScan, hd] at h
  refine ⟨Nat.pos_of_ne_zero hd, ?_⟩
  rcases ha with rfl | rfl | rfl <;> simp only [stepScan, hd, if_false] at h <;>
    (cases hph : s.ph <;> simp only [hph] at h <;> cases h <;> simp [hph])

theorem stepScan_deref {s s' : Scan} (h : stepScan s .deref = some s') : s' = s := by
  simp [stepScan] at h; exact h.symm

theorem stepScan_write {s s' : Scan} {a : Act} (ha : a.isWrite = true) (h : stepScan s a = some s') :
    0 < s.d ∧ s'.d = s.d ∧ s'.ph = (if s.ph = .during then .mixed else s.ph) ∧ s'.ok = s.ok ∧
    (a = .incV → s'.bumped = true ∧ s'.dirty = s.dirty) ∧ (a ≠ .incV → s'.dirty = true ∧ s'.bumped = s.bumped) := by
  have hd : s.d ≠ 0 := by
    intro hd
    cases a <;> simp [Act.isWrite] at ha <;> simp [stepScan, hd] at h
  refine ⟨Nat.pos_of_ne_zero hd, ?_⟩
  cases a <;> simp [Act.isWrite] at ha <;> simp only [stepScan, hd, if_false, Option.some.injEq] at h <;>
    (subst h; simp)

/-- assembling `Good c'` after thread `i` moved -/
theorem good_of {c c' : Cfg} {i : Nat} (hg : Good c)
    (hcur : c'.cur < c'.next) (hi : ThrOK c' i)
    (hoth : ∀ j, j ≠ i → c'.thr j = c.thr j)
    (hown : ∀ j, j ≠ i → ∀ n, c'.owner 0 = some (j, n) ↔ c.owner 0 = some (j, n))
    (hkeep : ∀ j, j ≠ i → ∀ n, c.owner 0 = some (j, n) →
      c'.ver = c.ver ∧ c'.cur = c.cur ∧ c'.heap c.cur = c.heap c.cur ∧ c'.dsc = c.dsc ∧ c'.hist = c.hist)
    (hhist : ∀ p ∈ c.hist, p ∈ c'.hist) (hnext : c.next ≤ c'.next)
    (hheap : ∀ r, r < c.next → c'.heap r = c.heap r)
    (hquiet : c'.owner 0 = none → c'.hist.getLast? = some (c'.ver, c'.dsc, c'.heap c'.cur))
    (hlast : ∀ l, c'.hist.getLast? = some l → ∀ p ∈ c'.hist, p.1 ≤ l.1) : Good c' := by
  refine ⟨hcur, ?_, fun j => ?_, hquiet, hlast⟩
  · intro he
    cases hh : c.hist with
    | nil => exact hg.histNe hh
    | cons p _ =>
      have := hhist p (by simp [hh])
      simp [he] at this
  · by_cases hj : j = i
    · subst hj; exact hi
    · obtain ⟨s, fin, h⟩ := hg.thr j
      exact ⟨s, fin, thrInv_frame (hoth j hj) (hown j hj) (hkeep j hj) hhist hnext hheap h⟩

/-- the part of the mover's new invariant that is the same for every action -/
theorem thrInv_mover {c c' : Cfg} {i : Nat} {s s' fin : Scan} {a : Act} {rest : List Act}
    (h : ThrInv c i s fin) (htodo : (c.thr i).todo = a :: rest) (hrest : scan s' rest = some fin)
    (hprog : (c'.thr i).prog = (c.thr i).prog) (htodo' : (c'.thr i).todo = rest)
    (free : s'.d = 0 → ∀ n, c'.owner 0 ≠ some (i, n))
    (held : 0 < s'.d → c'.owner 0 = some (i, s'.d))
    (refLt : ∀ r, (c'.thr i).ref = some r → r < c'.next)
    (phase : PhaseOK c' (c'.thr i) s')
    (sect : 0 < s'.d → SectOK c' s'.dirty s'.bumped) : ThrInv c' i s' fin := by
  refine ⟨by rw [htodo']; exact hrest, by rw [hprog]; exact h.scanProg, h.finD, ?_, free, held, refLt, phase, sect⟩
  rw [htodo']
  intro b hb
  exact h.noMut b (by rw [htodo]; exact List.mem_cons_of_mem _ hb)

/-- a step that leaves lock 0 and the shared MDIB state alone (thread-local actions, other locks) -/
theorem good_local {c : Cfg} {i : Nat} {s s' fin : Scan} {a : Act} {rest : List Act} (t' : Thr) (owner' : Nat → Option (Nat × Nat))
    (hg : Good c) (h : ThrInv c i s fin) (htodo : (c.thr i).todo = a :: rest) (hrest : scan s' rest = some fin)
    (hown0 : owner' 0 = c.owner 0) (hprog : t'.prog = (c.thr i).prog) (htodo' : t'.todo = rest)
    (hd : s'.d = s.d) (hflags : s'.dirty = s.dirty ∧ s'.bumped = s.bumped)
    (refLt : ∀ r, t'.ref = some r → r < c.next)
    (phase : PhaseOK { c with owner := owner', thr := upd c.thr i t' } t' s') :
    Good { c with owner := owner', thr := upd c.thr i t' } := by
  refine good_of (i := i) hg hg.curLt ⟨s', fin, thrInv_mover h htodo hrest (by simpa using hprog) (by simpa using htodo')
      ?_ ?_ ?_ ?_ ?_⟩
    (fun j hj => by simp [hj]) (fun j hj n => by simp only [hown0]) (fun j hj n _ => ⟨rfl, rfl, rfl, rfl, rfl⟩)
    (fun p hp => hp) (Nat.le_refl _) (fun r _ => rfl) ?_ hg.lastMax
  · intro h0 n; simp only [hown0]; exact h.free (hd ▸ h0) n
  · intro h0; simp only [hown0, hd]; exact h.held (hd ▸ h0)
  · intro r hr; simp only [upd_same] at hr; exact refLt r hr
  · simpa using phase
  · intro h0
    rw [hflags.1, hflags.2]
    exact h.sect (hd ▸ h0)
  · intro ho; simp only [hown0] at ho; exact hg.quiet ho

/-! ### thread-local actions: `rdV`, `rdC`, `rdD`, `deref` -/

theorem good_rdV {c c' : Cfg} {i : Nat} {s fin : Scan} {rest : List Act} (hg : Good c) (h : ThrInv c i s fin)
    (htodo : (c.thr i).todo = .rdV :: rest) (hs : stepAct c i .rdV rest = some c') : Good c' := by
  simp only [stepAct] at hs
  injection hs with hs; subst hs
  have hsc := h.scanTodo
  simp only [htodo] at hsc
  obtain ⟨s', hss, hrest⟩ := scan_cons hsc
  obtain ⟨hd, hd', hf1, hf2, _, hph⟩ := stepScan_read (Or.inl rfl) hss
  refine good_local _ c.owner hg h htodo hrest rfl rfl rfl hd' ⟨hf1, hf2⟩ h.refLt ?_
  have hp := h.phase
  unfold PhaseOK at hp ⊢
  rcases hph with ⟨hb | hb, hn⟩ | ⟨hb, hn⟩
  · simp only [hb] at hp
    simp only [hn, hp.2.1, hp.1, hp.2.2.1, hp.2.2.2]
    refine ⟨by omega, by simp, by simp, by simp, by simp⟩
  · simp only [hb] at hp
    simp only [hn]
    refine ⟨by omega, ?_, hp.2.2.1, hp.2.2.2⟩
    intro v hv
    rcases List.mem_append.1 hv with hv | hv
    · exact hp.2.1 v hv
    · simpa using hv
  · simp [hn]

theorem good_rdD {c c' : Cfg} {i : Nat} {s fin : Scan} {rest : List Act} (hg : Good c) (h : ThrInv c i s fin)
    (htodo : (c.thr i).todo = .rdD :: rest) (hs : stepAct c i .rdD rest = some c') : Good c' := by
  simp only [stepAct] at hs
  injection hs with hs; subst hs
  have hsc := h.scanTodo
  simp only [htodo] at hsc
  obtain ⟨s', hss, hrest⟩ := scan_cons hsc
  obtain ⟨hd, hd', hf1, hf2, _, hph⟩ := stepScan_read (Or.inr (Or.inr rfl)) hss
  refine good_local _ c.owner hg h htodo hrest rfl rfl rfl hd' ⟨hf1, hf2⟩ h.refLt ?_
  have hp := h.phase
  unfold PhaseOK at hp ⊢
  rcases hph with ⟨hb | hb, hn⟩ | ⟨hb, hn⟩
  · simp only [hb] at hp
    simp only [hn, hp.2.1, hp.1, hp.2.2.1, hp.2.2.2]
    refine ⟨by omega, by simp, by simp, by simp, by simp⟩
  · simp only [hb] at hp
    simp only [hn]
    refine ⟨by omega, hp.2.1, hp.2.2.1, hp.2.2.2.1, ?_⟩
    intro v hv
    rcases List.mem_append.1 hv with hv | hv
    · exact hp.2.2.2.2 v hv
    · simpa using hv
  · simp [hn]

theorem good_rdC {c c' : Cfg} {i : Nat} {s fin : Scan} {rest : List Act} (hg : Good c) (h : ThrInv c i s fin)
    (htodo : (c.thr i).todo = .rdC :: rest) (hs : stepAct c i .rdC rest = some c') : Good c' := by
  simp only [stepAct] at hs
  injection hs with hs; subst hs
  have hsc := h.scanTodo
  simp only [htodo] at hsc
  obtain ⟨s', hss, hrest⟩ := scan_cons hsc
  obtain ⟨hd, hd', hf1, hf2, _, hph⟩ := stepScan_read (Or.inr (Or.inl rfl)) hss
  refine good_local _ c.owner hg h htodo hrest rfl rfl rfl hd' ⟨hf1, hf2⟩ ?_ ?_
  · intro r hr
    simp only [Option.some.injEq] at hr
    subst hr; exact hg.curLt
  have hp := h.phase
  unfold PhaseOK at hp ⊢
  rcases hph with ⟨hb | hb, hn⟩ | ⟨hb, hn⟩
  · simp only [hb] at hp
    simp only [hn, hp.2.1, hp.2.2.1, hp.2.2.2]
    refine ⟨by omega, by simp, by simp, by simp, by simp⟩
  · simp only [hb] at hp
    simp only [hn]
    refine ⟨by omega, hp.2.1, ?_, hp.2.2.2⟩
    intro r hr; simpa using hr.symm
  · simp [hn]

theorem good_deref {c c' : Cfg} {i : Nat} {s fin : Scan} {rest : List Act} (hg : Good c) (h : ThrInv c i s fin)
    (htodo : (c.thr i).todo = .deref :: rest) (hs : stepAct c i .deref rest = some c') : Good c' := by
  simp only [stepAct] at hs
  cases href : (c.thr i).ref with
  | none => simp [href] at hs
  | some r =>
    simp only [href] at hs
    injection hs with hs; subst hs
    have hsc := h.scanTodo
    simp only [htodo] at hsc
    obtain ⟨s', hss, hrest⟩ := scan_cons hsc
    have hs' : s' = s := stepScan_deref hss
    subst hs'
    refine good_local _ c.owner hg h htodo hrest rfl rfl rfl rfl ⟨rfl, rfl⟩ ?_ ?_
    · intro r' hr'; simp only at hr'; rw [← href] at hr'; exact h.refLt r' hr'
    · have hp := h.phase
      unfold PhaseOK at hp ⊢
      simp only
      rw [← href]
      cases hph : s'.ph with
      | before => simp [hph, href] at hp
      | during =>
        simp only [hph] at hp ⊢
        refine ⟨hp.1, hp.2.1, hp.2.2.1, ?_, hp.2.2.2.2⟩
        intro x hx
        rcases List.mem_append.1 hx with hx | hx
        · exact hp.2.2.2.1 x hx
        · have : r = c.cur := hp.2.2.1 r href
          simp only [List.mem_singleton] at hx
          rw [hx, this]
      | after =>
        simp only [hph] at hp ⊢
        obtain ⟨p, hpm, h1, h2, h3, h4⟩ := hp
        refine ⟨p, hpm, h1, h2, ?_, h4⟩
        intro x hx
        rcases List.mem_append.1 hx with hx | hx
        · exact h3 x hx
        · simp only [List.mem_singleton] at hx
          rw [hx]; exact h2 r href
      | mixed => simp

/-! ### lock actions -/

/-- a lock other than `mdib_lock` changes hands: nothing the invariant talks about changes -/
theorem good_otherLock {c : Cfg} {i l : Nat} {s fin : Scan} {a : Act} {rest : List Act} (v : Option (Nat × Nat))
    (hg : Good c) (h : ThrInv c i s fin) (hl : l ≠ 0)
    (htodo : (c.thr i).todo = a :: rest) (hrest : scan s rest = some fin) :
    Good { c with owner := upd c.owner l v, thr := upd c.thr i { c.thr i with todo := rest } } := by
  have h0 : (0 : Nat) ≠ l := fun e => hl e.symm
  refine good_local _ _ hg h htodo hrest (upd_other _ _ _ _ h0) rfl rfl rfl ⟨rfl, rfl⟩ h.refLt ?_
  have hp := h.phase
  unfold PhaseOK at hp ⊢
  simpa using hp

theorem good_acq {c c' : Cfg} {i l : Nat} {s fin : Scan} {rest : List Act} (hg : Good c) (h : ThrInv c i s fin)
    (htodo : (c.thr i).todo = .acq l :: rest) (hs : stepAct c i (.acq l) rest = some c') : Good c' := by
  have hsc := h.scanTodo
  simp only [htodo] at hsc
  obtain ⟨s', hss, hrest⟩ := scan_cons hsc
  by_cases hl : l = 0
  · subst hl
    obtain ⟨hd', hph', _, hfl, hfl0⟩ := stepScan_acq0 hss
    -- the new owner entry is (i, s.d + 1) in both branches
    have hc' : c' = { c with owner := upd c.owner 0 (some (i, s.d + 1)),
                             thr := upd c.thr i { c.thr i with todo := rest } } ∧
               (s.d = 0 → c.owner 0 = none) := by
      simp only [stepAct] at hs
      cases ho : c.owner 0 with
      | none =>
        simp only [ho] at hs
        injection hs with hs; subst hs
        have : s.d = 0 := by
          rcases Nat.eq_zero_or_pos s.d with h0 | h0
          · exact h0
          · have := h.held h0; rw [ho] at this; cases this
        simp [this]
      | some jn =>
        obtain ⟨j, n⟩ := jn
        simp only [ho] at hs
        by_cases hj : j = i
        · subst hj
          simp only [if_true] at hs
          injection hs with hs; subst hs
          have hpos : 0 < s.d := by
            rcases Nat.eq_zero_or_pos s.d with h0 | h0
            · exact absurd ho (h.free h0 n)
            · exact h0
          have := h.held hpos; rw [ho] at this
          injection this with this; injection this with _ hn
          refine ⟨by simp [hn], fun h0 => by omega⟩
        · simp [hj] at hs
    obtain ⟨hc', hnone⟩ := hc'
    have hnoti : ∀ j, j ≠ i → ∀ n, c.owner 0 ≠ some (j, n) := by
      intro j hj n ho
      rcases Nat.eq_zero_or_pos s.d with h0 | h0
      · rw [hnone h0] at ho; cases ho
      · have := h.held h0; rw [ho] at this
        injection this with this; injection this with hji _
        exact hj hji
    subst hc'
    refine good_of (i := i) hg hg.curLt ⟨s', fin, thrInv_mover h htodo hrest (by simp) (by simp) ?_ ?_ ?_ ?_ ?_⟩
      (fun j hj => by simp [hj]) ?_ (fun j hj n _ => ⟨rfl, rfl, rfl, rfl, rfl⟩)
      (fun p hp => hp) (Nat.le_refl _) (fun r _ => rfl) ?_ hg.lastMax
    · intro hd; omega
    · intro _; simp [hd']
    · intro r hr; simp only [upd_same] at hr; exact h.refLt r hr
    · have hp := h.phase
      unfold PhaseOK at hp ⊢
      simp only [upd_same, hph']
      cases hph : s.ph <;> simp only [hph] at hp ⊢
      · exact hp
      · exact ⟨by omega, hp.2⟩
      · exact hp
    · intro _
      rcases Nat.eq_zero_or_pos s.d with h0 | h0
      · -- a new outermost section: the state is the one published last
        rw [(hfl0 h0).1, (hfl0 h0).2]
        refine ⟨_, hg.quiet (hnone h0), Nat.le_refl _, fun _ => rfl, (fun hb => by cases hb), fun _ => ⟨rfl, rfl⟩⟩
      · rw [(hfl h0).1, (hfl h0).2]
        exact h.sect h0
    · intro j hj n
      simp only [upd_same]
      constructor
      · intro e; injection e with e; injection e with e _; exact absurd e.symm hj
      · intro e; exact absurd e (hnoti j hj n)
    · intro ho; simp at ho
  · have hs' : s' = s := stepScan_other hl (Or.inl rfl) hss
    subst hs'
    simp only [stepAct] at hs
    cases ho : c.owner l with
    | none =>
      simp only [ho] at hs
      injection hs with hs; subst hs
      exact good_otherLock _ hg h hl htodo hrest
    | some jn =>
      obtain ⟨j, n⟩ := jn
      simp only [ho] at hs
      by_cases hj : j = i
      · subst hj
        simp only [if_true] at hs
        injection hs with hs; subst hs
        exact good_otherLock _ hg h hl htodo hrest
      · simp [hj] at hs

theorem good_rel {c c' : Cfg} {i l : Nat} {s fin : Scan} {rest : List Act} (hg : Good c) (h : ThrInv c i s fin)
    (htodo : (c.thr i).todo = .rel l :: rest) (hs : stepAct c i (.rel l) rest = some c') : Good c' := by
  have hsc := h.scanTodo
  simp only [htodo] at hsc
  obtain ⟨s', hss, hrest⟩ := scan_cons hsc
  by_cases hl : l = 0
  · subst hl
    obtain ⟨hpos, hd', hph', hfd, hfb, _⟩ := stepScan_rel0 hss
    have ho := h.held hpos
    simp only [stepAct, ho, if_true] at hs
    have hnoti : ∀ j, j ≠ i → ∀ n, c.owner 0 ≠ some (j, n) := by
      intro j hj n e; rw [ho] at e
      injection e with e; injection e with e _; exact hj e.symm
    by_cases h1 : s.d ≤ 1
    · -- outermost release: the current triple is published
      have hd1 : s.d = 1 := by omega
      simp only [h1, if_true] at hs
      injection hs with hs; subst hs
      obtain ⟨l0, hl0, hle, _, _, _⟩ := h.sect hpos
      refine good_of (i := i) hg hg.curLt ⟨s', fin, thrInv_mover h htodo hrest (by simp) (by simp) ?_ ?_ ?_ ?_ ?_⟩
        (fun j hj => by simp [hj]) ?_ (fun j hj n e => absurd e (hnoti j hj n))
        (fun p hp => by simp [hp]) (Nat.le_refl _) (fun r _ => rfl) ?_ ?_
      · intro _ n; simp
      · intro hp; omega
      · intro r hr; simp only [upd_same] at hr; exact h.refLt r hr
      · have hp := h.phase
        unfold PhaseOK at hp ⊢
        simp only [upd_same, hph', hd1, true_and]
        cases hph : s.ph <;> simp only [hph] at hp ⊢
        · exact hp
        · refine ⟨(c.ver, c.dsc, c.heap c.cur), by simp, hp.2.1, ?_, hp.2.2.2⟩
          intro r hr; rw [hp.2.2.1 r hr]
        · obtain ⟨p, hpm, hrest'⟩ := hp
          exact ⟨p, by simp [hpm], hrest'⟩
        · simp
      · intro hp; omega
      · intro j hj n
        simp only [upd_same]
        constructor
        · intro e; cases e
        · intro e; exact absurd e (hnoti j hj n)
      · intro _; simp
      · intro l hl p hp
        simp only [List.getLast?_append, List.getLast?_singleton, Option.some_or, Option.some.injEq] at hl
        subst hl
        simp only [List.mem_append, List.mem_singleton] at hp
        rcases hp with hp | rfl
        · exact Nat.le_trans (hg.lastMax l0 hl0 p hp) hle
        · exact Nat.le_refl _
    · -- inner release of the re-entrant lock
      simp only [h1, if_false] at hs
      injection hs with hs; subst hs
      have hne : ¬(s.d = 1 ∧ s.ph = .during) := fun e => h1 (by omega)
      simp only [hne, if_false] at hph'
      refine good_of (i := i) hg hg.curLt ⟨s', fin, thrInv_mover h htodo hrest (by simp) (by simp) ?_ ?_ ?_ ?_ ?_⟩
        (fun j hj => by simp [hj]) ?_ (fun j hj n e => absurd e (hnoti j hj n))
        (fun p hp => hp) (Nat.le_refl _) (fun r _ => rfl) ?_ hg.lastMax
      · intro hd0; omega
      · intro _; simp [hd']
      · intro r hr; simp only [upd_same] at hr; exact h.refLt r hr
      · have hp := h.phase
        unfold PhaseOK at hp ⊢
        simp only [upd_same, hph']
        cases hph : s.ph <;> simp only [hph] at hp ⊢
        · exact hp
        · exact ⟨by omega, hp.2⟩
        · exact hp
      · intro _
        rw [hfd, hfb]
        exact h.sect hpos
      · intro j hj n
        simp only [upd_same]
        constructor
        · intro e; injection e with e; injection e with e _; exact absurd e.symm hj
        · intro e; exact absurd e (hnoti j hj n)
      · intro ho; simp at ho
  · have hs' : s' = s := stepScan_other hl (Or.inr rfl) hss
    subst hs'
    simp only [stepAct] at hs
    cases ho : c.owner l with
    | none => simp [ho] at hs
    | some jn =>
      obtain ⟨j, n⟩ := jn
      simp only [ho] at hs
      by_cases hj : j = i
      · subst hj
        simp only [if_true, hl, if_false] at hs
        by_cases hn : n ≤ 1
        · simp only [hn, if_true] at hs
          injection hs with hs; subst hs
          exact good_otherLock _ hg h hl htodo hrest
        · simp only [hn, if_false] at hs
          injection hs with hs; subst hs
          exact good_otherLock _ hg h hl htodo hrest
      · simp [hj] at hs

/-! ### shared writes by the lock owner -/

/-- common part of the writes: the owner changes version / description / installs a fresh state object -/
theorem good_write {c : Cfg} {i : Nat} {s fin : Scan} {a : Act} {rest : List Act}
    (ver' dsc' cur' next' : Nat) (heap' : Nat → Nat)
    (hg : Good c) (h : ThrInv c i s fin) (ha : a.isWrite = true)
    (htodo : (c.thr i).todo = a :: rest)
    (hcur : cur' < next') (hnext : c.next ≤ next') (hheap : ∀ r, r < c.next → heap' r = c.heap r)
    (_hver : c.ver ≤ ver') (hinc : a = .incV → ver' = c.ver + 1 ∧ dsc' = c.dsc ∧ heap' cur' = c.heap c.cur)
    (hoth : a ≠ .incV → ver' = c.ver) :
    Good { c with ver := ver', dsc := dsc', cur := cur', heap := heap', next := next',
                  thr := upd c.thr i { c.thr i with todo := rest } } := by
  have hsc := h.scanTodo
  simp only [htodo] at hsc
  obtain ⟨s', hss, hrest⟩ := scan_cons hsc
  obtain ⟨hpos, hd', hph', _, hfi, hfo⟩ := stepScan_write ha hss
  have ho := h.held hpos
  have hnoti : ∀ j, j ≠ i → ∀ n, c.owner 0 ≠ some (j, n) := by
    intro j hj n e; rw [ho] at e
    injection e with e; injection e with e _; exact hj e.symm
  refine good_of (i := i) hg hcur ⟨s', fin, thrInv_mover h htodo hrest (by simp) (by simp) ?_ ?_ ?_ ?_ ?_⟩
    (fun j hj => by simp [hj]) (fun j hj n => Iff.rfl) (fun j hj n e => absurd e (hnoti j hj n))
    (fun p hp => hp) hnext hheap ?_ hg.lastMax
  · intro hd n; exact h.free (hd' ▸ hd) n
  · intro hd; rw [hd']; exact h.held (hd' ▸ hd)
  · intro r hr; simp only [upd_same] at hr; exact Nat.lt_of_lt_of_le (h.refLt r hr) hnext
  · have hp := h.phase
    unfold PhaseOK at hp ⊢
    simp only [upd_same, hph']
    cases hph : s.ph <;> simp only [hph] at hp ⊢
    · exact hp
    · simp
    · obtain ⟨p, hpm, h1, h2, h3⟩ := hp
      refine ⟨p, hpm, h1, ?_, h3⟩
      intro r hr; rw [hheap r (h.refLt r hr)]; exact h2 r hr
    · simp
  · intro _
    obtain ⟨l, hl, hle, hb0, hb1, hdd⟩ := h.sect hpos
    by_cases hai : a = .incV
    · obtain ⟨hv, hd2, hh2⟩ := hinc hai
      rw [(hfi hai).1, (hfi hai).2]
      refine ⟨l, hl, (by simp only; omega), (fun hb => by cases hb), (fun _ => by simp only; omega), ?_⟩
      intro hdf
      simp only [hd2, hh2]
      exact hdd hdf
    · have hv := hoth hai
      rw [(hfo hai).1, (hfo hai).2]
      refine ⟨l, hl, (by simp only; omega), ?_, ?_, (fun hb => by cases hb)⟩
      · intro hb; simp only [hv]; exact hb0 hb
      · intro hb; simp only [hv]; exact hb1 hb
  · intro hnone; simp only [ho] at hnone; cases hnone

/-- thread programs never change -/
theorem stepFn_prog {c c' : Cfg} {i : Nat} (hs : stepFn c i = some c') (j : Nat) : (c'.thr j).prog = (c.thr j).prog := by
  unfold stepFn at hs
  cases htodo : (c.thr i).todo with
  | nil => simp [htodo] at hs
  | cons a rest =>
    simp only [htodo] at hs
    have key : ∀ t' : Thr, t'.prog = (c.thr i).prog → (upd c.thr i t' j).prog = (c.thr j).prog := by
      intro t' ht
      by_cases hj : j = i
      · subst hj; simpa using ht
      · simp [hj]
    cases a <;> simp only [stepAct] at hs
    case acq l =>
      cases ho : c.owner l with
      | none => simp only [ho] at hs; injection hs with hs; subst hs; exact key _ rfl
      | some jn =>
        obtain ⟨k, n⟩ := jn
        simp only [ho] at hs
        split at hs
        · injection hs with hs; subst hs; exact key _ rfl
        · cases hs
    case rel l =>
      cases ho : c.owner l with
      | none => simp [ho] at hs
      | some jn =>
        obtain ⟨k, n⟩ := jn
        simp only [ho] at hs
        split at hs
        · split at hs <;> (injection hs with hs; subst hs; exact key _ rfl)
        · cases hs
    case deref =>
      cases hr : (c.thr i).ref with
      | none => simp [hr] at hs
      | some r => simp only [hr] at hs; injection hs with hs; subst hs; exact key _ rfl
    all_goals (injection hs with hs; subst hs; exact key _ rfl)

/-- the invariant is preserved by every step of every thread -/
theorem good_step {c c' : Cfg} {i : Nat} (hg : Good c) (hs : stepFn c i = some c') : Good c' := by
  obtain ⟨s, fin, h⟩ := hg.thr i
  unfold stepFn at hs
  cases htodo : (c.thr i).todo with
  | nil => simp [htodo] at hs
  | cons a rest =>
    simp only [htodo] at hs
    cases a with
    | acq l => exact good_acq hg h htodo hs
    | rel l => exact good_rel hg h htodo hs
    | rdV => exact good_rdV hg h htodo hs
    | rdD => exact good_rdD hg h htodo hs
    | rdC => exact good_rdC hg h htodo hs
    | deref => exact good_deref hg h htodo hs
    | incV =>
      simp only [stepAct] at hs
      injection hs with hs; subst hs
      exact good_write (c.ver + 1) c.dsc c.cur c.next c.heap hg h rfl htodo hg.curLt (Nat.le_refl _) (fun _ _ => rfl)
        (by omega) (fun _ => ⟨rfl, rfl, rfl⟩) (fun hne => absurd rfl hne)
    | wrD x =>
      simp only [stepAct] at hs
      injection hs with hs; subst hs
      exact good_write c.ver x c.cur c.next c.heap hg h rfl htodo hg.curLt (Nat.le_refl _) (fun _ _ => rfl)
        (Nat.le_refl _) (fun e => by cases e) (fun _ => rfl)
    | wrC x =>
      simp only [stepAct] at hs
      injection hs with hs; subst hs
      refine good_write c.ver c.dsc c.next (c.next + 1) (upd c.heap c.next x) hg h rfl htodo (by omega) (by omega) ?_
        (Nat.le_refl _) (fun e => by cases e) (fun _ => rfl)
      intro r hr
      exact upd_other _ _ _ _ (by omega)
    | mutate x =>
      have := h.noMut (.mutate x) (by simp [htodo])
      simp [Act.isMutate] at this

theorem good_reach {c0 c : Cfg} (hg : Good c0) (hr : Reach c0 c) : Good c := by
  induction hr with
  | refl => exact hg
  | step _ hs ih => exact good_step ih hs

/-- a program without writes never enters phase `mixed` -/
theorem stepScan_readOnly {a : Act} {s s' : Scan} (ha : a.isWrite = false) (hss : stepScan s a = some s')
    (hph : s.ph ≠ .mixed) : s'.ph ≠ .mixed := by
  cases a with
  | acq l =>
    by_cases hl : l = 0
    · subst hl; rw [(stepScan_acq0 hss).2.1]; exact hph
    · rw [stepScan_other hl (Or.inl rfl) hss]; exact hph
  | rel l =>
    by_cases hl : l = 0
    · subst hl
      rw [(stepScan_rel0 hss).2.2.1]
      split
      · simp
      · exact hph
    · rw [stepScan_other hl (Or.inr rfl) hss]; exact hph
  | rdV =>
    obtain ⟨_, _, _, _, _, h3⟩ := stepScan_read (Or.inl rfl) hss
    rcases h3 with ⟨_, hn⟩ | ⟨hb, _⟩
    · simp [hn]
    · exact absurd hb hph
  | rdC =>
    obtain ⟨_, _, _, _, _, h3⟩ := stepScan_read (Or.inr (Or.inl rfl)) hss
    rcases h3 with ⟨_, hn⟩ | ⟨hb, _⟩
    · simp [hn]
    · exact absurd hb hph
  | rdD =>
    obtain ⟨_, _, _, _, _, h3⟩ := stepScan_read (Or.inr (Or.inr rfl)) hss
    rcases h3 with ⟨_, hn⟩ | ⟨hb, _⟩
    · simp [hn]
    · exact absurd hb hph
  | deref => rw [stepScan_deref hss]; exact hph
  | incV => simp [Act.isWrite] at ha
  | wrD x => simp [Act.isWrite] at ha
  | wrC x => simp [Act.isWrite] at ha
  | mutate x => simp [Act.isWrite] at ha

theorem scan_readOnly {p : List Act} {s fin : Scan} (hro : ReadOnly p) (hsc : scan s p = some fin)
    (hph : s.ph ≠ .mixed) : fin.ph ≠ .mixed := by
  induction p generalizing s with
  | nil => simp only [scan] at hsc; injection hsc with hsc; subst hsc; exact hph
  | cons a p ih =>
    obtain ⟨s', hss, hrest⟩ := scan_cons hsc
    exact ih (fun b hb => hro b (List.mem_cons_of_mem _ hb)) hrest
      (stepScan_readOnly (hro a List.mem_cons_self) hss hph)

/-- C07 core: a completed read-only thread holds observations of ONE published (version, description, states) triple -/
theorem snapshot_of_good {c : Cfg} (hg : Good c) (i : Nat) (hro : ReadOnly (c.thr i).prog)
    (hd : (c.thr i).todo = []) : ∃ p ∈ c.hist, Consistent (c.thr i) p := by
  obtain ⟨s, fin, h⟩ := hg.thr i
  have hsc := h.scanTodo
  rw [hd] at hsc
  simp only [scan] at hsc
  injection hsc with hsc; subst hsc
  have hnm : s.ph ≠ .mixed := scan_readOnly hro h.scanProg (by simp [scan0])
  have hp := h.phase
  unfold PhaseOK at hp
  cases hph : s.ph with
  | before =>
    simp only [hph] at hp
    cases hh : c.hist with
    | nil => exact absurd hh hg.histNe
    | cons p _ => exact ⟨p, by simp, by simp [Consistent, hp.2.1, hp.2.2.1, hp.2.2.2]⟩
  | during =>
    simp only [hph] at hp
    have := h.finD
    omega
  | after =>
    simp only [hph] at hp
    obtain ⟨p, hpm, h1, _, h3, h4⟩ := hp
    exact ⟨p, hpm, h1, h4, h3⟩
  | mixed => exact absurd hph hnm

/-! ## the history is functional: one content per MdibVersion (for `Committing` programs) -/

/-- every version was published with one content only -/
def Func (c : Cfg) : Prop := ∀ p ∈ c.hist, ∀ q ∈ c.hist, p.1 = q.1 → p = q

/-- the flag `ok` only ever goes from true to false -/
theorem stepScan_ok {s s' : Scan} {a : Act} (h : stepScan s a = some s') (hok : s'.ok = true) : s.ok = true := by
  cases a with
  | acq l =>
    by_cases hl : l = 0
    · subst hl; rw [← (stepScan_acq0 h).2.2.1]; exact hok
    · rw [← stepScan_other hl (Or.inl rfl) h]; exact hok
  | rel l =>
    by_cases hl : l = 0
    · subst hl
      have := (stepScan_rel0 h).2.2.2.2.2
      rw [this] at hok
      split at hok
      · simp only [Bool.and_eq_true] at hok; exact hok.1
      · exact hok
    · rw [← stepScan_other hl (Or.inr rfl) h]; exact hok
  | rdV => rw [← (stepScan_read (Or.inl rfl) h).2.2.2.2.1]; exact hok
  | rdC => rw [← (stepScan_read (Or.inr (Or.inl rfl)) h).2.2.2.2.1]; exact hok
  | rdD => rw [← (stepScan_read (Or.inr (Or.inr rfl)) h).2.2.2.2.1]; exact hok
  | deref => rw [← stepScan_deref h]; exact hok
  | incV => rw [← (stepScan_write rfl h).2.2.2.1]; exact hok
  | wrD x => rw [← (stepScan_write rfl h).2.2.2.1]; exact hok
  | wrC x => rw [← (stepScan_write rfl h).2.2.2.1]; exact hok
  | mutate x => rw [← (stepScan_write rfl h).2.2.2.1]; exact hok

theorem scan_ok {p : List Act} {s fin : Scan} (hsc : scan s p = some fin) (hok : fin.ok = true) : s.ok = true := by
  induction p generalizing s with
  | nil => simp only [scan] at hsc; injection hsc with hsc; subst hsc; exact hok
  | cons a p ih =>
    obtain ⟨s', hss, hrest⟩ := scan_cons hsc
    exact stepScan_ok hss (ih hrest)

/-- the history only changes at an outermost release of `mdib_lock` -/
theorem hist_step {c c' : Cfg} {i : Nat} (hs : stepFn c i = some c') :
    c'.hist = c.hist ∨
    (c'.hist = c.hist ++ [(c.ver, c.dsc, c.heap c.cur)] ∧ ∃ rest n, (c.thr i).todo = .rel 0 :: rest ∧
      c.owner 0 = some (i, n) ∧ n ≤ 1) := by
  unfold stepFn at hs
  cases htodo : (c.thr i).todo with
  | nil => simp [htodo] at hs
  | cons a rest =>
    simp only [htodo] at hs
    cases a <;> simp only [stepAct] at hs
    case acq l =>
      cases ho : c.owner l with
      | none => simp only [ho] at hs; injection hs with hs; subst hs; exact Or.inl rfl
      | some jn =>
        obtain ⟨k, n⟩ := jn
        simp only [ho] at hs
        split at hs
        · injection hs with hs; subst hs; exact Or.inl rfl
        · cases hs
    case rel l =>
      cases ho : c.owner l with
      | none => simp [ho] at hs
      | some jn =>
        obtain ⟨k, n⟩ := jn
        simp only [ho] at hs
        by_cases hk : k = i
        · subst hk
          simp only [if_true] at hs
          by_cases hn : n ≤ 1
          · simp only [hn, if_true] at hs
            injection hs with hs; subst hs
            by_cases hl : l = 0
            · subst hl
              exact Or.inr ⟨by simp, rest, n, rfl, ho, hn⟩
            · exact Or.inl (by simp [hl])
          · simp only [hn, if_false] at hs
            injection hs with hs; subst hs; exact Or.inl rfl
        · simp [hk] at hs
    case deref =>
      cases hr : (c.thr i).ref with
      | none => simp [hr] at hs
      | some r => simp only [hr] at hs; injection hs with hs; subst hs; exact Or.inl rfl
    all_goals (injection hs with hs; subst hs; exact Or.inl rfl)

theorem func_step {c c' : Cfg} {i : Nat} (hg : Good c) (hf : Func c) (hcm : Committing (c.thr i).prog)
    (hs : stepFn c i = some c') : Func c' := by
  rcases hist_step hs with he | ⟨he, rest, n, htodo, ho, hn⟩
  · unfold Func; rw [he]; exact hf
  · obtain ⟨s, fin, h⟩ := hg.thr i
    have hsc := h.scanTodo
    rw [htodo] at hsc
    obtain ⟨s', hss, hrest⟩ := scan_cons hsc
    obtain ⟨hpos, _, _, _, _, hok'⟩ := stepScan_rel0 hss
    have hd1 : s.d = 1 := by
      have := h.held hpos; rw [ho] at this
      injection this with this; injection this with _ hnd
      omega
    -- the whole program is Committing, so the flag is still set after this release
    have hfin : fin.ok = true := by
      unfold Committing at hcm
      rw [h.scanProg] at hcm
      exact hcm
    have hs'ok : s'.ok = true := scan_ok hrest hfin
    rw [hok'] at hs'ok
    simp only [hd1, if_true, Bool.and_eq_true, Bool.or_eq_true, Bool.not_eq_true'] at hs'ok
    obtain ⟨l, hl, hle, hb0, hb1, hdd⟩ := h.sect hpos
    have hlm : l ∈ c.hist := List.mem_of_getLast? hl
    have hmax := hg.lastMax l hl
    unfold Func
    rw [he]
    intro p hp q hq hpq
    simp only [List.mem_append, List.mem_singleton] at hp hq
    rcases hs'ok.2 with hdirty | hbumped
    · -- nothing was written: the triple published now is the one published last
      have hb : s.bumped = false ∨ s.bumped = true := by cases s.bumped <;> simp
      rcases hb with hb | hb
      · have hnew : (c.ver, c.dsc, c.heap c.cur) = l := by
          obtain ⟨e1, e2⟩ := hdd hdirty
          rw [hb0 hb, e1, e2]
        rcases hp with hp | rfl <;> rcases hq with hq | rfl
        · exact hf p hp q hq hpq
        · rw [hnew] at hpq ⊢; exact hf p hp l hlm hpq
        · rw [hnew] at hpq ⊢; exact hf l hlm q hq hpq
        · rfl
      · have hlt := hb1 hb
        rcases hp with hp | rfl <;> rcases hq with hq | rfl
        · exact hf p hp q hq hpq
        · have := hmax p hp; simp only at hpq; omega
        · have := hmax q hq; simp only at hpq; omega
        · rfl
    · have hlt := hb1 hbumped
      rcases hp with hp | rfl <;> rcases hq with hq | rfl
      · exact hf p hp q hq hpq
      · have := hmax p hp; simp only at hpq; omega
      · have := hmax q hq; simp only at hpq; omega
      · rfl

theorem func_reach {c0 c : Cfg} (hg : Good c0) (hf : Func c0) (hcm : ∀ j, Committing (c0.thr j).prog)
    (hr : Reach c0 c) : Func c ∧ ∀ j, (c.thr j).prog = (c0.thr j).prog := by
  induction hr with
  | refl => exact ⟨hf, fun _ => rfl⟩
  | step hr' hs ih =>
    refine ⟨func_step (good_reach hg hr') ih.1 (by rw [ih.2]; exact hcm _) hs, fun j => ?_⟩
    rw [stepFn_prog hs j]; exact ih.2 j

end Sdc.LockLts
