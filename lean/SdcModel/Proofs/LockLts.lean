import SdcModel.LockLts
/-! invariant behind `Properties/C07.lean`: every thread is at a scanner state that matches the lock, and its
observations match the phase of that state -/
namespace Sdc.LockLts

/-- what the observations of a thread must look like, depending on the scanner phase -/
def PhaseOK (c : Cfg) (t : Thr) (s : Scan) : Prop :=
  match s.ph with
  | .before => t.ref = none ∧ t.obsV = [] ∧ t.obsC = [] ∧ t.obsD = []
  | .during => 0 < s.d ∧ (∀ v ∈ t.obsV, v = c.ver) ∧ (∀ r, t.ref = some r → r = c.cur) ∧
      (∀ x ∈ t.obsC, x = c.heap c.cur) ∧ (∀ d ∈ t.obsD, d = c.dsc)
  | .after => ∃ p ∈ c.hist, (∀ v ∈ t.obsV, v = p.1) ∧ (∀ r, t.ref = some r → c.heap r = p.2.2) ∧
      (∀ x ∈ t.obsC, x = p.2.2) ∧ (∀ d ∈ t.obsD, d = p.2.1)
  | .mixed => True

structure ThrInv (c : Cfg) (j : Nat) (s fin : Scan) : Prop where
  scanTodo : scan s (c.thr j).todo = some fin
  scanProg : scan scan0 (c.thr j).prog = some fin
  finD : fin.d = 0
  noMut : ∀ a ∈ (c.thr j).todo, a.isMutate = false
  free : s.d = 0 → ∀ n, c.owner 0 ≠ some (j, n)
  held : 0 < s.d → c.owner 0 = some (j, s.d)
  refLt : ∀ r, (c.thr j).ref = some r → r < c.next
  phase : PhaseOK c (c.thr j) s

def ThrOK (c : Cfg) (j : Nat) : Prop := ∃ s fin, ThrInv c j s fin

structure Good (c : Cfg) : Prop where
  curLt : c.cur < c.next
  histNe : c.hist ≠ []
  thr : ∀ j, ThrOK c j

theorem good_init {c : Cfg} (h0 : Init c) (hw : ∀ j, WellLocked (c.thr j).prog ∧ NoMutate (c.thr j).prog) : Good c := by
  obtain ⟨hown, hhist, hcur, hthr⟩ := h0
  refine ⟨hcur, by simp [hhist], fun j => ?_⟩
  obtain ⟨hwl, hnm⟩ := hw j
  obtain ⟨htodo, href, hv, hdd, hc⟩ := hthr j
  unfold WellLocked at hwl
  cases hsc : scan scan0 (c.thr j).prog with
  | none => simp [hsc] at hwl
  | some fin =>
    simp only [hsc] at hwl
    refine ⟨scan0, fin, ⟨by rw [htodo, hsc], hsc, hwl, by rw [htodo]; exact hnm, ?_, ?_, ?_, ?_⟩⟩
    · intro _ n; simp [hown 0]
    · intro h; simp [scan0] at h
    · intro r hr; simp [href] at hr
    · simp [PhaseOK, scan0, href, hv, hc, hdd]

/-- a thread that does not move keeps its invariant if the mover left alone what the thread depends on -/
theorem thrInv_frame {c c' : Cfg} {j : Nat} {s fin : Scan}
    (hthr : c'.thr j = c.thr j)
    (hown : ∀ n, c'.owner 0 = some (j, n) ↔ c.owner 0 = some (j, n))
    (hkeep : ∀ n, c.owner 0 = some (j, n) →
      c'.ver = c.ver ∧ c'.cur = c.cur ∧ c'.heap c.cur = c.heap c.cur ∧ c'.dsc = c.dsc)
    (hhist : ∀ p ∈ c.hist, p ∈ c'.hist)
    (hnext : c.next ≤ c'.next)
    (hheap : ∀ r, r < c.next → c'.heap r = c.heap r)
    (h : ThrInv c j s fin) : ThrInv c' j s fin := by
  refine ⟨by rw [hthr]; exact h.scanTodo, by rw [hthr]; exact h.scanProg, h.finD, by rw [hthr]; exact h.noMut, ?_, ?_, ?_, ?_⟩
  · intro hd n hn; exact h.free hd n ((hown n).1 hn)
  · intro hd; exact (hown _).2 (h.held hd)
  · intro r hr; rw [hthr] at hr; exact Nat.lt_of_lt_of_le (h.refLt r hr) hnext
  · have hp := h.phase
    rw [hthr]
    unfold PhaseOK at hp ⊢
    cases hph : s.ph with
    | before => simpa [hph] using hp
    | during =>
      simp only [hph] at hp ⊢
      obtain ⟨hd, h1, h2, h3, h4⟩ := hp
      obtain ⟨e1, e2, e3, e4⟩ := hkeep _ (h.held hd)
      refine ⟨hd, ?_, ?_, ?_, ?_⟩
      · rw [e1]; exact h1
      · rw [e2]; exact h2
      · rw [e2, e3]; exact h3
      · rw [e4]; exact h4
    | after =>
      simp only [hph] at hp ⊢
      obtain ⟨p, hpm, h1, h2, h3⟩ := hp
      refine ⟨p, hhist p hpm, h1, ?_, h3⟩
      intro r hr
      rw [hheap r (h.refLt r hr)]
      exact h2 r hr
    | mixed => simp

theorem scan_cons {s fin : Scan} {a : Act} {rest : List Act} (h : scan s (a :: rest) = some fin) :
    ∃ s', stepScan s a = some s' ∧ scan s' rest = some fin := by
  simp only [scan] at h
  cases hs : stepScan s a with
  | none => simp [hs] at h
  | some s' => exact ⟨s', rfl, by simpa [hs] using h⟩

/-- assembling `Good c'` after thread `i` moved -/
theorem good_of {c c' : Cfg} {i : Nat} (hg : Good c)
    (hcur : c'.cur < c'.next) (hi : ThrOK c' i)
    (hoth : ∀ j, j ≠ i → c'.thr j = c.thr j)
    (hown : ∀ j, j ≠ i → ∀ n, c'.owner 0 = some (j, n) ↔ c.owner 0 = some (j, n))
    (hkeep : ∀ j, j ≠ i → ∀ n, c.owner 0 = some (j, n) →
      c'.ver = c.ver ∧ c'.cur = c.cur ∧ c'.heap c.cur = c.heap c.cur ∧ c'.dsc = c.dsc)
    (hhist : ∀ p ∈ c.hist, p ∈ c'.hist) (hnext : c.next ≤ c'.next)
    (hheap : ∀ r, r < c.next → c'.heap r = c.heap r) : Good c' := by
  refine ⟨hcur, ?_, fun j => ?_⟩
  · intro he
    cases hh : c.hist with
    | nil => exact hg.histNe hh
    | cons p _ =>
      have := hhist p (by simp [hh])
      simp [he] at this
  · by_cases hj : j = i
    · subst hj; exact hi
    · obtain ⟨s, fin, h⟩ := hg.thr j
      exact ⟨s, fin, thrInv_frame (hoth j hj) (hown j hj) (hkeep j hj) hhist hnext hheap h⟩

/-- the part of the mover's new invariant that is the same for every action -/
theorem thrInv_mover {c c' : Cfg} {i : Nat} {s s' fin : Scan} {a : Act} {rest : List Act}
    (h : ThrInv c i s fin) (htodo : (c.thr i).todo = a :: rest) (hrest : scan s' rest = some fin)
    (hprog : (c'.thr i).prog = (c.thr i).prog) (htodo' : (c'.thr i).todo = rest)
    (free : s'.d = 0 → ∀ n, c'.owner 0 ≠ some (i, n))
    (held : 0 < s'.d → c'.owner 0 = some (i, s'.d))
    (refLt : ∀ r, (c'.thr i).ref = some r → r < c'.next)
    (phase : PhaseOK c' (c'.thr i) s') : ThrInv c' i s' fin := by
  refine ⟨by rw [htodo']; exact hrest, by rw [hprog]; exact h.scanProg, h.finD, ?_, free, held, refLt, phase⟩
  rw [htodo']
  intro b hb
  exact h.noMut b (by rw [htodo]; exact List.mem_cons_of_mem _ hb)

/-! ### thread-local actions: `rdV`, `rdC`, `deref` -/

theorem stepScan_read {s s' : Scan} {a : Act} (ha : a = .rdV ∨ a = .rdC ∨ a = .rdD) (h : stepScan s a = some s') :
    0 < s.d ∧ s'.d = s.d ∧
      ((s.ph = .before ∨ s.ph = .during) ∧ s'.ph = .during ∨ s.ph = .mixed ∧ s'.ph = .mixed) := by
  have hd : s.d ≠ 0 := by
    intro hd
    rcases ha with rfl | rfl | rfl <;> simp [stepScan, hd] at h
  refine ⟨Nat.pos_of_ne_zero hd, ?_⟩
  rcases ha with rfl | rfl | rfl <;> simp only [stepScan, hd, if_false] at h <;>
    (cases hph : s.ph <;> simp only [hph] at h <;> cases h <;> simp [hph])

theorem good_rdV {c c' : Cfg} {i : Nat} {s fin : Scan} {rest : List Act} (hg : Good c) (h : ThrInv c i s fin)
    (htodo : (c.thr i).todo = .rdV :: rest) (hs : stepAct c i .rdV rest = some c') : Good c' := by
  simp only [stepAct] at hs
  injection hs with hs; subst hs
  have hsc := h.scanTodo
  simp only [htodo] at hsc
  obtain ⟨s', hss, hrest⟩ := scan_cons hsc
  obtain ⟨hd, hd', hph⟩ := stepScan_read (Or.inl rfl) hss
  refine good_of (i := i) hg hg.curLt ⟨s', fin, thrInv_mover h htodo hrest (by simp) (by simp) ?_ ?_ ?_ ?_⟩
    (fun j hj => by simp [hj]) (fun j hj n => Iff.rfl) (fun j hj n _ => ⟨rfl, rfl, rfl, rfl⟩) (fun p hp => hp)
    (Nat.le_refl _) (fun r _ => rfl)
  · intro h0; omega
  · intro _; rw [hd']; exact h.held hd
  · intro r hr; simp only [upd_same] at hr; exact h.refLt r hr
  · have hp := h.phase
    unfold PhaseOK at hp ⊢
    simp only [upd_same]
    rcases hph with ⟨hb | hb, hn⟩ | ⟨hb, hn⟩
    · simp only [hb] at hp
      simp only [hn, hp.2.1, hp.1, hp.2.2.1, hp.2.2.2]
      refine ⟨by omega, by simp, by simp, by simp, by simp⟩
    · simp only [hb] at hp
      simp only [hn]
      refine ⟨by omega, ?_, hp.2.2.1, hp.2.2.2⟩
      intro v hv
      rcases List.mem_append.1 hv with hv | hv
      · exact hp.2.1 v hv
      · simpa using hv
    · simp [hn]

theorem good_rdD {c c' : Cfg} {i : Nat} {s fin : Scan} {rest : List Act} (hg : Good c) (h : ThrInv c i s fin)
    (htodo : (c.thr i).todo = .rdD :: rest) (hs : stepAct c i .rdD rest = some c') : Good c' := by
  simp only [stepAct] at hs
  injection hs with hs; subst hs
  have hsc := h.scanTodo
  simp only [htodo] at hsc
  obtain ⟨s', hss, hrest⟩ := scan_cons hsc
  obtain ⟨hd, hd', hph⟩ := stepScan_read (Or.inr (Or.inr rfl)) hss
  refine good_of (i := i) hg hg.curLt ⟨s', fin, thrInv_mover h htodo hrest (by simp) (by simp) ?_ ?_ ?_ ?_⟩
    (fun j hj => by simp [hj]) (fun j hj n => Iff.rfl) (fun j hj n _ => ⟨rfl, rfl, rfl, rfl⟩) (fun p hp => hp)
    (Nat.le_refl _) (fun r _ => rfl)
  · intro h0; omega
  · intro _; rw [hd']; exact h.held hd
  · intro r hr; simp only [upd_same] at hr; exact h.refLt r hr
  · have hp := h.phase
    unfold PhaseOK at hp ⊢
    simp only [upd_same]
    rcases hph with ⟨hb | hb, hn⟩ | ⟨hb, hn⟩
    · simp only [hb] at hp
      simp only [hn, hp.2.1, hp.1, hp.2.2.1, hp.2.2.2]
      refine ⟨by omega, by simp, by simp, by simp, by simp⟩
    · simp only [hb] at hp
      simp only [hn]
      refine ⟨by omega, hp.2.1, hp.2.2.1, hp.2.2.2.1, ?_⟩
      intro v hv
      rcases List.mem_append.1 hv with hv | hv
      · exact hp.2.2.2.2 v hv
      · simpa using hv
    · simp [hn]

theorem good_rdC {c c' : Cfg} {i : Nat} {s fin : Scan} {rest : List Act} (hg : Good c) (h : ThrInv c i s fin)
    (htodo : (c.thr i).todo = .rdC :: rest) (hs : stepAct c i .rdC rest = some c') : Good c' := by
  simp only [stepAct] at hs
  injection hs with hs; subst hs
  have hsc := h.scanTodo
  simp only [htodo] at hsc
  obtain ⟨s', hss, hrest⟩ := scan_cons hsc
  obtain ⟨hd, hd', hph⟩ := stepScan_read (Or.inr (Or.inl rfl)) hss
  refine good_of (i := i) hg hg.curLt ⟨s', fin, thrInv_mover h htodo hrest (by simp) (by simp) ?_ ?_ ?_ ?_⟩
    (fun j hj => by simp [hj]) (fun j hj n => Iff.rfl) (fun j hj n _ => ⟨rfl, rfl, rfl, rfl⟩) (fun p hp => hp)
    (Nat.le_refl _) (fun r _ => rfl)
  · intro h0; omega
  · intro _; rw [hd']; exact h.held hd
  · intro r hr
    simp only [upd_same, Option.some.injEq] at hr
    subst hr; exact hg.curLt
  · have hp := h.phase
    unfold PhaseOK at hp ⊢
    simp only [upd_same]
    rcases hph with ⟨hb | hb, hn⟩ | ⟨hb, hn⟩
    · simp only [hb] at hp
      simp only [hn, hp.2.1, hp.2.2.1, hp.2.2.2]
      refine ⟨by omega, by simp, by simp, by simp, by simp⟩
    · simp only [hb] at hp
      simp only [hn]
      refine ⟨by omega, hp.2.1, ?_, hp.2.2.2⟩
      intro r hr; simpa using hr.symm
    · simp [hn]

theorem good_deref {c c' : Cfg} {i : Nat} {s fin : Scan} {rest : List Act} (hg : Good c) (h : ThrInv c i s fin)
    (htodo : (c.thr i).todo = .deref :: rest) (hs : stepAct c i .deref rest = some c') : Good c' := by
  simp only [stepAct] at hs
  cases href : (c.thr i).ref with
  | none => simp [href] at hs
  | some r =>
    simp only [href] at hs
    injection hs with hs; subst hs
    have hsc := h.scanTodo
    simp only [htodo] at hsc
    obtain ⟨s', hss, hrest⟩ := scan_cons hsc
    have hs' : s' = s := by simp [stepScan] at hss; exact hss.symm
    subst hs'
    refine good_of (i := i) hg hg.curLt ⟨s', fin, thrInv_mover h htodo hrest (by simp) (by simp) h.free h.held ?_ ?_⟩
      (fun j hj => by simp [hj]) (fun j hj n => Iff.rfl) (fun j hj n _ => ⟨rfl, rfl, rfl, rfl⟩) (fun p hp => hp)
      (Nat.le_refl _) (fun r _ => rfl)
    · intro r' hr'; simp only [upd_same] at hr'; rw [← href] at hr'; exact h.refLt r' hr'
    · have hp := h.phase
      unfold PhaseOK at hp ⊢
      simp only [upd_same]
      rw [← href]
      cases hph : s'.ph with
      | before => simp [hph, href] at hp
      | during =>
        simp only [hph] at hp ⊢
        refine ⟨hp.1, hp.2.1, hp.2.2.1, ?_, hp.2.2.2.2⟩
        intro x hx
        rcases List.mem_append.1 hx with hx | hx
        · exact hp.2.2.2.1 x hx
        · have : r = c.cur := hp.2.2.1 r href
          simp only [List.mem_singleton] at hx
          rw [hx, this]
      | after =>
        simp only [hph] at hp ⊢
        obtain ⟨p, hpm, h1, h2, h3, h4⟩ := hp
        refine ⟨p, hpm, h1, h2, ?_, h4⟩
        intro x hx
        rcases List.mem_append.1 hx with hx | hx
        · exact h3 x hx
        · simp only [List.mem_singleton] at hx
          rw [hx]; exact h2 r href
      | mixed => simp

/-! ### lock actions -/

/-- a lock other than `mdib_lock` changes hands: nothing the invariant talks about changes -/
theorem good_otherLock {c : Cfg} {i l : Nat} {s fin : Scan} {a : Act} {rest : List Act} (v : Option (Nat × Nat))
    (hg : Good c) (h : ThrInv c i s fin) (hl : l ≠ 0)
    (htodo : (c.thr i).todo = a :: rest) (hrest : scan s rest = some fin) :
    Good { c with owner := upd c.owner l v, thr := upd c.thr i { c.thr i with todo := rest } } := by
  have h0 : (0 : Nat) ≠ l := fun e => hl e.symm
  refine good_of (i := i) hg hg.curLt ⟨s, fin, thrInv_mover h htodo hrest (by simp) (by simp) ?_ ?_ ?_ ?_⟩
    (fun j hj => by simp [hj]) (fun j hj n => by simp [upd_other _ _ _ _ h0]) (fun j hj n _ => ⟨rfl, rfl, rfl, rfl⟩)
    (fun p hp => hp) (Nat.le_refl _) (fun r _ => rfl)
  · intro hd n; simp only [upd_other _ _ _ _ h0]; exact h.free hd n
  · intro hd; simp only [upd_other _ _ _ _ h0]; exact h.held hd
  · intro r hr; simp only [upd_same] at hr; exact h.refLt r hr
  · have hp := h.phase
    unfold PhaseOK at hp ⊢
    simpa using hp

theorem good_acq {c c' : Cfg} {i l : Nat} {s fin : Scan} {rest : List Act} (hg : Good c) (h : ThrInv c i s fin)
    (htodo : (c.thr i).todo = .acq l :: rest) (hs : stepAct c i (.acq l) rest = some c') : Good c' := by
  have hsc := h.scanTodo
  simp only [htodo] at hsc
  obtain ⟨s', hss, hrest⟩ := scan_cons hsc
  by_cases hl : l = 0
  · subst hl
    have hs' : s' = { s with d := s.d + 1 } := by simp [stepScan] at hss; exact hss.symm
    subst hs'
    -- the new owner entry is (i, s.d + 1) in both branches
    have hc' : c' = { c with owner := upd c.owner 0 (some (i, s.d + 1)),
                             thr := upd c.thr i { c.thr i with todo := rest } } := by
      simp only [stepAct] at hs
      cases ho : c.owner 0 with
      | none =>
        simp only [ho] at hs
        injection hs with hs; subst hs
        have : s.d = 0 := by
          rcases Nat.eq_zero_or_pos s.d with h0 | h0
          · exact h0
          · have := h.held h0; rw [ho] at this; cases this
        simp [this]
      | some jn =>
        obtain ⟨j, n⟩ := jn
        simp only [ho] at hs
        by_cases hj : j = i
        · subst hj
          simp only [if_true] at hs
          injection hs with hs; subst hs
          have hpos : 0 < s.d := by
            rcases Nat.eq_zero_or_pos s.d with h0 | h0
            · exact absurd ho (h.free h0 n)
            · exact h0
          have := h.held hpos; rw [ho] at this
          injection this with this; injection this with _ hn
          simp [hn]
        · simp [hj] at hs
    subst hc'
    have hnoti : ∀ j, j ≠ i → ∀ n, c.owner 0 ≠ some (j, n) := by
      intro j hj n ho
      rcases Nat.eq_zero_or_pos s.d with h0 | h0
      · -- the step was enabled, so the lock was free or ours
        simp only [stepAct, ho] at hs
        have : j ≠ i := hj
        simp [this] at hs
      · have := h.held h0; rw [ho] at this
        injection this with this; injection this with hji _
        exact hj hji
    refine good_of (i := i) hg hg.curLt ⟨_, fin, thrInv_mover h htodo hrest (by simp) (by simp) ?_ ?_ ?_ ?_⟩
      (fun j hj => by simp [hj]) ?_ (fun j hj n _ => ⟨rfl, rfl, rfl, rfl⟩)
      (fun p hp => hp) (Nat.le_refl _) (fun r _ => rfl)
    · intro hd; simp at hd
    · intro _; simp
    · intro r hr; simp only [upd_same] at hr; exact h.refLt r hr
    · have hp := h.phase
      unfold PhaseOK at hp ⊢
      simp only [upd_same]
      cases hph : s.ph <;> simp only [hph] at hp ⊢
      · exact hp
      · exact ⟨by omega, hp.2⟩
      · exact hp
    · intro j hj n
      simp only [upd_same]
      constructor
      · intro e; injection e with e; injection e with e _; exact absurd e.symm hj
      · intro e; exact absurd e (hnoti j hj n)
  · have hs' : s' = s := by simp [stepScan, hl] at hss; exact hss.symm
    subst hs'
    simp only [stepAct] at hs
    cases ho : c.owner l with
    | none =>
      simp only [ho] at hs
      injection hs with hs; subst hs
      exact good_otherLock _ hg h hl htodo hrest
    | some jn =>
      obtain ⟨j, n⟩ := jn
      simp only [ho] at hs
      by_cases hj : j = i
      · subst hj
        simp only [if_true] at hs
        injection hs with hs; subst hs
        exact good_otherLock _ hg h hl htodo hrest
      · simp [hj] at hs

theorem good_rel {c c' : Cfg} {i l : Nat} {s fin : Scan} {rest : List Act} (hg : Good c) (h : ThrInv c i s fin)
    (htodo : (c.thr i).todo = .rel l :: rest) (hs : stepAct c i (.rel l) rest = some c') : Good c' := by
  have hsc := h.scanTodo
  simp only [htodo] at hsc
  obtain ⟨s', hss, hrest⟩ := scan_cons hsc
  by_cases hl : l = 0
  · subst hl
    have hd : s.d ≠ 0 := by intro hd; simp [stepScan, hd] at hss
    have hpos : 0 < s.d := Nat.pos_of_ne_zero hd
    have hs' : s' = { d := s.d - 1, ph := if s.d = 1 ∧ s.ph = .during then .after else s.ph } := by
      simp [stepScan, hd] at hss; exact hss.symm
    have ho := h.held hpos
    simp only [stepAct, ho, if_true] at hs
    have hnoti : ∀ j, j ≠ i → ∀ n, c.owner 0 ≠ some (j, n) := by
      intro j hj n e; rw [ho] at e
      injection e with e; injection e with e _; exact hj e.symm
    by_cases h1 : s.d ≤ 1
    · -- outermost release: the current pair is published
      have hd1 : s.d = 1 := by omega
      simp only [h1, if_true] at hs
      injection hs with hs; subst hs
      subst hs'
      refine good_of (i := i) hg hg.curLt ⟨_, fin, thrInv_mover h htodo hrest (by simp) (by simp) ?_ ?_ ?_ ?_⟩
        (fun j hj => by simp [hj]) ?_ (fun j hj n e => absurd e (hnoti j hj n))
        (fun p hp => by simp [hp]) (Nat.le_refl _) (fun r _ => rfl)
      · intro _ n; simp
      · intro hp; simp only [hd1] at hp; omega
      · intro r hr; simp only [upd_same] at hr; exact h.refLt r hr
      · have hp := h.phase
        unfold PhaseOK at hp ⊢
        simp only [upd_same, hd1, true_and]
        cases hph : s.ph <;> simp only [hph] at hp ⊢
        · exact hp
        · refine ⟨(c.ver, c.dsc, c.heap c.cur), by simp, hp.2.1, ?_, hp.2.2.2⟩
          intro r hr; rw [hp.2.2.1 r hr]
        · obtain ⟨p, hpm, hrest'⟩ := hp
          exact ⟨p, by simp [hpm], hrest'⟩
        · simp
      · intro j hj n
        simp only [upd_same]
        constructor
        · intro e; cases e
        · intro e; exact absurd e (hnoti j hj n)
    · -- inner release of the re-entrant lock
      simp only [h1, if_false] at hs
      injection hs with hs; subst hs
      have hne : ¬(s.d = 1 ∧ s.ph = .during) := fun e => h1 (by omega)
      simp only [hne, if_false] at hs'
      subst hs'
      refine good_of (i := i) hg hg.curLt ⟨_, fin, thrInv_mover h htodo hrest (by simp) (by simp) ?_ ?_ ?_ ?_⟩
        (fun j hj => by simp [hj]) ?_ (fun j hj n e => absurd e (hnoti j hj n))
        (fun p hp => hp) (Nat.le_refl _) (fun r _ => rfl)
      · intro hd0; simp only at hd0; omega
      · intro _; simp
      · intro r hr; simp only [upd_same] at hr; exact h.refLt r hr
      · have hp := h.phase
        unfold PhaseOK at hp ⊢
        simp only [upd_same]
        cases hph : s.ph <;> simp only [hph] at hp ⊢
        · exact hp
        · exact ⟨by omega, hp.2⟩
        · exact hp
      · intro j hj n
        simp only [upd_same]
        constructor
        · intro e; injection e with e; injection e with e _; exact absurd e.symm hj
        · intro e; exact absurd e (hnoti j hj n)
  · have hs' : s' = s := by simp [stepScan, hl] at hss; exact hss.symm
    subst hs'
    simp only [stepAct] at hs
    cases ho : c.owner l with
    | none => simp [ho] at hs
    | some jn =>
      obtain ⟨j, n⟩ := jn
      simp only [ho] at hs
      by_cases hj : j = i
      · subst hj
        simp only [if_true, hl, if_false] at hs
        by_cases hn : n ≤ 1
        · simp only [hn, if_true] at hs
          injection hs with hs; subst hs
          exact good_otherLock _ hg h hl htodo hrest
        · simp only [hn, if_false] at hs
          injection hs with hs; subst hs
          exact good_otherLock _ hg h hl htodo hrest
      · simp [hj] at hs

/-! ### shared writes by the lock owner -/

theorem stepScan_write {s s' : Scan} {a : Act} (ha : a.isWrite = true) (h : stepScan s a = some s') :
    0 < s.d ∧ s' = { s with ph := if s.ph = .during then .mixed else s.ph } := by
  have hd : s.d ≠ 0 := by
    intro hd
    cases a <;> simp [Act.isWrite] at ha <;> simp [stepScan, hd] at h
  refine ⟨Nat.pos_of_ne_zero hd, ?_⟩
  cases a <;> simp [Act.isWrite] at ha <;> simp [stepScan, hd] at h <;> exact h.symm

/-- common part of `incV` and `wrC`: the owner changes version / installs a fresh object -/
theorem good_write {c : Cfg} {i : Nat} {s fin : Scan} {a : Act} {rest : List Act}
    (ver' dsc' cur' next' : Nat) (heap' : Nat → Nat)
    (hg : Good c) (h : ThrInv c i s fin) (ha : a.isWrite = true)
    (htodo : (c.thr i).todo = a :: rest)
    (hcur : cur' < next') (hnext : c.next ≤ next') (hheap : ∀ r, r < c.next → heap' r = c.heap r) :
    Good { c with ver := ver', dsc := dsc', cur := cur', heap := heap', next := next',
                  thr := upd c.thr i { c.thr i with todo := rest } } := by
  have hsc := h.scanTodo
  simp only [htodo] at hsc
  obtain ⟨s', hss, hrest⟩ := scan_cons hsc
  obtain ⟨hpos, hs'⟩ := stepScan_write ha hss
  subst hs'
  have ho := h.held hpos
  have hnoti : ∀ j, j ≠ i → ∀ n, c.owner 0 ≠ some (j, n) := by
    intro j hj n e; rw [ho] at e
    injection e with e; injection e with e _; exact hj e.symm
  refine good_of (i := i) hg hcur ⟨_, fin, thrInv_mover h htodo hrest (by simp) (by simp) ?_ ?_ ?_ ?_⟩
    (fun j hj => by simp [hj]) (fun j hj n => Iff.rfl) (fun j hj n e => absurd e (hnoti j hj n))
    (fun p hp => hp) hnext hheap
  · intro hd n; exact h.free hd n
  · intro hd; exact h.held hd
  · intro r hr; simp only [upd_same] at hr; exact Nat.lt_of_lt_of_le (h.refLt r hr) hnext
  · have hp := h.phase
    unfold PhaseOK at hp ⊢
    simp only [upd_same]
    cases hph : s.ph <;> simp only [hph] at hp ⊢
    · exact hp
    · simp
    · obtain ⟨p, hpm, h1, h2, h3⟩ := hp
      refine ⟨p, hpm, h1, ?_, h3⟩
      intro r hr; rw [hheap r (h.refLt r hr)]; exact h2 r hr
    · simp

/-- the invariant is preserved by every step of every thread -/
theorem good_step {c c' : Cfg} {i : Nat} (hg : Good c) (hs : stepFn c i = some c') : Good c' := by
  obtain ⟨s, fin, h⟩ := hg.thr i
  unfold stepFn at hs
  cases htodo : (c.thr i).todo with
  | nil => simp [htodo] at hs
  | cons a rest =>
    simp only [htodo] at hs
    cases a with
    | acq l => exact good_acq hg h htodo hs
    | rel l => exact good_rel hg h htodo hs
    | rdV => exact good_rdV hg h htodo hs
    | rdC => exact good_rdC hg h htodo hs
    | deref => exact good_deref hg h htodo hs
    | incV =>
      simp only [stepAct] at hs
      injection hs with hs; subst hs
      exact good_write (c.ver + 1) c.dsc c.cur c.next c.heap hg h rfl htodo hg.curLt (Nat.le_refl _) (fun _ _ => rfl)
    | wrD x =>
      simp only [stepAct] at hs
      injection hs with hs; subst hs
      exact good_write c.ver x c.cur c.next c.heap hg h rfl htodo hg.curLt (Nat.le_refl _) (fun _ _ => rfl)
    | rdD => exact good_rdD hg h htodo hs
    | wrC x =>
      simp only [stepAct] at hs
      injection hs with hs; subst hs
      refine good_write c.ver c.dsc c.next (c.next + 1) (upd c.heap c.next x) hg h rfl htodo (by omega) (by omega) ?_
      intro r hr
      exact upd_other _ _ _ _ (by omega)
    | mutate x =>
      have := h.noMut (.mutate x) (by simp [htodo])
      simp [Act.isMutate] at this

theorem good_reach {c0 c : Cfg} (hg : Good c0) (hr : Reach c0 c) : Good c := by
  induction hr with
  | refl => exact hg
  | step _ hs ih => exact good_step ih hs

/-- a program without writes never enters phase `mixed` -/
theorem stepScan_readOnly {a : Act} {s s' : Scan} (ha : a.isWrite = false) (hss : stepScan s a = some s')
    (hph : s.ph ≠ .mixed) : s'.ph ≠ .mixed := by
  cases a with
  | acq l =>
    simp only [stepScan] at hss
    split at hss <;> (injection hss with hss; subst hss; exact hph)
  | rel l =>
    simp only [stepScan] at hss
    split at hss
    · split at hss
      · cases hss
      · injection hss with hss; subst hss
        simp only
        split
        · simp
        · exact hph
    · injection hss with hss; subst hss; exact hph
  | rdV =>
    obtain ⟨_, _, h3⟩ := stepScan_read (Or.inl rfl) hss
    rcases h3 with ⟨_, hn⟩ | ⟨hb, _⟩
    · simp [hn]
    · exact absurd hb hph
  | rdC =>
    obtain ⟨_, _, h3⟩ := stepScan_read (Or.inr (Or.inl rfl)) hss
    rcases h3 with ⟨_, hn⟩ | ⟨hb, _⟩
    · simp [hn]
    · exact absurd hb hph
  | rdD =>
    obtain ⟨_, _, h3⟩ := stepScan_read (Or.inr (Or.inr rfl)) hss
    rcases h3 with ⟨_, hn⟩ | ⟨hb, _⟩
    · simp [hn]
    · exact absurd hb hph
  | deref =>
    simp only [stepScan] at hss
    injection hss with hss; subst hss; exact hph
  | incV => simp [Act.isWrite] at ha
  | wrD x => simp [Act.isWrite] at ha
  | wrC x => simp [Act.isWrite] at ha
  | mutate x => simp [Act.isWrite] at ha

theorem scan_readOnly {p : List Act} {s fin : Scan} (hro : ReadOnly p) (hsc : scan s p = some fin)
    (hph : s.ph ≠ .mixed) : fin.ph ≠ .mixed := by
  induction p generalizing s with
  | nil => simp only [scan] at hsc; injection hsc with hsc; subst hsc; exact hph
  | cons a p ih =>
    obtain ⟨s', hss, hrest⟩ := scan_cons hsc
    exact ih (fun b hb => hro b (List.mem_cons_of_mem _ hb)) hrest
      (stepScan_readOnly (hro a List.mem_cons_self) hss hph)

/-- C07 core: a completed read-only thread holds observations of ONE published (version, content) pair -/
theorem snapshot_of_good {c : Cfg} (hg : Good c) (i : Nat) (hro : ReadOnly (c.thr i).prog)
    (hd : (c.thr i).todo = []) : ∃ p ∈ c.hist, Consistent (c.thr i) p := by
  obtain ⟨s, fin, h⟩ := hg.thr i
  have hsc := h.scanTodo
  rw [hd] at hsc
  simp only [scan] at hsc
  injection hsc with hsc; subst hsc
  have hnm : s.ph ≠ .mixed := scan_readOnly hro h.scanProg (by simp [scan0])
  have hp := h.phase
  unfold PhaseOK at hp
  cases hph : s.ph with
  | before =>
    simp only [hph] at hp
    cases hh : c.hist with
    | nil => exact absurd hh hg.histNe
    | cons p _ => exact ⟨p, by simp, by simp [Consistent, hp.2.1, hp.2.2.1, hp.2.2.2]⟩
  | during =>
    simp only [hph] at hp
    have := h.finD
    omega
  | after =>
    simp only [hph] at hp
    obtain ⟨p, hpm, h1, _, h3, h4⟩ := hp
    exact ⟨p, hpm, h1, h4, h3⟩
  | mixed => exact absurd hph hnm

end Sdc.LockLts
