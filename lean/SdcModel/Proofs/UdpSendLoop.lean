import SdcModel.UdpSendLoop
import SdcModel.Proofs.UdpRepeat
/-! helper lemmas for the send loop (C15): sorted queue, invariant of the loop, accounting of the entries -/
namespace Sdc.UdpSendLoop
open Sdc.UdpRepeat

def SortedQ (q : List Entry) : Prop := q.Pairwise (fun a b => a.sendTime ≤ b.sendTime)

theorem keyLe_true {a b : Entry} (h : keyLe a b = true) : a.sendTime ≤ b.sendTime := by
  simp only [keyLe, Bool.or_eq_true, decide_eq_true_eq, Bool.and_eq_true, beq_iff_eq] at h
  omega

theorem keyLe_false {a b : Entry} (h : keyLe a b = false) : b.sendTime ≤ a.sendTime := by
  simp only [keyLe, Bool.or_eq_false_iff, decide_eq_false_iff_not, Bool.and_eq_false_imp, beq_iff_eq] at h
  omega

theorem mem_insertE {e x : Entry} {q : List Entry} : x ∈ insertE e q ↔ x = e ∨ x ∈ q := by
  induction q with
  | nil => simp [insertE]
  | cons y ys ih =>
    simp only [insertE]
    split
    · simp
    · simp only [List.mem_cons, ih]
      constructor <;> (intro h; rcases h with h | h | h <;> simp [h])

theorem sorted_insertE {e : Entry} {q : List Entry} (h : SortedQ q) : SortedQ (insertE e q) := by
  induction q with
  | nil => simp [insertE, SortedQ]
  | cons y ys ih =>
    simp only [insertE]
    split
    · rename_i hk
      have hy := keyLe_true hk
      unfold SortedQ at h ⊢
      rw [List.pairwise_cons] at h
      refine List.pairwise_cons.2 ⟨?_, List.pairwise_cons.2 h⟩
      intro z hz
      rcases List.mem_cons.1 hz with rfl | hz
      · exact hy
      · exact Nat.le_trans hy (h.1 z hz)
    · rename_i hk
      have hy := keyLe_false (by simpa using hk)
      unfold SortedQ at h ⊢
      rw [List.pairwise_cons] at h
      refine List.pairwise_cons.2 ⟨?_, ih h.2⟩
      intro z hz
      rcases mem_insertE.1 hz with rfl | hz
      · exact hy
      · exact h.1 z hz

theorem perm_insertE (e : Entry) (q : List Entry) : (insertE e q).Perm (e :: q) := by
  induction q with
  | nil => simp [insertE]
  | cons y ys ih =>
    simp only [insertE]
    split
    · exact List.Perm.refl _
    · exact ((List.Perm.cons y ih).trans (List.Perm.swap e y ys))

theorem mem_enqueue {x : Entry} {q es : List Entry} : x ∈ enqueue q es ↔ x ∈ q ∨ x ∈ es := by
  induction es generalizing q with
  | nil => simp [enqueue]
  | cons e es ih =>
    have := @ih (insertE e q)
    simp only [enqueue, List.foldl_cons] at this ⊢
    rw [this, mem_insertE]
    simp only [List.mem_cons]
    constructor
    · rintro ((h | h) | h) <;> simp [h]
    · rintro (h | h | h) <;> simp [h]

theorem sorted_enqueue {q es : List Entry} (h : SortedQ q) : SortedQ (enqueue q es) := by
  induction es generalizing q with
  | nil => exact h
  | cons e es ih =>
    simp only [enqueue, List.foldl_cons]
    exact ih (sorted_insertE h)

theorem perm_enqueue (q es : List Entry) : (enqueue q es).Perm (es ++ q) := by
  induction es generalizing q with
  | nil => simp [enqueue]
  | cons e es ih =>
    simp only [enqueue, List.foldl_cons]
    refine (ih (insertE e q)).trans ?_
    refine (List.Perm.append_left es (perm_insertE e q)).trans ?_
    exact List.perm_middle

theorem mem_stamp {a : Add} {i : Nat} {ts : List Nat} {e : Entry} (h : e ∈ stamp a i ts) :
    a.at_ ≤ e.sendTime ∧ e.msg = a.msg := by
  induction ts generalizing i with
  | nil => simp [stamp] at h
  | cons t ts ih =>
    simp only [stamp, List.mem_cons] at h
    rcases h with rfl | h
    · simp
    · exact ih h

theorem mem_entriesOf {a : Add} {e : Entry} (h : e ∈ entriesOf a) : a.at_ ≤ e.sendTime ∧ e.msg = a.msg := mem_stamp h

theorem stamp_length (a : Add) (i : Nat) (ts : List Nat) : (stamp a i ts).length = ts.length := by
  induction ts generalizing i with
  | nil => rfl
  | cons t ts ih => simp [stamp, ih]

theorem entriesOf_length (a : Add) : (entriesOf a).length = 1 + a.p.repeats := by
  simp [entriesOf, stamp_length, schedule, times_length, gaps_length]; omega

/-! ## the loop invariant -/

structure Inv (c : Cfg) (s : St) : Prop where
  sorted : SortedQ s.q
  fresh : ∀ e ∈ s.q, s.now < e.sendTime + c.idle
  pending : ∀ a ∈ s.adds, s.now < a.at_
  outOk : ∀ x ∈ s.out, x.2.sendTime ≤ x.1 ∧ x.1 < x.2.sendTime + c.idle
  quitOk : s.quit = true → s.quitAt ≤ s.now

theorem sleep_inv {c : Cfg} {s : St} {dt : Nat}
    (hs : SortedQ s.q) (hq : ∀ e ∈ s.q, s.now + dt < e.sendTime + c.idle)
    (hp : ∀ a ∈ s.adds, s.now + dt < a.at_ + c.idle)
    (ho : ∀ x ∈ s.out, x.2.sendTime ≤ x.1 ∧ x.1 < x.2.sendTime + c.idle)
    (hquit : s.quit = true → s.quitAt ≤ s.now) : Inv c (sleep dt s) := by
  refine ⟨sorted_enqueue hs, ?_, ?_, ho, ?_⟩
  · intro e he
    simp only [sleep] at he ⊢
    rcases mem_enqueue.1 he with he | he
    · exact hq e he
    · obtain ⟨a, ha, hea⟩ := List.mem_flatMap.1 he
      have ha' := (List.mem_filter.1 ha).1
      have := (mem_entriesOf hea).1
      have := hp a ha'
      omega
  · intro a ha
    simp only [sleep, List.mem_filter, Bool.not_eq_eq_eq_not, Bool.not_true, decide_eq_false_iff_not, Nat.not_le] at ha ⊢
    exact ha.2
  · intro h
    simp only [sleep, Bool.or_eq_true, decide_eq_true_eq] at h ⊢
    rcases h with h | h
    · have := hquit h; omega
    · exact h

theorem step_inv {c : Cfg} (hc : c.busy ≤ c.idle) {s s' : St} (h : Inv c s) (hs : step c s = some s') : Inv c s' := by
  unfold step at hs
  split at hs
  · rename_i hq
    split at hs
    · cases hs
    · cases hs
      refine sleep_inv h.sorted ?_ ?_ h.outOk h.quitOk
      · intro e he; rw [hq] at he; cases he
      · intro a ha; have := h.pending a ha; omega
  · rename_i e rest hq
    split at hs
    · rename_i hdue
      cases hs
      have hsort := h.sorted
      rw [hq] at hsort
      refine ⟨(List.pairwise_cons.1 hsort).2, ?_, h.pending, ?_, h.quitOk⟩
      · intro x hx; exact h.fresh x (by rw [hq]; exact List.mem_cons_of_mem _ hx)
      · intro x hx
        rcases List.mem_cons.1 hx with rfl | hx
        · exact ⟨hdue, h.fresh e (by rw [hq]; exact List.mem_cons_self)⟩
        · exact h.outOk x hx
    · rename_i hdue
      cases hs
      have hsort := h.sorted
      rw [hq] at hsort
      have hmin := (List.pairwise_cons.1 hsort).1
      refine sleep_inv h.sorted ?_ ?_ h.outOk h.quitOk
      · intro x hx
        rw [hq] at hx
        rcases List.mem_cons.1 hx with rfl | hx
        · omega
        · have := hmin x hx; omega
      · intro a ha; have := h.pending a ha; omega

theorem start_inv {c : Cfg} (hi : 0 < c.idle) (adds : List Add) (quitAt : Nat) : Inv c (start adds quitAt) := by
  refine sleep_inv (by simp [SortedQ]) (by simp) ?_ (by simp) (by simp)
  intro a _; simp; omega

theorem run_inv {c : Cfg} (hc : c.busy ≤ c.idle) (n : Nat) {s : St} (h : Inv c s) : Inv c (run c n s).1 := by
  induction n generalizing s with
  | zero => exact h
  | succ n ih =>
    simp only [run]
    split
    · exact h
    · rename_i s' hs
      exact ih (step_inv hc h hs)

/-! ## accounting: nothing is lost, nothing is sent twice -/

/-- everything that will ever be put on the queue by the calls still to come -/
def future (quitAt : Nat) (adds : List Add) : List Entry := (adds.filter (fun a => a.at_ < quitAt)).flatMap entriesOf

/-- all entries of the system -/
def total (s : St) : List Entry := s.out.map (·.2) ++ (s.q ++ future s.quitAt s.adds)

theorem future_split (quitAt t : Nat) (adds : List Add) :
    (future quitAt adds).Perm ((accepted quitAt t adds).flatMap entriesOf ++ future quitAt (adds.filter (fun a => !(a.at_ ≤ t)))) := by
  unfold future accepted
  rw [← List.flatMap_append]
  refine List.Perm.flatMap_right _ ?_
  rw [List.filter_filter]
  have h1 : adds.filter (fun a => decide (a.at_ ≤ t) && decide (a.at_ < quitAt))
      = (adds.filter (fun a => decide (a.at_ < quitAt))).filter (fun a => decide (a.at_ ≤ t)) := by
    rw [List.filter_filter]
  have h2 : adds.filter (fun a => decide (a.at_ < quitAt) && !decide (a.at_ ≤ t))
      = (adds.filter (fun a => decide (a.at_ < quitAt))).filter (fun a => !decide (a.at_ ≤ t)) := by
    rw [List.filter_filter]; congr 1; funext a; exact Bool.and_comm _ _
  rw [h1, h2]
  exact (List.filter_append_perm _ _).symm

theorem sleep_total (dt : Nat) (s : St) : (total (sleep dt s)).Perm (total s) := by
  unfold total
  simp only [sleep]
  refine List.Perm.append_left _ ?_
  refine ((perm_enqueue _ _).append_right _).trans ?_
  rw [List.append_assoc]
  refine (List.perm_append_comm_assoc _ _ _).trans ?_
  exact List.Perm.append_left _ (future_split s.quitAt (s.now + dt) s.adds).symm

theorem step_total {c : Cfg} {s s' : St} (hs : step c s = some s') : (total s').Perm (total s) := by
  unfold step at hs
  split at hs
  · split at hs
    · cases hs
    · cases hs; exact sleep_total _ _
  · rename_i e rest hq
    split at hs
    · cases hs
      unfold total
      simp only [hq, List.map_cons, List.cons_append]
      exact (List.perm_middle (a := e) (l₁ := s.out.map (·.2)) (l₂ := rest ++ future s.quitAt s.adds)).symm
    · cases hs; exact sleep_total _ _

theorem run_total {c : Cfg} (n : Nat) (s : St) : (total (run c n s).1).Perm (total s) := by
  induction n generalizing s with
  | zero => exact List.Perm.refl _
  | succ n ih =>
    simp only [run]
    split
    · exact List.Perm.refl _
    · rename_i s' hs
      exact (ih s').trans (step_total hs)

theorem run_quitAt {c : Cfg} (n : Nat) (s : St) : (run c n s).1.quitAt = s.quitAt := by
  induction n generalizing s with
  | zero => rfl
  | succ n ih =>
    simp only [run]
    split
    · rfl
    · rename_i s' hs
      rw [ih s']
      unfold step at hs
      split at hs
      · split at hs
        · cases hs
        · cases hs; rfl
      · split at hs <;> (cases hs; rfl)

/-- when the loop has ended the queue is empty and the stop has been requested -/
theorem run_done {c : Cfg} (n : Nat) (s : St) (h : (run c n s).2 = true) : (run c n s).1.q = [] ∧ (run c n s).1.quit = true := by
  induction n generalizing s with
  | zero => simp [run] at h
  | succ n ih =>
    simp only [run] at h ⊢
    split at h
    · rename_i hs
      unfold step at hs
      split at hs
      · rename_i hq
        split at hs
        · rename_i hquit; exact ⟨hq, hquit⟩
        · cases hs
      · split at hs <;> cases hs
    · rename_i s' hs
      exact ih s' h

/-- an entry that is overdue by a whole idle sleep is neither on the queue nor still to come -/
theorem overdue_not_waiting {c : Cfg} {s : St} (h : Inv c s) {e : Entry} (hd : e.sendTime + c.idle ≤ s.now) :
    e ∉ s.q ∧ e ∉ future s.quitAt s.adds := by
  refine ⟨fun he => ?_, fun he => ?_⟩
  · have := h.fresh e he; omega
  · obtain ⟨a, ha, hea⟩ := List.mem_flatMap.1 he
    have := h.pending a (List.mem_filter.1 ha).1
    have := (mem_entriesOf hea).1
    omega

theorem total_start (adds : List Add) (quitAt : Nat) : (total (start adds quitAt)).Perm (future quitAt adds) := by
  refine (sleep_total 0 _).trans ?_
  simp [total]

end Sdc.UdpSendLoop

/-! ## the loop ends: once `schedule_stop` was called, after finitely many iterations everything is out -/
namespace Sdc.UdpSendLoop

/-- nothing is scheduled after `T`, and the stop is requested by then -/
structure Bounded (T : Nat) (s : St) : Prop where
  quitB : s.quitAt ≤ T
  qB : ∀ e ∈ s.q, e.sendTime ≤ T
  fB : ∀ e ∈ future s.quitAt s.adds, e.sendTime ≤ T

/-- entries not yet transmitted -/
def remaining (s : St) : Nat := s.q.length + (future s.quitAt s.adds).length

def mu (T : Nat) (s : St) : Nat := remaining s + (T + 1 - s.now) + (if s.quit then 0 else 1)

theorem remaining_sleep (dt : Nat) (s : St) : remaining (sleep dt s) = remaining s := by
  unfold remaining
  simp only [sleep]
  have h1 := (perm_enqueue s.q ((accepted s.quitAt (s.now + dt) s.adds).flatMap entriesOf)).length_eq
  have h2 := (future_split s.quitAt (s.now + dt) s.adds).length_eq
  simp only [List.length_append] at h1 h2
  omega

theorem mem_future_of_accepted {quitAt t : Nat} {adds : List Add} {e : Entry}
    (h : e ∈ (accepted quitAt t adds).flatMap entriesOf) : e ∈ future quitAt adds :=
  ((future_split quitAt t adds).mem_iff).2 (List.mem_append_left _ h)

theorem mem_future_of_rest {quitAt t : Nat} {adds : List Add} {e : Entry}
    (h : e ∈ future quitAt (adds.filter (fun a => !(a.at_ ≤ t)))) : e ∈ future quitAt adds :=
  ((future_split quitAt t adds).mem_iff).2 (List.mem_append_right _ h)

theorem bounded_sleep {T dt : Nat} {s : St} (h : Bounded T s) : Bounded T (sleep dt s) := by
  refine ⟨h.quitB, ?_, ?_⟩
  · intro e he
    simp only [sleep] at he
    rcases mem_enqueue.1 he with he | he
    · exact h.qB e he
    · exact h.fB e (mem_future_of_accepted he)
  · intro e he
    simp only [sleep] at he
    exact h.fB e (mem_future_of_rest he)

theorem step_bounded {c : Cfg} {T : Nat} {s s' : St} (h : Bounded T s) (hs : step c s = some s') : Bounded T s' := by
  unfold step at hs
  split at hs
  · split at hs
    · cases hs
    · cases hs; exact bounded_sleep h
  · rename_i e rest hq
    split at hs
    · cases hs
      exact ⟨h.quitB, fun x hx => h.qB x (by rw [hq]; exact List.mem_cons_of_mem _ hx), h.fB⟩
    · cases hs; exact bounded_sleep h

theorem step_mu {c : Cfg} (hb : 0 < c.busy) (hc : c.busy ≤ c.idle) {T : Nat} {s s' : St} (hB : Bounded T s)
    (hs : step c s = some s') : mu T s' < mu T s := by
  unfold step at hs
  split at hs
  · rename_i hq
    split at hs
    · cases hs
    · rename_i hquit
      cases hs
      unfold mu
      rw [remaining_sleep]
      have hquit' : s.quit = false := by simpa using hquit
      simp only [sleep, hquit', Bool.false_or, decide_eq_true_eq]
      have := hB.quitB
      by_cases hn : s.now ≤ T
      · split <;> simp <;> omega
      · have : s.quitAt ≤ s.now + c.idle := by omega
        simp [this]; omega
  · rename_i e rest hq
    split at hs
    · cases hs
      unfold mu remaining
      simp only [hq, List.length_cons]
      omega
    · rename_i hdue
      cases hs
      unfold mu
      rw [remaining_sleep]
      have he := hB.qB e (by rw [hq]; exact List.mem_cons_self)
      simp only [sleep]
      by_cases hq' : s.quit = true <;> by_cases hd : s.quitAt ≤ s.now + c.busy <;> simp [hq', hd] <;> omega

/-- with a positive busy sleep the loop ends after at most `mu` iterations -/
theorem run_terminates {c : Cfg} (hb : 0 < c.busy) (hc : c.busy ≤ c.idle) {T : Nat} (n : Nat) {s : St}
    (hB : Bounded T s) (hn : mu T s < n) : (run c n s).2 = true := by
  induction n generalizing s with
  | zero => omega
  | succ n ih =>
    simp only [run]
    split
    · rfl
    · rename_i s' hs
      have := step_mu hb hc hB hs
      exact ih (step_bounded hB hs) (by omega)

/-- a bound for everything the calls put on the queue -/
def lastTime (quitAt : Nat) (adds : List Add) : Nat := ((future quitAt adds).map (·.sendTime)).foldl max quitAt

theorem le_foldl_max (l : List Nat) (a : Nat) : a ≤ l.foldl max a ∧ ∀ x ∈ l, x ≤ l.foldl max a := by
  induction l generalizing a with
  | nil => simp
  | cons y ys ih =>
    simp only [List.foldl_cons]
    have := ih (max a y)
    refine ⟨by omega, ?_⟩
    intro x hx
    rcases List.mem_cons.1 hx with rfl | hx
    · omega
    · exact this.2 x hx

theorem start_bounded (adds : List Add) (quitAt : Nat) : Bounded (lastTime quitAt adds) (start adds quitAt) := by
  have hl := le_foldl_max ((future quitAt adds).map (·.sendTime)) quitAt
  refine bounded_sleep ⟨hl.1, by simp, ?_⟩
  intro e he
  exact hl.2 _ (List.mem_map_of_mem he)

end Sdc.UdpSendLoop

namespace Sdc.UdpLife

/-- a started node refers to a running thread, a node that is not started to none -/
def Ok (n : Node) : Prop := (n.started = true → n.thread = some true) ∧ (n.started = false → n.thread = none ∧ n.services = [])

theorem ok_init : Ok {} := by simp [Ok]

theorem step_ok (n : Node) (o : Op) (h : Ok n) : Ok (step n o).1 := by
  obtain ⟨h1, h2⟩ := h
  cases o with
  | start =>
    simp only [step]
    split
    · exact ⟨h1, h2⟩
    · rename_i hs
      have hs' : n.started = false := by simpa using hs
      have := (h2 hs').1
      simp [Ok, this]
  | stop =>
    simp only [step]
    split
    · exact ⟨h1, h2⟩
    · simp [Ok]
  | publish e =>
    simp only [step]
    split
    · exact ⟨h1, h2⟩
    · rename_i hs
      have hs' : n.started = true := by simpa using hs
      refine ⟨fun _ => h1 hs', fun hf => ?_⟩
      simp [hs'] at hf
  | clear e =>
    simp only [step]
    split
    · rename_i he
      refine ⟨h1, fun hf => ?_⟩
      have := (h2 hf).2
      rw [this] at he; simp at he
    · exact ⟨h1, h2⟩

theorem step_hands (n : Node) (o : Op) (h : Ok n) : ∀ l, (step n o).2 = some l → ∀ b ∈ l, b = true := by
  obtain ⟨h1, h2⟩ := h
  intro l hl b hb
  cases o with
  | start =>
    simp only [step] at hl
    split at hl <;> (cases hl; simp at hb)
  | stop =>
    simp only [step] at hl
    split at hl
    · cases hl; simp at hb
    · rename_i hs
      have hs' : n.started = true := by simpa using hs
      cases hl
      simp only [List.mem_map] at hb
      obtain ⟨_, _, rfl⟩ := hb
      simp [hand, h1 hs']
  | publish e =>
    simp only [step] at hl
    split at hl
    · cases hl
    · rename_i hs
      have hs' : n.started = true := by simpa using hs
      cases hl
      simp only [List.mem_singleton] at hb
      subst hb
      simp [hand, h1 hs']
  | clear e =>
    simp only [step] at hl
    split at hl
    · rename_i he
      cases hl
      simp only [List.mem_singleton] at hb
      subst hb
      have hs' : n.started = true := by
        cases hst : n.started with
        | true => rfl
        | false => have := (h2 hst).2; rw [this] at he; simp at he
      simp [hand, h1 hs']
    · cases hl

theorem run_hands (n : Node) (ops : List Op) (h : Ok n) :
    ∀ r ∈ run n ops, ∀ l, r = some l → ∀ b ∈ l, b = true := by
  induction ops generalizing n with
  | nil => simp [run]
  | cons o os ih =>
    intro r hr l hl b hb
    simp only [run, List.mem_cons] at hr
    rcases hr with rfl | hr
    · exact step_hands n o h l hl b hb
    · exact ih (step n o).1 (step_ok n o h) r hr l hl b hb

end Sdc.UdpLife
