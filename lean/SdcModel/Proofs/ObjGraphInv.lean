import SdcModel.Proofs.ObjGraph
/-!
The separation invariant of M2 `ObjGraph` ("identities reachable from class defaults ∩ identities reachable from any
instance = ∅", "instances of different groups share nothing") and its preservation by every operation.
-/
namespace Sdc.ObjGraph

structure Inv (D : List Tree) (s : St) : Prop where
  dflt : s.defaults = D
  dLt : ∀ x ∈ idsL D, x < s.next
  iLt : ∀ a ∈ s.insts, ∀ x ∈ a.tree.ids, x < s.next
  sepD : ∀ a ∈ s.insts, ∀ x ∈ a.tree.ids, x ∉ idsL D
  gLt : ∀ a ∈ s.insts, a.grp < s.insts.length
  sep : ∀ a ∈ s.insts, ∀ b ∈ s.insts, a.grp ≠ b.grp → Disjoint a.tree.ids b.tree.ids

theorem init_inv (D : List Tree) : Inv D (init D) where
  dflt := rfl
  dLt := fun x hx => by have := maxId_ge hx; simp only [init]; omega
  iLt := fun a ha => by simp [init] at ha
  sepD := fun a ha => by simp [init] at ha
  gLt := fun a ha => by simp [init] at ha
  sep := fun a ha => by simp [init] at ha

/-- a new instance whose objects are new, or belong to instances of the group it joins -/
theorem inv_add {D : List Tree} {s : St} (hI : Inv D s) (e : Inst) (n' : Nat) (hn : s.next ≤ n')
    (hg : e.grp ≤ s.insts.length)
    (he : ∀ x ∈ e.tree.ids, (s.next ≤ x ∧ x < n') ∨ ∃ b ∈ s.insts, b.grp = e.grp ∧ x ∈ b.tree.ids) :
    Inv D { s with insts := s.insts ++ [e], next := n' } where
  dflt := hI.dflt
  dLt := fun x hx => by have := hI.dLt x hx; simp only; omega
  iLt := fun a ha x hx => by
    simp only [List.mem_append, List.mem_singleton] at ha
    simp only
    rcases ha with ha | ha
    · have := hI.iLt a ha x hx; omega
    · subst ha
      rcases he x hx with h | ⟨b, hb, _, hxb⟩
      · exact h.2
      · have := hI.iLt b hb x hxb; omega
  sepD := fun a ha x hx hD => by
    simp only [List.mem_append, List.mem_singleton] at ha
    rcases ha with ha | ha
    · exact hI.sepD a ha x hx hD
    · subst ha
      rcases he x hx with h | ⟨b, hb, _, hxb⟩
      · have := hI.dLt x hD; omega
      · exact hI.sepD b hb x hxb hD
  gLt := fun a ha => by
    simp only [List.mem_append, List.mem_singleton] at ha
    simp only [List.length_append, List.length_singleton]
    rcases ha with ha | ha
    · have := hI.gLt a ha; omega
    · subst ha; omega
  sep := fun a ha b hb hab x hxa hxb => by
    simp only [List.mem_append, List.mem_singleton] at ha hb
    rcases ha with ha | ha <;> rcases hb with hb | hb
    · exact hI.sep a ha b hb hab x hxa hxb
    · subst hb
      rcases he x hxb with h | ⟨c, hc, hcg, hxc⟩
      · have := hI.iLt a ha x hxa; omega
      · exact hI.sep a ha c hc (by rw [hcg]; exact hab) x hxa hxc
    · subst ha
      rcases he x hxa with h | ⟨c, hc, hcg, hxc⟩
      · have := hI.iLt b hb x hxb; omega
      · exact hI.sep c hc b hb (by rw [hcg]; exact hab) x hxc hxb
    · subst ha; subst hb; exact hab rfl

/-- what an in-place update of an object of instance `a0` does to the trees of all instances -/
theorem mutate_tree {D : List Tree} {s : St} (hI : Inv D s) {a0 : Inst} (h0 : a0 ∈ s.insts) {tgt : Nat}
    (ht : tgt ∈ a0.tree.ids) (f : List Tree → List Tree) (P : Nat → Prop)
    (hf : ∀ ks x, x ∈ idsL (f ks) → x ∈ idsL ks ∨ P x) {a : Inst} (ha : a ∈ s.insts) :
    (a.grp ≠ a0.grp → a.tree.mapNode tgt f = a.tree) ∧
    ∀ x ∈ (a.tree.mapNode tgt f).ids, x ∈ a.tree.ids ∨ (a.grp = a0.grp ∧ P x) := by
  have h1 : a.grp ≠ a0.grp → a.tree.mapNode tgt f = a.tree := fun hne =>
    mapNode_of_not_mem tgt f a.tree (fun hmem => hI.sep a ha a0 h0 hne tgt hmem ht)
  refine ⟨h1, fun x hx => ?_⟩
  by_cases hg : a.grp = a0.grp
  · rcases ids_mapNode tgt f P hf a.tree x hx with h | h
    · exact Or.inl h
    · exact Or.inr ⟨hg, h⟩
  · rw [h1 hg] at hx; exact Or.inl hx

theorem inv_mutate {D : List Tree} {s : St} (hI : Inv D s) {a0 : Inst} (h0 : a0 ∈ s.insts) {tgt : Nat}
    (ht : tgt ∈ a0.tree.ids) (f : List Tree → List Tree) (P : Nat → Prop) (n' : Nat) (hn : s.next ≤ n')
    (hf : ∀ ks x, x ∈ idsL (f ks) → x ∈ idsL ks ∨ P x)
    (hP : ∀ x, P x → (s.next ≤ x ∧ x < n') ∨ ∃ b ∈ s.insts, b.grp = a0.grp ∧ x ∈ b.tree.ids) :
    Inv D { mutate s tgt f with next := n' } := by
  have key : ∀ a' ∈ (mutate s tgt f).insts, ∃ a ∈ s.insts, a'.grp = a.grp ∧ a'.cls = a.cls ∧
      ∀ x ∈ a'.tree.ids, x ∈ a.tree.ids ∨ (a.grp = a0.grp ∧ P x) := by
    intro a' ha'
    simp only [mutate, List.mem_map] at ha'
    obtain ⟨a, ha, rfl⟩ := ha'
    exact ⟨a, ha, rfl, rfl, (mutate_tree hI h0 ht f P hf ha).2⟩
  constructor
  · show mapNodeL tgt f s.defaults = D
    rw [hI.dflt]
    exact mapNodeL_of_not_mem tgt f D (hI.sepD a0 h0 tgt ht)
  · intro x hx; have := hI.dLt x hx; show x < n'; omega
  · intro a' ha' x hx
    obtain ⟨a, ha, _, _, hk⟩ := key a' ha'
    show x < n'
    rcases hk x hx with h | ⟨_, h⟩
    · have := hI.iLt a ha x h; omega
    · rcases hP x h with h | ⟨b, hb, _, hxb⟩
      · exact h.2
      · have := hI.iLt b hb x hxb; omega
  · intro a' ha' x hx hD
    obtain ⟨a, ha, _, _, hk⟩ := key a' ha'
    rcases hk x hx with h | ⟨_, h⟩
    · exact hI.sepD a ha x h hD
    · rcases hP x h with h | ⟨b, hb, _, hxb⟩
      · have := hI.dLt x hD; omega
      · exact hI.sepD b hb x hxb hD
  · intro a' ha'
    obtain ⟨a, ha, hg, _, _⟩ := key a' ha'
    have := hI.gLt a ha
    show a'.grp < ((mutate s tgt f).insts).length
    simp only [mutate, List.length_map]
    omega
  · intro a' ha' b' hb' hab x hxa hxb
    obtain ⟨a, ha, hga, _, hka⟩ := key a' ha'
    obtain ⟨b, hb, hgb, _, hkb⟩ := key b' hb'
    rw [hga, hgb] at hab
    rcases hka x hxa with h1 | ⟨g1, p1⟩ <;> rcases hkb x hxb with h2 | ⟨g2, p2⟩
    · exact hI.sep a ha b hb hab x h1 h2
    · rcases hP x p2 with h | ⟨c, hc, hcg, hxc⟩
      · have := hI.iLt a ha x h1; omega
      · exact hI.sep a ha c hc (by rw [hcg, ← g2]; exact hab) x h1 hxc
    · rcases hP x p1 with h | ⟨c, hc, hcg, hxc⟩
      · have := hI.iLt b hb x h2; omega
      · exact hI.sep c hc b hb (by rw [hcg, ← g1]; exact hab) x hxc h2
    · exact hab (by rw [g1, g2])

theorem mem_relabel {g g' : Nat} {l : List Inst} {a' : Inst} (h : a' ∈ relabel g g' l) :
    ∃ a ∈ l, a'.tree = a.tree ∧ a'.cls = a.cls ∧ a'.grp = (if a.grp = g then g' else a.grp) := by
  simp only [relabel, List.mem_map] at h
  obtain ⟨a, ha, rfl⟩ := h
  refine ⟨a, ha, ?_⟩
  split <;> simp_all

theorem inv_relabel {D : List Tree} {s : St} (hI : Inv D s) (g g' : Nat) (hg' : g' < s.insts.length) :
    Inv D { s with insts := relabel g g' s.insts } where
  dflt := hI.dflt
  dLt := hI.dLt
  iLt := fun a' ha' x hx => by
    obtain ⟨a, ha, ht, _, _⟩ := mem_relabel ha'
    rw [ht] at hx; exact hI.iLt a ha x hx
  sepD := fun a' ha' x hx => by
    obtain ⟨a, ha, ht, _, _⟩ := mem_relabel ha'
    rw [ht] at hx; exact hI.sepD a ha x hx
  gLt := fun a' ha' => by
    obtain ⟨a, ha, _, _, hg⟩ := mem_relabel ha'
    have := hI.gLt a ha
    simp only [relabel, List.length_map]
    rw [hg]; split <;> omega
  sep := fun a' ha' b' hb' hab x hxa hxb => by
    obtain ⟨a, ha, hta, _, hga⟩ := mem_relabel ha'
    obtain ⟨b, hb, htb, _, hgb⟩ := mem_relabel hb'
    rw [hta] at hxa; rw [htb] at hxb
    refine hI.sep a ha b hb (fun e => hab ?_) x hxa hxb
    rw [hga, hgb, e]

/-! ### evaluation of a new value -/

theorem evalNew_fresh {T : Table} (hT : tableOK T = true) {D : List Tree} {s : St} (_hI : Inv D s) {v : NewVal}
    {t : Tree} {n : Nat} (h : evalNew T s v = some (t, n)) : s.next ≤ n ∧ ∀ x ∈ t.ids, s.next ≤ x ∧ x < n := by
  cases v with
  | imm w =>
    simp only [evalNew, Option.some.injEq, Prod.mk.injEq] at h
    obtain ⟨rfl, rfl⟩ := h
    exact ⟨Nat.le_refl _, fun x hx => by simp [Tree.ids] at hx⟩
  | construct c => simp only [evalNew] at h; exact construct_fresh hT h
  | tmpl u =>
    simp only [evalNew, Option.some.injEq] at h
    have h1 := fresh_le u s.next
    have h2 := fresh_ids u s.next
    rw [h] at h1 h2
    exact ⟨h1, h2⟩

end Sdc.ObjGraph
