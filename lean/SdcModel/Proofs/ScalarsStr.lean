import SdcModel.Scalars
/-! string level lemmas for C18: digits, `str(int)`, stripping, sign splitting (core Lean only) -/
namespace Sdc.Scalars

/-! ### digits -/

theorem isDigit_iff (c : Nat) : isDigit c = true ↔ 48 ≤ c ∧ c ≤ 57 := by
  unfold isDigit; simp

theorem foldl_digits (acc : Nat) (l : Str) :
    l.foldl (fun acc c => acc * 10 + digitVal c) acc = acc * 10 ^ l.length + digitsVal l := by
  induction l generalizing acc with
  | nil => simp [digitsVal]
  | cons c l ih =>
    simp only [List.foldl_cons, List.length_cons, digitsVal]
    rw [ih, ih (0 * 10 + digitVal c)]
    simp [Nat.pow_succ, Nat.add_mul, Nat.mul_assoc, Nat.mul_comm 10, Nat.add_assoc]

theorem digitsVal_append (a b : Str) : digitsVal (a ++ b) = digitsVal a * 10 ^ b.length + digitsVal b := by
  unfold digitsVal
  rw [List.foldl_append, foldl_digits]
  rfl

theorem digitsVal_nil : digitsVal [] = 0 := rfl

theorem digitsVal_singleton (c : Nat) : digitsVal [c] = digitVal c := by simp [digitsVal]

theorem digitsVal_zeros (j : Nat) : digitsVal (List.replicate j 48) = 0 := by
  induction j with
  | zero => rfl
  | succ j ih =>
    rw [List.replicate_succ']
    rw [digitsVal_append, ih]; simp [digitsVal, digitVal]

theorem digitsVal_zeros_append (j : Nat) (l : Str) : digitsVal (List.replicate j 48 ++ l) = digitsVal l := by
  rw [digitsVal_append, digitsVal_zeros]; simp

theorem digitsVal_append_zeros (l : Str) (j : Nat) : digitsVal (l ++ List.replicate j 48) = digitsVal l * 10 ^ j := by
  rw [digitsVal_append, digitsVal_zeros]; simp

theorem digitsVal_cons (c : Nat) (l : Str) : digitsVal (c :: l) = digitVal c * 10 ^ l.length + digitsVal l := by
  have : c :: l = [c] ++ l := rfl
  rw [this, digitsVal_append, digitsVal_singleton]

theorem digitsVal_lt (l : Str) (h : ∀ c ∈ l, isDigit c = true) : digitsVal l < 10 ^ l.length := by
  induction l with
  | nil => simp [digitsVal]
  | cons c l ih =>
    rw [digitsVal_cons]
    have hc := (isDigit_iff c).mp (h c (by simp))
    have hl := ih (fun c hc => h c (by simp [hc]))
    have h9 : digitVal c * 10 ^ l.length ≤ 9 * 10 ^ l.length :=
      Nat.mul_le_mul_right _ (by unfold digitVal; omega)
    simp only [List.length_cons, Nat.pow_succ]
    omega

/-! ### `str(n)` -/

theorem natDigitsRev_digits (f n : Nat) : ∀ c ∈ natDigitsRev f n, isDigit c = true := by
  induction f generalizing n with
  | zero => intro c hc; cases hc
  | succ f ih =>
    intro c hc
    unfold natDigitsRev at hc
    split at hc
    · simp at hc; subst hc; rw [isDigit_iff]; omega
    · simp only [List.mem_cons] at hc
      rcases hc with h | h
      · subst h; rw [isDigit_iff]; omega
      · exact ih _ c h

theorem natDigitsRev_ne_nil (f n : Nat) (h : 0 < f) : natDigitsRev f n ≠ [] := by
  cases f with
  | zero => omega
  | succ f => unfold natDigitsRev; split <;> simp

/-- value of a least-significant-first digit list -/
def valRev : Str → Nat
  | [] => 0
  | c :: cs => valRev cs * 10 + digitVal c

theorem digitsVal_reverse (l : Str) : digitsVal l.reverse = valRev l := by
  induction l with
  | nil => rfl
  | cons c l ih =>
    rw [List.reverse_cons, digitsVal_append, ih, digitsVal_singleton]; simp [valRev]

theorem valRev_natDigitsRev (f n : Nat) (h : n < f) : valRev (natDigitsRev f n) = n := by
  induction f generalizing n with
  | zero => omega
  | succ f ih =>
    unfold natDigitsRev
    split
    · simp [valRev, digitVal]
    · rename_i h10
      have hlt : n / 10 < f := by omega
      simp only [valRev, ih (n / 10) hlt, digitVal]
      omega

theorem natDigitsRev_length (f n k : Nat) (hk : 0 < k) (h : n < 10 ^ k) : (natDigitsRev f n).length ≤ k := by
  induction f generalizing n k with
  | zero => simp [natDigitsRev]
  | succ f ih =>
    unfold natDigitsRev
    split
    · simp; omega
    · rename_i h10
      cases k with
      | zero => omega
      | succ k =>
        cases k with
        | zero => simp at h; omega
        | succ k =>
          have : n / 10 < 10 ^ (k + 1) := by
            rw [Nat.pow_succ] at h
            exact Nat.div_lt_of_lt_mul (by rw [Nat.mul_comm]; exact h)
          have := ih (n / 10) (k + 1) (by omega) this
          simp only [List.length_cons]; omega

theorem natStr_digits (n : Nat) : ∀ c ∈ natStr n, isDigit c = true := by
  intro c hc; unfold natStr at hc
  exact natDigitsRev_digits _ _ c (by simpa using hc)

theorem natStr_ne_nil (n : Nat) : natStr n ≠ [] := by
  unfold natStr
  simpa using natDigitsRev_ne_nil (n + 1) n (by omega)

theorem digitsVal_natStr (n : Nat) : digitsVal (natStr n) = n := by
  unfold natStr; rw [digitsVal_reverse]; exact valRev_natDigitsRev _ _ (by omega)

theorem natStr_length_le (n k : Nat) (hk : 0 < k) (h : n < 10 ^ k) : (natStr n).length ≤ k := by
  unfold natStr; rw [List.length_reverse]; exact natDigitsRev_length _ _ _ hk h

theorem natStr_zero : natStr 0 = [48] := rfl

/-! ### white space stripping, sign -/

theorem dropWhile_id {p : Nat → Bool} (l : Str) (h : ∀ c ∈ l, p c = false) : l.dropWhile p = l := by
  cases l with
  | nil => rfl
  | cons c r => simp [h c (by simp)]

theorem xmlStrip_id (s : Str) (h : ∀ c ∈ s, isWs c = false) : xmlStrip s = s := by
  unfold xmlStrip
  rw [dropWhile_id s h, dropWhile_id s.reverse (fun c hc => h c (by simpa using hc))]
  simp

theorem not_ws_of_digit (c : Nat) (h : isDigit c = true) : isWs c = false := by
  rw [isDigit_iff] at h
  simp [isWs]; omega

theorem splitSign_minus (r : Str) : splitSign (45 :: r) = (true, r) := by simp [splitSign]

theorem splitSign_digit (c : Nat) (r : Str) (h : isDigit c = true) : splitSign (c :: r) = (false, c :: r) := by
  rw [isDigit_iff] at h
  have h1 : c ≠ 45 := by omega
  have h2 : c ≠ 43 := by omega
  simp [splitSign, h1, h2]

theorem splitSign_digits (l : Str) (hne : l ≠ []) (h : ∀ c ∈ l, isDigit c = true) : splitSign l = (false, l) := by
  cases l with
  | nil => exact absurd rfl hne
  | cons c r => exact splitSign_digit c r (h c (by simp))

theorem all_digits (l : Str) (h : ∀ c ∈ l, isDigit c = true) : l.all isDigit = true := by
  simpa [List.all_eq_true] using h

/-! ### integers -/

theorem intLex_minus_digits (l : Str) (hne : l ≠ []) (h : ∀ c ∈ l, isDigit c = true) : intLex (45 :: l) = true := by
  unfold intLex; rw [splitSign_minus]
  cases l with
  | nil => exact absurd rfl hne
  | cons c r => simp only [List.isEmpty_cons, Bool.not_false, Bool.true_and]; exact all_digits _ h

theorem intLex_digits (l : Str) (hne : l ≠ []) (h : ∀ c ∈ l, isDigit c = true) : intLex l = true := by
  unfold intLex; rw [splitSign_digits l hne h]
  cases l with
  | nil => exact absurd rfl hne
  | cons c r => simp only [List.isEmpty_cons, Bool.not_false, Bool.true_and]; exact all_digits _ h

/-- `int(str(i)) = i` through the converter pair -/
theorem intToPy_intToXml (i : Int) : intToPy (intToXml i) = .ok i := by
  unfold intToXml intStr
  have hd := natStr_digits i.natAbs
  have hne := natStr_ne_nil i.natAbs
  split
  · rename_i hneg
    have hws : ∀ c ∈ (45 :: natStr i.natAbs), isWs c = false := by
      intro c hc
      simp only [List.mem_cons] at hc
      rcases hc with h | h
      · subst h; rfl
      · exact not_ws_of_digit c (hd c h)
    unfold intToPy
    simp only [xmlStrip_id _ hws, intLex_minus_digits _ hne hd, splitSign_minus, if_true, digitsVal_natStr]
    congr 1; omega
  · rename_i hpos
    have hws : ∀ c ∈ natStr i.natAbs, isWs c = false := fun c hc => not_ws_of_digit c (hd c hc)
    unfold intToPy
    simp only [xmlStrip_id _ hws, intLex_digits _ hne hd, splitSign_digits _ hne hd, if_true, digitsVal_natStr]
    simp only [Bool.false_eq_true, if_false]
    congr 1; omega

/-- lexical space of xsd:integer: optional sign, at least one ASCII digit -/
def IntegerLex (t : Str) : Prop :=
  ∃ sg ds, t = sg ++ ds ∧ (sg = [] ∨ sg = [43] ∨ sg = [45]) ∧ ds ≠ [] ∧ ∀ c ∈ ds, isDigit c = true

theorem splitSign_spec (t : Str) : ∃ sg, t = sg ++ (splitSign t).2 ∧ (sg = [] ∨ sg = [43] ∨ sg = [45]) := by
  cases t with
  | nil => exact ⟨[], rfl, Or.inl rfl⟩
  | cons c r =>
    unfold splitSign
    by_cases h1 : c = 45
    · subst h1; exact ⟨[45], by simp, Or.inr (Or.inr rfl)⟩
    · by_cases h2 : c = 43
      · subst h2; exact ⟨[43], by simp, Or.inr (Or.inl rfl)⟩
      · exact ⟨[], by simp [h1, h2], Or.inl rfl⟩

theorem intLex_sound (t : Str) (h : intLex t = true) : IntegerLex t := by
  unfold intLex at h
  simp only [Bool.and_eq_true, Bool.not_eq_true', List.all_eq_true] at h
  obtain ⟨sg, h1, h2⟩ := splitSign_spec t
  refine ⟨sg, (splitSign t).2, h1, h2, ?_, h.2⟩
  intro hnil; rw [hnil] at h; simp at h

theorem intLex_complete (t : Str) (h : IntegerLex t) : intLex t = true := by
  obtain ⟨sg, ds, rfl, hsg, hne, hd⟩ := h
  rcases hsg with rfl | rfl | rfl
  · simpa using intLex_digits ds hne hd
  · unfold intLex
    have : splitSign ([43] ++ ds) = (false, ds) := by simp [splitSign]
    rw [this]
    cases ds with
    | nil => exact absurd rfl hne
    | cons c r => simp only [List.isEmpty_cons, Bool.not_false, Bool.true_and]; exact all_digits _ hd
  · simpa using intLex_minus_digits ds hne hd

theorem intToPy_ok_iff (s : Str) : (∃ i, intToPy s = .ok i) ↔ IntegerLex (xmlStrip s) := by
  unfold intToPy
  constructor
  · rintro ⟨i, h⟩
    by_cases hl : intLex (xmlStrip s) = true
    · exact intLex_sound _ hl
    · simp [hl] at h
  · intro h
    simp [intLex_complete _ h]

theorem intToPy_reject (s : Str) (h : ¬ IntegerLex (xmlStrip s)) : intToPy s = .error .value := by
  unfold intToPy
  have : ¬ intLex (xmlStrip s) = true := fun hl => h (intLex_sound _ hl)
  simp [this]

theorem tsToPy_reject (s : Str) (h : ¬ IntegerLex (xmlStrip s)) : tsToPy s = .error .value := by
  unfold tsToPy; rw [intToPy_reject s h]; rfl

end Sdc.Scalars
